\* reference configuration for trace validation (TRACE_FILE = ndjson recorded by harness/props/c17.py):
\* v2 front-end, no declared routes, every deviation of the as-is code available
SPECIFICATION TSpec
CONSTANTS
  FrontEnd = "v2"
  NCalls = 12
  UserPrefixes = {"a", "long", "root"}
  UserVerbs = {"register", "unregister"}
  Routes <- R0
  LateRoutes = {"z"}
  Stall = TRUE
  MaxConn = 2
  MaxCancel = 12
  MaxClock = 100000
  ReplyKinds = {"r200", "r400", "r403", "r503", "nack", "silence", "garbage", "vfail"}
  Allowed = {"UnregAnyData", "RegRaisesNoBody", "RegRaisesGarbage", "V2TwoReads", "V2GuardGivesUp"}
  Forced = {}
INVARIANT TypeOK
CONSTRAINT Mark
POSTCONDITION Post
CHECK_DEADLOCK FALSE
