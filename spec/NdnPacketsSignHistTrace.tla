------------------------ MODULE NdnPacketsSignHistTrace ------------------------
(* Sequences of packets signed with ONE real signer object, recorded from the implementation.
   event [a |-> "Sign", kind, own]: own = the signature verifies (PyCryptodome, directly) over exactly the
   signed portion of this packet and the bytes handed to the signer were exactly that portion.        *)
EXTENDS NdnPacketsSignHist, Json, IOUtils, TLCExt
Traces == ndJsonDeserialize(IOEnv.TRACE_FILE)
VARIABLES tid, l
tvars == <<vars, tid, l>>
Tr == Traces[tid].ev
Max2(a, b) == IF a > b THEN a ELSE b
TInit == tid \in 1..Len(Traces) /\ l = 1 /\ Init /\ TLCSet(tid, 1)
TSign == /\ l <= Len(Tr) /\ Tr[l].a = "Sign" /\ l' = l + 1 /\ UNCHANGED tid
         /\ Sign(Tr[l].kind)
         /\ (Tr[l].own <=> pks'[Len(pks')].over = <<Len(pks')>>)
\* [a |-> "Recheck", same]: every packet signed so far - the returned buffer and the SignaturePtrs of its parse,
\* both kept alive - still reads as it did and still verifies
TRecheck == /\ l <= Len(Tr) /\ Tr[l].a = "Recheck" /\ l' = l + 1 /\ UNCHANGED <<tid, vars>>
            /\ \A i \in 1..Len(Tr[l].same) : Tr[l].same[i]
TSpec == TInit /\ [][TSign \/ TRecheck]_tvars
Mark == TLCSet(tid, Max2(TLCGet(tid), l))
Post == \A i \in 1..Len(Traces) : TLCGet(i) = Len(Traces[i].ev) + 1 \/ PrintT(<<"REJECTED", i, TLCGet(i)>>)
=============================================================================
