SPECIFICATION TSpec
CONSTANTS
  Ids = {"a", "b", "c"}
  KeyIds = {"k1", "k2"}
  CertIds = {"self", "ca", "cb"}
INVARIANT TypeOK
INVARIANT ServesOnlySatisfying
INVARIANT DocumentedShapes
INVARIANT ExactIsUnique
INVARIANT NothingBeforeAttach
INVARIANT DevBounded
CONSTRAINT Mark
POSTCONDITION Post
CHECK_DEADLOCK FALSE
