------------------------------ MODULE CertTimeZone ------------------------------
(* Time zones with daylight-saving time, as a caller's datetime sees them (C16: "encodes exactly the
   requested instants" when the instants are handed over as zone-aware datetimes) - an oracle independent
   of Python's zoneinfo, cross-validated against it every run (CertTimeTrace; a disagreement is a machinery failure).

   A zone is [std, dst, rule]: minutes east of UTC in winter and in summer, and the rule that fixes the two
   changes of its clock in a year (since 2008 and, by the POSIX rule of the tz database, for every later year).
   An aware datetime is a WALL-CLOCK READING w (an Inst of CertTime read on the zone's clock) plus `fold` (PEP 495):
     - going back to winter time the clock shows one interval twice: the reading alone is ambiguous,
       fold = 0 is the first pass (summer time), fold = 1 the second (winter time): two instants one step apart
       that share every wall-clock field (datetime == and hash ignore fold);
     - going to summer time an interval is skipped: a reading inside that gap denotes, by PEP 495, the instant
       obtained with the offset in force before the change (fold = 0) or after it (fold = 1);
     - everywhere else fold is irrelevant.
   InstOf(z, w, fold) is the instant such a datetime denotes (what astimezone(UTC) yields);
   WallOf(z, i) the reading and fold of instant i on the zone's clock (what astimezone(zone) yields).       *)
EXTENDS CertTime

Weekday(d) == (d + 4) % 7                   \* 0 = Sunday; day 0 (1970-01-01) was a Thursday
FirstSunday(y, m) == LET d1 == DaysFromCivil(y, m, 1) IN d1 + ((7 - Weekday(d1)) % 7)
NthSunday(y, m, n) == FirstSunday(y, m) + 7 * (n - 1)
LastSunday(y, m) == LET dl == DaysFromCivil(y, m, DaysInMonth(y, m)) IN dl - Weekday(dl)

InstLess(a, b) == a.d < b.d \/ (a.d = b.d /\ a.s < b.s)
\* sec seconds later or earlier, -86400 <= sec <= 86400
Shift(i, sec) == LET t == i.s + sec IN
                 IF t < 0 THEN Inst(i.d - 1, t + 86400) ELSE IF t >= 86400 THEN Inst(i.d + 1, t - 86400) ELSE Inst(i.d, t)

Z(std, dst, rule) == [std |-> std, dst |-> dst, rule |-> rule]
KnownZones == {"Europe/Berlin", "Europe/London", "Europe/Lisbon", "Europe/Helsinki", "America/New_York", "America/Los_Angeles",
               "Australia/Sydney", "Australia/Lord_Howe", "Pacific/Auckland", "Pacific/Chatham"}
ZoneOf(name) ==
  CASE name = "Europe/Berlin" -> Z(60, 120, "eu") [] name = "Europe/London" -> Z(0, 60, "eu") [] name = "Europe/Lisbon" -> Z(0, 60, "eu")
    [] name = "Europe/Helsinki" -> Z(120, 180, "eu")
    [] name = "America/New_York" -> Z(-300, -240, "us") [] name = "America/Los_Angeles" -> Z(-480, -420, "us")
    [] name = "Australia/Sydney" -> Z(600, 660, "au") [] name = "Australia/Lord_Howe" -> Z(630, 660, "lh")     \* a half-hour step
    [] name = "Pacific/Auckland" -> Z(720, 780, "nz") [] name = "Pacific/Chatham" -> Z(765, 825, "nz")          \* +12:45 / +13:45
ZoneYears == 2008..9998
KnownAt(name, w) == name \in KnownZones /\ CivilFromDays(w.d).y \in ZoneYears

\* the two changes of the clock in year y, in the order they happen: [at (the instant, UTC), before, after (minutes east)]
Tr(at, b, a) == [at |-> at, before |-> b, after |-> a]
Transitions(z, y) ==
  IF z.rule = "eu" THEN       \* last Sunday of March / October, 01:00 UTC in every zone of the rule
    <<Tr(Inst(LastSunday(y, 3), 3600), z.std, z.dst), Tr(Inst(LastSunday(y, 10), 3600), z.dst, z.std)>>
  ELSE IF z.rule = "us" THEN  \* second Sunday of March / first Sunday of November, 02:00 on the local clock
    <<Tr(Shift(Inst(NthSunday(y, 3, 2), 7200), 0 - z.std * 60), z.std, z.dst),
      Tr(Shift(Inst(FirstSunday(y, 11), 7200), 0 - z.dst * 60), z.dst, z.std)>>
  ELSE IF z.rule = "au" THEN  \* southern summer: ends first Sunday of April 03:00 summer time, begins first Sunday of October 02:00
    <<Tr(Shift(Inst(FirstSunday(y, 4), 10800), 0 - z.dst * 60), z.dst, z.std),
      Tr(Shift(Inst(FirstSunday(y, 10), 7200), 0 - z.std * 60), z.std, z.dst)>>
  ELSE IF z.rule = "lh" THEN  \* Lord Howe: both changes at 02:00 on the local clock
    <<Tr(Shift(Inst(FirstSunday(y, 4), 7200), 0 - z.dst * 60), z.dst, z.std),
      Tr(Shift(Inst(FirstSunday(y, 10), 7200), 0 - z.std * 60), z.std, z.dst)>>
  ELSE                        \* "nz": first Sunday of April / last Sunday of September, Saturday 14:00 UTC (Chatham changes with Auckland)
    <<Tr(Inst(FirstSunday(y, 4) - 1, 50400), z.dst, z.std), Tr(Inst(LastSunday(y, 9) - 1, 50400), z.std, z.dst)>>

OffsetAt(z, i) ==
  LET tr == Transitions(z, CivilFromDays(i.d).y) IN
  IF InstLess(i, tr[1].at) THEN tr[1].before ELSE IF InstLess(i, tr[2].at) THEN tr[1].after ELSE tr[2].after

\* the second pass of a repeated interval: an earlier instant showed the same reading
InSecondPass(z, i) ==
  LET tr == Transitions(z, CivilFromDays(i.d).y) IN
  \E k \in 1..2 : /\ tr[k].after < tr[k].before /\ ~InstLess(i, tr[k].at)
                  /\ InstLess(i, Shift(tr[k].at, (tr[k].before - tr[k].after) * 60))
WallOf(z, i) == [w |-> Shift(i, OffsetAt(z, i) * 60), fold |-> IF InSecondPass(z, i) THEN 1 ELSE 0]

MaxOf(a, b) == IF a > b THEN a ELSE b
MinOf(a, b) == IF a < b THEN a ELSE b
\* PEP 495: with fold = 0 a change of the clock counts from the LATER of its two wall-clock readings, with fold = 1 from the earlier
OffsetOfWall(z, w, fold) ==
  LET tr == Transitions(z, CivilFromDays(w.d).y)
      Edge(k) == Shift(tr[k].at, 60 * (IF fold = 0 THEN MaxOf(tr[k].before, tr[k].after) ELSE MinOf(tr[k].before, tr[k].after))) IN
  IF InstLess(w, Edge(1)) THEN tr[1].before ELSE IF InstLess(w, Edge(2)) THEN tr[1].after ELSE tr[2].after
InstOf(z, w, fold) == Shift(w, 0 - OffsetOfWall(z, w, fold) * 60)

FoldMatters(z, w) == InstOf(z, w, 0) # InstOf(z, w, 1)
Ambiguous(z, w) == FoldMatters(z, w) /\ WallOf(z, InstOf(z, w, 0)).w = w      \* shown twice
InGap(z, w) == FoldMatters(z, w) /\ WallOf(z, InstOf(z, w, 0)).w # w           \* never shown
=============================================================================
