---------------------------- MODULE NdnPacketsTrace ----------------------------
(* Stage C for C01/C02: calls recorded from the real make_interest / make_data / parse_* on
   configurations beyond the enumerated alphabet, judged by TLC evaluating the reference.
   One ndjson record per call (IOEnv.TRACE_FILE):
     cfg      the abstract configuration (sg.a = the signature length the signer actually wrote)
     chk      which clauses apply: "lay" "ranges" "tampers"
     refused  the library raised instead of emitting a packet
     lay      layout of the emitted wire as projected by the strict reader
     signed / digest / sv / dv   byte intervals observed in the implementation: where the bytes handed
              to the signer lie in the final wire, and where the parser's signature_covered_part,
              digest_covered_part, signature_value_buf, digest_value_buf point
     tampers  [pos, sigacc, digacc, digeq]: one byte at pos replaced; did the matching verifier accept,
              did the params-digest check accept ("acc"/"rej"/"na"), does the digest component equal a
              recomputation over ApplicationParameters..end ("eq"/"ne"/"na" when not strictly parseable)
     svedits  [op, need, sigacc, digacc, digeq]: a value-preserving re-encoding of the signature value (NdnPackets!SvOps)
              applied to the wire with every length and the parameters digest fixed up; need = the value class the
              genuine signature value was found to have ("any" when the edit needs none)
   Verdict code per record: 1 accepted, otherwise the number of the first failing clause.       *)
EXTENDS NdnPackets, Json, IOUtils, TLCExt

Traces == ndJsonDeserialize(IOEnv.TRACE_FILE)
VARIABLE tid

Has(r, w) == \E i \in 1..Len(r.chk) : r.chk[i] = w

TamperOk(c, t) ==
  LET g == RegionAt(c, t.pos) IN
  /\ (g.sig = "reject" => ~t.sigacc)
  /\ (g.dig = "fail" => t.digacc # "acc")
  /\ (t.digeq # "na" /\ t.digacc # "na" => (t.digacc = "acc" <=> t.digeq = "eq"))

\* the edit must be one the table offers for this configuration and value class; its verdict is the table's
SvEditOk(c, t) ==
  \E e \in Edits(c) :
    /\ e.op = t.op /\ e.need = t.need /\ e.op \in SvOps
    /\ (e.sig = "reject" => ~t.sigacc)
    /\ (e.dig = "fail" => t.digacc # "acc")
    /\ (t.digeq # "na" /\ t.digacc # "na" => (t.digacc = "acc" <=> t.digeq = "eq"))

Judge(r) ==
  LET c == r.cfg IN
  IF r.refused THEN (IF Refuses(c) THEN 1 ELSE 2)
  ELSE IF Refuses(c) THEN 1      \* a refusal is allowed, not required (the harness checked well-formedness)
  ELSE IF Has(r, "lay") /\ r.lay # Flat(Final(c)) THEN 3
  ELSE IF Has(r, "lay") /\ ~WellTiled(r.lay) THEN 4
  ELSE IF Has(r, "ranges") /\ Signed(c) /\ r.signed # Merge(SignedRange(c)) THEN 5
  ELSE IF Has(r, "ranges") /\ Signed(c) /\ r.sv # <<SigValueRange(c)>> THEN 6
  ELSE IF Has(r, "ranges") /\ NeedDigest(c) /\ r.digest # <<DigestRange(c)>> THEN 7
  ELSE IF Has(r, "ranges") /\ NeedDigest(c) /\ r.dv # <<DigestValueRange(c)>> THEN 8
  ELSE IF Has(r, "tampers") /\ \E i \in 1..Len(r.tampers) : ~TamperOk(c, r.tampers[i]) THEN 9
  ELSE IF Has(r, "svedits") /\ \E i \in 1..Len(r.svedits) : ~SvEditOk(c, r.svedits[i]) THEN 10
  ELSE 1

TInit == tid \in 1..Len(Traces) /\ TLCSet(tid, Judge(Traces[tid]))
TSpec == TInit /\ [][UNCHANGED tid]_tid
Post == \A i \in 1..Len(Traces) : TLCGet(i) = 1 \/ PrintT(<<"REJECTED", i, TLCGet(i)>>)
=============================================================================
