\* C08 stage A by hand (quick bounds):  java ... tlc2.TLC -config TlvModelC08.cfg TlvModelC08
SPECIFICATION Spec
CONSTANTS
  K = 1
  Cap = 400
  EditK = 1
CONSTANTS SchemaOfCase <- C08Schema IcOfCase <- C08Ic InputOfCase <- C08Input
INVARIANT ValuesLegal
INVARIANT SizeLaw
INVARIANT RoundTrip
INVARIANT DeclaredOrder
INVARIANT EditLaw
INVARIANT Minimal
INVARIANT AgreesWithRunScan
INVARIANT PosBound
PROPERTY OneElementPerStep
PROPERTY FposMonotone
CHECK_DEADLOCK FALSE
