\* for the evaluation-only modules TlvModelVec (env VEC_OUT, VEC_F; add CONSTANTS K Cap EditK),
\* TlvModelJudge and TlvModelC07Judge (env JUDGE_IN = ndjson file)
INIT Init
NEXT Next
CHECK_DEADLOCK FALSE
