----------------------------- MODULE NdnPacketsGen -----------------------------
(* Stage B generator for C01/C02: TLC enumerates the configuration space of NdnPacketsCfg
   (the same set stage A model-checks) and writes one line per configuration with the
   expected layout, ranges, region table and edit table (IOEnv.OUT, ndjson).              *)
EXTENDS NdnPacketsCfg, Json, IOUtils, SequencesExt

Line(c) == LET e == Expect(c) IN
  [cfg |-> c, exp |-> IF e.refuse \/ Size(Final(c)) <= 1500 THEN e ELSE [e EXCEPT !.edits = {}]]
ASSUME ndJsonSerialize(IOEnv.OUT, SetToSeq({ Line(c) : c \in CfgSpace }))
ASSUME PrintT(<<"GENERATED", Cardinality(CfgSpace)>>)
=============================================================================
