---- MODULE KcDbg ----
EXTENDS Keychain
DbgRetry == st.open => \A o \in Ops(st) : o.op \notin {"GetSigner", "Close", "NewKey"} =>
     \A n \in 1..NFaults(o, st) : RetryOk(o, st, n) \/ (PrintT(<<"BAD", o.op, o.i, o.k, o.c, n, Plan(o, Part(o, st, n)).res.out, Do(o, Part(o, st, n))>>) /\ FALSE)
====
