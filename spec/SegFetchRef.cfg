SPECIFICATION Spec
CONSTANTS MaxN = 3 MaxRetry = 3
INVARIANT YieldedIsCount
INVARIANT IndInvHolds
PROPERTY RefinesInd
CHECK_DEADLOCK FALSE
