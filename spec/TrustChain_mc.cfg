\* reference configuration (bin/check C14 generates its own into build/): correct design, hierarchies of
\* depth <= 3, two instances, 2 validations;  tlc -config TrustChain_mc.cfg TrustChain
SPECIFICATION Spec
CONSTANTS
  Inst = {"v1", "v2"}
  Slots = {"v1", "v2"}
  SameApp = FALSE
  MaxHeal = 0
  MaxVal = 2
  Allowed = {}
  Forced = {}
  WorldSet <- W3
  AnchorChoice <- MCAnchors
  StoreChoice <- MCStoreDefault
INVARIANT TypeOK
INVARIANT StackBounded
INVARIANT VerdictIffChain
INVARIANT InstanceIndependent
INVARIANT ConstructorRefuses
INVARIANT Terminated
INVARIANT NothingBad
CHECK_DEADLOCK FALSE
