------------------------- MODULE NdnPitLegacyImpl -------------------------
(* Implementation-level model of the consumer side of the LEGACY front-end ndn.app.NDNApp
   (src/ndn/app.py: express_raw_interest, _wait_for_data, _remove_pending, _on_data, _on_nack,
   _clean_up; src/ndn/name_tree.py: InterestTreeNode), one level below NdnPit:

   * the Interest trie maps a node name to a *node object*; a node object owns a pending_list of
     entries (future, can_be_prefix, implicit digest); the coroutine returned by express_interest
     keeps a *reference to the node object it was appended to* (not to the trie slot) - a node deleted
     from the trie stays referenced by the coroutines that captured it, a newer node may take its place;
   * an entry's future is pending / holds the Data (result) / holds InterestNack (exc) / is cancelled;
   * the coroutine of an Interest is: not awaited yet ("new") / suspended in `await future` inside
     asyncio.wait_for with a lifetime timer ("wait") / suspended in wait_for's zero-timeout branch
     ("wait0", InterestLifetime 0) / woken with the Data and awaiting the validator IN ITS OWN
     coroutine, the timer already gone ("val") / finished ("done").

   One action per critical section (the code between two awaits).  A stimulus (packet, timer, caller
   cancel, shutdown) only completes / cancels futures and marks tasks; the coroutine continues in a
   LATER step (LWake...), and everything else that can sit in the same ready queue may run in
   between: another packet, the lifetime timers, a new Interest under the same name, a shutdown.
   The clock advances (LTick) only when no coroutine is runnable - the asyncio loop drains its ready
   queue before it sleeps.

   asyncio semantics modelled: CPython 3.12 (`wait_for` = `async with timeout(): return await fut`):
     - the timer callback calls task.cancel(): a pending future is cancelled AT ONCE (the entry is
       still in its node until the task runs); if the future already holds the Data and the task has
       not run yet, the task is marked must-cancel and the coroutine gets TimeoutError although the
       Data was there first (LFire on a runnable entry);
     - a caller's task.cancel() does the same and wins over everything (InterestCanceled);
     - wait_for(fut, 0) cancels the future in the coroutine's first step and raises TimeoutError in
       its second;
     - awaiting a future that is already done does not suspend (deferred await, LAwait).
   (CPython 3.11's wait_for waits on a helper future instead and differs in these windows: a result set
   in the same iteration as the timer or as the caller's cancel is still returned.  Not modelled; the
   check suite runs on 3.12.)

   REFINEMENT.  TLC checks that every behaviour of this structure is a behaviour of NdnPit with
   Front = "legacy" and  Dev = {"legacySlowValidator"}  ENABLED: the legacy coroutine leaves wait_for
   (and its timer) before it awaits the validator, so a validator that is still running at the
   deadline is not turned into a timeout - the known finding KF-legacy-slow-validator.  With Dev = {}
   the refinement fails at exactly that point (kept as the switch "strictAbs" below).
   The mapping (AbsPh / AbsOut / ...) reads an Interest as finished from the step that DECIDES its
   outcome (the Nack is stored in the future, the timer / the caller / _clean_up has cancelled it);
   the coroutine's own later step, which runs _remove_pending and raises, is a stuttering step of
   NdnPit - NdnPit's actions are macro-steps (stimulus + everything the loop runs at that instant).
   (So a packet processed while a cancellation is in flight - NdnPit's RecvDataX / RecvNackX with X # {} -
   is here LCancelReq; LRecvData; LWakeCancel and maps to Cancel; RecvData; stutter: Races = {{}}.)
   Ghost state needed by the mapping only: `late` (Interests whose deadline passed while their
   validator runs: NdnPit's phase "late"; LFire marks them, no code runs for them) and `gbuf` (the
   outcome decided while nobody awaited the Interest, with its instant: NdnPit's `buf`).

   Windows of one loop iteration that NdnPit's macro-steps do not have, and what is done about them:
     - Data, then the timer, before the coroutine runs: modelled (TimeoutError; NdnPit: Fire on "val");
     - the timer or the caller's cancel, then Data / Nack, before the coroutine runs: modelled
       (satisfy / nack_interest meet a cancelled future; _remove_pending meets a node that is gone);
     - a Nack or _clean_up completes the future, then the TIMER fires before the coroutine runs: the
       real outcome is InterestTimeout, not the Nack / the cancellation that NdnPit has already
       recorded.  Excluded by default (a decided Interest's timer is not fired); the switch
       "lateTimer" adds it and TLC then shows the behaviour NdnPit does not have (Refines violated);
     - a caller's cancel in the same window (after a Nack / timer / shutdown decided the outcome,
       before the coroutine ran): the real outcome is InterestCanceled.  Excluded (LCancelReq needs an
       undecided Interest).  Both exclusions concern which of two legitimate outcomes is reported at
       one instant; the clean-up code that runs is the same (_remove_pending).
   As in NdnPit: an unanswered Interest is awaited before its nominal deadline; lifetime 0 only when
   awaited at once; `lifetime=None` is the lifetime 4000 ms and nothing else.

   Bug switches (each must give a TLC counterexample, checked by C03 stage A):
     "staleDelete"    _remove_pending deletes trie[node_name] whenever its node's list became empty,
                      without `self._int_tree.get(node_name) is node` (original code, 355f3cb^): KeyError
                      raised into the caller when the slot is empty, a newer Interest's node removed otherwise;
     "cancelResidue"  the CancelledError branch of _wait_for_data does not call _remove_pending
                      (original code, 330e745^): the cancelled entry stays reachable;
     "noDoneGuard"    satisfy / nack_interest call set_result / set_exception without `if not
                      future.done()` (original code, dbebc9b^): InvalidStateError out of _receive;
     "inPlaceRemove"  satisfy removes the satisfied entries from pending_list in place while iterating
                      it: the entry after each removed one is skipped (a matching Interest not answered).
   Granularity switches (not defects of the code; they show where the refinement is tight):
     "lateTimer"      see above;
     "strictAbs"      instantiate NdnPit with Dev = {}.                                              *)
EXTENDS Integers, Sequences, FiniteSets, TLC

CONSTANTS MaxEntries, MaxT, Templates, DataSet, Verdicts, Reasons, MaxNodes,
          Defer,         \* {FALSE}: express_interest is awaited in the step that creates it; BOOLEAN: also later
          Reconn,        \* BOOLEAN: main_loop may run again after a shutdown
          Bug            \* subset of the switches above

VARIABLES now, up, used,
          trie,          \* node name -> node object id (0 = no node under that name)
          plist,         \* node object id -> sequence of entry ids (pending_list)
          nnodes,        \* node objects allocated so far
          nref,          \* entry -> node object captured by its coroutine
          fut,           \* entry -> "none" | "pending" | "result" | "exc" | "cancelled"
          fval,          \* entry -> Data id held by the future (result) / Nack reason (exc)
          co,            \* entry -> "none" | "new" | "wait" | "wait0" | "val" | "done"
          cq,            \* entry -> the caller has called task.cancel() and the task has not run yet
          exp,           \* entry -> the lifetime timer has fired (Timeout EXPIRING) and the task has not run yet
          res,           \* entry -> what the coroutine returned / raised
          tm, dl,        \* entry -> template; deadline of the armed timer (nominal deadline until awaited)
          err,           \* exceptions that escaped the receive path
          late, gbuf     \* ghost (refinement mapping only)
lvars == <<now, up, used, trie, plist, nnodes, nref, fut, fval, co, cq, exp, res, tm, dl, err, late, gbuf>>

Entry == 1..MaxEntries
Node == 1..MaxNodes
Names == { t.name : t \in Templates }
NoOut == [k |-> "none", d |-> 0, r |-> 0, v |-> "-", at |-> 0]
NoTm == [name |-> <<>>, cbp |-> FALSE, dig |-> 0, life |-> 0]
Out(k, d, r, v) == [k |-> k, d |-> d, r |-> r, v |-> v, at |-> now]
IsPrefix(a, b) == Len(a) <= Len(b) /\ \A i \in 1..Len(a) : a[i] = b[i]
SeqToSet(s) == { s[i] : i \in 1..Len(s) }
Filter(s, keep(_)) == LET F[i \in 0..Len(s)] == IF i = 0 THEN <<>> ELSE IF keep(s[i]) THEN Append(F[i-1], s[i]) ELSE F[i-1] IN F[Len(s)]

ASSUME \A d1, d2 \in DataSet : d1.id = d2.id => d1 = d2
ASSUME \A d \in DataSet : d.id > 0

Init ==
  /\ now = 0 /\ up = TRUE /\ used = 0 /\ nnodes = 0 /\ err = 0
  /\ trie = [n \in Names |-> 0]
  /\ plist = [x \in Node |-> <<>>]
  /\ nref = [e \in Entry |-> 0]
  /\ fut = [e \in Entry |-> "none"]
  /\ fval = [e \in Entry |-> 0]
  /\ co = [e \in Entry |-> "none"]
  /\ cq = [e \in Entry |-> FALSE]
  /\ exp = [e \in Entry |-> FALSE]
  /\ res = [e \in Entry |-> NoOut]
  /\ tm = [e \in Entry |-> NoTm]
  /\ dl = [e \in Entry |-> 0]
  /\ late = {}
  /\ gbuf = [e \in Entry |-> NoOut]

-----------------------------------------------------------------------------
(* What the next step of the coroutine of e will raise, fixed by what has already happened to its
   future / task (asyncio 3.12): a caller's cancel wins, then the timer, then the future's own state. *)
Decision(e) ==
  IF co[e] = "wait0" THEN Out("timeout", 0, 0, "-")
  ELSE IF co[e] \in {"wait", "val"} /\ cq[e] THEN Out("cancel", 0, 0, "-")
  ELSE IF co[e] = "wait" /\ exp[e] THEN Out("timeout", 0, 0, "-")
  ELSE IF co[e] = "wait" /\ fut[e] = "exc" THEN Out("nack", 0, fval[e], "-")
  ELSE IF co[e] = "wait" /\ fut[e] = "cancelled" THEN Out("cancel", 0, 0, "-")
  ELSE NoOut
Decided(e) == Decision(e).k # "none"
\* the task of e has a wake-up in the ready queue
Runnable(e) == Decided(e) \/ (co[e] = "wait" /\ fut[e] = "result")

\* express_raw_interest (setdefault, append_interest, send); with ~df also the first section of
\* _wait_for_data up to its first suspension.  InterestLifetime 0: wait_for(fut, 0) cancels the
\* future at once and suspends in _cancel_and_wait.
LExpress(t, df) ==
  /\ up /\ used < MaxEntries
  /\ IF t.life = 0 THEN ~df ELSE now + t.life <= MaxT
  /\ LET e == used + 1
         fresh == trie[t.name] = 0
         node == IF fresh THEN nnodes + 1 ELSE trie[t.name] IN
       /\ (fresh => nnodes < MaxNodes)
       /\ used' = e
       /\ nnodes' = IF fresh THEN nnodes + 1 ELSE nnodes
       /\ trie' = [trie EXCEPT ![t.name] = node]
       /\ plist' = [plist EXCEPT ![node] = Append(plist[node], e)]
       /\ nref' = [nref EXCEPT ![e] = node]
       /\ tm' = [tm EXCEPT ![e] = t]
       /\ dl' = [dl EXCEPT ![e] = now + t.life]
       /\ fut' = [fut EXCEPT ![e] = IF t.life = 0 THEN "cancelled" ELSE "pending"]
       /\ co' = [co EXCEPT ![e] = IF t.life = 0 THEN "wait0" ELSE IF df THEN "new" ELSE "wait"]
  /\ UNCHANGED <<now, up, fval, cq, exp, res, err, late, gbuf>>

\* InterestTreeNode.satisfy on one pending_list: [hit |-> entries that "passed" (they leave the list, their future is
\* completed if it is still pending), rest |-> the new list].  The loop runs over the list in order.
Passes(e, d, isPrefix) == (tm[e].cbp \/ ~isPrefix) /\ (tm[e].dig = 0 \/ tm[e].dig = d.id)
Satisfy(s, d, isPrefix) ==
  IF "inPlaceRemove" \in Bug
  THEN \* `for entry in self.pending_list: if passed: self.pending_list.remove(entry)`: the element that follows a removed
       \* one moves into its place and is never examined
       LET W[i \in 1..(Len(s) + 2)] ==
             IF i > Len(s) THEN [hit |-> {}, rest |-> <<>>]
             ELSE IF Passes(s[i], d, isPrefix)
                  THEN [hit |-> {s[i]} \cup W[i + 2].hit,
                        rest |-> (IF i + 1 <= Len(s) THEN <<s[i + 1]>> ELSE <<>>) \o W[i + 2].rest]
                  ELSE [hit |-> W[i + 1].hit, rest |-> <<s[i]>> \o W[i + 1].rest]
       IN W[1]
  ELSE [hit |-> { e \in SeqToSet(s) : Passes(e, d, isPrefix) },
        rest |-> Filter(s, LAMBDA e : ~Passes(e, d, isPrefix))]

\* _on_data: for every prefix of the Data name that has a node: node.satisfy; the nodes whose entries all passed are
\* deleted from the trie afterwards, by name (their list is then left as it was)
LRecvData(d) ==
  /\ up
  /\ LET pre == { p \in Names : IsPrefix(p, d.name) /\ trie[p] # 0 }
         sat(p) == Satisfy(plist[trie[p]], d, p # d.name)
         allHit == UNION { sat(p).hit : p \in pre }
         emptied == { p \in pre : sat(p).rest = <<>> }
         bad == { e \in allHit : fut[e] # "pending" } IN
       IF "noDoneGuard" \in Bug /\ bad # {}
       THEN \* set_result on a cancelled future: InvalidStateError escapes _on_data
            /\ err' = err + 1
            /\ UNCHANGED <<trie, plist, fut, fval>>
       ELSE /\ fut' = [e \in Entry |-> IF e \in allHit /\ fut[e] = "pending" THEN "result" ELSE fut[e]]
            /\ fval' = [e \in Entry |-> IF e \in allHit /\ fut[e] = "pending" THEN d.id ELSE fval[e]]
            /\ trie' = [n \in Names |-> IF n \in emptied THEN 0 ELSE trie[n]]
            /\ plist' = [x \in Node |->
                 IF \E p \in pre : trie[p] = x /\ (p \notin emptied \/ "inPlaceRemove" \in Bug)
                 THEN (LET p == CHOOSE q \in pre : trie[q] = x IN sat(p).rest) ELSE plist[x]]
            /\ UNCHANGED err
  /\ UNCHANGED <<now, up, used, nnodes, nref, co, cq, exp, res, tm, dl, late, gbuf>>

\* _on_nack: exact-name lookup (implicit digest split off), nack_interest on the entries with the same digest
LRecvNack(t, r) ==
  /\ up
  /\ LET node == trie[t.name] IN
     IF node = 0 THEN UNCHANGED <<trie, plist, fut, fval, err, gbuf>>
     ELSE LET hit == { e \in SeqToSet(plist[node]) : tm[e].dig = t.dig }
              live == { e \in hit : fut[e] = "pending" }
              rest == Filter(plist[node], LAMBDA e : e \notin hit) IN
          IF "noDoneGuard" \in Bug /\ hit # live
          THEN /\ err' = err + 1 /\ UNCHANGED <<trie, plist, fut, fval, gbuf>>
          ELSE /\ fut' = [e \in Entry |-> IF e \in live THEN "exc" ELSE fut[e]]
               /\ fval' = [e \in Entry |-> IF e \in live THEN r ELSE fval[e]]
               /\ gbuf' = [e \in Entry |-> IF e \in live /\ co[e] = "new" THEN Out("nack", 0, r, "-") ELSE gbuf[e]]
               /\ plist' = [plist EXCEPT ![node] = rest]
               /\ trie' = IF rest = <<>> THEN [trie EXCEPT ![t.name] = 0] ELSE trie
               /\ UNCHANGED err
  /\ UNCHANGED <<now, up, used, nnodes, nref, co, cq, exp, res, tm, dl, late>>

\* node.timeout(future) + the guarded deletion of the trie slot (_remove_pending), run by the coroutine of e
RemovePending(e) ==
  LET x == nref[e]
      l2 == Filter(plist[x], LAMBDA f : f # e)
      n == tm[e].name
      del == IF "staleDelete" \in Bug THEN l2 = <<>> ELSE l2 = <<>> /\ trie[n] = x IN
    [plist |-> [plist EXCEPT ![x] = l2],
     trie |-> IF del THEN [trie EXCEPT ![n] = 0] ELSE trie,
     keyerr |-> del /\ trie[n] = 0]
\* the coroutine of e ends in the TimeoutError / CancelledError branch of _wait_for_data
Cleanup(e, viaCancelledError) ==
  LET skip == viaCancelledError /\ "cancelResidue" \in Bug
      r == RemovePending(e) IN
    /\ plist' = IF skip THEN plist ELSE r.plist
    /\ trie' = IF skip THEN trie ELSE r.trie
    /\ res' = [res EXCEPT ![e] = IF ~skip /\ r.keyerr THEN Out("error", 0, 0, "-") ELSE Decision(e)]
    /\ co' = [co EXCEPT ![e] = "done"]
    /\ cq' = [cq EXCEPT ![e] = FALSE]
    /\ exp' = [exp EXCEPT ![e] = FALSE]

\* the task resumes in `await future`: the caller's cancel / the future cancelled by _clean_up -> CancelledError
LWakeCancel(e) ==
  /\ co[e] = "wait" /\ (cq[e] \/ (~exp[e] /\ fut[e] = "cancelled"))
  /\ Cleanup(e, TRUE)
  /\ UNCHANGED <<now, up, used, nnodes, nref, fut, fval, tm, dl, err, late, gbuf>>
\* ... the timer has fired (and no caller cancel): CancelledError is turned into TimeoutError by the timeout scope
LWakeTimeout(e) ==
  /\ co[e] = "wait" /\ exp[e] /\ ~cq[e]
  /\ Cleanup(e, FALSE)
  /\ UNCHANGED <<now, up, used, nnodes, nref, fut, fval, tm, dl, err, late, gbuf>>
\* second step of wait_for(fut, 0): TimeoutError
LWake0(e) ==
  /\ co[e] = "wait0"
  /\ Cleanup(e, FALSE)
  /\ UNCHANGED <<now, up, used, nnodes, nref, fut, fval, tm, dl, err, late, gbuf>>
\* ... the future holds InterestNack: it propagates (no clean-up: nack_interest has removed the entry)
LWakeNack(e) ==
  /\ co[e] = "wait" /\ ~cq[e] /\ ~exp[e] /\ fut[e] = "exc"
  /\ res' = [res EXCEPT ![e] = Decision(e)]
  /\ co' = [co EXCEPT ![e] = "done"]
  /\ UNCHANGED <<now, up, used, trie, plist, nnodes, nref, fut, fval, cq, exp, tm, dl, err, late, gbuf>>
\* ... the future holds the Data: wait_for returns (its timer is cancelled), the validator is called and awaited
LWakeData(e) ==
  /\ co[e] = "wait" /\ ~cq[e] /\ ~exp[e] /\ fut[e] = "result"
  /\ co' = [co EXCEPT ![e] = "val"]
  /\ UNCHANGED <<now, up, used, trie, plist, nnodes, nref, fut, fval, cq, exp, res, tm, dl, err, late, gbuf>>
\* the caller cancelled the task while the validator ran: CancelledError leaves _wait_for_data as it is
LWakeValCancel(e) ==
  /\ co[e] = "val" /\ cq[e]
  /\ res' = [res EXCEPT ![e] = Decision(e)]
  /\ co' = [co EXCEPT ![e] = "done"]
  /\ cq' = [cq EXCEPT ![e] = FALSE]
  /\ late' = late \ {e}
  /\ UNCHANGED <<now, up, used, trie, plist, nnodes, nref, fut, fval, exp, tm, dl, err, gbuf>>

\* the validator returns v to the coroutine
LValFinish(e, v) ==
  /\ co[e] = "val" /\ ~cq[e]
  /\ res' = [res EXCEPT ![e] = IF v = "T" THEN Out("data", fval[e], 0, "-") ELSE Out("vfail", fval[e], 0, v)]
  /\ co' = [co EXCEPT ![e] = "done"]
  /\ late' = late \ {e}
  /\ UNCHANGED <<now, up, used, trie, plist, nnodes, nref, fut, fval, cq, exp, tm, dl, err, gbuf>>

\* the caller awaits an Interest it expressed earlier: the first section of _wait_for_data.  A future that is already
\* done does not suspend the coroutine: it goes on to the validator / raises in this very step.
LAwait(e) ==
  /\ co[e] = "new"
  /\ (fut[e] \in {"pending", "result"} => now < dl[e])
  /\ CASE fut[e] = "pending" ->
            /\ co' = [co EXCEPT ![e] = "wait"]
            /\ dl' = [dl EXCEPT ![e] = now + tm[e].life]        \* the lifetime counts from the first await
            /\ UNCHANGED <<trie, plist, res>>
       [] fut[e] = "result" ->
            /\ co' = [co EXCEPT ![e] = "val"]
            /\ UNCHANGED <<trie, plist, res, dl>>
       [] fut[e] = "exc" ->
            /\ co' = [co EXCEPT ![e] = "done"]
            /\ res' = [res EXCEPT ![e] = Out("nack", 0, fval[e], "-")]
            /\ UNCHANGED <<trie, plist, dl>>
       [] fut[e] = "cancelled" ->                                \* cancelled by _clean_up: CancelledError branch
            LET skip == "cancelResidue" \in Bug
                r == RemovePending(e) IN
              /\ plist' = IF skip THEN plist ELSE r.plist
              /\ trie' = IF skip THEN trie ELSE r.trie
              /\ res' = [res EXCEPT ![e] = IF ~skip /\ r.keyerr THEN Out("error", 0, 0, "-") ELSE Out("cancel", 0, 0, "-")]
              /\ co' = [co EXCEPT ![e] = "done"]
              /\ UNCHANGED dl
  /\ UNCHANGED <<now, up, used, nnodes, nref, fut, fval, cq, exp, tm, err, late, gbuf>>

\* the timer handles due at this instant run: Timeout._on_timeout -> task.cancel().  A pending future is cancelled at
\* once; a future that already holds the Data stays, the task is marked (must_cancel).
TimerDue == { e \in Entry : /\ co[e] = "wait" /\ dl[e] = now /\ ~exp[e]
                            /\ IF "lateTimer" \in Bug THEN ~cq[e] ELSE ~Decided(e) }
\* ghost: Interests under validation whose nominal deadline is this instant (no timer exists for them)
GhostDue == { e \in Entry : co[e] = "val" /\ ~cq[e] /\ dl[e] = now /\ e \notin late }
LFire ==
  /\ TimerDue \cup GhostDue # {}
  /\ exp' = [e \in Entry |-> IF e \in TimerDue THEN TRUE ELSE exp[e]]
  /\ fut' = [e \in Entry |-> IF e \in TimerDue /\ fut[e] = "pending" THEN "cancelled" ELSE fut[e]]
  /\ late' = late \cup GhostDue
  /\ UNCHANGED <<now, up, used, trie, plist, nnodes, nref, fval, co, cq, res, tm, dl, err, gbuf>>

\* the loop sleeps until the next instant: nothing is runnable, no timer is due
LTick ==
  /\ now < MaxT
  /\ TimerDue \cup GhostDue = {}
  /\ \A e \in Entry : ~Runnable(e)
  /\ now' = now + 1
  /\ UNCHANGED <<up, used, trie, plist, nnodes, nref, fut, fval, co, cq, exp, res, tm, dl, err, late, gbuf>>

\* the caller calls cancel() on the task that awaits e (its outcome is not decided yet)
LCancelReq(e) ==
  /\ co[e] \in {"wait", "val"} /\ ~Decided(e)
  /\ cq' = [cq EXCEPT ![e] = TRUE]
  /\ fut' = [fut EXCEPT ![e] = IF co[e] = "wait" /\ fut[e] = "pending" THEN "cancelled" ELSE fut[e]]
  /\ UNCHANGED <<now, up, used, trie, plist, nnodes, nref, fval, co, exp, res, tm, dl, err, late, gbuf>>

\* face.shutdown() + _clean_up: node.cancel() on every node in the trie, then the trie is cleared
LShutdown ==
  /\ up /\ up' = FALSE
  /\ LET reach == UNION { SeqToSet(plist[trie[n]]) : n \in { m \in Names : trie[m] # 0 } }
         live == { e \in reach : fut[e] = "pending" } IN
       /\ fut' = [e \in Entry |-> IF e \in live THEN "cancelled" ELSE fut[e]]
       /\ gbuf' = [e \in Entry |-> IF e \in live /\ co[e] = "new" THEN Out("cancel", 0, 0, "-") ELSE gbuf[e]]
  /\ trie' = [n \in Names |-> 0]
  /\ UNCHANGED <<now, used, plist, nnodes, nref, fval, co, cq, exp, res, tm, dl, err, late>>

LConnect == /\ Reconn /\ ~up /\ up' = TRUE
            /\ UNCHANGED <<now, used, trie, plist, nnodes, nref, fut, fval, co, cq, exp, res, tm, dl, err, late, gbuf>>

LNext ==
  \/ \E t \in Templates, df \in Defer : LExpress(t, df)
  \/ \E d \in DataSet : LRecvData(d)
  \/ \E t \in Templates, r \in Reasons : LRecvNack(t, r)
  \/ \E e \in Entry : \/ LAwait(e) \/ LCancelReq(e)
                      \/ LWakeData(e) \/ LWakeNack(e) \/ LWakeTimeout(e) \/ LWakeCancel(e) \/ LWake0(e) \/ LWakeValCancel(e)
  \/ \E e \in Entry, v \in Verdicts : LValFinish(e, v)
  \/ LFire \/ LTick \/ LShutdown \/ LConnect
LSpec == Init /\ [][LNext]_lvars

-----------------------------------------------------------------------------
(* Refinement mapping to NdnPit (Front = "legacy", Dev = {"legacySlowValidator"}) *)
AbsOut == [e \in Entry |-> IF co[e] = "done" THEN res[e] ELSE Decision(e)]
AbsPh == [e \in Entry |->
            IF e > used THEN "unused"
            ELSE IF AbsOut[e].k # "none" THEN "fin"
            ELSE IF co[e] = "new" THEN (CASE fut[e] = "pending" -> "pend" [] fut[e] = "result" -> "got" [] OTHER -> "ready")
            ELSE IF co[e] = "val" THEN (IF e \in late THEN "late" ELSE "val")
            ELSE IF fut[e] = "result" THEN "val" ELSE "pend"]
\* a validator invocation the specification counts as outstanding: the Data reached an awaited Interest and no verdict
\* has been returned to it (also when the coroutine was cancelled / timed out before or while it validated)
AbsVrun == [e \in Entry |-> IF co[e] \notin {"none", "new"} /\ fut[e] = "result" /\ ~(co[e] = "done" /\ res[e].k \in {"data", "vfail"})
                            THEN fval[e] ELSE 0]
AbsHeld == [e \in Entry |-> IF co[e] = "new" /\ fut[e] = "result" THEN fval[e] ELSE 0]
AbsAw == [e \in Entry |-> co[e] \notin {"none", "new"}]
Abs == INSTANCE NdnPit WITH
          Front <- "legacy", Envs <- {"bare"}, Junk <- {}, Races <- {{}},
          Dev <- IF "strictAbs" \in Bug THEN {} ELSE {"legacySlowValidator"},
          ph <- AbsPh, out <- AbsOut, vrun <- AbsVrun, aw <- AbsAw, held <- AbsHeld, buf <- gbuf
\* every behaviour of the structure is a behaviour of the observable specification (safety part)
Refines == Abs!Init /\ [][Abs!Next]_(Abs!vars)

(* Structural invariants *)
Reachable(e) == \E n \in Names : trie[n] # 0 /\ e \in SeqToSet(plist[trie[n]])
\* an Interest that can still be answered sits in the node that the trie holds under its name, and that is the node its
\* coroutine references (otherwise Data / Nack can never reach it, or its clean-up works on the wrong object)
PendingReachable == \A e \in Entry : (fut[e] = "pending") =>
                       (trie[tm[e].name] # 0 /\ trie[tm[e].name] = nref[e] /\ e \in SeqToSet(plist[nref[e]]))
\* nothing about an Interest whose coroutine has finished remains in a reachable pending list
NoResidueImpl == \A e \in Entry : co[e] = "done" => ~Reachable(e)
\* ... and when the loop is idle, everything reachable is still waiting for its answer
IdleClean == (\A e \in Entry : ~Runnable(e)) => \A e \in Entry : Reachable(e) => fut[e] = "pending"
\* an entry sits in at most one node object, once, and that is the one its coroutine references
OneNode == /\ \A e \in Entry, x \in Node : e \in SeqToSet(plist[x]) => nref[e] = x
           /\ \A x \in Node : Cardinality(SeqToSet(plist[x])) = Len(plist[x])
\* no trie slot points to an empty node
NoEmptyNode == \A n \in Names : trie[n] # 0 => plist[trie[n]] # <<>>
\* no internal error: nothing escapes the receive path (InvalidStateError), no caller sees KeyError
NoInternalError == err = 0 /\ \A e \in Entry : res[e].k # "error"
TypeOKImpl == /\ \A e \in Entry : fut[e] \in {"none", "pending", "result", "exc", "cancelled"}
              /\ \A e \in Entry : co[e] \in {"none", "new", "wait", "wait0", "val", "done"}
              /\ \A e \in Entry : (e <= used) <=> (co[e] # "none")
              /\ \A e \in Entry : co[e] = "val" => fut[e] = "result"
              /\ \A e \in Entry : co[e] = "wait0" => fut[e] = "cancelled"

\* vacuity witnesses (each must be VIOLATED)
W_DataThenTimer == ~(\E e \in Entry : co[e] = "done" /\ res[e].k = "timeout" /\ fut[e] = "result")
W_StaleNode == ~(\E e \in Entry : co[e] \in {"wait", "new"} /\ trie[tm[e].name] # 0 /\ trie[tm[e].name] # nref[e])
W_CancelledMeetsData == ~(\E e \in Entry : fut[e] = "cancelled" /\ co[e] \in {"wait", "wait0"} /\ ~Reachable(e))
W_LateValidator == ~(\E e \in Entry : co[e] = "done" /\ res[e].k = "data" /\ res[e].at > dl[e])
=============================================================================
