------------------------------ MODULE CertTimeMC ------------------------------
(* Stage A for the calendar oracle: TLC walks the days of [From, To] one by one and checks that
   the closed forms agree with the naively stated calendar (NextDate), are mutually inverse, and
   that the rendering is order preserving. Several windows are run: 1970.., around 2100 (not a
   leap year), 2400 (leap), and the end of year 9999.                                        *)
EXTENDS CertTime, TLC
CONSTANTS FromY, ToY

VARIABLES z, date
Init == z = DaysFromCivil(FromY, 1, 1) /\ date = Date(FromY, 1, 1)
Next == /\ date.y <= ToY /\ (date.y < ToY \/ date.m < 12 \/ date.d < 31)
        /\ z' = z + 1 /\ date' = NextDate(date)
Spec == Init /\ [][Next]_<<z, date>>

InvCivil == CivilFromDays(z) = date /\ ValidDate(date)
InvInverse == DaysFromCivil(date.y, date.m, date.d) = z
InvRender == /\ Len(Render(Inst(z, 0))) = 15
             /\ LexLess(Render(Inst(z, 86399)), Render(Inst(z + 1, 0)))
             /\ LexLess(Render(Inst(z, 3599)), Render(Inst(z, 3600)))
             /\ Render(AddSec(Inst(z, 86399), 1)) = Render(Inst(z + 1, 0))
InvParse == /\ ParseInst(Render(Inst(z, 86399))) = [ok |-> TRUE, i |-> Inst(z, 86399)]
            /\ ParseInst(Render(Inst(z, 3600))) = [ok |-> TRUE, i |-> Inst(z, 3600)]
InvEpoch == (z = 0) = (date = Date(1970, 1, 1))
W_LeapDay == ~(date.m = 2 /\ date.d = 29)
W_CenturyNonLeap == ~(date.y % 100 = 0 /\ date.m = 3 /\ date.d = 1 /\ ~IsLeap(date.y))
=============================================================================
