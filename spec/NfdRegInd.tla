----------------------------- MODULE NfdRegInd -----------------------------
(* Integer-only counting abstraction of NfdReg (C17) for an UNBOUNDED argument with Apalache:
   any number of concurrent register / unregister calls, any clock values, any number of commands.

   The callers of NfdReg are replaced by COUNTERS: how many calls sit in each section of the coroutine
   after `async with semaphore` (acquired, guardOk, guardFail, sleeping, woken, sent, replied) and how many
   wait for the semaphore.  The semaphore is the counter of asyncio.Semaphore(1).  The timestamps are the
   wall clock (clock), _last_command_timestamp (lastTs), the reading that passed the guard (g) and the
   timestamp of the command Interest that was put on the wire last (wireTs; nWire = how many so far).
   Only the correct design is described (no deviation disjuncts): this is what C17 demands of the code.
   Calls may be cancelled by their caller at any of the three places where they are suspended (CancelWait,
   CancelSleep, CancelSent): the semaphore discipline and the timestamp order survive any number of cancellations.

   Apalache proves IndInv inductive (Init => IndInv, IndInv /\ Next => IndInv') and that IndInv implies
     OneAtATime           at most one command is outstanding, however many calls were made
     (action) TsIncreases every command put on the wire carries a timestamp strictly above the previous one
   TLC checks separately (NfdRegRef.tla) that every step of NfdReg - the specification that is bound to the
   code - is a step of this module under the counting map, so the result carries over.            *)
EXTENDS Integers

VARIABLES
    \* @type: Int;
    clock,
    \* @type: Int;
    lastTs,
    \* @type: Int;
    g,
    \* @type: Int;
    wireTs,
    \* @type: Int;
    nWire,
    \* @type: Int;
    semVal,
    \* @type: Int;
    waiting,
    \* @type: Int;
    cAcq,
    \* @type: Int;
    cOk,
    \* @type: Int;
    cFail,
    \* @type: Int;
    cSleep,
    \* @type: Int;
    cWoken,
    \* @type: Int;
    cSent,
    \* @type: Int;
    cRepl

\* @type: Seq(Int);
ivars == <<clock, lastTs, g, wireTs, nWire, semVal, waiting, cAcq, cOk, cFail, cSleep, cWoken, cSent, cRepl>>
NoG == -1

Init ==
  /\ clock = 0 /\ lastTs = -1 /\ g = NoG /\ wireTs = -1 /\ nWire = 0
  /\ semVal = 1 /\ waiting = 0
  /\ cAcq = 0 /\ cOk = 0 /\ cFail = 0 /\ cSleep = 0 /\ cWoken = 0 /\ cSent = 0 /\ cRepl = 0

\* the wall clock never goes backwards (assumption of NfdReg); clock' = clock is a stuttering step
Advance == clock' \in Int /\ clock' >= clock

Tick == /\ Advance
        /\ UNCHANGED <<lastTs, g, wireTs, nWire, semVal, waiting, cAcq, cOk, cFail, cSleep, cWoken, cSent, cRepl>>

\* `async with semaphore`: taken at once when it is free and nobody waits (asyncio.Semaphore is FIFO-fair) ...
AcquireFree == /\ semVal > 0 /\ waiting = 0
               /\ semVal' = semVal - 1 /\ cAcq' = cAcq + 1
               /\ UNCHANGED <<clock, lastTs, g, wireTs, nWire, waiting, cOk, cFail, cSleep, cWoken, cSent, cRepl>>
\* ... otherwise the call queues up
AcquireWait == /\ ~(semVal > 0 /\ waiting = 0)
               /\ waiting' = waiting + 1
               /\ UNCHANGED <<clock, lastTs, g, wireTs, nWire, semVal, cAcq, cOk, cFail, cSleep, cWoken, cSent, cRepl>>
\* the semaphore was released: its first waiter resumes
AcquireWake == /\ semVal > 0 /\ waiting > 0
               /\ semVal' = semVal - 1 /\ waiting' = waiting - 1 /\ cAcq' = cAcq + 1
               /\ UNCHANGED <<clock, lastTs, g, wireTs, nWire, cOk, cFail, cSleep, cWoken, cSent, cRepl>>

\* guard: now = timestamp(); proceed only if now > _last_command_timestamp (from `acquired` or after a sleep)
ReadPassA == /\ cAcq > 0 /\ clock > lastTs
             /\ cAcq' = cAcq - 1 /\ cOk' = cOk + 1 /\ lastTs' = clock /\ g' = clock
             /\ UNCHANGED <<clock, wireTs, nWire, semVal, waiting, cFail, cSleep, cWoken, cSent, cRepl>>
ReadPassW == /\ cWoken > 0 /\ clock > lastTs
             /\ cWoken' = cWoken - 1 /\ cOk' = cOk + 1 /\ lastTs' = clock /\ g' = clock
             /\ UNCHANGED <<clock, wireTs, nWire, semVal, waiting, cAcq, cFail, cSleep, cSent, cRepl>>
ReadFailA == /\ cAcq > 0 /\ clock <= lastTs
             /\ cAcq' = cAcq - 1 /\ cFail' = cFail + 1
             /\ UNCHANGED <<clock, lastTs, g, wireTs, nWire, semVal, waiting, cOk, cSleep, cWoken, cSent, cRepl>>
ReadFailW == /\ cWoken > 0 /\ clock <= lastTs
             /\ cWoken' = cWoken - 1 /\ cFail' = cFail + 1
             /\ UNCHANGED <<clock, lastTs, g, wireTs, nWire, semVal, waiting, cAcq, cOk, cSleep, cSent, cRepl>>
\* await asyncio.sleep(0.001) and its end (the wall clock may stand still meanwhile: Stall)
Sleep == /\ cFail > 0 /\ cFail' = cFail - 1 /\ cSleep' = cSleep + 1
         /\ UNCHANGED <<clock, lastTs, g, wireTs, nWire, semVal, waiting, cAcq, cOk, cWoken, cSent, cRepl>>
Wake == /\ cSleep > 0 /\ cSleep' = cSleep - 1 /\ cWoken' = cWoken + 1 /\ Advance
        /\ UNCHANGED <<lastTs, g, wireTs, nWire, semVal, waiting, cAcq, cOk, cFail, cSent, cRepl>>
\* build, sign with the reading that passed the guard, send; the clock may tick before the signer runs
Send == /\ cOk > 0 /\ cOk' = cOk - 1 /\ cSent' = cSent + 1
        /\ wireTs' = g /\ nWire' = nWire + 1 /\ g' = NoG /\ Advance
        /\ UNCHANGED <<lastTs, semVal, waiting, cAcq, cFail, cSleep, cWoken, cRepl>>
\* the forwarder answers, or the lifetime runs out
Reply == /\ cSent > 0 /\ cSent' = cSent - 1 /\ cRepl' = cRepl + 1 /\ Advance
         /\ UNCHANGED <<lastTs, g, wireTs, nWire, semVal, waiting, cAcq, cOk, cFail, cSleep, cWoken>>
\* the result is computed and the semaphore released
Finish == /\ cRepl > 0 /\ cRepl' = cRepl - 1 /\ semVal' = semVal + 1
          /\ UNCHANGED <<clock, lastTs, g, wireTs, nWire, waiting, cAcq, cOk, cFail, cSleep, cWoken, cSent>>

\* The caller cancels a call in progress (NfdReg: CancelWaiting / CancelSleeping / CancelSent). A call is suspended
\* in the queue of the semaphore, in the sleep of the guard loop or in the express of its command; it ends there:
\* a waiter leaves the queue, a holder gives the semaphore back - without a command (its own, if already sent, stays
\* on the wire). The clock may move in the run that follows.
CancelWait == /\ waiting > 0 /\ waiting' = waiting - 1 /\ Advance
              /\ UNCHANGED <<lastTs, g, wireTs, nWire, semVal, cAcq, cOk, cFail, cSleep, cWoken, cSent, cRepl>>
CancelSleep == /\ cSleep > 0 /\ cSleep' = cSleep - 1 /\ semVal' = semVal + 1 /\ Advance
               /\ UNCHANGED <<lastTs, g, wireTs, nWire, waiting, cAcq, cOk, cFail, cWoken, cSent, cRepl>>
CancelSent == /\ cSent > 0 /\ cSent' = cSent - 1 /\ semVal' = semVal + 1 /\ Advance
              /\ UNCHANGED <<lastTs, g, wireTs, nWire, waiting, cAcq, cOk, cFail, cSleep, cWoken, cRepl>>

Next == Tick \/ AcquireFree \/ AcquireWait \/ AcquireWake \/ ReadPassA \/ ReadPassW \/ ReadFailA \/ ReadFailW
        \/ Sleep \/ Wake \/ Send \/ Reply \/ Finish \/ CancelWait \/ CancelSleep \/ CancelSent
ISpec == Init /\ [][Next]_ivars

\* Apalache needs every variable assigned before it is constrained
TypeAssign ==
  /\ clock \in Int /\ lastTs \in Int /\ g \in Int /\ wireTs \in Int /\ nWire \in Int /\ semVal \in Int /\ waiting \in Int
  /\ cAcq \in Int /\ cOk \in Int /\ cFail \in Int /\ cSleep \in Int /\ cWoken \in Int /\ cSent \in Int /\ cRepl \in Int

Past == cAcq + cOk + cFail + cSleep + cWoken + cSent + cRepl      \* calls between Acquire and Finish

IndInv ==
  /\ semVal >= 0 /\ waiting >= 0 /\ nWire >= 0
  /\ cAcq >= 0 /\ cOk >= 0 /\ cFail >= 0 /\ cSleep >= 0 /\ cWoken >= 0 /\ cSent >= 0 /\ cRepl >= 0
  /\ semVal + Past = 1                               \* the semaphore discipline: one call past the semaphore at most
  /\ clock >= 0 /\ lastTs >= -1 /\ wireTs >= -1
  /\ lastTs <= clock                                 \* the guard only ever stores a reading of the clock
  /\ wireTs <= lastTs                                \* nothing on the wire is newer than the last accepted reading
  /\ (cOk > 0) => (g = lastTs /\ g > wireTs)         \* a call about to send holds a reading above everything sent so far
  /\ (cOk = 0) => g = NoG
  /\ (nWire = 0) <=> (wireTs = -1)

InitA == TypeAssign /\ Init
IndInit == TypeAssign /\ IndInv

\* C17 clauses on the abstraction
OneAtATime == cSent <= 1
OnePastSemaphore == Past <= 1
Safety == OneAtATime /\ OnePastSemaphore
\* action invariant: a command put on the wire carries a timestamp strictly above the previous command's
TsIncreases == (nWire' # nWire) => (nWire' = nWire + 1 /\ wireTs' > wireTs)
=============================================================================
