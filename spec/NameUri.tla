------------------------------ MODULE NameUri ------------------------------
(* C09 - executable reference for NDN name representations.

   A component is a record [t |-> 1..65535, v |-> Seq(0..255)].  A name is a sequence of
   components.  URI *text* is the sequence of its UTF-8 bytes (library output is pure ASCII).
   Numbers that may reach 2^64-1 never appear as TLC integers: a number is its big-endian
   base-256 digit sequence (8-bit limbs), decimal text is produced/consumed by long
   division / multiply-add on limb sequences.

   Grammar transcribed from the documentation of ndn.encoding.Name / Component:
     * CHARSET = unreserved characters + '=' '%'; anything else in a Name URI is escaped
       automatically (EscapeText) before the component is parsed;
     * component  ::=  [ type '=' ] escaped-value            (type: decimal 1..65535, 8 if absent)
                    |  'sha256digest=' hex | 'params-sha256=' hex       (types 1, 2)
                    |  ('seg'|'off'|'v'|'t'|'seq') '=' decimal           (types 50..58, value =
                                                   the number in its canonical 1/2/4/8-byte form)
     * no "additional periods" rule (documented deviation of python-ndn from the NDN URI scheme);
     * name: one leading and one trailing '/' are removed; what is left is split at '/';
       nothing left and at most one slash removed = the empty name ('//' is one empty component).

   Interpretation decisions (soundness, DESIGN 9):
     * the spelling the library chooses when printing is NOT prescribed: printed text is judged
       by parsing it back with UriToComp/UriToName; only "the canonical form uses no shorthand"
       is asserted on top (HasShorthand);
     * the reference parser is used as an oracle only for texts the spec itself generates or the
       library prints; what else the library accepts (e.g. '1_0=a') is not judged;
     * "encoded name" for the ordering clause = the list of encoded components (FormalName) and
       the Name TLV-VALUE (their concatenation).  The full Name TLV is not compared: its outer
       length field precedes the components, so no implementation can order it canonically.
     * "comparing" = lexicographic comparison of the OCTETS of the encodings.  The library has no comparison function
       of its own; a component is bytes | bytearray | memoryview (BinaryStr) and Name.decode / from_bytes hand out
       zero-copy memoryviews, on which Python defines == but no '<' (`decoded_a < decoded_b` raises TypeError, every
       mixed combination works).  Nothing is ordered WRONGLY by that, and the statement does not promise that a
       container is orderable by Python's '<'; for decoded x decoded the clause is therefore evaluated on
       bytes(component).  (Observation reported on the unchanged tree, triaged as not contradicting the statement.)
     * refusal is refusal whatever the exception class ('seg=-1' raises struct.error at every entry point alike), and
       what the library accepts outside this grammar at every entry point alike ('seg=1_3' = seg=13, '1_0=A' = 10=A:
       int() allows '_') denotes one component everywhere and prints back to reference text: not judged.   *)
EXTENDS Naturals, Sequences, FiniteSets, TLC

Err  == <<999>>                          \* failure sentinel for byte/text sequences
CErr == [t |-> 0, v |-> <<>>]            \* failure sentinel for components (0 is not a type)
NErr == <<CErr>>                         \* failure sentinel for names
Comp(t, v) == [t |-> t, v |-> v]

Min2(a, b) == IF a < b THEN a ELSE b
MinOf(S) == CHOOSE x \in S : \A y \in S : x <= y
Last(s) == s[Len(s)]

\* ------------------------------------------------------------------ characters
IsDigit(c) == c >= 48 /\ c <= 57
IsUpper(c) == c >= 65 /\ c <= 90
IsLower(c) == c >= 97 /\ c <= 122
Unreserved(c) == IsDigit(c) \/ IsUpper(c) \/ IsLower(c) \/ c \in {45, 46, 95, 126}   \* - . _ ~
InCharset(c) == Unreserved(c) \/ c \in {61, 37}                                        \* = %
HexVal(c) == IF IsDigit(c) THEN c - 48
             ELSE IF c >= 65 /\ c <= 70 THEN c - 55
             ELSE IF c >= 97 /\ c <= 102 THEN c - 87 ELSE 99
HexUp(n) == IF n < 10 THEN 48 + n ELSE 55 + n
HexLo(n) == IF n < 10 THEN 48 + n ELSE 87 + n

S_sha == <<115,104,97,50,53,54,100,105,103,101,115,116>>          \* "sha256digest"
S_par == <<112,97,114,97,109,115,45,115,104,97,50,53,54>>         \* "params-sha256"
AltTypes == {50, 52, 54, 56, 58}
AltPrefix(t) == CASE t = 50 -> <<115,101,103>>      \* seg
                  [] t = 52 -> <<111,102,102>>      \* off
                  [] t = 54 -> <<118>>              \* v
                  [] t = 56 -> <<116>>              \* t
                  [] t = 58 -> <<115,101,113>>      \* seq
AltType(p) == IF \E t \in AltTypes : AltPrefix(t) = p
              THEN CHOOSE t \in AltTypes : AltPrefix(t) = p ELSE 0

\* ------------------------------------------------------------------ numbers as limb sequences
RECURSIVE Trim(_)
Trim(v) == IF v = <<>> THEN <<>> ELSE IF Head(v) = 0 THEN Trim(Tail(v)) ELSE v
Reverse(s) == [i \in 1..Len(s) |-> s[Len(s) + 1 - i]]
PadTo(v, n) == [i \in 1..n |-> IF i <= n - Len(v) THEN 0 ELSE v[i - (n - Len(v))]]
CanonWidth(k) == IF k <= 1 THEN 1 ELSE IF k <= 2 THEN 2 ELSE IF k <= 4 THEN 4 ELSE 8
\* canonical (shortest of 1/2/4/8 bytes) encoding of the number whose trimmed big-endian digits are tv
NumBytes(tv) == PadTo(tv, CanonWidth(Len(tv)))
IsCanonNum(v) == Len(v) \in {1, 2, 4, 8} /\ v = NumBytes(Trim(v))

\* little-endian multiply-add: le * m + carry
RECURSIVE MulAddLE(_, _, _)
MulAddLE(le, m, carry) ==
  IF le = <<>> THEN (IF carry = 0 THEN <<>> ELSE <<carry % 256>> \o MulAddLE(<<>>, m, carry \div 256))
  ELSE LET x == Head(le) * m + carry IN <<x % 256>> \o MulAddLE(Tail(le), m, x \div 256)
RECURSIVE DecToLE(_, _, _)
DecToLE(s, i, acc) == IF i > Len(s) THEN acc ELSE DecToLE(s, i + 1, MulAddLE(acc, 10, s[i] - 48))
\* decimal text -> trimmed big-endian digits
DecToNum(s) == Trim(Reverse(DecToLE(s, 1, <<>>)))

\* big-endian long division by 10: <<quotient, remainder>>
RECURSIVE DivBE(_, _, _)
DivBE(be, r, q) == IF be = <<>> THEN <<q, r>>
                   ELSE LET x == r * 256 + Head(be) IN DivBE(Tail(be), x % 10, Append(q, x \div 10))
RECURSIVE DecOf(_)
DecOf(be) == LET tv == Trim(be) IN
             IF tv = <<>> THEN <<>> ELSE LET d == DivBE(tv, 0, <<>>) IN Append(DecOf(d[1]), 48 + d[2])
NumToDec(be) == IF Trim(be) = <<>> THEN <<48>> ELSE DecOf(be)

AllDigits(s) == Len(s) > 0 /\ \A i \in 1..Len(s) : IsDigit(s[i])
RECURSIVE DecVal(_, _, _)
DecVal(s, i, acc) == IF i > Len(s) THEN acc ELSE DecVal(s, i + 1, acc * 10 + (s[i] - 48))
RECURSIVE DecStr(_)
DecStr(n) == IF n < 10 THEN <<48 + n>> ELSE Append(DecStr(n \div 10), 48 + (n % 10))

\* ------------------------------------------------------------------ escaping
RECURSIVE PctDec(_, _, _)
PctDec(s, i, acc) ==
  IF i > Len(s) THEN acc
  ELSE IF s[i] = 37
       THEN (IF i + 2 <= Len(s) /\ HexVal(s[i+1]) < 16 /\ HexVal(s[i+2]) < 16
             THEN PctDec(s, i + 3, Append(acc, HexVal(s[i+1]) * 16 + HexVal(s[i+2])))
             ELSE Err)
       ELSE IF ~InCharset(s[i]) THEN Err ELSE PctDec(s, i + 1, Append(acc, s[i]))
PctDecode(s) == PctDec(s, 1, <<>>)

RECURSIVE HexDec(_, _, _)
HexDec(s, i, acc) ==
  IF i > Len(s) THEN acc
  ELSE IF i + 1 <= Len(s) /\ HexVal(s[i]) < 16 /\ HexVal(s[i+1]) < 16
       THEN HexDec(s, i + 2, Append(acc, HexVal(s[i]) * 16 + HexVal(s[i+1]))) ELSE Err
HexDecode(s) == HexDec(s, 1, <<>>)

Literal(b) == Unreserved(b)              \* bytes printed as themselves; '%' and '=' are escaped
EscU(b) == <<37, HexUp(b \div 16), HexUp(b % 16)>>
EscL(b) == <<37, HexLo(b \div 16), HexLo(b % 16)>>
RECURSIVE ConcatFrom(_, _, _)
ConcatFrom(ss, i, acc) == IF i > Len(ss) THEN acc ELSE ConcatFrom(ss, i + 1, acc \o ss[i])
Cat(ss) == ConcatFrom(ss, 1, <<>>)
Esc(v)      == Cat([i \in 1..Len(v) |-> IF Literal(v[i]) THEN <<v[i]>> ELSE EscU(v[i])])
EscLower(v) == Cat([i \in 1..Len(v) |-> IF Literal(v[i]) THEN <<v[i]>> ELSE EscL(v[i])])
EscAll(v)   == Cat([i \in 1..Len(v) |-> EscU(v[i])])
HexLower(v) == Cat([i \in 1..Len(v) |-> <<HexLo(v[i] \div 16), HexLo(v[i] % 16)>>])
HexUpper(v) == Cat([i \in 1..Len(v) |-> <<HexUp(v[i] \div 16), HexUp(v[i] % 16)>>])
\* what Name.from_str documents: characters outside CHARSET are escaped automatically ('%', '=' stay)
EscapeText(p) == Cat([i \in 1..Len(p) |-> IF InCharset(p[i]) THEN <<p[i]>> ELSE EscU(p[i])])
\* "raw" input form: every byte < 128 except '/', '%', '=' given literally
RawText(v) == Cat([i \in 1..Len(v) |-> IF v[i] < 128 /\ v[i] \notin {47, 37, 61} THEN <<v[i]>> ELSE EscU(v[i])])

\* Raw non-ASCII characters in URI text are their UTF-8 bytes (text = UTF-8 byte sequence); the library
\* escapes them automatically like any other character outside CHARSET.  "rawU" input form: a value that is
\* well-formed UTF-8 with at least one non-ASCII character, every character given literally except '/', '%', '='.
Cont(b) == b >= 128 /\ b <= 191
RECURSIVE Utf8From(_, _)
Utf8From(v, i) ==                     \* exact UTF-8 (no overlong forms, no surrogates, <= U+10FFFF)
  IF i > Len(v) THEN TRUE
  ELSE LET b == v[i]
           c(k) == i + k <= Len(v) /\ Cont(v[i + k])
       IN IF b < 128 THEN Utf8From(v, i + 1)
          ELSE IF b >= 194 /\ b <= 223 THEN c(1) /\ Utf8From(v, i + 2)
          ELSE IF b = 224 THEN c(1) /\ v[i + 1] >= 160 /\ c(2) /\ Utf8From(v, i + 3)
          ELSE IF b = 237 THEN c(1) /\ v[i + 1] <= 159 /\ c(2) /\ Utf8From(v, i + 3)
          ELSE IF b >= 225 /\ b <= 239 THEN c(1) /\ c(2) /\ Utf8From(v, i + 3)
          ELSE IF b = 240 THEN c(1) /\ v[i + 1] >= 144 /\ c(2) /\ c(3) /\ Utf8From(v, i + 4)
          ELSE IF b >= 241 /\ b <= 243 THEN c(1) /\ c(2) /\ c(3) /\ Utf8From(v, i + 4)
          ELSE IF b = 244 THEN c(1) /\ v[i + 1] <= 143 /\ c(2) /\ c(3) /\ Utf8From(v, i + 4)
          ELSE FALSE
IsUtf8(v) == Utf8From(v, 1)
HasNonAscii(v) == \E i \in 1..Len(v) : v[i] >= 128
RawUText(v) == Cat([i \in 1..Len(v) |-> IF v[i] \notin {47, 37, 61} THEN <<v[i]>> ELSE EscU(v[i])])

\* ------------------------------------------------------------------ component <-> text
TypePrefix(t) == IF t = 8 THEN <<>> ELSE DecStr(t) \o <<61>>
Canonical(c) == TypePrefix(c.t) \o Esc(c.v)
HasShorthandForm(c) == c.t \in {1, 2} \/ (c.t \in AltTypes /\ IsCanonNum(c.v))
CompToUri(c) == IF c.t = 1 THEN S_sha \o <<61>> \o HexLower(c.v)
                ELSE IF c.t = 2 THEN S_par \o <<61>> \o HexLower(c.v)
                ELSE IF c.t \in AltTypes /\ IsCanonNum(c.v) THEN AltPrefix(c.t) \o <<61>> \o NumToDec(c.v)
                ELSE Canonical(c)

EqPos(s) == {i \in 1..Len(s) : s[i] = 61}
UriToComp(s) ==
  IF s = <<>> THEN Comp(8, <<>>)
  ELSE IF \E i \in 1..Len(s) : ~InCharset(s[i]) THEN CErr
  ELSE IF Cardinality(EqPos(s)) > 1 THEN CErr
  ELSE IF EqPos(s) = {} THEN (LET v == PctDecode(s) IN IF v = Err THEN CErr ELSE Comp(8, v))
  ELSE LET e == MinOf(EqPos(s))
           pre == SubSeq(s, 1, e - 1)
           post == SubSeq(s, e + 1, Len(s))
       IN IF pre = S_sha THEN (LET v == HexDecode(post) IN IF v = Err THEN CErr ELSE Comp(1, v))
          ELSE IF pre = S_par THEN (LET v == HexDecode(post) IN IF v = Err THEN CErr ELSE Comp(2, v))
          ELSE IF AltType(pre) # 0
               THEN (IF AllDigits(post) /\ Len(post) <= 20
                     THEN (LET n == DecToNum(post) IN IF Len(n) > 8 THEN CErr ELSE Comp(AltType(pre), NumBytes(n)))
                     ELSE CErr)
          ELSE IF ~AllDigits(pre) \/ Len(pre) > 5 THEN CErr
          ELSE LET t == DecVal(pre, 1, 0) IN
               IF t = 0 \/ t > 65535 THEN CErr
               ELSE LET v == PctDecode(post) IN IF v = Err THEN CErr ELSE Comp(t, v)

\* ---- arbitrary component TEXT (any Unicode string = the sequence of its UTF-8 octets) at the component-level entry points.
\* Component.from_str documents "all characters should be from CHARSET, otherwise ValueError": the texts it has to accept
\* are those of StrictComp (every octet of a non-ASCII character is outside CHARSET, whatever Unicode class the character
\* has: letter, decimal digit of another script, full-width form of a CHARSET character, mark, character outside the BMP).
\* A str element of a component list and a piece of a Name URI are escaped first: TextComp is the component a text denotes
\* wherever it is an accepted input form.
\* Interpretation (least likely to alarm): refusing a text with characters outside CHARSET is what the documentation says,
\* but the statement ("every accepted input form of the same name normalises to the same components") is also met by an
\* entry point that accepts such a text with its Name-level meaning TextComp; so acceptance is judged, not demanded or
\* forbidden.  A text the reference grammar does not cover (TextComp = CErr, e.g. '1_0=a') is not judged against the
\* reference; there only the statement itself is applied: what Component.from_str accepts must normalise (through the
\* Name-level reading of the same text) to the same component.
StrictComp(s) == UriToComp(s)
TextComp(s)   == UriToComp(EscapeText(s))
Ans(c) == IF c = CErr THEN [k |-> "err", c |-> CErr] ELSE [k |-> "ok", c |-> c]
\* verdict on one text: got = answer of Component.from_str(s), viaName = answer of the Name-level reading of [s]
\* (both [k |-> "ok", c |-> component] or [k |-> "err", ...])
FromStrClauses(s, got, viaName) ==
  (IF got.k = "ok" /\ TextComp(s) # CErr /\ got.c # TextComp(s) THEN {"comp_from_str"} ELSE {})
  \cup (IF got.k = "err" /\ StrictComp(s) # CErr THEN {"comp_from_str_refused"} ELSE {})
  \cup (IF got.k = "ok" /\ TextComp(s) = CErr /\ (viaName.k = "err" \/ viaName.c # got.c)
        THEN {"comp_from_str_alone"} ELSE {})

\* "no naming-convention shorthand": whatever precedes '=' is a decimal type number
HasShorthand(s) == \E e \in EqPos(s) : ~AllDigits(SubSeq(s, 1, e - 1))

\* every spelling of a component the reference generates for stage B: [k |-> style, s |-> text]
Styles == {"canonU", "canonL", "allesc", "typed", "raw", "rawU", "short", "shortU"}
StylesOf(c) == {"canonU", "canonL", "allesc", "typed", "raw"}
               \cup (IF HasShorthandForm(c) THEN {"short"} ELSE {})
               \cup (IF c.t \in {1, 2} THEN {"shortU"} ELSE {})
               \cup (IF HasNonAscii(c.v) /\ IsUtf8(c.v) THEN {"rawU"} ELSE {})
\* a style that does not apply to a component falls back to its canonical text
FormOf(c, k) ==
  CASE k = "canonL" -> TypePrefix(c.t) \o EscLower(c.v)
    [] k = "allesc" -> TypePrefix(c.t) \o EscAll(c.v)
    [] k = "typed"  -> DecStr(c.t) \o <<61>> \o Esc(c.v)
    [] k = "raw"    -> TypePrefix(c.t) \o RawText(c.v)
    [] k = "rawU"   -> (IF HasNonAscii(c.v) /\ IsUtf8(c.v) THEN TypePrefix(c.t) \o RawUText(c.v) ELSE Canonical(c))
    [] k = "short"  -> CompToUri(c)
    [] k = "shortU" -> (IF c.t = 1 THEN S_sha \o <<61>> \o HexUpper(c.v)
                        ELSE IF c.t = 2 THEN S_par \o <<61>> \o HexUpper(c.v) ELSE Canonical(c))
    [] OTHER        -> Canonical(c)
CompForms(c) == {[k |-> k, s |-> FormOf(c, k)] : k \in StylesOf(c)}

\* ------------------------------------------------------------------ name <-> text
RECURSIVE JoinFrom(_, _, _)
JoinFrom(ts, i, acc) == IF i > Len(ts) THEN acc
                        ELSE JoinFrom(ts, i + 1, (IF i = 1 THEN acc ELSE Append(acc, 47)) \o ts[i])
Join(ts) == JoinFrom(ts, 1, <<>>)

\* split at '/': piece j runs from the j-th start to the next slash
Split(s) ==
  LET starts == {1} \cup {i + 1 : i \in {j \in 1..Len(s) : s[j] = 47}}
      nth(j) == CHOOSE p \in starts : Cardinality({q \in starts : q < p}) = j - 1
      endOf(p) == MinOf({q \in p..(Len(s) + 1) : q = Len(s) + 1 \/ s[q] = 47})
  IN [j \in 1..Cardinality(starts) |-> SubSeq(s, nth(j), endOf(nth(j)) - 1)]

UriToName(s) ==
  LET lead  == s # <<>> /\ s[1] = 47
      s1    == IF lead THEN Tail(s) ELSE s
      trail == s1 # <<>> /\ Last(s1) = 47
      s2    == IF trail THEN SubSeq(s1, 1, Len(s1) - 1) ELSE s1
      cnt   == (IF lead THEN 1 ELSE 0) + (IF trail THEN 1 ELSE 0)
  IN IF s2 = <<>> /\ cnt <= 1 THEN <<>>
     ELSE LET ps == Split(s2)
              cs == [i \in 1..Len(ps) |-> UriToComp(EscapeText(ps[i]))]
          IN IF \E i \in 1..Len(cs) : cs[i] = CErr THEN NErr ELSE cs

\* printing: a trailing component whose text is empty needs one more '/'
NameText(ts) == <<47>> \o Join(ts) \o (IF ts # <<>> /\ Last(ts) = <<>> THEN <<47>> ELSE <<>>)
NameToUri(n)     == NameText([i \in 1..Len(n) |-> CompToUri(n[i])])
CanonicalName(n) == NameText([i \in 1..Len(n) |-> Canonical(n[i])])

\* all name-level spellings for stage B: uniform component style x leading slash x trailing slash
NameFormsOf(ts) ==
  LET body == Join(ts)
      must == ts # <<>> /\ Last(ts) = <<>>                  \* extra trailing slash is mandatory
      tl   == IF must THEN <<47>> ELSE <<>>
      nolead == ts # <<>> /\ ts[1] # <<>>                    \* leading slash may be dropped
      opt  == ts # <<>> /\ ~must                             \* one optional trailing slash is removed
  IN {[lead |-> TRUE, trail |-> FALSE, s |-> <<47>> \o body \o tl]}
     \cup (IF opt THEN {[lead |-> TRUE, trail |-> TRUE, s |-> <<47>> \o body \o <<47>>]} ELSE {})
     \cup (IF nolead THEN {[lead |-> FALSE, trail |-> FALSE, s |-> body \o tl]} ELSE {})
     \cup (IF nolead /\ opt THEN {[lead |-> FALSE, trail |-> TRUE,  s |-> body \o <<47>>]} ELSE {})
     \cup (IF ts = <<>> THEN {[lead |-> FALSE, trail |-> FALSE, s |-> <<>>]} ELSE {})
\* canonical and shorthand styles in every slash variant, the other styles in the plain variant
\* (each component spelling is exercised on its own through CompForms)
NameForms(n) ==
  UNION {{[k |-> k, lead |-> f.lead, trail |-> f.trail, s |-> f.s] :
            f \in {g \in NameFormsOf([i \in 1..Len(n) |-> FormOf(n[i], k)]) :
                      k \in {"canonU", "short"} \/ (g.lead /\ ~g.trail)}} : k \in Styles}

\* ------------------------------------------------------------------ wire
VarNum(n) == IF n <= 252 THEN <<n>>
             ELSE IF n <= 65535 THEN <<253, n \div 256, n % 256>>
             ELSE <<254, n \div 16777216, (n \div 65536) % 256, (n \div 256) % 256, n % 256>>
Enc(c) == VarNum(c.t) \o VarNum(Len(c.v)) \o c.v
EncList(n) == [i \in 1..Len(n) |-> Enc(n[i])]
EncNameValue(n) == Cat(EncList(n))
EncName(n) == LET val == EncNameValue(n) IN <<7>> \o VarNum(Len(val)) \o val

\* var-number at position i: [val, size]; size 0 = malformed / not shortest / out of the modelled range
ReadVar(w, i) ==
  IF i > Len(w) THEN [val |-> 0, size |-> 0]
  ELSE IF w[i] <= 252 THEN [val |-> w[i], size |-> 1]
  ELSE IF w[i] = 253 THEN (IF i + 2 <= Len(w) /\ w[i+1] * 256 + w[i+2] >= 253
                           THEN [val |-> w[i+1] * 256 + w[i+2], size |-> 3] ELSE [val |-> 0, size |-> 0])
  ELSE IF w[i] = 254 THEN (IF i + 4 <= Len(w) /\ w[i+1] < 128 /\ (w[i+1] > 0 \/ w[i+2] > 0)
                           THEN [val |-> ((w[i+1] * 256 + w[i+2]) * 256 + w[i+3]) * 256 + w[i+4], size |-> 5]
                           ELSE [val |-> 0, size |-> 0])
  ELSE [val |-> 0, size |-> 0]
RECURSIVE DecComps(_, _, _, _)
DecComps(w, i, end, acc) ==
  IF i = end THEN acc
  ELSE LET t == ReadVar(w, i) IN
       IF t.size = 0 \/ t.val = 0 \/ t.val > 65535 THEN NErr
       ELSE LET l == ReadVar(w, i + t.size)
                st == i + t.size + l.size
            IN IF l.size = 0 \/ st + l.val > end THEN NErr
               ELSE DecComps(w, st + l.val, end, Append(acc, Comp(t.val, SubSeq(w, st, st + l.val - 1))))
WireToName(w) ==
  IF w = <<>> \/ w[1] # 7 THEN NErr
  ELSE LET l == ReadVar(w, 2) IN
       IF l.size = 0 \/ 1 + l.size + l.val # Len(w) THEN NErr
       ELSE DecComps(w, 2 + l.size, Len(w) + 1, <<>>)

\* ------------------------------------------------------------------ prefix and order
\* shaped like the code: length test, then equality of the slice
IsPrefix(a, b) == Len(a) <= Len(b) /\ SubSeq(b, 1, Len(a)) = a
\* the statement: component-wise equality of the prefix
PrefixByComponents(a, b) == Len(a) <= Len(b) /\ \A i \in 1..Len(a) : a[i] = b[i]

BytesLess(a, b) == LET d == {i \in 1..Min2(Len(a), Len(b)) : a[i] # b[i]} IN
                   IF d = {} THEN Len(a) < Len(b) ELSE a[MinOf(d)] < b[MinOf(d)]
\* NDN canonical order: type, then length, then value bytes
CompLess(a, b) == \/ a.t < b.t
                  \/ a.t = b.t /\ Len(a.v) < Len(b.v)
                  \/ a.t = b.t /\ Len(a.v) = Len(b.v) /\ BytesLess(a.v, b.v)
NameLess(a, b) == LET d == {i \in 1..Min2(Len(a), Len(b)) : a[i] # b[i]} IN
                  IF d = {} THEN Len(a) < Len(b) ELSE CompLess(a[MinOf(d)], b[MinOf(d)])
\* how Python compares two lists of byte strings
ListLess(x, y) == LET d == {i \in 1..Min2(Len(x), Len(y)) : x[i] # y[i]} IN
                  IF d = {} THEN Len(x) < Len(y) ELSE BytesLess(x[MinOf(d)], y[MinOf(d)])
=============================================================================
