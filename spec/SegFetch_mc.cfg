SPECIFICATION Spec
CONSTANTS MaxN = 3 MaxRetry = 3
INVARIANT TypeOK
INVARIANT InOrderOnce
INVARIANT DoneComplete
INVARIANT RetryBound
INVARIANT FailsIffExhausted
INVARIANT NoSkip
INVARIANT DiscoveryShape
PROPERTY Terminates
CHECK_DEADLOCK FALSE
