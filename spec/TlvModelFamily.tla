--------------------------- MODULE TlvModelFamily ---------------------------
(* C08: the fixed family of small model classes, the boundary value domains, the set of value
   assignments TLC enumerates for each class, and the edits (insertion of an unknown
   non-critical / unknown critical element, duplication of a critical element, transposition
   making a critical element out of order) at every position of every nesting level.
   No variables: used by TlvModelC08 (laws on the machine) and TlvModelVec (vectors for the
   implementation). K = how many fields may leave their default value at once when the full
   product of the boundary sets is larger than Cap.
   Chain(s, v, 1) = the life of an instance holding v (TlvModelLife): one change per field, in
   place where the field kind has an in-place operation.                                      *)
EXTENDS TlvModelLife
CONSTANTS K, Cap, EditK

N(i)  == NumOfInt(i)
R(v, r) == [v |-> v, r |-> r]
Fld(d) == [k |-> "field", d |-> d]
Inc(decl) == [k |-> "include", base |-> decl]
Cls(name, entries) == [cname |-> name, entries |-> entries]
Plain(name, ds) == Cls(name, [i \in 1 .. Len(ds) |-> Fld(ds[i])])

\* ------------------------------------------------------------------ the family
Inner  == <<FUint("x", N(129)), FBytes("y", N(130))>>
L3     == <<FUint("c", N(129))>>
L2     == <<FModel("b", N(129), L3, FALSE), FBool("d", N(131))>>
ClsA   == Plain("A", <<FUint("a1", N(129)), FBytes("a2", N(130))>>)
ClsB   == Cls("B", <<Inc(ClsA), Fld(FUint("b", N(131)))>>)
ClsC   == Cls("C", <<Inc(ClsA), Fld(FText("c", N(133)))>>)

Family == <<
  Plain("Uints",  <<FUint("a", N(129)), FUint("b", N(130)), FUintFix("c", N(131), 2)>>),
  Plain("Fixed",  <<FUintFix("f1", N(1), 1), FUintFix("f2", N(3), 2), FUintFix("f4", N(5), 4), FUintFix("f8", N(9), 8)>>),
  Plain("Strs",   <<FBytes("b", N(129)), FText("s", N(131)), FBool("flag", N(133))>>),
  Plain("Names",  <<FName("n", N(7)), FName("m", N(135)), FUint("u", N(137))>>),
  Plain("Nested", <<FModel("inner", N(129), Inner, FALSE), FUint("z", N(131))>>),
  Plain("Nested3", <<FModel("a", N(129), L2, FALSE), FText("e", N(133))>>),
  Plain("RepU",   <<FRep("r", FUint("r", N(129))), FUint("t", N(131))>>),
  Plain("RepM",   <<FRep("r", FModel("r", N(129), Inner, FALSE)), FRep("n", FName("n", N(7))), FRep("s", FText("s", N(133)))>>),
  Plain("MapU",   <<FMap("m", FUint("k", N(133)), FBytes("v", N(135))), FUint("u", N(137))>>),
  Plain("MapT",   <<FMap("m", FText("k", N(133)), FModel("v", N(135), Inner, FALSE))>>),
  Cls("Diamond",  <<Inc(ClsB), Inc(ClsC), Fld(FBool("d", N(135)))>>),
  Cls("Override", <<Inc(ClsA), Fld(FBytes("a1", N(137))), Fld(FUint("e", N(139)))>>),
  Plain("IcModel", <<FModel("m", N(129), Inner, TRUE), FUint("z", N(131))>>),
  Plain("BigT",   <<FUint("a", N(252)), FUint("b", N(253)), FBytes("c", N(65535)), FBool("d", <<1, 1>>),
                    FUint("e", N2p32m1), FText("f", N2p32)>>),
  \* byte-string keys (added after a round-6 seed agent observed that such a map does not decode its own encoding)
  Plain("MapB",   <<FMap("m", FBytes("k", N(133)), FUint("v", N(135))), FBool("t", N(137))>>)
>>
SchemaOf(f) == Collect(Family[f])

\* ------------------------------------------------------------------ boundary domains
UintB  == {N0, N255, N256, N65535, N65536, N2p32m1, N2p32, N2p64m1}
BytesB == {<<>>, <<R(7, 1)>>, <<R(171, 252)>>, <<R(1, 1), R(171, 252)>>, <<R(0, 65535)>>, <<R(255, 65535), R(0, 1)>>}
\* text: 1..4-byte UTF-8 characters; byte lengths 252 / 253 / 254 reached with 2-byte characters;
\* 65535 / 65536 characters; 65536 bytes out of 32768 characters
TextB  == {<<>>, <<R(97, 1)>>, <<R(233, 1)>>, <<R(8364, 1)>>, <<R(119070, 1)>>,
           <<R(97, 1), R(233, 1), R(8364, 1), R(119070, 1)>>,
           <<R(233, 126)>>, <<R(97, 1), R(233, 126)>>, <<R(233, 127)>>,
           <<R(97, 65535)>>, <<R(97, 65536)>>, <<R(233, 32768)>>}
Comp(t, runs) == [t |-> t, runs |-> runs]
NameB  == {<<>>, <<Comp(N(8), <<R(97, 1)>>)>>, <<Comp(N(8), <<>>), Comp(N(32), <<R(97, 1), R(98, 1)>>)>>,
           <<Comp(N(8), <<R(120, 252)>>), Comp(N(54), <<R(1, 1), R(0, 1)>>)>>,
           <<Comp(N(8), <<R(120, 253)>>)>>}

UintV(n) == [k |-> "uint", n |-> n]
RECURSIVE Dom(_, _), DefaultOf(_), ModelDom(_, _), Prod(_)
Prod(doms) == IF doms = <<>> THEN {<<>>}
              ELSE {<<x>> \o rest : x \in Head(doms), rest \in Prod(Tail(doms))}
\* default = a typical small present value
DefaultOf(d) ==
  CASE d.kind = "uint" -> UintV(<<5>>)
    [] d.kind = "bool" -> [k |-> "bool"]
    [] d.kind = "bytes" -> [k |-> "bytes", runs |-> <<R(7, 1)>>]
    [] d.kind = "text" -> [k |-> "text", runs |-> <<R(97, 1), R(233, 1)>>]
    [] d.kind = "name" -> [k |-> "name", comps |-> <<Comp(N(8), <<R(97, 1)>>)>>]
    [] d.kind = "model" -> [k |-> "model", v |-> [i \in 1 .. Len(d.sub) |-> DefaultOf(d.sub[i])]]
    [] d.kind = "repeated" -> [k |-> "list", items |-> <<DefaultOf(d.elem[1])>>]
    [] d.kind = "map" -> [k |-> "map", items |-> <<[key |-> DefaultOf(d.elem[1]), val |-> DefaultOf(d.elem[2])]>>]
\* lvl 0: full boundary set; lvl >= 1 (inside models, lists, maps): none / default / one boundary
Dom(d, lvl) ==
  CASE d.kind = "uint" ->
         (IF lvl = 0 THEN {None} \cup {UintV(n) : n \in {x \in UintB : d.fixed = 0 \/ FitsWidth(x, d.fixed)}}
          ELSE {None, DefaultOf(d), UintV(IF d.fixed \in {0, 2, 4, 8} THEN N256 ELSE N255)})
    [] d.kind = "bool" -> {None, [k |-> "bool"]}
    [] d.kind = "bytes" ->
         (IF lvl = 0 THEN {None} \cup {[k |-> "bytes", runs |-> r] : r \in BytesB}
          ELSE {None, DefaultOf(d), [k |-> "bytes", runs |-> <<R(1, 1), R(171, 252)>>]})
    [] d.kind = "text" ->
         (IF lvl = 0 THEN {None} \cup {[k |-> "text", runs |-> r] : r \in TextB}
          ELSE {None, DefaultOf(d), [k |-> "text", runs |-> <<R(8364, 1)>>]})
    [] d.kind = "name" ->
         (IF lvl = 0 THEN {None} \cup {[k |-> "name", comps |-> n] : n \in NameB}
          ELSE {None, DefaultOf(d), [k |-> "name", comps |-> <<>>]})
    [] d.kind = "model" -> {None} \cup {[k |-> "model", v |-> mv] : mv \in ModelDom(d.sub, lvl + 1)}
    [] d.kind = "repeated" ->
         LET E == Dom(d.elem[1], lvl + 1) \ {None}
             E0 == IF lvl = 0 THEN Dom(d.elem[1], IF d.elem[1].kind = "model" THEN 1 ELSE 0) \ {None} ELSE E
         IN {[k |-> "list", items |-> <<>>]} \cup {[k |-> "list", items |-> <<a>>] : a \in E0}
            \cup {[k |-> "list", items |-> <<a, b>>] : a, b \in E}
            \cup {[k |-> "list", items |-> <<a, a, b>>] : a, b \in {DefaultOf(d.elem[1])} \cup (IF lvl = 0 THEN E ELSE {})}
    [] d.kind = "map" ->
         LET KD == Dom(d.elem[1], lvl + 1) \ {None}
             VD == Dom(d.elem[2], lvl + 1) \ {None}
         IN {[k |-> "map", items |-> <<>>]}
            \cup {[k |-> "map", items |-> <<[key |-> a, val |-> x]>>] : a \in KD, x \in VD}
            \cup {[k |-> "map", items |-> <<[key |-> ab[1], val |-> DefaultOf(d.elem[2])], [key |-> ab[2], val |-> y]>>] :
                     ab \in {q \in KD \X KD : q[1] # q[2]}, y \in VD}
ModelDom(s, lvl) == Prod([i \in 1 .. Len(s) |-> Dom(s[i], lvl)])

\* assignments enumerated for a top-level schema: the full product when small, else all
\* assignments in which at most k fields leave their default
RECURSIVE CardProd(_)
CardProd(doms) == IF doms = <<>> THEN 1
                  ELSE LET r == CardProd(Tail(doms)) IN IF r > 1000000 THEN r ELSE Cardinality(Head(doms)) * r
AtMost(s, k) ==
  LET n == Len(s)
      doms == [i \in 1 .. n |-> Dom(s[i], 0)]
      defs == [i \in 1 .. n |-> DefaultOf(s[i])]
  IN UNION {Prod([i \in 1 .. n |-> IF i \in S THEN doms[i] ELSE {defs[i]}]) :
               S \in {T \in SUBSET (1 .. n) : Cardinality(T) <= k}}
\* assignments on which the edits are applied (smaller: every edit position x kind multiplies)
EditAssign(s) == AtMost(s, EditK)
Assign(s) == LET doms == [i \in 1 .. Len(s) |-> Dom(s[i], 0)]
             IN (IF CardProd(doms) <= Cap THEN Prod(doms) ELSE AtMost(s, K)) \cup EditAssign(s)

\* ------------------------------------------------------------------ lives (TlvModelLife)
\* another value of the same field: the first of its nested domain that differs from the current one
Other(d, cur) == CHOOSE x \in Dom(d, 1) \ {cur} : TRUE
(* the change made to field i of an instance currently holding v:
     repeated field          the list grows in place (append)
     map field               empty: an entry is put in place; otherwise its first entry is deleted in place
     sub-model (present)     the first field of the SUB-model is assigned (the top-level instance sees no assignment)
     anything else           the field of the instance itself is assigned another value               *)
ChainStep(s, v, i) ==
  LET d == s[i] IN
  CASE d.kind = "repeated" -> Mut(<<>>, i, "append", 0, None, DefaultOf(d.elem[1]))
    [] d.kind = "map" -> (IF v[i].items = <<>> THEN Mut(<<>>, i, "put", 0, DefaultOf(d.elem[1]), DefaultOf(d.elem[2]))
                          ELSE Mut(<<>>, i, "del", 1, None, None))
    [] d.kind = "model" /\ v[i].k = "model" -> Mut(<<<<i, 0>>>>, 1, "set", 0, None, Other(d.sub[1], v[i].v[1]))
    [] OTHER -> Mut(<<>>, i, "set", 0, None, Other(d, v[i]))
RECURSIVE Chain(_, _, _)
Chain(s, v, i) == IF i > Len(s) THEN <<>>
                  ELSE LET m == ChainStep(s, v, i) IN <<m>> \o Chain(s, Mutate(s, v, m), i + 1)
\* second round: what the first round put in place is changed again (a list element replaced by a boundary value,
\* the sub-model field assigned once more, ...), so that every kind of change also FOLLOWS an in-place change
LifeOf(s, v) == LET c1 == Chain(s, v, 1)
                    v1 == IF c1 = <<>> THEN v ELSE Lives(s, v, c1)[Len(c1)]
                IN c1 \o Chain(s, v1, 1)

\* ------------------------------------------------------------------ edits
PickFrom(cands, S, p) == LET ok == SelectSeq(cands, LAMBDA x : x \notin S)
                         IN ok[(p % Len(ok)) + 1]
NCType(s, p) == PickFrom(<<N(250), N(65534), <<0, 2>>, N(2), N(1000)>>, TypesOf(s), p)
UCType(s, p) == PickFrom(<<N(251), N(65533), <<1, 2>>, N(99), N(1001)>>, TypesOf(s), p)
NCElem(s, p) == Leaf(NCType(s, p), 2, <<R(170, 2)>>)
UCElem(s, p) == Leaf(UCType(s, p), 0, <<>>)

FieldAt(taken, p) == LET C == {i \in 1 .. Len(taken) : taken[i][2] = p} IN
                     IF C = {} THEN 0 ELSE taken[MinOf(C)][1]
Ed(op, pos, src, elem, kind, expect) ==
  [path |-> <<>>, op |-> op, pos |-> pos, src |-> src, elem |-> elem, kind |-> kind, expect |-> expect]
NoElem == Leaf(<<>>, 0, <<>>)

(* The laws, stated per level (s = schema of the level, ic = its ignore_critical, L = its
   elements as produced by Encode):
     nc  : an unknown non-critical element inserted at any position is ignored
     uc  : an unknown critical element at any position rejects (is ignored when ic)
     rep : a copy of the element of a non-repeated critical field, at any position, rejects
     ooo : two adjacent elements of different fields transposed, the one now second being
           critical (and not the value half of a map entry), rejects                       *)
LevelEdits(s, ic, L) ==
  LET tk == RunScan(s, FALSE, L).taken
      f(p) == FieldAt(tk, p)
      single(j) == f(j) # 0 /\ s[f(j)].kind \notin {"repeated", "map"}
  IN {Ed("ins", p, 0, NCElem(s, p), "nc", "same") : p \in 0 .. Len(L)}
     \cup {Ed("ins", p, 0, UCElem(s, p), "uc", IF ic THEN "same" ELSE "reject") : p \in 0 .. Len(L)}
     \cup (IF DistinctTypes(s) /\ ~ic
           THEN {Ed("dup", p, j, NoElem, "rep", "reject") :
                    p \in 0 .. Len(L), j \in {x \in 1 .. Len(L) : single(x) /\ IsOdd(L[x].t)}}
                \cup {Ed("swap", j, 0, NoElem, "ooo", "reject") :
                    j \in {x \in 1 .. Len(L) - 1 : /\ f(x) # 0 /\ f(x + 1) # 0 /\ f(x) # f(x + 1)
                                                   /\ IsOdd(L[x].t) /\ s[f(x)].kind # "map"}}
           ELSE {})

SubDesc(d, e) == CASE d.kind = "model" -> <<d>>
                   [] d.kind = "repeated" /\ d.elem[1].kind = "model" -> <<d.elem[1]>>
                   [] d.kind = "map" /\ d.elem[2].kind = "model" /\ e.t = d.elem[2].t -> <<d.elem[2]>>
                   [] OTHER -> <<>>
RECURSIVE AllEdits(_, _, _)
AllEdits(s, ic, L) ==
  LET tk == RunScan(s, FALSE, L).taken IN
  LevelEdits(s, ic, L)
  \cup UNION {LET i == FieldAt(tk, p)
                  sd == IF i = 0 THEN <<>> ELSE SubDesc(s[i], L[p])
              IN IF sd = <<>> THEN {}
                 ELSE {[e EXCEPT !.path = <<p>> \o @] : e \in AllEdits(sd[1].sub, sd[1].ic, L[p].kids)}
              : p \in 1 .. Len(L)}

ApplyLevel(L, e) ==
  CASE e.op = "ins"  -> Insert(L, e.pos, e.elem)
    [] e.op = "dup"  -> Insert(L, e.pos, L[e.src])
    [] e.op = "swap" -> [i \in 1 .. Len(L) |-> IF i = e.pos THEN L[e.pos + 1] ELSE IF i = e.pos + 1 THEN L[e.pos] ELSE L[i]]
RECURSIVE Apply(_, _)
Apply(L, e) == IF e.path = <<>> THEN ApplyLevel(L, e)
               ELSE [L EXCEPT ![Head(e.path)].kids = Apply(@, [e EXCEPT !.path = Tail(@)])]
=============================================================================
