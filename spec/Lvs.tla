------------------------------- MODULE Lvs -------------------------------
(* Light VerSec: the meaning of the SOURCE TEXT of a trust schema (C11, C12, C13).
   Written from docs/src/lvs/lvs.rst only; nothing here looks at the compiler or the tree.

   A schema is the abstract syntax of the text, read from JSON:
     S.rules : Seq([id   : rule identifier as written, e.g. "#site", "#_tmp",
                    name : Seq(item),
                    cons : Seq(Seq([pat : identifier, opts : Seq(opt)])),   \* DNF: alternatives of constraint sets
                    sign : Seq(rule identifier)])
     item : [k |-> "v", v |-> component] | [k |-> "p", p |-> identifier] | [k |-> "r", r |-> rule identifier]
     opt  : [k |-> "v", v |-> component] | [k |-> "p", p |-> identifier]
          | [k |-> "f", f |-> "$fn", args |-> Seq([k |-> "v", v] | [k |-> "p", p])]
   Several entries of S.rules with the same id are redefinitions (alternatives).
   Components are strings (the URI form of one name component); names are sequences of them.

   Deviation flags (record dev, all FALSE for the documented meaning) describe KNOWN departures of the
   implementation so that a mismatch can be attributed exactly (DESIGN 7.4):
     dev.temprep  - DEV_TempConsLostOnRepeatedReference (compiler): when the same rule is inlined more than
                    once into one expanded name, all copies of one textual temporary pattern share a number;
                    the first copy met carries the constraints of every copy, later copies carry none.
     dev.prebound - DEV_PreboundSkipsConstraints (checker): a named pattern that already has a value when
                    the matching of a name starts (carried over from the packet) is only compared, the
                    constraints the key rule puts on it are not evaluated.                                *)
EXTENDS Naturals, Sequences, FiniteSets, TLC

NoDev == [temprep |-> FALSE, prebound |-> FALSE]

IsTempPat(p)  == SubSeq(p, 1, 1) = "_"
IsTempRule(r) == SubSeq(r, 2, 2) = "_"          \* "#_..."

NRules(S)      == Len(S.rules)
DefsOf(S, rid) == {i \in 1..NRules(S) : S.rules[i].id = rid}
RuleIds(S)     == {S.rules[i].id : i \in 1..NRules(S)}
RefsOf(def)    == {def.name[j].r : j \in {q \in 1..Len(def.name) : def.name[q].k = "r"}}
SeqToSet(s)    == {s[j] : j \in 1..Len(s)}

-----------------------------------------------------------------------------
(* Components, user functions *)

DigestComp == "sha256digest=0"      \* abstract stand-in for an ImplicitSha256DigestComponent
ParamsDigestComp == "params-sha256=0000000000000000000000000000000000000000000000000000000000000000"
                                    \* a ParametersSha256DigestComponent: an ordinary component (never stripped), of its own type
TypeOf(c) == IF c = DigestComp THEN "d"
             ELSE IF c = ParamsDigestComp THEN "pd"
             ELSE IF Len(c) >= 2 /\ SubSeq(c, 1, 2) = "v=" THEN "v"
             \* two component types whose TLV-TYPE number takes the three-octet form (both start with 0xFD on the wire)
             ELSE IF Len(c) >= 4 /\ SubSeq(c, 1, 4) = "300=" THEN "t300"
             ELSE IF Len(c) >= 4 /\ SubSeq(c, 1, 4) = "301=" THEN "t301"
             ELSE "g"
StripDigest(n) == IF Len(n) > 0 /\ n[Len(n)] = DigestComp THEN SubSeq(n, 1, Len(n) - 1) ELSE n

Unbound == "?unbound?"              \* value of a pattern argument that has no value yet
(* $eq, $eq_type: the library's built-ins. $in, $isv, $ne, $true: harness functions (registered by the
   harness with exactly this meaning). A function not listed holds for nothing.
   The identifiers below are the CANONICAL names of the meanings; which meaning an identifier written in a
   schema has is decided by the function table of the checker that reads it (see Retab). *)
Fn(f, c, args) ==
  IF f = "$eq" THEN \A j \in 1..Len(args) : args[j] = c
  ELSE IF f = "$eq_type" THEN \A j \in 1..Len(args) : args[j] # Unbound /\ TypeOf(args[j]) = TypeOf(c)
  ELSE IF f = "$in" THEN \E j \in 1..Len(args) : args[j] = c
  ELSE IF f = "$isv" THEN TypeOf(c) = "v"
  ELSE IF f = "$ne" THEN \A j \in 1..Len(args) : args[j] # c
  ELSE IF f = "$true" THEN TRUE
  ELSE FALSE

(* Function tables (C11: "user functions").  A checker is constructed with a dictionary of user functions of
   its own; several checkers may be alive in one process, and the SAME identifier may be given different
   functions in different dictionaries.  A table tab maps identifiers as written in the schema to canonical
   meanings (identifiers outside DOMAIN tab keep their canonical meaning).  A checker constructed with table
   tab reads schema S as Retab(S, tab) - whatever other checkers exist, were constructed before or after it,
   from the same model object, the same bytes or another compilation. *)
TabName(tab, f) == IF f \in DOMAIN tab THEN tab[f] ELSE f
RetabOpt(o, tab) == IF o.k = "f" THEN [k |-> "f", f |-> TabName(tab, o.f), args |-> o.args] ELSE o
Retab(S, tab) ==
  [rules |-> [i \in 1..Len(S.rules) |->
     LET r == S.rules[i] IN
     [id |-> r.id, name |-> r.name, sign |-> r.sign,
      cons |-> [a \in 1..Len(r.cons) |-> [b \in 1..Len(r.cons[a]) |->
                  [pat |-> r.cons[a][b].pat,
                   opts |-> [q \in 1..Len(r.cons[a][b].opts) |-> RetabOpt(r.cons[a][b].opts[q], tab)]]]]]]]

-----------------------------------------------------------------------------
(* Static well-formedness (C13).  The errors the documentation names. *)

Succ(E, X) == {e[2] : e \in {d \in E : d[1] \in X}}
RECURSIVE ReachN(_, _, _)
ReachN(E, X, n) == IF n = 0 THEN X ELSE ReachN(E, X \cup Succ(E, X), n - 1)
HasCycle(E, V) == \E v \in V : v \in ReachN(E, Succ(E, {v}), Cardinality(V))

RefEdges(S)  == UNION {{<<S.rules[i].id, r>> : r \in RefsOf(S.rules[i])} : i \in 1..NRules(S)}
SignEdges(S) == UNION {{<<S.rules[i].id, s>> : s \in SeqToSet(S.rules[i].sign)} : i \in 1..NRules(S)}

NamePats(def)   == {def.name[j].p : j \in {q \in 1..Len(def.name) : def.name[q].k = "p"}}
NamedPats(S)    == {p \in UNION {NamePats(S.rules[i]) : i \in 1..NRules(S)} : ~IsTempPat(p)}
Usable(S)       == {r \in RuleIds(S) : ~IsTempRule(r)}      \* rules that may be referred to

RefsDefined(S)    == \A i \in 1..NRules(S) : RefsOf(S.rules[i]) \subseteq Usable(S)
RefsAcyclic(S)    == ~HasCycle(RefEdges(S), RuleIds(S) \cup {e[2] : e \in RefEdges(S)})
SignersDefined(S) == \A i \in 1..NRules(S) : SeqToSet(S.rules[i].sign) \subseteq Usable(S)
SignAcyclic(S)    == ~HasCycle(SignEdges(S), RuleIds(S) \cup {e[2] : e \in SignEdges(S)})
ValueOk(S, a)     == a.k = "v" \/ (~IsTempPat(a.p) /\ a.p \in NamedPats(S))
OptOk(S, o)       == IF o.k = "f" THEN \A j \in 1..Len(o.args) : ValueOk(S, o.args[j]) ELSE ValueOk(S, o)
ConsOkIn(S, def, c) ==
  /\ IF IsTempPat(c.pat) THEN c.pat \in NamePats(def)      \* temporaries are local to the rule text
                         ELSE c.pat \in NamedPats(S)
  /\ \A q \in 1..Len(c.opts) : OptOk(S, c.opts[q])
ConstraintsOk(S) == \A i \in 1..NRules(S) : \A a \in 1..Len(S.rules[i].cons) :
                      \A b \in 1..Len(S.rules[i].cons[a]) : ConsOkIn(S, S.rules[i], S.rules[i].cons[a][b])

WellFormed(S) == /\ RefsDefined(S) /\ RefsAcyclic(S) /\ SignersDefined(S) /\ SignAcyclic(S)
                 /\ ConstraintsOk(S)
(* first failing clause, for reports *)
WhyIllFormed(S) == IF ~RefsDefined(S) THEN "undefined-or-temporary-reference"
                   ELSE IF ~RefsAcyclic(S) THEN "reference-cycle"
                   ELSE IF ~SignersDefined(S) THEN "undefined-or-temporary-signer"
                   ELSE IF ~SignAcyclic(S) THEN "signing-cycle"
                   ELSE IF ~ConstraintsOk(S) THEN "bad-constraint-pattern"
                   ELSE "well-formed"

-----------------------------------------------------------------------------
(* Expansion of a rule definition into chains.
   chain : [items : Seq(citem), cons : Seq([var, opts])]
   citem : [k |-> "v", v] | [k |-> "x", var]
   var   : [k |-> "n", p]                       a named pattern: one variable per identifier
         | [k |-> "t", path, d, pos]            one OCCURRENCE of a temporary pattern: position pos of
                                                definition d, inlined along reference path `path`.
   Only called on schemas with RefsDefined /\ RefsAcyclic (otherwise the recursion has no meaning). *)

Lit(v)  == [k |-> "v", v |-> v]
NVar(p) == [k |-> "n", p |-> p]
TVar(path, d, i) == [k |-> "t", path |-> path, d |-> d, pos |-> i]
Concat(c1, c2) == [items |-> c1.items \o c2.items, cons |-> c1.cons \o c2.cons]
EmptyChain == [items |-> <<>>, cons |-> <<>>]

ConsFor(cs, p, var) == LET all == [j \in 1..Len(cs) |-> [var |-> var, pat |-> cs[j].pat, opts |-> cs[j].opts]]
                       IN  SelectSeq(all, LAMBDA c : c.pat = p)
NamedCons(cs) == LET all == [j \in 1..Len(cs) |-> [var |-> NVar(cs[j].pat), pat |-> cs[j].pat, opts |-> cs[j].opts]]
                 IN  SelectSeq(all, LAMBDA c : ~IsTempPat(c.pat))

RECURSIVE ChainsOfDef(_, _, _), Build(_, _, _, _, _)
Build(S, di, path, cs, i) ==
  LET def == S.rules[di] IN
  IF i > Len(def.name) THEN {EmptyChain}
  ELSE LET it == def.name[i]
           rest == Build(S, di, path, cs, i + 1)
           heads == IF it.k = "v" THEN {[items |-> <<Lit(it.v)>>, cons |-> <<>>]}
                    ELSE IF it.k = "p" THEN
                       (IF IsTempPat(it.p)
                        THEN {[items |-> <<[k |-> "x", var |-> TVar(path, di, i)]>>,
                               cons |-> ConsFor(cs, it.p, TVar(path, di, i))]}
                        ELSE {[items |-> <<[k |-> "x", var |-> NVar(it.p)]>>, cons |-> <<>>]})
                    ELSE UNION {ChainsOfDef(S, dq, Append(path, i)) : dq \in DefsOf(S, it.r)}
       IN {Concat(h, r) : h \in heads, r \in rest}
(* alternative constraint sets are alternatives; constraints on named patterns hold for the whole
   expanded name (inherited patterns included). *)
ChainsOfDef(S, di, path) ==
  LET def == S.rules[di]
      csChoices == IF Len(def.cons) = 0 THEN {<<>>} ELSE {def.cons[j] : j \in 1..Len(def.cons)}
  IN UNION {{[items |-> c.items, cons |-> c.cons \o NamedCons(cs)] : c \in Build(S, di, path, cs, 1)}
            : cs \in csChoices}

(* all chains of the schema, once: Seq over definitions of sets of chains *)
AllChains(S) == [di \in 1..NRules(S) |-> ChainsOfDef(S, di, <<di>>)]

-----------------------------------------------------------------------------
(* Matching one chain against one name, left to right.
   A variable's constraints are evaluated where the variable is first met in the chain, with the
   bindings made so far ("a component constraint can only refer to previously defined pattern");
   an option naming a pattern without a value does not hold. They are evaluated also when the
   variable already has a value from ctx0 (C12: "all of the key rule's component constraints satisfied").
   Forward references (triage, round 8): `#r: a/b/c & { a: b }` matches NO name, not even /x/x/c - b has no value
   when a is matched; lvs.rst says so in so many words ("/a/b/c & {b: c} will match nothing by itself, because c
   does not have a value when b is matched. Consider write /a/b/c & {c: b} instead") and the library's
   test_future_reference asserts it.  "Satisfied by one of its options" (C11) is read with this evaluation order.
   A constraint on a named pattern that the constraining rule's own name does not contain is legal as soon as the
   pattern occurs in some name (ConsOkIn); it is inherited with all others ("the component constraints of those
   rules will be inherited") and takes effect in a chain that contains the pattern - NamedCons keeps every
   constraint on a named pattern, ConsHold looks at it where the variable is first met. *)

ArgVal(a, ctx) == IF a.k = "v" THEN a.v ELSE IF a.p \in DOMAIN ctx THEN ctx[a.p] ELSE Unbound
OptHolds(o, c, ctx) == IF o.k = "v" THEN c = o.v
                       ELSE IF o.k = "p" THEN o.p \in DOMAIN ctx /\ ctx[o.p] = c
                       ELSE Fn(o.f, c, [j \in 1..Len(o.args) |-> ArgVal(o.args[j], ctx)])
SameText(x, y) == x.k = "t" /\ y.k = "t" /\ x.d = y.d /\ x.pos = y.pos
ConsAbout(chain, x, dev) ==
  {j \in 1..Len(chain.cons) : IF dev.temprep /\ x.k = "t" THEN SameText(chain.cons[j].var, x)
                              ELSE chain.cons[j].var = x}
ConsHold(chain, x, c, ctx, dev) ==
  \A j \in ConsAbout(chain, x, dev) : \E q \in 1..Len(chain.cons[j].opts) : OptHolds(chain.cons[j].opts[q], c, ctx)
MetBefore(chain, k, x, dev) ==
  \E j \in 1..(k - 1) : chain.items[j].k = "x" /\
       (chain.items[j].var = x \/ (dev.temprep /\ SameText(chain.items[j].var, x)))

RECURSIVE MatchFrom(_, _, _, _, _)
MatchFrom(chain, name, k, ctx, dev) ==
  IF k > Len(name) THEN {ctx}
  ELSE LET it == chain.items[k]  c == name[k] IN
    IF it.k = "v" THEN (IF it.v = c THEN MatchFrom(chain, name, k + 1, ctx, dev) ELSE {})
    ELSE LET x == it.var
             bound == x.k = "n" /\ x.p \in DOMAIN ctx
             skip == MetBefore(chain, k, x, dev) \/ (dev.prebound /\ bound)
         IN IF bound /\ ctx[x.p] # c THEN {}
            ELSE IF ~skip /\ ~ConsHold(chain, x, c, ctx, dev) THEN {}
            ELSE MatchFrom(chain, name, k + 1, (IF x.k = "n" THEN (x.p :> c) @@ ctx ELSE ctx), dev)
MatchChain(chain, name, ctx0, dev) ==
  IF Len(chain.items) # Len(name) THEN {} ELSE MatchFrom(chain, name, 1, ctx0, dev)

EmptyCtx == [x \in {} |-> ""]
CtxAsSet(ctx) == {<<p, ctx[p]>> : p \in DOMAIN ctx}

(* C11: the set of <<rule identifier, named bindings>> a name satisfies. CH = AllChains(S). *)
MatchWith(S, CH, name, dev) ==
  LET n == StripDigest(name) IN
  UNION {{<<S.rules[di].id, CtxAsSet(ctx)>> : ctx \in UNION {MatchChain(ch, n, EmptyCtx, dev) : ch \in CH[di]}}
         : di \in 1..NRules(S)}
Match(S, name) == MatchWith(S, AllChains(S), name, NoDev)

(* C12: may key sign pkt?  Some definition D matches pkt with bindings b, some signer of D has a
   definition matching key starting from b. *)
PktMatches(S, CH, pn, dev) ==      \* <<definition, bindings>> for every way the packet name satisfies a definition
  UNION {{<<di, ctx>> : ctx \in UNION {MatchChain(ch, pn, EmptyCtx, dev) : ch \in CH[di]}} : di \in 1..NRules(S)}
KeyOk(S, CH, di, ctx, kn, dev) ==
  \E j \in 1..Len(S.rules[di].sign) : \E dk \in DefsOf(S, S.rules[di].sign[j]) :
     \E chk \in CH[dk] : MatchChain(chk, kn, ctx, dev) # {}
CheckWith(S, CH, pkt, key, dev) ==
  \E m \in PktMatches(S, CH, StripDigest(pkt), dev) : KeyOk(S, CH, m[1], m[2], StripDigest(key), dev)
(* all <<i, j>> with Check(names[i], names[j]); the packet is matched once per row *)
CheckYes(S, CH, names, dev) ==
  UNION {LET pm == PktMatches(S, CH, StripDigest(names[a]), dev) IN
         {<<a, b>> : b \in {q \in 1..Len(names) : \E m \in pm : KeyOk(S, CH, m[1], m[2], StripDigest(names[q]), dev)}}
         : a \in 1..Len(names)}
Check(S, pkt, key) == CheckWith(S, AllChains(S), pkt, key, NoDev)

MatchesSomeRule(S, CH, name) == MatchWith(S, CH, name, NoDev) # {}

-----------------------------------------------------------------------------
(* C13: "no name pattern is, directly or transitively, its own signer".
   Deliberately coarse (least obligation): two expanded names are the same name pattern when they agree
   after forgetting constraints and the identity of temporaries. *)
Shape(chain) == [j \in 1..Len(chain.items) |->
                   IF chain.items[j].k = "v" THEN <<"v", chain.items[j].v>>
                   ELSE IF chain.items[j].var.k = "n" THEN <<"n", chain.items[j].var.p>> ELSE <<"t", "_">>]
ShapesOf(S, CH, rid) == UNION {{Shape(ch) : ch \in CH[di]} : di \in DefsOf(S, rid)}
ShapeSignEdges(S, CH) ==
  UNION {UNION {{<<a, b>> : a \in {Shape(ch) : ch \in CH[i]}, b \in ShapesOf(S, CH, S.rules[i].sign[j])}
                : j \in 1..Len(S.rules[i].sign)} : i \in 1..NRules(S)}
NoSelfSigner(S, CH) == LET E == ShapeSignEdges(S, CH) IN ~HasCycle(E, {e[1] : e \in E} \cup {e[2] : e \in E})
=============================================================================
