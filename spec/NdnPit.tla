------------------------------ MODULE NdnPit ------------------------------
(* Consumer side of the NDNApp pipeline (both front-ends): expressed Interests, the
   pending-Interest table, Data / Nack reception, validators, lifetime timers, caller
   cancellation, shutdown, junk.  Properties C03, C05 (Data half), C06 (robustness half),
   C10 (envelope / Nack half).

   Observable level.  One action per external stimulus as a transport / caller / validator /
   timer wheel applies it; the implementation runs to quiescence *at the current instant*
   after each one (macro-step).  All timers due at an instant fire together (Fire), exactly as
   one iteration of the asyncio loop runs every due timer handle; a stimulus may be ordered
   before or after Fire at the same instant - both orders are separate behaviours here.

   Time is in ticks.  An Interest expressed at t0 with lifetime L has deadline t0+L.
   Interpretation (DESIGN 9): something that happens at now < deadline counts as "before the
   lifetime ran out", at now = deadline the order relative to Fire decides, after Fire it is late.

   Dev is a set of named deviations (known findings) that *widen* the behaviours; it is empty
   for the design check and for the strict pass of trace validation.                         *)
EXTENDS Integers, Sequences, FiniteSets, TLC

CONSTANTS Front,        \* "v2" | "legacy"
          MaxEntries,   \* number of Interests that may be expressed in one behaviour
          MaxT,         \* clock bound
          Templates,    \* set of [name, cbp, dig, life]: the Interest shapes that may be expressed
          DataSet,      \* set of [name, id]: Data packets that may arrive (id distinguishes packets of one name)
          Verdicts,     \* validator verdicts that may be returned
          Reasons,      \* Nack reason codes (abstract indices; the executor maps them to 0, 150, 2^32+5, ...)
          Envs,         \* link-layer envelopes a packet may arrive in: "bare", "lp", "lph" (LP + optional/unknown headers)
          Junk,         \* classes of undeliverable byte strings
          Dev           \* subset of {"legacySlowValidator"}

VARIABLES now, up, used, ph, tm, dl, out, vrun
vars == <<now, up, used, ph, tm, dl, out, vrun>>

Entry == 1..MaxEntries
NoOut == [k |-> "none", d |-> 0, r |-> 0, v |-> "-", at |-> 0]
NoTm == [name |-> <<>>, cbp |-> FALSE, dig |-> 0, life |-> 0]

IsPrefix(a, b) == Len(a) <= Len(b) /\ \A i \in 1..Len(a) : a[i] = b[i]
\* An Interest with an implicit digest names one exact packet: Data name = Interest name minus the digest.
Matches(d, t) ==
  /\ (d.name = t.name \/ (t.cbp /\ t.dig = 0 /\ IsPrefix(t.name, d.name)))
  /\ (t.dig = 0 \/ t.dig = d.id)
Accepting(v) == IF Front = "v2" THEN v \in {"PASS", "BYPASS"} ELSE v = "T"
\* what the failure reports as verdict (a validator that raises TimeoutError counts as TIMEOUT)
Reported(v) == IF v = "RAISE" THEN "TIMEOUT" ELSE v
\* two Interests are "the same Interest" for a Nack when their full names (incl. implicit digest) agree
SameFullName(a, b) == a.name = b.name /\ a.dig = b.dig

Init ==
  /\ now = 0 /\ up = TRUE /\ used = 0
  /\ ph = [e \in Entry |-> "unused"]
  /\ tm = [e \in Entry |-> NoTm]
  /\ dl = [e \in Entry |-> 0]
  /\ out = [e \in Entry |-> NoOut]
  /\ vrun = [e \in Entry |-> 0]

\* the lifetime timer of e is armed
Armed(e) == \/ ph[e] = "pend"
            \/ ph[e] = "val"
Due == { e \in Entry : Armed(e) /\ dl[e] = now }
\* legacy front-end, known finding: the validator runs after the lifetime accounting, so a slow
\* validator is not turned into a timeout.  The deviation lets such timers not fire.
MayNotFire(e) == "legacySlowValidator" \in Dev /\ Front = "legacy" /\ ph[e] = "val"

Finish(e, o) == /\ out' = [out EXCEPT ![e] = o]
                /\ ph' = [ph EXCEPT ![e] = "fin"]

Express(t) ==
  /\ up /\ used < MaxEntries /\ now + t.life <= MaxT
  /\ LET e == used + 1 IN
       /\ used' = e
       /\ ph' = [ph EXCEPT ![e] = "pend"]
       /\ tm' = [tm EXCEPT ![e] = t]
       /\ dl' = [dl EXCEPT ![e] = now + t.life]
  /\ UNCHANGED <<now, up, out, vrun>>

\* expressing while the face is down is refused with NetworkError; nothing changes
ExpressDown(t) == ~up /\ UNCHANGED vars

Satisfied(d) == { e \in Entry : ph[e] = "pend" /\ Matches(d, tm[e]) }
RecvData(d, env) ==
  /\ up
  /\ ph' = [e \in Entry |-> IF e \in Satisfied(d) THEN "val" ELSE ph[e]]
  /\ vrun' = [e \in Entry |-> IF e \in Satisfied(d) THEN d.id ELSE vrun[e]]
  /\ UNCHANGED <<now, up, used, tm, dl, out>>

\* the validator invoked for entry e returns v (v2: also after the entry timed out / was cancelled:
\* the late verdict is ignored)
ValFinish(e, v) ==
  /\ vrun[e] # 0
  /\ vrun' = [vrun EXCEPT ![e] = 0]
  /\ IF ph[e] = "val"
     THEN Finish(e, IF Accepting(v)
                    THEN [k |-> "data", d |-> vrun[e], r |-> 0, v |-> "-", at |-> now]
                    ELSE [k |-> "vfail", d |-> vrun[e], r |-> 0, v |-> Reported(v), at |-> now])
     ELSE UNCHANGED <<ph, out>>
  /\ UNCHANGED <<now, up, used, tm, dl>>

\* every lifetime timer due at this instant fires
Fire ==
  /\ Due # {}
  /\ \E S \in SUBSET Due :
       /\ \A e \in Due : (e \notin S) => MayNotFire(e)
       /\ (S = {} => \E e \in Due : MayNotFire(e))
       /\ out' = [e \in Entry |-> IF e \in S THEN [k |-> "timeout", d |-> 0, r |-> 0, v |-> "-", at |-> now] ELSE out[e]]
       /\ ph' = [e \in Entry |-> IF e \in S THEN "fin" ELSE IF e \in Due THEN "late" ELSE ph[e]]
  /\ UNCHANGED <<now, up, used, tm, dl, vrun>>

\* a "late" entry (deviation only) behaves like "val" without a timer
LateFinish(e, v) ==
  /\ ph[e] = "late" /\ vrun[e] # 0
  /\ vrun' = [vrun EXCEPT ![e] = 0]
  /\ Finish(e, IF Accepting(v)
               THEN [k |-> "data", d |-> vrun[e], r |-> 0, v |-> "-", at |-> now]
               ELSE [k |-> "vfail", d |-> vrun[e], r |-> 0, v |-> Reported(v), at |-> now])
  /\ UNCHANGED <<now, up, used, tm, dl>>

Tick ==
  /\ now < MaxT
  /\ Due = {}
  /\ now' = now + 1
  /\ UNCHANGED <<up, used, ph, tm, dl, out, vrun>>

\* the caller cancels the task that awaits the Interest
Cancel(e) ==
  /\ ph[e] \in {"pend", "val", "late"}
  /\ Finish(e, [k |-> "cancel", d |-> 0, r |-> 0, v |-> "-", at |-> now])
  /\ UNCHANGED <<now, up, used, tm, dl, vrun>>

\* the face shuts down: every Interest still waiting for a packet is cancelled; Interests whose
\* Data already arrived (validator running) finish on their own
Shutdown ==
  /\ up /\ up' = FALSE
  /\ out' = [e \in Entry |-> IF ph[e] = "pend" THEN [k |-> "cancel", d |-> 0, r |-> 0, v |-> "-", at |-> now] ELSE out[e]]
  /\ ph' = [e \in Entry |-> IF ph[e] = "pend" THEN "fin" ELSE ph[e]]
  /\ UNCHANGED <<now, used, tm, dl, vrun>>

Nacked(t) == { e \in Entry : ph[e] = "pend" /\ SameFullName(tm[e], t) }
RecvNack(t, r, env) ==
  /\ up
  /\ out' = [e \in Entry |-> IF e \in Nacked(t) THEN [k |-> "nack", d |-> 0, r |-> r, v |-> "-", at |-> now] ELSE out[e]]
  /\ ph' = [e \in Entry |-> IF e \in Nacked(t) THEN "fin" ELSE ph[e]]
  /\ UNCHANGED <<now, up, used, tm, dl, vrun>>

\* anything a transport may deliver that addresses nothing: malformed / truncated packets, LP
\* packets without payload, fragments, unknown types, Data or Nacks nobody waits for
RecvJunk(j) == up /\ UNCHANGED vars

Next ==
  \/ \E t \in Templates : Express(t) \/ ExpressDown(t)
  \/ \E d \in DataSet, env \in Envs : RecvData(d, env)
  \/ \E e \in Entry, v \in Verdicts : ValFinish(e, v) \/ LateFinish(e, v)
  \/ Fire \/ Tick \/ Shutdown
  \/ \E e \in Entry : Cancel(e)
  \/ \E t \in Templates, r \in Reasons, env \in Envs : RecvNack(t, r, env)
  \/ \E j \in Junk : RecvJunk(j)

Fairness == /\ WF_vars(Tick) /\ WF_vars(Fire)
            /\ \A e \in Entry : WF_vars(\E v \in Verdicts : ValFinish(e, v) \/ LateFinish(e, v))
Spec == Init /\ [][Next]_vars /\ Fairness

-----------------------------------------------------------------------------
DataById(i) == CHOOSE d \in DataSet : d.id = i

TypeOK == /\ now \in 0..MaxT /\ used \in 0..MaxEntries
          /\ \A e \in Entry : ph[e] \in {"unused", "pend", "val", "late", "fin"}
          /\ \A e \in Entry : out[e].k \in {"none", "data", "nack", "timeout", "cancel", "vfail"}

\* C03 exactly once: a finished Interest keeps its outcome for ever
OnceOnly == [][\A e \in Entry : out[e].k # "none" => out'[e] = out[e]]_vars
\* nothing about a finished Interest remains pending, and unfinished ones have no outcome
NoResidue == \A e \in Entry : (ph[e] = "fin") <=> (out[e].k # "none")
\* the outcome is the right one
RightOutcome == \A e \in Entry :
  /\ out[e].k = "data" => /\ \E d \in DataSet : d.id = out[e].d /\ Matches(d, tm[e])
                          /\ (Dev = {} => out[e].at <= dl[e])
  /\ out[e].k = "vfail" => /\ \E d \in DataSet : d.id = out[e].d /\ Matches(d, tm[e])
                           /\ ~Accepting(out[e].v) /\ out[e].v \in {Reported(v) : v \in Verdicts}
  /\ out[e].k = "timeout" => out[e].at = dl[e]
  /\ out[e].k = "nack" => out[e].r \in Reasons
  /\ out[e].k # "none" => (out[e].at <= dl[e] \/ Dev # {})
\* C05: Data is returned only after an accepting verdict for *that* entry; this is an action property
NoUnvalidatedData ==
  [][\A e \in Entry : (out[e].k = "none" /\ out'[e].k = "data") =>
        ((vrun[e] # 0 /\ vrun'[e] = 0 /\ out'[e].d = vrun[e] /\ now <= dl[e]) \/ Dev # {})]_vars
\* one Data satisfies all matching pending Interests and no others
AllAndOnlyMatching ==
  [][\A d \in DataSet : (\E env \in Envs : RecvData(d, env)) =>
        \A e \in Entry : (ph[e] = "pend" /\ ph'[e] # "pend") <=> (ph[e] = "pend" /\ Matches(d, tm[e]))]_vars
\* an action never changes the membership/outcome of an Interest it does not address:
\* after an entry finished, no later step changes any *other* entry through it (checked as: the only
\* entries a step may finish are those the action addresses - see each action's definition);
\* junk changes nothing at all
JunkInert == [][\A j \in Junk : RecvJunk(j) => UNCHANGED vars]_vars
\* every expressed Interest eventually finishes
Finishes == \A e \in Entry : (ph[e] = "pend") ~> (ph[e] = "fin")

\* vacuity witnesses (each must be reachable, i.e. VIOLATED when checked as an invariant)
W_DataAtDeadline == ~(\E e \in Entry : out[e].k = "data" /\ out[e].at = dl[e])
W_TimeoutWhileValidating == ~(\E e \in Entry : out[e].k = "timeout" /\ vrun[e] # 0)
W_TwoSatisfied == ~(Cardinality({e \in Entry : out[e].k = "data"}) >= 2)
W_NackOne == ~(\E e, f \in Entry : out[e].k = "nack" /\ ph[f] = "pend")
W_VFail == ~(\E e \in Entry : out[e].k = "vfail")
=============================================================================
