------------------------------ MODULE NdnPit ------------------------------
(* Consumer side of the NDNApp pipeline (both front-ends): expressed Interests, the
   pending-Interest table, Data / Nack reception, validators, lifetime timers, caller
   cancellation, shutdown, junk.  Properties C03, C05 (Data half), C06 (robustness half),
   C10 (envelope / Nack half).

   Observable level.  One action per external stimulus as a transport / caller / validator /
   timer wheel applies it; the implementation runs to quiescence *at the current instant*
   after each one (macro-step).  All timers due at an instant fire together (Fire), exactly as
   one iteration of the asyncio loop runs every due timer handle; a stimulus may be ordered
   before or after Fire at the same instant - both orders are separate behaviours here.

   Time is in ticks.  An Interest expressed at t0 with lifetime L has deadline t0+L.
   Interpretation (DESIGN 9): something that happens at now < deadline counts as "before the
   lifetime ran out", at now = deadline the order relative to Fire decides, after Fire it is late.

   Dev is a set of named deviations (known findings) that *widen* the behaviours; it is empty
   for the design check and for the strict pass of trace validation.                         *)
EXTENDS Integers, Sequences, FiniteSets, TLC

CONSTANTS Front,        \* "v2" | "legacy"
          MaxEntries,   \* number of Interests that may be expressed in one behaviour
          MaxT,         \* clock bound
          Templates,    \* set of [name, cbp, dig, life]: the Interest shapes that may be expressed
          DataSet,      \* set of [name, id]: Data packets that may arrive (id distinguishes packets of one name)
          Verdicts,     \* validator verdicts that may be returned
          Reasons,      \* Nack reason codes (abstract indices; the executor maps them to 0, 150, 2^32+5, ...)
          Envs,         \* link-layer envelopes a packet may arrive in: "bare", "lp", "lph" (LP + optional/unknown headers)
          Junk,         \* classes of undeliverable byte strings
          Races,        \* {{}}: a cancellation is complete before the next packet; otherwise also sets X of Interests whose
                        \* cancellation is *in flight* (requested, clean-up not yet run) when a packet is processed
          Defer,        \* {FALSE}: every Interest is awaited at once; BOOLEAN: the caller may also await it later
          Reconn,       \* BOOLEAN: main_loop may be run again on the same application object after a shutdown
          Dev           \* subset of {"legacySlowValidator"}

VARIABLES now, up, used, ph, tm, dl, out, vrun,
          aw,    \* the caller is awaiting the Interest (its lifetime timer exists only then)
          held,  \* legacy: Data held by an Interest nobody awaits yet (the validator starts when it is awaited)
          buf    \* outcome already decided for an Interest nobody awaits yet
vars == <<now, up, used, ph, tm, dl, out, vrun, aw, held, buf>>

Entry == 1..MaxEntries
NoOut == [k |-> "none", d |-> 0, r |-> 0, v |-> "-", at |-> 0]
NoTm == [name |-> <<>>, cbp |-> FALSE, dig |-> 0, life |-> 0]

IsPrefix(a, b) == Len(a) <= Len(b) /\ \A i \in 1..Len(a) : a[i] = b[i]
\* An Interest with an implicit digest names one exact packet: Data name = Interest name minus the digest.
Matches(d, t) ==
  /\ (d.name = t.name \/ (t.cbp /\ t.dig = 0 /\ IsPrefix(t.name, d.name)))
  /\ (t.dig = 0 \/ t.dig = d.id)
Accepting(v) == IF Front = "v2" THEN v \in {"PASS", "BYPASS"} ELSE v = "T"
\* what the failure reports as verdict (a validator that raises TimeoutError counts as TIMEOUT)
Reported(v) == IF v = "RAISE" THEN "TIMEOUT" ELSE v
\* two Interests are "the same Interest" for a Nack when their full names (incl. implicit digest) agree
SameFullName(a, b) == a.name = b.name /\ a.dig = b.dig

Init ==
  /\ now = 0 /\ up = TRUE /\ used = 0
  /\ ph = [e \in Entry |-> "unused"]
  /\ tm = [e \in Entry |-> NoTm]
  /\ dl = [e \in Entry |-> 0]
  /\ out = [e \in Entry |-> NoOut]
  /\ vrun = [e \in Entry |-> 0]
  /\ aw = [e \in Entry |-> FALSE]
  /\ held = [e \in Entry |-> 0]
  /\ buf = [e \in Entry |-> NoOut]

\* the lifetime timer of e is armed
Armed(e) == aw[e] /\ ph[e] \in {"pend", "val"}
Due == { e \in Entry : Armed(e) /\ dl[e] = now }
\* legacy front-end, known finding: the validator runs after the lifetime accounting, so a slow
\* validator is not turned into a timeout.  The deviation lets such timers not fire.
MayNotFire(e) == "legacySlowValidator" \in Dev /\ Front = "legacy" /\ ph[e] = "val"

Finish(e, o) == /\ out' = [out EXCEPT ![e] = o]
                /\ ph' = [ph EXCEPT ![e] = "fin"]

Express(t, df) ==
  /\ t.life > 0                    \* lifetime 0: ExpressNow (legacy); v2 grants a grace period, outside the model
  /\ up /\ used < MaxEntries /\ now + t.life <= MaxT
  /\ LET e == used + 1 IN
       /\ used' = e
       /\ ph' = [ph EXCEPT ![e] = "pend"]
       /\ tm' = [tm EXCEPT ![e] = t]
       /\ dl' = [dl EXCEPT ![e] = now + t.life]
       /\ aw' = [aw EXCEPT ![e] = ~df]
  /\ UNCHANGED <<now, up, out, vrun, held, buf>>

\* InterestLifetime 0 awaited at once (legacy front-end): the deadline is the instant of expression, the awaiting
\* coroutine gives up in the same loop turn - before any packet can be processed - and the Interest finishes with
\* a timeout at that instant. (appv2 treats a lifetime that has already elapsed when the Interest is awaited as
\* "awaited late" and grants a grace period: outside the model, like every late await of an unanswered Interest.)
ExpressNow(t) ==
  /\ Front = "legacy" /\ t.life = 0
  /\ up /\ used < MaxEntries
  /\ LET e == used + 1 IN
       /\ used' = e
       /\ tm' = [tm EXCEPT ![e] = t]
       /\ dl' = [dl EXCEPT ![e] = now]
       /\ aw' = [aw EXCEPT ![e] = TRUE]
       /\ Finish(e, [k |-> "timeout", d |-> 0, r |-> 0, v |-> "-", at |-> now])
  /\ UNCHANGED <<now, up, vrun, held, buf>>

\* expressing while the face is down is refused with NetworkError; nothing changes
ExpressDown(t) == ~up /\ UNCHANGED vars

\* X: Interests whose caller has just cancelled them; their task has not run its clean-up yet, so they are still in
\* the table when the packet is processed - they get their cancellation and are not addressed by the packet.
Cancellable(e) == aw[e] /\ ph[e] \in {"pend", "val", "late"}
Satisfied(d) == { e \in Entry : ph[e] = "pend" /\ Matches(d, tm[e]) }
\* v2 starts the validator at once (a task of its own); legacy runs it in the awaiting coroutine
ValidatesNow(e) == Front = "v2" \/ aw[e]
RecvDataX(d, env, X) ==
  /\ up /\ \A e \in X : Cancellable(e)
  /\ LET S == Satisfied(d) \ X IN
       /\ ph' = [e \in Entry |-> IF e \in X THEN "fin" ELSE IF e \in S THEN (IF ValidatesNow(e) THEN "val" ELSE "got") ELSE ph[e]]
       /\ vrun' = [e \in Entry |-> IF e \in S /\ ValidatesNow(e) THEN d.id ELSE vrun[e]]
       /\ held' = [e \in Entry |-> IF e \in S /\ ~ValidatesNow(e) THEN d.id ELSE held[e]]
  /\ out' = [e \in Entry |-> IF e \in X THEN [k |-> "cancel", d |-> 0, r |-> 0, v |-> "-", at |-> now] ELSE out[e]]
  /\ UNCHANGED <<now, up, used, tm, dl, aw, buf>>
RecvData(d, env) == RecvDataX(d, env, {})

\* the validator invoked for entry e returns v (v2: also after the entry timed out / was cancelled:
\* the late verdict is ignored)
ValFinish(e, v) ==
  /\ vrun[e] # 0
  /\ vrun' = [vrun EXCEPT ![e] = 0]
  /\ LET o == IF Accepting(v)
               THEN [k |-> "data", d |-> vrun[e], r |-> 0, v |-> "-", at |-> now]
               ELSE [k |-> "vfail", d |-> vrun[e], r |-> 0, v |-> Reported(v), at |-> now] IN
     IF ph[e] = "val" /\ aw[e] THEN Finish(e, o) /\ UNCHANGED buf
     ELSE IF ph[e] = "val"
          THEN /\ ph' = [ph EXCEPT ![e] = "ready"] /\ buf' = [buf EXCEPT ![e] = o] /\ UNCHANGED out
          ELSE UNCHANGED <<ph, out, buf>>
  /\ UNCHANGED <<now, up, used, tm, dl, aw, held>>

\* every lifetime timer due at this instant fires
Fire ==
  /\ Due # {}
  /\ \E S \in SUBSET Due :
       /\ \A e \in Due : (e \notin S) => MayNotFire(e)
       /\ (S = {} => \E e \in Due : MayNotFire(e))
       /\ out' = [e \in Entry |-> IF e \in S THEN [k |-> "timeout", d |-> 0, r |-> 0, v |-> "-", at |-> now] ELSE out[e]]
       /\ ph' = [e \in Entry |-> IF e \in S THEN "fin" ELSE IF e \in Due THEN "late" ELSE ph[e]]
  /\ UNCHANGED <<now, up, used, tm, dl, vrun, aw, held, buf>>

\* a "late" entry (deviation only) behaves like "val" without a timer
LateFinish(e, v) ==
  /\ ph[e] = "late" /\ vrun[e] # 0
  /\ vrun' = [vrun EXCEPT ![e] = 0]
  /\ Finish(e, IF Accepting(v)
               THEN [k |-> "data", d |-> vrun[e], r |-> 0, v |-> "-", at |-> now]
               ELSE [k |-> "vfail", d |-> vrun[e], r |-> 0, v |-> Reported(v), at |-> now])
  /\ UNCHANGED <<now, up, used, tm, dl, aw, held, buf>>

Tick ==
  /\ now < MaxT
  /\ Due = {}
  /\ now' = now + 1
  /\ UNCHANGED <<up, used, ph, tm, dl, out, vrun, aw, held, buf>>

\* nothing happens for a while: the clock moves to a later instant, at most to the next armed deadline
\* (a lifetime that was not given at all is the default of 4000 ms = 400 ticks: nobody wants 400 Tick steps)
Jump(t) ==
  /\ Due = {} /\ t > now + 1 /\ t <= MaxT
  /\ \A e \in Entry : Armed(e) => ~(dl[e] > now /\ dl[e] < t)
  /\ now' = t
  /\ UNCHANGED <<up, used, ph, tm, dl, out, vrun, aw, held, buf>>

\* the caller cancels the task that awaits the Interest
Cancel(e) ==
  /\ aw[e] /\ ph[e] \in {"pend", "val", "late"}
  /\ Finish(e, [k |-> "cancel", d |-> 0, r |-> 0, v |-> "-", at |-> now])
  /\ UNCHANGED <<now, up, used, tm, dl, vrun, aw, held, buf>>

\* the caller starts awaiting an Interest it expressed earlier. (Awaiting an unanswered Interest only
\* after its deadline is outside the model: the library then grants an arbitrary grace period.)
Await(e) ==
  /\ ~aw[e] /\ ph[e] \in {"pend", "val", "got", "ready"}
  /\ aw' = [aw EXCEPT ![e] = TRUE]
  /\ IF ph[e] = "ready"
     THEN /\ out' = [out EXCEPT ![e] = [buf[e] EXCEPT !.at = now]]
          /\ ph' = [ph EXCEPT ![e] = "fin"]
          /\ UNCHANGED <<vrun, held>>
     ELSE /\ now < dl[e]
          /\ IF ph[e] = "got"
             THEN /\ ph' = [ph EXCEPT ![e] = "val"]
                  /\ vrun' = [vrun EXCEPT ![e] = held[e]]
                  /\ held' = [held EXCEPT ![e] = 0]
             ELSE UNCHANGED <<ph, vrun, held>>
          /\ UNCHANGED out
  \* The legacy front-end counts the lifetime from the moment the Interest is awaited; the statement
  \* ("a timeout at its deadline") does not say which instant the deadline is measured from when the caller
  \* awaits late, so for legacy both readings are accepted (the recorded timeout instant decides).
  /\ \E nd \in (IF Front = "legacy" /\ ph[e] # "ready" THEN {dl[e], now + tm[e].life} ELSE {dl[e]}) :
        dl' = [dl EXCEPT ![e] = nd]
  /\ UNCHANGED <<now, up, used, tm, buf>>

\* the face shuts down: every Interest still waiting for a packet is cancelled; Interests whose
\* Data already arrived (validator running) finish on their own
Cancelled == [k |-> "cancel", d |-> 0, r |-> 0, v |-> "-", at |-> now]
Shutdown ==
  /\ up /\ up' = FALSE
  /\ out' = [e \in Entry |-> IF ph[e] = "pend" /\ aw[e] THEN Cancelled ELSE out[e]]
  /\ buf' = [e \in Entry |-> IF ph[e] = "pend" /\ ~aw[e] THEN Cancelled ELSE buf[e]]
  /\ ph' = [e \in Entry |-> IF ph[e] = "pend" THEN (IF aw[e] THEN "fin" ELSE "ready") ELSE ph[e]]
  /\ UNCHANGED <<now, used, tm, dl, vrun, aw, held>>

\* main_loop runs again on the same application object: nothing of the previous connection is pending any
\* more (validators that were running then may still finish), new Interests start from clean tables
Connect == Reconn /\ ~up /\ up' = TRUE /\ UNCHANGED <<now, used, ph, tm, dl, out, vrun, aw, held, buf>>

Nacked(t) == { e \in Entry : ph[e] = "pend" /\ SameFullName(tm[e], t) }
RecvNackX(t, r, env, X) ==
  /\ up /\ \A e \in X : Cancellable(e)
  /\ LET o == [k |-> "nack", d |-> 0, r |-> r, v |-> "-", at |-> now]
         N == Nacked(t) \ X IN
       /\ out' = [e \in Entry |-> IF e \in X THEN [k |-> "cancel", d |-> 0, r |-> 0, v |-> "-", at |-> now]
                                  ELSE IF e \in N /\ aw[e] THEN o ELSE out[e]]
       /\ buf' = [e \in Entry |-> IF e \in N /\ ~aw[e] THEN o ELSE buf[e]]
       /\ ph' = [e \in Entry |-> IF e \in X THEN "fin" ELSE IF e \in N THEN (IF aw[e] THEN "fin" ELSE "ready") ELSE ph[e]]
  /\ UNCHANGED <<now, up, used, tm, dl, vrun, aw, held>>
RecvNack(t, r, env) == RecvNackX(t, r, env, {})

\* A Nack handed over in the SAME loop iteration in which lifetime timers are due (the Nack's callback first, the timer
\* handles right behind it in the ready queue).  An Interest that is both nacked and due finishes at its deadline with the
\* reason or with the timeout: its awaiting coroutine is woken once and the event loop's wait_for decides which of the two
\* it reports (asyncio 3.12: the timeout) - the statement allows either at that instant.  Every other nacked Interest
\* finishes with the reason, every other due Interest with its timeout, nothing else changes.
RecvNackFire(t, r, env) ==
  /\ up /\ Due # {}
  /\ LET o == [k |-> "nack", d |-> 0, r |-> r, v |-> "-", at |-> now]
         to == [k |-> "timeout", d |-> 0, r |-> 0, v |-> "-", at |-> now]
         N == Nacked(t)
         D2 == Due \ N IN
     \E B \in SUBSET (N \cap Due), S \in SUBSET D2 :
       /\ \A e \in D2 : (e \notin S) => MayNotFire(e)
       /\ out' = [e \in Entry |-> IF e \in B \/ e \in S THEN to ELSE IF e \in N /\ aw[e] THEN o ELSE out[e]]
       /\ buf' = [e \in Entry |-> IF e \in N /\ ~aw[e] THEN o ELSE buf[e]]
       /\ ph' = [e \in Entry |-> IF e \in N THEN (IF aw[e] THEN "fin" ELSE "ready")
                                  ELSE IF e \in S THEN "fin" ELSE IF e \in D2 THEN "late" ELSE ph[e]]
  /\ UNCHANGED <<now, up, used, tm, dl, vrun, aw, held>>

\* anything a transport may deliver that addresses nothing: malformed / truncated packets, LP
\* packets without payload, fragments, unknown types, Data or Nacks nobody waits for
RecvJunk(j) == up /\ UNCHANGED vars

Next ==
  \/ \E t \in Templates : (\E df \in Defer : Express(t, df)) \/ ExpressNow(t) \/ ExpressDown(t)
  \/ \E d \in DataSet, env \in Envs, X \in Races : RecvDataX(d, env, X)
  \/ \E e \in Entry, v \in Verdicts : ValFinish(e, v) \/ LateFinish(e, v)
  \/ Fire \/ Tick \/ Shutdown \/ Connect
  \/ \E t \in 2..MaxT : Jump(t)
  \/ \E e \in Entry : Cancel(e) \/ Await(e)
  \/ \E t \in Templates, r \in Reasons, env \in Envs, X \in Races : RecvNackX(t, r, env, X)
  \/ \E t \in Templates, r \in Reasons, env \in Envs : RecvNackFire(t, r, env)
  \/ \E j \in Junk : RecvJunk(j)

Fairness == /\ WF_vars(Tick) /\ WF_vars(Fire)
            /\ \A e \in Entry : WF_vars(\E v \in Verdicts : ValFinish(e, v) \/ LateFinish(e, v))
Spec == Init /\ [][Next]_vars /\ Fairness

-----------------------------------------------------------------------------
DataById(i) == CHOOSE d \in DataSet : d.id = i

TypeOK == /\ now \in 0..MaxT /\ used \in 0..MaxEntries
          /\ \A e \in Entry : ph[e] \in {"unused", "pend", "val", "got", "ready", "late", "fin"}
          /\ \A e \in Entry : out[e].k \in {"none", "data", "nack", "timeout", "cancel", "vfail"}

\* C03 exactly once: a finished Interest keeps its outcome for ever
OnceOnly == [][\A e \in Entry : out[e].k # "none" => out'[e] = out[e]]_vars
\* nothing about a finished Interest remains pending, and unfinished ones have no outcome
NoResidue == \A e \in Entry : (ph[e] = "fin") <=> (out[e].k # "none")
\* the outcome is the right one
RightOutcome == \A e \in Entry :
  /\ out[e].k = "data" => /\ \E d \in DataSet : d.id = out[e].d /\ Matches(d, tm[e])
                          /\ (Dev = {} /\ Defer = {FALSE} => out[e].at <= dl[e])
  /\ out[e].k = "vfail" => /\ \E d \in DataSet : d.id = out[e].d /\ Matches(d, tm[e])
                           /\ ~Accepting(out[e].v) /\ out[e].v \in {Reported(v) : v \in Verdicts}
  /\ out[e].k = "timeout" => out[e].at = dl[e]
  /\ out[e].k = "nack" => out[e].r \in Reasons
  /\ out[e].k # "none" => (out[e].at <= dl[e] \/ Dev # {} \/ Defer # {FALSE})
\* C05: Data is returned only after an accepting verdict for *that* entry; this is an action property
NoUnvalidatedData ==
  [][\A e \in Entry : (out[e].k = "none" /\ out'[e].k = "data") =>
        (\/ (vrun[e] # 0 /\ vrun'[e] = 0 /\ out'[e].d = vrun[e] /\ now <= dl[e])
         \/ (ph[e] = "ready" /\ buf[e].k = "data" /\ out'[e].d = buf[e].d)
         \/ Dev # {})]_vars
\* ... and a buffered Data outcome was itself produced by an accepting verdict
BufferedValidated ==
  [][\A e \in Entry : (buf[e].k = "none" /\ buf'[e].k = "data") =>
        (vrun[e] # 0 /\ vrun'[e] = 0 /\ buf'[e].d = vrun[e])]_vars
\* one Data satisfies all matching pending Interests and no others
AllAndOnlyMatching ==
  [][\A d \in DataSet : (\E env \in Envs : RecvData(d, env)) =>
        \A e \in Entry : (ph[e] = "pend" /\ ph'[e] # "pend") <=> (ph[e] = "pend" /\ Matches(d, tm[e]))]_vars
\* an action never changes the membership/outcome of an Interest it does not address:
\* after an entry finished, no later step changes any *other* entry through it (checked as: the only
\* entries a step may finish are those the action addresses - see each action's definition);
\* junk changes nothing at all
JunkInert == [][\A j \in Junk : RecvJunk(j) => UNCHANGED vars]_vars
\* every expressed Interest eventually finishes
Finishes == \A e \in Entry : (ph[e] = "pend" /\ aw[e]) ~> (ph[e] = "fin")
\* an outcome decided before the caller awaits is exactly what the caller gets, whenever it awaits
BufferedIsDelivered ==
  [][\A e \in Entry : (ph[e] = "ready" /\ ph'[e] = "fin") =>
        (out'[e].k = buf[e].k /\ out'[e].d = buf[e].d /\ out'[e].r = buf[e].r /\ out'[e].v = buf[e].v)]_vars

\* vacuity witnesses (each must be reachable, i.e. VIOLATED when checked as an invariant)
W_DataAtDeadline == ~(\E e \in Entry : out[e].k = "data" /\ out[e].at = dl[e])
W_TimeoutWhileValidating == ~(\E e \in Entry : out[e].k = "timeout" /\ vrun[e] # 0)
W_TwoSatisfied == ~(Cardinality({e \in Entry : out[e].k = "data"}) >= 2)
W_NackOne == ~(\E e, f \in Entry : out[e].k = "nack" /\ ph[f] = "pend")
W_NackAtDeadline == ~(\E e \in Entry : out[e].k = "nack" /\ out[e].at = dl[e])
W_NackFireBoth == ~(\E e, f \in Entry : out[e].k = "nack" /\ out[f].k = "timeout" /\ out[e].at = out[f].at)
W_VFail == ~(\E e \in Entry : out[e].k = "vfail")
W_RaceData == ~(\E e, f \in Entry : out[e].k = "cancel" /\ out[f].k = "data" /\ tm[e].name = tm[f].name /\ out[e].at <= out[f].at)
W_LateAwaitData == ~(\E e \in Entry : out[e].k = "data" /\ out[e].at > dl[e])
=============================================================================
