---------------------------- MODULE LvsEnum13 ----------------------------
(* Stage B (spec -> code) of C13, families added in round 11.  LvsEnum with Mode = "c13": TLC enumerates the schemas
   below and prints, per schema, what the reference says:
       <<"W13", index, rules, WellFormed, why, NoSelfSigner, PatternIsOwnSigner>>
   the harness compiles exactly these texts with the real compile_lvs + Checker and compares.

   RedefTemp   ONE rule identifier defined two or three times; every definition has temporary patterns and
               constraints of its own ("temporaries are local to the rule text", Lvs!ConsOkIn).  Every combination of
               { definition that constrains a temporary } x { definitions that contain a temporary of that name }
               x { first / middle / last }: a constraint is judged against the definition it is written in, never
               against an earlier or later definition of the same identifier.  Optionally a rule that inlines #r1.
   SharedSign  two rules #a, #b whose names may expand to the very same name pattern (written alike, or alike after
               expanding a reference; with equal, different or no constraints; with a temporary: never the same
               pattern), a third rule #c, and every combination of signers among them: loops of rule identifiers
               (WellFormed fails) and loops that close only through the pattern #a and #b share
               (LvsTree!PatternIsOwnSigner), next to look-alikes without a loop.
   Stride / Offset sample the families as in LvsEnum; the members of SharedSign whose two names are alike and whose
   signers may close a loop through them, and the well-formed members of RedefTemp with a constraint in a definition
   that is not the last, are sampled every FocusStride-th. *)
EXTENDS LvsEnum

RTNames == {<<P("_t"), Lit("a")>>, <<Lit("a"), P("_t")>>, <<P("_u"), Lit("a")>>, <<P("x"), Lit("b")>>}
RTCons  == {<<>>, << <<C1("_t", <<Lit("a")>>)>> >>, << <<C1("_u", <<Lit("b")>>)>> >>}
(* (guarded: TLC evaluates every constant definition at start-up) *)
RTDefs  == IF Mode # "c13" THEN {} ELSE {Rule("#r1", n, c, <<>>) : n \in RTNames, c \in RTCons}
RTUser  == Rule("#r2", <<R("#r1"), Lit("c")>>, <<>>, <<>>)
RedefTemp == UNION {{<<d1, d2>>, <<d1, d2, RTUser>>} : d1 \in RTDefs, d2 \in RTDefs}
             \cup {<<d1, d2, d3>> : d1 \in RTDefs, d2 \in {d \in RTDefs : d.cons # <<>>}, d3 \in RTDefs}

SSNames == {<<Lit("a"), P("x")>>, <<Lit("a"), P("y")>>, <<Lit("a"), Lit("b")>>, <<Lit("a"), P("_t")>>, <<R("#m"), P("x")>>}
SSConsA == {<<>>, << <<C1("x", <<Lit("a")>>)>> >>}
SSConsB == {<<>>, << <<C1("x", <<Lit("a")>>)>> >>, << <<C1("x", <<Lit("b")>>)>> >>}
SharedSign == IF Mode # "c13" THEN {} ELSE
  {<<Rule("#a", n1, c1, s1), Rule("#b", n2, c2, s2), Rule("#c", <<Lit("c"), P("x")>>, <<>>, s3),
     Rule("#m", <<Lit("a")>>, <<>>, <<>>)>>
   : n1 \in SSNames, n2 \in SSNames, c1 \in SSConsA, c2 \in SSConsB,
     s1 \in {<<"#b">>, <<"#c">>}, s2 \in {<<>>, <<"#c">>}, s3 \in {<<>>, <<"#a">>, <<"#b">>}}
SSAlike(n1, n2) == n1 = n2 \/ {n1, n2} = {<<Lit("a"), P("x")>>, <<R("#m"), P("x")>>}
Focus13(s) == \/ /\ Len(s) = 4 /\ s[1].id = "#a" /\ SSAlike(s[1].name, s[2].name)
                 /\ (s[1].sign = <<"#b">> \/ (s[1].sign = <<"#c">> /\ s[3].sign = <<"#b">>))
              \/ /\ s[1].id = "#r1" /\ \E i \in 1..(Len(s) - 1) : s[i].cons # <<>>      \* constrained, and not in the last
                 /\ WellFormed([rules |-> s])

Family13 == IF Mode = "c13" THEN SetToSeq(RedefTemp) \o SetToSeq(SharedSign) ELSE <<>>
Picked13 == {i \in 1..Len(Family13) : i % Stride = Offset % Stride}
            \cup {i \in 1..Len(Family13) : Focus13(Family13[i]) /\ i % FocusStride = FocusOffset % FocusStride}

Exp13(i) == LET S == [rules |-> Family13[i]]  wf == WellFormed(S) IN
  <<"W13", i, S.rules, wf, WhyIllFormed(S),
    IF wf THEN NoSelfSigner(S, AllChains(S)) ELSE FALSE,
    IF wf THEN PatternIsOwnSigner(S, AllChains(S)) ELSE FALSE>>

E13Init == /\ ix \in Picked13
           /\ PrintT(Exp13(ix))
           /\ ti = 0 /\ nm = <<>> /\ c0 = <<>> /\ cur = 0 /\ ei = 0 /\ stack = <<>> /\ ctx = <<>> /\ mts = <<>>
           /\ out = {} /\ steps = 0
=============================================================================
