SPECIFICATION Spec
CONSTANTS MaxPkts = 2 MaxBytes = 8 MaxVal = 1
INVARIANT TypeOK
INVARIANT PrefixOfPackets
INVARIANT NoEarlyDelivery
INVARIANT ExactAtEnd
INVARIANT ReaderBehind
PROPERTY Terminates
CHECK_DEADLOCK FALSE
