\* manual run of one domain (bin/check C09 writes the per-mode / per-tier configurations into build/):
\*   cd spec && C09_OUT= java -cp <jars> tlc2.TLC -config NameUriMC.cfg NameUriMC
SPECIFICATION Spec
CONSTANTS Mode = "comp" NR = 14 NQ = 4 NP = 6
INVARIANT I_CompShort
INVARIANT I_CompCanon
INVARIANT I_CanonNoShorthand
INVARIANT I_CompForms
INVARIANT I_ShorthandOnlyCanonNumbers
POSTCONDITION PostOK
CHECK_DEADLOCK FALSE
