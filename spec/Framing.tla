------------------------------ MODULE Framing ------------------------------
(* C06a - stream framing of StreamFace.run: a byte stream is cut into read chunks in an
   arbitrary way (Feed(k) for any k), the reader takes the same steps as the code
   (read_tl_num_from_stream for T, for L, then readexactly(L)), each of which blocks until
   enough bytes have been fed or the stream has ended.  Every chunking is an interleaving of
   Feed with the reader steps, so one TLC run covers all of them.

   The stream itself is chosen in Init (a sequence of packets, each with a 1/3/5/9-byte type
   form, a 1/3/5/9-byte length form and a short value, cut at any truncation point).        *)
EXTENDS Integers, Sequences, FiniteSets, TLC

CONSTANTS MaxPkts, MaxBytes, MaxVal

VARIABLES stream,     \* the whole byte stream of this behaviour (Seq of 0..255)
          pkts,       \* its packets as [typ, s, e] (1-based inclusive byte range) incl. a truncated last one [.., complete: FALSE]
          fed, eof,   \* bytes fed to the reader so far; end of stream signalled
          pos,        \* bytes consumed by the reader
          phase,      \* "T1","Trest","L1","Lrest","V","stopped"
          need,       \* bytes needed by the current read
          start, typ, len, acc, \* current packet: start offset, type number, length, number accumulator
          delivered   \* Seq of [typ, s, e] handed to the callback
vars == <<stream, pkts, fed, eof, pos, phase, need, start, typ, len, acc, delivered>>

\* --- stream construction -------------------------------------------------------
Pad(n) == [i \in 1..n |-> 0]
NumBytes(form, v) ==           \* v < 253; form = total size 1, 3, 5 or 9
  IF form = 1 THEN <<v>>
  ELSE <<(IF form = 3 THEN 253 ELSE IF form = 5 THEN 254 ELSE 255)>> \o Pad(form - 2) \o <<v>>
ValBytes(n) == [i \in 1..n |-> 170 + i]
PktBytes(tf, tv, lf, vl) == NumBytes(tf, tv) \o NumBytes(lf, vl) \o ValBytes(vl)
Forms == {1, 3, 5, 9}
PktShapes == { <<tf, lf, vl>> : tf \in Forms, lf \in Forms, vl \in 0..MaxVal }
RECURSIVE Concat(_)
Concat(ss) == IF ss = <<>> THEN <<>> ELSE PktBytes(ss[1][1], 5 + Len(ss), ss[1][2], ss[1][3]) \o Concat(Tail(ss))
ShapeSeqs == UNION { [1..n -> PktShapes] : n \in 0..MaxPkts }
Min2(a, b) == IF a < b THEN a ELSE b
Streams == UNION { { SubSeq(Concat(ss), 1, k) : k \in 0..Min2(MaxBytes, Len(Concat(ss))) } : ss \in ShapeSeqs }

\* --- reference parse of a whole stream (declarative oracle) --------------------
RECURSIVE BE(_, _, _)
BE(s, p, n) == IF n = 0 THEN 0 ELSE BE(s, p, n - 1) * 256 + s[p + n - 1]   \* big-endian value of s[p..p+n-1]
NumAt(s, p) ==  \* [v, size] of the TLV number at offset p (1-based), or size 0 if it does not fit
  IF p > Len(s) THEN [v |-> 0, size |-> 0]
  ELSE LET b == s[p] IN
    IF b <= 252 THEN [v |-> b, size |-> 1]
    ELSE LET n == IF b = 253 THEN 2 ELSE IF b = 254 THEN 4 ELSE 8 IN
      IF p + n > Len(s) THEN [v |-> 0, size |-> 0]
      ELSE [v |-> BE(s, p + 1, n), size |-> n + 1]
RECURSIVE ParseFrom(_, _)
ParseFrom(s, p) ==
  IF p > Len(s) THEN <<>>
  ELSE LET t == NumAt(s, p) IN
    IF t.size = 0 THEN <<>>
    ELSE LET l == NumAt(s, p + t.size) IN
      IF l.size = 0 THEN <<>>
      ELSE LET e == p + t.size + l.size + l.v - 1 IN
        IF e > Len(s) THEN <<>>
        ELSE <<[typ |-> t.v, s |-> p, e |-> e]>> \o ParseFrom(s, e + 1)
Complete(s) == ParseFrom(s, 1)

InitWith(st) ==
  /\ stream = st
  /\ pkts = Complete(stream)
  /\ fed = 0 /\ eof = FALSE /\ pos = 0
  /\ phase = "T1" /\ need = 1 /\ start = 0 /\ typ = 0 /\ len = 0 /\ acc = 0
  /\ delivered = <<>>

Init == \E st \in Streams : InitWith(st)

\* --- environment ---------------------------------------------------------------
Feed(k) == /\ ~eof /\ k \in 1..(Len(stream) - fed)
           /\ fed' = fed + k
           /\ UNCHANGED <<stream, pkts, eof, pos, phase, need, start, typ, len, acc, delivered>>
Eof == /\ ~eof /\ fed = Len(stream) /\ eof' = TRUE
       /\ UNCHANGED <<stream, pkts, fed, pos, phase, need, start, typ, len, acc, delivered>>

\* the peer closes right behind its last bytes: data and end of stream reach the reader in the same instant
FeedEof == /\ ~eof /\ fed < Len(stream)
           /\ fed' = Len(stream) /\ eof' = TRUE
           /\ UNCHANGED <<stream, pkts, pos, phase, need, start, typ, len, acc, delivered>>

\* --- reader (one action per await in StreamFace.run / read_tl_num_from_stream) ----
Avail == fed - pos
CanRead == phase # "stopped" /\ Avail >= need
FirstByte(next1, nextRest) ==
  LET b == stream[pos + 1] IN
    /\ pos' = pos + 1
    /\ IF b <= 252
       THEN /\ acc' = b /\ phase' = next1 /\ need' = 1
       ELSE /\ acc' = 0 /\ phase' = nextRest /\ need' = (IF b = 253 THEN 2 ELSE IF b = 254 THEN 4 ELSE 8)
ReadT1 == /\ phase = "T1" /\ CanRead
          /\ FirstByte("L1", "Trest")
          /\ start' = pos + 1
          /\ typ' = IF stream[pos + 1] <= 252 THEN stream[pos + 1] ELSE typ
          /\ UNCHANGED <<stream, pkts, fed, eof, len, delivered>>
ReadTrest == /\ phase = "Trest" /\ CanRead
             /\ pos' = pos + need /\ typ' = BE(stream, pos + 1, need) /\ phase' = "L1" /\ need' = 1
             /\ UNCHANGED <<stream, pkts, fed, eof, start, len, acc, delivered>>
ReadL1 == /\ phase = "L1" /\ CanRead
          /\ LET b == stream[pos + 1] IN
               /\ pos' = pos + 1
               /\ IF b <= 252
                  THEN /\ len' = b /\ phase' = "V" /\ need' = b
                  ELSE /\ len' = len /\ phase' = "Lrest" /\ need' = (IF b = 253 THEN 2 ELSE IF b = 254 THEN 4 ELSE 8)
          /\ UNCHANGED <<stream, pkts, fed, eof, start, typ, acc, delivered>>
ReadLrest == /\ phase = "Lrest" /\ CanRead
             /\ pos' = pos + need /\ len' = BE(stream, pos + 1, need) /\ phase' = "V" /\ need' = BE(stream, pos + 1, need)
             /\ UNCHANGED <<stream, pkts, fed, eof, start, typ, acc, delivered>>
ReadV == /\ phase = "V" /\ CanRead
         /\ pos' = pos + need
         /\ delivered' = Append(delivered, [typ |-> typ, s |-> start, e |-> pos + need])
         /\ phase' = "T1" /\ need' = 1
         /\ UNCHANGED <<stream, pkts, fed, eof, start, typ, len, acc>>
\* the pending read cannot be completed any more: IncompleteReadError -> the face shuts down
Stop == /\ phase # "stopped" /\ eof /\ Avail < need
        /\ phase' = "stopped"
        /\ UNCHANGED <<stream, pkts, fed, eof, pos, need, start, typ, len, acc, delivered>>

\* nothing more can happen until more bytes (or EOF) arrive
Quiescent == ~CanRead /\ ~(phase # "stopped" /\ eof /\ Avail < need)
Reader == ReadT1 \/ ReadTrest \/ ReadL1 \/ ReadLrest \/ ReadV \/ Stop
Next == (\E k \in 1..MaxBytes : Feed(k)) \/ Eof \/ FeedEof \/ Reader
Spec == Init /\ [][Next]_vars /\ WF_vars(Reader) /\ WF_vars(Eof) /\ WF_vars(\E k \in 1..MaxBytes : Feed(k))

-----------------------------------------------------------------------------
IsPrefixOf(a, b) == Len(a) <= Len(b) /\ \A i \in 1..Len(a) : a[i] = b[i]
\* only complete packets, each once, in order
PrefixOfPackets == IsPrefixOf(delivered, pkts)
\* nothing is delivered before its last byte was fed
NoEarlyDelivery == \A i \in 1..Len(delivered) : delivered[i].e <= fed
\* after the stream ended and the reader stopped: exactly the complete packets were delivered
ExactAtEnd == (phase = "stopped") => delivered = pkts
\* the reader is never ahead of what was fed
ReaderBehind == pos <= fed
Terminates == <>(phase = "stopped")
TypeOK == phase \in {"T1", "Trest", "L1", "Lrest", "V", "stopped"}

W_Trunc == ~(phase = "stopped" /\ Len(pkts) >= 1 /\ pkts[Len(pkts)].e < Len(stream))
W_Two == ~(Len(delivered) >= 2)
W_MidNumber == ~(phase = "Lrest" /\ Avail = 1 /\ need > 1)
=============================================================================
