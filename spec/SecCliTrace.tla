--------------------------- MODULE SecCliTrace ---------------------------
(* Trace validation for X05: command histories recorded from the real `pyndnsec` tool (harness/seckit.py; one store
   per trace) must be behaviours of SecCli, with the recorded result of every invocation (exit status, message class,
   names printed) and the recorded projection of the store (read through KeychainSqlite3 / TpmFile) after it.
   Event: [a |-> command, o |-> [l, i, n, c], lvl, kt, kit, f |-> [kind, k, c], s |-> [req, iss, nb, na],
           r |-> [rc, cls, out |-> <<[o |-> object, d |-> marked]>>],
           post |-> [pib, ids, keys, certs, dI, dK, dC, tpm, unknown]]
   (sets are JSON arrays; a key is [i, n], a certificate [[i, n], c]; tpm: exactly one private-key file per listed
   key; unknown: names in the store that the history does not explain).                                        *)
EXTENDS SecCli, Sequences, Json, IOUtils, TLCExt

TraceReg == 1000000
ASSUME TLCSet(TraceReg, ndJsonDeserialize(IOEnv.TRACE_FILE))
Traces == TLCGet(TraceReg)
VARIABLES tid, l
tvars == <<vars, tid, l>>

Tr == Traces[tid].ev
Max2(a, b) == IF a > b THEN a ELSE b
ToSet(s) == {s[j] : j \in 1..Len(s)}
ObjJ(j) == Obj(j.l, j.i, j.n, j.c)
KeyJ(s) == <<s[1], s[2]>>
CertJ(s) == <<KeyJ(s[1]), s[2]>>
FileJ(j) == [kind |-> j.kind, k |-> KeyJ(j.k), c |-> j.c]
SignJ(j) == [req |-> j.req, iss |-> j.iss, nb |-> j.nb, na |-> j.na]
ResJ(j) == [rc |-> j.rc, cls |-> j.cls, out |-> {[o |-> ObjJ(m.o), d |-> m.d] : m \in ToSet(j.out)}]

TInit == /\ tid \in 1..Len(Traces)
         /\ l = 1
         /\ Init
         /\ TLCSet(tid, 1)

Ev(a) == l <= Len(Tr) /\ Tr[l].a = a /\ l' = l + 1 /\ UNCHANGED tid
\* the recorded result is the one the specification gives for the invocation in the state before it
Is(r) == ResJ(Tr[l].r) = r
PostOk == LET p == Tr[l].post IN
  /\ pib' = p.pib
  /\ db'.ids = ToSet(p.ids) /\ db'.dI = ToSet(p.dI)
  /\ db'.keys = {KeyJ(k) : k \in ToSet(p.keys)} /\ db'.dK = {KeyJ(k) : k \in ToSet(p.dK)}
  /\ db'.certs = {CertJ(x) : x \in ToSet(p.certs)} /\ db'.dC = {CertJ(x) : x \in ToSet(p.dC)}
  /\ p.tpm /\ Len(p.unknown) = 0

O == ObjJ(Tr[l].o)
TInitPib == Ev("InitPib") /\ Is(InitPibR) /\ InitPib /\ PostOk
TNewItem == /\ Ev("NewItem") /\ O \in Objs /\ Tr[l].kt \in KTypes /\ Tr[l].kit \in KidTypes
            /\ Is(NewItemR(O)) /\ NewItem(O, Tr[l].kt, Tr[l].kit) /\ PostOk
TRemoveItem == Ev("RemoveItem") /\ O \in Objs /\ Is(RemoveItemR(O)) /\ RemoveItem(O) /\ PostOk
TSetDefault == Ev("SetDefault") /\ O \in Objs /\ Is(SetDefaultR(O)) /\ SetDefault(O) /\ PostOk
TGetDefault == /\ Ev("GetDefault") /\ O \in OptObjs /\ Tr[l].lvl \in 0..2
               /\ Is(GetDefaultR(Tr[l].lvl, O)) /\ GetDefault(Tr[l].lvl, O) /\ PostOk
TGetChildItem == /\ Ev("GetChildItem") /\ Tr[l].lvl \in 0..3
                 /\ Is(GetChildItemR(Tr[l].lvl)) /\ GetChildItem(Tr[l].lvl) /\ PostOk
TExportCert == Ev("ExportCert") /\ O \in OptObjs /\ Is(ExportCertR(O)) /\ ExportCert(O) /\ PostOk
TImportCert == /\ Ev("ImportCert") /\ FileJ(Tr[l].f) \in Files
               /\ Is(ImportCertR(FileJ(Tr[l].f))) /\ ImportCert(FileJ(Tr[l].f)) /\ PostOk
TSignCert == /\ Ev("SignCert") /\ O \in Objs /\ SignJ(Tr[l].s) \in AllSignOpts
             /\ Is(SignCertR(O, SignJ(Tr[l].s))) /\ SignCert(O, SignJ(Tr[l].s)) /\ PostOk
TGetSignReq == Ev("GetSignReq") /\ O \in OptObjs /\ Is(GetSignReqR(O)) /\ GetSignReq(O) /\ PostOk

TNext == \/ TInitPib \/ TNewItem \/ TRemoveItem \/ TSetDefault \/ TGetDefault \/ TGetChildItem
         \/ TExportCert \/ TImportCert \/ TSignCert \/ TGetSignReq
TSpec == TInit /\ [][TNext]_tvars

Mark == TLCSet(tid, Max2(TLCGet(tid), l))
Post == \A i \in 1..Len(Traces) :
          \/ TLCGet(i) = Len(Traces[i].ev) + 1
          \/ PrintT(<<"REJECTED", i, TLCGet(i)>>)
=============================================================================
