---------------------------- MODULE NdnPacketsCertMC ----------------------------
(* Stage A for C16: new_cert as a machine over every request of NdnPacketsCertCfg -
   Assemble (name, MetaInfo, validity text, encode with the reserved signature length),
   SignWrap (sign, then build the outer TL by hand around the shrunk value) - and LawCert. *)
EXTENDS NdnPacketsCertCfg
VARIABLES q, ph, out
vars == <<q, ph, out>>
Init == q \in ReqSpace /\ ph = "req" /\ out = [k |-> "none"]
Assemble == /\ ph = "req" /\ ph' = "value"
            /\ out' = [k |-> "value", tree |-> Reserved(CertCfg(q))]
            /\ UNCHANGED q
SignWrap == /\ ph = "value" /\ ~RefusesShrink(CertCfg(q)) /\ ph' = "cert"
            /\ out' = [out EXCEPT !.k = "cert", !.tree = OpShrink(CertCfg(q)).tree]
            /\ UNCHANGED q
Next == Assemble \/ SignWrap
Spec == Init /\ [][Next]_vars
InvCert == ph = "cert" => out.tree = Final(CertCfg(q)) /\ LawCert(q)
InvValue == ph = "value" => WellTiled(Flat(out.tree))
=============================================================================
