---------------------------- MODULE TlvModelLife ----------------------------
(* C08: the LIFE of one model instance.  The statement quantifies over "every legal assignment of
   field values"; an application does not build a fresh object per assignment, it keeps ONE
   instance, asks its size, changes it and asks again (filling a packet up to an MTU).  The
   reference is a function of the CURRENT value only:
        after any sequence of changes m1 .. mk applied to v0,
        encoded_length() = AnnouncedLength(s, vk)   and   encode() = Encode(s, vk)
        where vk = Mutate(s, v(k-1), mk)
   whatever was computed (sized, encoded) for the earlier values.

   A change m = [path, i, op, j, key, fv] addresses field i of the model reached by `path`
   (a sequence of <<field, item>> steps from the top-level model: a ModelField (item = 0), the
   item-th element of a repeated field of sub-models, or the value of the item-th entry of a map
   whose values are sub-models) and does there what Python code does to the attribute:
     "set"      obj.f = fv              field assignment (also of a whole list / map value)
     "append"   obj.f.append(fv)        in-place growth of the list of a repeated field
     "setitem"  obj.f[j-1] = fv         in-place replacement of a list element
     "pop"      obj.f.pop()             in-place removal of the last element
     "clear"    obj.f.clear()           list or dict emptied in place
     "put"      obj.f[key] = fv         in-place insertion / replacement in the dict of a map field
     "del"      del obj.f[key of the j-th entry]
   Only "set" with path = <<>> goes through a descriptor of the top-level instance; every other
   change is invisible to it.                                                               *)
EXTENDS TlvModel

MutOps == {"set", "append", "setitem", "pop", "clear", "put", "del"}
RemoveAt(q, j) == SubSeq(q, 1, j - 1) \o SubSeq(q, j + 1, Len(q))

\* the change applied to the value fv of a field with descriptor d
MutFieldOk(d, fv, m) ==
  CASE m.op = "set"     -> TRUE                                   \* legality of the new value: LegalModel on the result
    [] m.op = "append"  -> d.kind = "repeated"
    [] m.op = "setitem" -> d.kind = "repeated" /\ m.j \in 1 .. Len(fv.items)
    [] m.op = "pop"     -> d.kind = "repeated" /\ fv.items # <<>>
    [] m.op = "clear"   -> d.kind \in {"repeated", "map"}
    [] m.op = "put"     -> d.kind = "map"
    [] m.op = "del"     -> d.kind = "map" /\ m.j \in 1 .. Len(fv.items)
    [] OTHER -> FALSE
MutField(d, fv, m) ==
  CASE m.op = "set"     -> m.fv
    [] m.op = "append"  -> [fv EXCEPT !.items = Append(@, m.fv)]
    [] m.op = "setitem" -> [fv EXCEPT !.items[m.j] = m.fv]
    [] m.op = "pop"     -> [fv EXCEPT !.items = SubSeq(@, 1, Len(@) - 1)]
    [] m.op = "clear"   -> [fv EXCEPT !.items = <<>>]
    [] m.op = "put"     -> MapPut(fv, m.key, m.fv)
    [] m.op = "del"     -> [fv EXCEPT !.items = RemoveAt(@, m.j)]

\* the sub-model a path step <<i, j>> leads to: its schema and its value
StepOk(s, mv, st) ==
  /\ st[1] \in 1 .. Len(s)
  /\ LET d == s[st[1]]  fv == mv[st[1]] IN
     CASE d.kind = "model"    -> st[2] = 0 /\ fv.k = "model"
       [] d.kind = "repeated" -> d.elem[1].kind = "model" /\ st[2] \in 1 .. Len(fv.items)
       [] d.kind = "map"      -> d.elem[2].kind = "model" /\ st[2] \in 1 .. Len(fv.items)
       [] OTHER -> FALSE
StepSchema(s, st) == LET d == s[st[1]] IN
  CASE d.kind = "model" -> d.sub [] d.kind = "repeated" -> d.elem[1].sub [] d.kind = "map" -> d.elem[2].sub
StepValue(s, mv, st) == LET d == s[st[1]]  fv == mv[st[1]] IN
  CASE d.kind = "model" -> fv.v [] d.kind = "repeated" -> fv.items[st[2]].v [] d.kind = "map" -> fv.items[st[2]].val.v

RECURSIVE MutOkAt(_, _, _, _), MutateAt(_, _, _, _)
MutOkAt(s, mv, path, m) ==
  IF path = <<>> THEN m.op \in MutOps /\ m.i \in 1 .. Len(s) /\ MutFieldOk(s[m.i], mv[m.i], m)
  ELSE StepOk(s, mv, path[1]) /\ MutOkAt(StepSchema(s, path[1]), StepValue(s, mv, path[1]), Tail(path), m)
MutateAt(s, mv, path, m) ==
  IF path = <<>> THEN [mv EXCEPT ![m.i] = MutField(s[m.i], @, m)]
  ELSE LET st == path[1]
           d == s[st[1]]
           sub == MutateAt(StepSchema(s, st), StepValue(s, mv, st), Tail(path), m)
       IN CASE d.kind = "model"    -> [mv EXCEPT ![st[1]].v = sub]
            [] d.kind = "repeated" -> [mv EXCEPT ![st[1]].items[st[2]].v = sub]
            [] d.kind = "map"      -> [mv EXCEPT ![st[1]].items[st[2]].val.v = sub]

\* a change is admissible when it addresses something that exists and leaves a legal value
MutOk(s, mv, m)  == MutOkAt(s, mv, m.path, m) /\ LegalModel(s, MutateAt(s, mv, m.path, m))
Mutate(s, mv, m) == MutateAt(s, mv, m.path, m)
Mut(path, i, op, j, key, fv) == [path |-> path, i |-> i, op |-> op, j |-> j, key |-> key, fv |-> fv]

\* the values an instance goes through: <<v1, .., vk>> for the changes <<m1, .., mk>> from v0
RECURSIVE Lives(_, _, _)
Lives(s, v, ms) == IF ms = <<>> THEN <<>> ELSE LET v2 == Mutate(s, v, ms[1]) IN <<v2>> \o Lives(s, v2, Tail(ms))
RECURSIVE LifeOk(_, _, _)
LifeOk(s, v, ms) == ms = <<>> \/ (MutOk(s, v, ms[1]) /\ LifeOk(s, Mutate(s, v, ms[1]), Tail(ms)))
=============================================================================
