\* reference configuration for trace validation (TRACE_FILE = ndjson recorded by harness/props/c14.py)
SPECIFICATION TSpec
CONSTANTS
  Inst = {"v1", "v2", "v3", "v4"}
  Slots = {"v1", "v1b", "v2", "v2b", "v3", "v4"}
  SameApp = FALSE
  MaxHeal = 3
  MaxVal = 10
  Allowed = {"SharedCache", "LoopRefetch", "Ed25519Unsupported"}
  Forced = {}
  WorldSet <- W2
  AnchorChoice <- AnyAnchor
  StoreChoice <- AnyStore
INVARIANT TypeOK
CONSTRAINT Mark
POSTCONDITION Post
CHECK_DEADLOCK FALSE
