---------------------------- MODULE TlvModelVec ----------------------------
(* C08 stage B (spec -> code): TLC enumerates, for every class of the family, the boundary
   value assignments and computes what the implementation must produce:
     tree  = Encode(schema, v)          alen = AnnouncedLength(schema, v)
     edits = every edit of the tree (TlvModelFamily.AllEdits) with the outcome of the scan
             machine on the edited tree: "same" (accepted, equal value), "reject", "other"
     lives = for the assignments of EditAssign, the life LifeOf(schema, v) of an instance holding v
             (TlvModelFamily / TlvModelLife): after each in-place change m the value v, AnnouncedLength,
             Size and Encode the SAME instance must then show
   and writes them as JSON (IOEnv.VEC_OUT). harness/props/c08.py builds each class through the
   real metaclass from `decl`, encodes every v and compares.                                *)
EXTENDS TlvModelFamily, Json, IOUtils

Outcome(s, v, input) == LET r == RunScan(s, FALSE, input) IN
                        IF r.status = "reject" THEN "reject" ELSE IF r.out = v THEN "same" ELSE "other"
LifeVec(s, v) ==
  LET ms == LifeOf(s, v)
      vs == Lives(s, v, ms)
  IN [j \in 1 .. Len(ms) |-> LET L == Encode(s, vs[j]) IN
        [m |-> ms[j], v |-> vs[j], alen |-> AnnouncedLength(s, vs[j]), size |-> SeqSize(L), tree |-> L,
         ok |-> LifeOk(s, v, ms)]]
VecOf(f) ==
  LET s  == SchemaOf(f)
      EA == EditAssign(s)
  IN [f |-> f, decl |-> Family[f], schema |-> s,
      vecs |-> {LET L == Encode(s, v) IN
                [v |-> v, tree |-> L, alen |-> AnnouncedLength(s, v), size |-> SeqSize(L),
                 back |-> RunScan(s, FALSE, L).out,
                 lives |-> IF v \in EA THEN LifeVec(s, v) ELSE <<>>,
                 edits |-> IF v \in EA
                           THEN {[e EXCEPT !.expect = Outcome(s, v, Apply(L, e))] : e \in AllEdits(s, FALSE, L)}
                           ELSE {}]
                : v \in Assign(s)}]

\* IOEnv.VEC_F = "0": all classes; otherwise the index of one class (the harness runs the classes in parallel)
ASSUME JsonSerialize(IOEnv.VEC_OUT, IF IOEnv.VEC_F = "0" THEN [f \in 1 .. Len(Family) |-> VecOf(f)]
                                    ELSE <<VecOf(atoi(IOEnv.VEC_F))>>)
ASSUME PrintT(<<"FAMILY", Len(Family)>>)

\* vectors cross-checking the trusted strict reader/writer of the harness against TlvNum
ASSUME JsonSerialize(IOEnv.VEC_OUT \o ".num",
                     [i \in 1 .. Cardinality(BoundaryNums) |->
                        LET n == CHOOSE x \in BoundaryNums :
                                   Cardinality({y \in BoundaryNums : NumLT(y, x)}) = i - 1
                        IN [n |-> n, var |-> VarBytes(n), size |-> NumSize(n), width |-> UintWidth(n),
                            uint |-> NumBytes(n, UintWidth(n))]])

VARIABLE dummy
Init == dummy = 0
Next == UNCHANGED dummy
=============================================================================
