--------------------------- MODULE SegFetchInd ---------------------------
(* Integer-only abstraction of SegFetch used for an UNBOUNDED argument with Apalache:
   the sequence `yielded` of SegFetch is always <<0, 1, ..., ny-1>> (or the single unsegmented
   content), so it is represented by its length ny; `sent` is dropped (only the attempt counter
   matters).  Apalache proves IndInv inductive for every object size, final marker, discovery
   answer and retry limit (no bound on MaxN / MaxRetry); the C19 properties follow from IndInv.
   TLC separately checks (SegFetchRef.tla) that every step of SegFetch maps to a step of this
   module under ny = Len(yielded), so the result carries over to the specification that is bound
   to the code.                                                                              *)
EXTENDS Integers

VARIABLES
    \* @type: Int;
    n,
    \* @type: Bool;
    seg,
    \* @type: Int;
    fin,
    \* @type: Int;
    disc,
    \* @type: Int;
    retry,
    \* @type: Str;
    pc,
    \* @type: Int;
    target,
    \* @type: Int;
    tries,
    \* @type: Int;
    ny,
    \* @type: Str;
    err

Disc == -1
ivars == <<n, seg, fin, disc, retry, pc, target, tries, ny, err>>

CfgOk ==
  /\ n >= 0 /\ retry >= 1
  /\ (n = 0 => (seg /\ fin = -1 /\ disc = 0))
  /\ (~seg => (n = 1 /\ fin = -1 /\ disc = 0))
  /\ (seg /\ n > 0 => (fin >= -1 /\ fin < n /\ disc >= 0 /\ disc < n))

Init ==
  /\ CfgOk
  /\ pc = "req" /\ target = Disc /\ tries = 0 /\ ny = 0 /\ err = "none"

Exists(t) == IF t = Disc THEN n > 0 ELSE t < n

Send == /\ pc = "req" /\ pc' = "wait"
        /\ UNCHANGED <<n, seg, fin, disc, retry, target, tries, ny, err>>

RespData ==
  /\ pc = "wait" /\ Exists(target)
  /\ IF target = Disc /\ ~seg
     THEN /\ ny' = ny + 1 /\ pc' = "done" /\ UNCHANGED target
     ELSE LET s == IF target = Disc THEN disc ELSE target IN
          IF target = Disc /\ s # 0
          THEN /\ ny' = ny /\ target' = 0 /\ pc' = "req"
          ELSE /\ ny' = ny + 1
               /\ IF s = fin THEN (pc' = "done" /\ UNCHANGED target) ELSE (pc' = "req" /\ target' = s + 1)
  /\ tries' = 0
  /\ UNCHANGED <<n, seg, fin, disc, retry, err>>

RespLost ==
  /\ pc = "wait"
  /\ tries' = tries + 1
  /\ IF tries + 1 >= retry THEN (pc' = "fail" /\ err' = "timeout") ELSE (pc' = "req" /\ err' = err)
  /\ UNCHANGED <<n, seg, fin, disc, retry, target, ny>>

RespNack == /\ pc = "wait" /\ pc' = "fail" /\ err' = "nack"
            /\ UNCHANGED <<n, seg, fin, disc, retry, target, tries, ny>>
RespVFail == /\ pc = "wait" /\ Exists(target) /\ pc' = "fail" /\ err' = "vfail"
             /\ UNCHANGED <<n, seg, fin, disc, retry, target, tries, ny>>

Next == Send \/ RespData \/ RespLost \/ RespNack \/ RespVFail
ISpec == Init /\ [][Next]_ivars

\* Apalache needs every variable assigned before it is constrained: the "type" part of the initial predicates
TypeAssign ==
  /\ n \in Nat /\ seg \in BOOLEAN /\ fin \in Int /\ disc \in Int /\ retry \in Nat
  /\ pc \in {"req", "wait", "done", "fail"} /\ target \in Int /\ tries \in Int /\ ny \in Int
  /\ err \in {"none", "timeout", "nack", "vfail"}

(* The inductive invariant.  "The segments yielded so far are exactly 0 .. ny-1" is implicit in the
   abstraction; what has to be shown is that the NEXT segment yielded is always number ny, i.e. that the
   request outstanding is the one for segment ny (or the discovery, which may only answer segment 0 or
   restart from 0 when nothing was yielded yet). *)
IndInv ==
  /\ CfgOk
  /\ pc \in {"req", "wait", "done", "fail"}
  /\ err \in {"none", "timeout", "nack", "vfail"}
  /\ tries >= 0 /\ ny >= 0 /\ tries <= retry
  /\ (pc \in {"req", "wait"}) => tries < retry
  /\ (pc \in {"req", "wait", "done"}) => err = "none"
  /\ (pc = "fail") => err # "none"
  /\ (err = "timeout") <=> (pc = "fail" /\ tries >= retry)
  /\ (pc = "fail" /\ err # "timeout") => tries < retry
  \* the outstanding request is for the next segment in order
  /\ (target = Disc) => /\ (pc = "done" => (ny = 1 /\ (~seg \/ (disc = 0 /\ fin = 0))))
                        /\ (pc # "done" => ny = 0)
  /\ (target # Disc) => /\ seg /\ n > 0 /\ target >= 0
                        /\ (pc = "done" => (ny = target + 1 /\ target = fin))
                        /\ (pc # "done" => ny = target)
                        \* nothing at or before the final segment has been passed
                        /\ (fin >= 0 /\ pc # "done" => target <= fin)

InitA == TypeAssign /\ Init
IndInit == TypeAssign /\ IndInv

\* C19 on the abstraction
InOrderOnce == (target # Disc /\ pc # "done") => ny = target       \* the next yield will be segment number ny
DoneComplete == pc = "done" => (err = "none" /\ (IF seg THEN (fin >= 0 /\ ny = fin + 1) ELSE ny = 1))
RetryBound == tries <= retry
FailsIffExhausted == (err = "timeout") <=> (pc = "fail" /\ tries >= retry /\ err # "nack" /\ err # "vfail")
Safety == InOrderOnce /\ DoneComplete /\ RetryBound /\ FailsIffExhausted
=============================================================================
