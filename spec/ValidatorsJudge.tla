--------------------------- MODULE ValidatorsJudge ---------------------------
(* X03 stage C (code -> spec): cases recorded from the real checkers on random, larger inputs (tamper sets of up
   to three tampers, unions of up to four members nested two deep, payloads crossing the 253 / 65536 byte length
   encodings, several key names, one checker object reused for many packets) are judged by TLC evaluating the
   decision operators of Validators.
   One record per line of IOEnv.TRACE_FILE:  c (checker description), p (packet description, integ as a list),
   obs = [v |-> what the awaited call produced, calls |-> top-level members a union invoked].
   The observed verdict must be exactly the one of Validators (no deviation is tolerated any more).
   A record's verdict is the set of failing clauses ({} = accepted):  "exp_<expected verdict>",
   "calls_<expected number>", "illformed" (the harness recorded a description it cannot have built). *)
EXTENDS Validators, Json, IOUtils, TLCExt, TLC

Recs == ndJsonDeserialize(IOEnv.TRACE_FILE)
VARIABLE tid

ToSet(q) == {q[i] : i \in 1..Len(q)}
PktOf(j) == [kind |-> j.kind, decl |-> j.decl, alg |-> j.alg, skey |-> j.skey, loc |-> j.loc, integ |-> ToSet(j.integ),
             params |-> j.params, digest |-> j.digest, dpos |-> j.dpos]
Clauses(r) ==
  LET p == PktOf(r.p)
      o == Out(r.c, p)
  IN IF ~WellFormed(p) THEN {"illformed"}
     ELSE (IF r.obs.v # o.v THEN {"exp_" \o o.v} ELSE {})
          \cup (IF o.calls # r.obs.calls THEN {"calls_" \o ToString(o.calls)} ELSE {})

Init == tid \in 1..Len(Recs)
Next == UNCHANGED tid
Spec == Init /\ [][Next]_tid
Mark == TLCSet(tid, Clauses(Recs[tid]))
Post == \A i \in 1..Len(Recs) : TLCGet(i) = {} \/ PrintT(<<"REJECTED", i, TLCGet(i)>>)
=============================================================================
