---------------------------- MODULE TlvModelScan ----------------------------
(* The scan loop of TlvModel.parse as a state machine: variables (c, st) where c is the case
   being decoded (any record from which SchemaOfCase / IcOfCase / InputOfCase derive the schema,
   the ignore_critical flag and the input elements) and
   st = (pos, fpos, want, key, out, taken, status, why).  One action per branch of the loop, so
   that TLC's coverage and state graph have one edge per case:
     FieldFound / SkippedFound (skipped fields processed) / RepeatedStays / MapKey / MapValue
     (map reads its value element) / IgnoredNonCritical / IgnoredCriticalByFlag / IgnoredInMap /
     RejectCritical (unknown, repeated or out-of-order critical) / Overrun (element overruns its
     parent) / CutNumber (Type or Length number truncated at the end of the level) / BadUintWidth / BadName / BadNested / Done / DoneDangling.
   The instantiating module defines Init (which cases are decoded) and Spec:
     TlvModelC08 (encodings of legal values and their edits), TlvModelC07 (packet alphabets).   *)
EXTENDS TlvModel
\* how the instantiating module stores a case: c -> schema / ignore_critical / input elements
\* (cfg: CONSTANT SchemaOfCase <- ..., IcOfCase <- ..., InputOfCase <- ...)
CONSTANTS SchemaOfCase(_), IcOfCase(_), InputOfCase(_)
VARIABLES c, st
vars == <<c, st>>

\* Classify (cheap) first, so that the full step is evaluated only by the few actions it can end in
Take(b) == /\ b \in BranchesOf(Classify(SchemaOfCase(c), IcOfCase(c), InputOfCase(c), st).cls)
           /\ LET n == ScanStep(SchemaOfCase(c), IcOfCase(c), InputOfCase(c), st) IN n.branch = b /\ st' = n.st

FieldFound            == /\ st.status = "run"
                         /\ Take("FieldFound")
                         /\ UNCHANGED c
SkippedFound          == /\ st.status = "run"
                         /\ Take("SkippedFound")
                         /\ UNCHANGED c
RepeatedStays         == /\ st.status = "run"
                         /\ Take("RepeatedStays")
                         /\ UNCHANGED c
MapKey                == /\ st.status = "run"
                         /\ Take("MapKey")
                         /\ UNCHANGED c
MapValue              == /\ st.status = "run"
                         /\ Take("MapValue")
                         /\ UNCHANGED c
IgnoredNonCritical    == /\ st.status = "run"
                         /\ Take("IgnoredNonCritical")
                         /\ UNCHANGED c
IgnoredCriticalByFlag == /\ st.status = "run"
                         /\ Take("IgnoredCriticalByFlag")
                         /\ UNCHANGED c
IgnoredInMap          == /\ st.status = "run"
                         /\ Take("IgnoredInMap")
                         /\ UNCHANGED c
RejectCritical        == /\ st.status = "run"
                         /\ Take("RejectCritical")
                         /\ UNCHANGED c
Overrun               == /\ st.status = "run"
                         /\ Take("Overrun")
                         /\ UNCHANGED c
CutNumber             == /\ st.status = "run"
                         /\ Take("CutNumber")
                         /\ UNCHANGED c
BadUintWidth          == /\ st.status = "run"
                         /\ Take("BadUintWidth")
                         /\ UNCHANGED c
BadName               == /\ st.status = "run"
                         /\ Take("BadName")
                         /\ UNCHANGED c
BadNested             == /\ st.status = "run"
                         /\ Take("BadNested")
                         /\ UNCHANGED c
Done                  == /\ st.status = "run"
                         /\ Take("Done")
                         /\ UNCHANGED c
DoneDangling          == /\ st.status = "run"
                         /\ Take("DoneDangling")
                         /\ UNCHANGED c

Next == \/ FieldFound \/ SkippedFound \/ RepeatedStays \/ MapKey \/ MapValue
        \/ IgnoredNonCritical \/ IgnoredCriticalByFlag \/ IgnoredInMap
        \/ RejectCritical \/ Overrun \/ CutNumber \/ BadUintWidth \/ BadName \/ BadNested
        \/ Done \/ DoneDangling
Terminal == st.status # "run"

\* the machine agrees with its functional closure (used for nested models and by the judges)
AgreesWithRunScan == Terminal => LET r == RunScan(SchemaOfCase(c), IcOfCase(c), InputOfCase(c)) IN
                                  r.status = st.status /\ r.out = st.out /\ r.taken = st.taken /\ r.why = st.why
\* termination in a number of steps proportional to the input: one element per step
OneElementPerStep == [][st'.status # "run" \/ st'.pos = st.pos + 1]_vars
PosBound == /\ st.pos <= Len(InputOfCase(c)) + 1
            /\ (st.status = "accept" => st.pos = Len(InputOfCase(c)) + 1)
FposMonotone == [][st'.fpos >= st.fpos]_vars
=============================================================================
