------------------------------ MODULE CertTimeTrace ------------------------------
(* Cross-validation of the calendar oracle against CPython's datetime: records [d, s, y, m, dd, txt]
   computed with datetime/timedelta/strftime; TLC evaluates CertTime on (d, s).  A disagreement
   means one of the two trusted calendars is wrong (machinery failure, not a property violation).
   Records with a field `zone` cross-validate CertTimeZone against zoneinfo: [zone, d, s (an instant), wd, ws, fold
   (its reading on the zone's clock: astimezone(zone)), rd, rs, rf (some wall-clock reading with a fold, also ambiguous
   ones and ones inside a gap), id, is (the instant that reading denotes: astimezone(UTC))].                       *)
EXTENDS CertTimeZone, Json, IOUtils, TLCExt, TLC
Traces == ndJsonDeserialize(IOEnv.TRACE_FILE)
VARIABLE tid
JudgeZone(r) == LET z == ZoneOf(r.zone) IN
                IF ~KnownAt(r.zone, Inst(r.d, r.s)) \/ ~KnownAt(r.zone, Inst(r.rd, r.rs)) THEN 10
                ELSE IF WallOf(z, Inst(r.d, r.s)) # [w |-> Inst(r.wd, r.ws), fold |-> r.fold] THEN 11
                ELSE IF InstOf(z, Inst(r.wd, r.ws), r.fold) # Inst(r.d, r.s) THEN 12
                ELSE IF InstOf(z, Inst(r.rd, r.rs), r.rf) # Inst(r.id, r.is) THEN 13 ELSE 1
Judge(r) == IF "zone" \in DOMAIN r THEN JudgeZone(r)
            ELSE IF CivilFromDays(r.d) # Date(r.y, r.m, r.dd) THEN 2
            ELSE IF DaysFromCivil(r.y, r.m, r.dd) # r.d THEN 3
            ELSE IF Render(Inst(r.d, r.s)) # r.txt THEN 4
            ELSE IF Render(AddSec(Inst(r.d, r.s), r.n)) # r.txt2 THEN 5 ELSE 1
TInit == tid \in 1..Len(Traces) /\ TLCSet(tid, Judge(Traces[tid]))
TSpec == TInit /\ [][UNCHANGED tid]_tid
Post == \A i \in 1..Len(Traces) : TLCGet(i) = 1 \/ PrintT(<<"REJECTED", i, TLCGet(i)>>)
=============================================================================
