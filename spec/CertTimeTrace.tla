------------------------------ MODULE CertTimeTrace ------------------------------
(* Cross-validation of the calendar oracle against CPython's datetime: records [d, s, y, m, dd, txt]
   computed with datetime/timedelta/strftime; TLC evaluates CertTime on (d, s).  A disagreement
   means one of the two trusted calendars is wrong (machinery failure, not a property violation). *)
EXTENDS CertTime, Json, IOUtils, TLCExt, TLC
Traces == ndJsonDeserialize(IOEnv.TRACE_FILE)
VARIABLE tid
Judge(r) == IF CivilFromDays(r.d) # Date(r.y, r.m, r.dd) THEN 2
            ELSE IF DaysFromCivil(r.y, r.m, r.dd) # r.d THEN 3
            ELSE IF Render(Inst(r.d, r.s)) # r.txt THEN 4
            ELSE IF Render(AddSec(Inst(r.d, r.s), r.n)) # r.txt2 THEN 5 ELSE 1
TInit == tid \in 1..Len(Traces) /\ TLCSet(tid, Judge(Traces[tid]))
TSpec == TInit /\ [][UNCHANGED tid]_tid
Post == \A i \in 1..Len(Traces) : TLCGet(i) = 1 \/ PrintT(<<"REJECTED", i, TLCGet(i)>>)
=============================================================================
