------------------------------- MODULE FaceLife -------------------------------
(* X03 (extra check): life cycle of the small transports - ndn/transport/face.py (base class),
   udp_face.py (UdpFace, Kind = "udp") and dummy_face.py (DummyFace, the test transport, Kind = "dummy").
   Stream framing (stream_face.py) is Framing.tla; the application's use of a face is AppLife.tla.
   Written from the code; one action per call a user / the event loop makes.

   UdpFace (the datagram endpoint of the event loop is the environment: it calls the protocol object that open()
   registered - datagram_received / error_received / connection_lost - and receives sendto / close):
     open      the endpoint is created, then handler, transport and the `close` future exist and running := True
               (OpenOk).  OpenFail (the endpoint cannot be created): the exception propagates, nothing changes.
               (old code: running := True FIRST, and it stayed True after OpenFail  [DevRunningAfterFailedOpen])
     send      no test of `running`: before the first successful open -> AttributeError (no handler yet);
               otherwise handed to the transport of the last successful open (a closed transport drops it)
     shutdown  running := False, transport.close(); before the first successful open -> AttributeError after
               running was set to False; repeated shutdown: nothing more happens (idempotent)
     run       awaits the `close` future: returns once the endpoint reported connection_lost / an error
     datagram  one callback task per datagram whose first TLV number parses; an empty datagram or one with a
               truncated number is ignored (a warning is logged)
     error_received   resolves `close` unless resolved: a second error is harmless
               (old code: no test, a second error raised InvalidStateError inside the protocol   [DevErrorTwice])
     connection_lost  resolves `close` unless resolved
   DummyFace:  open / shutdown only toggle running; send appends to output_buf ALWAYS (no refusal, open or not);
     input_packet awaits the callback once for a well-formed packet and fails its assertion on trailing / missing
     bytes; run awaits the test function and then shuts the application down.

   Both deviations were found by this check and are REPAIRED in the library (commit c0254c0); the check is strict:
   Dev = {} in every configuration harness/facekit.py writes, so a regression of the repair is a violation.  The
   switches (constant Dev) stay as documentation of the old behaviour and for sensitivity experiments.

   last = result of the last call: "ok" | "AttributeError" | "InvalidStateError" | "OSError" | "AssertionError" *)
EXTENDS Naturals, Sequences, TLC
CONSTANTS Kind,      \* "udp" | "dummy"
          MaxIn,     \* datagrams / packets fed
          MaxOut,    \* sends
          MaxOpen,   \* open attempts
          Dev        \* deviations modelled as (old) code: subset of {"DevRunningAfterFailedOpen", "DevErrorTwice"}; {} = strict

VARIABLES opened,    \* a successful open happened (handler / transport / close future exist)
          running,   \* face.running
          topen,     \* the transport of the last successful open is open
          closeDone, \* the `close` future of the last successful open is resolved
          nin,       \* datagrams fed so far
          good,      \* ... of which parse (a callback is due)
          cb,        \* callbacks made
          nout,      \* send calls so far
          wire,      \* payloads that reached an open transport (udp) / output_buf (dummy)
          dropped,   \* payloads handed to a closed transport
          nopen,     \* open attempts
          runst,     \* "idle" | "waiting" | "returned"
          last
vars == <<opened, running, topen, closeDone, nin, good, cb, nout, wire, dropped, nopen, runst, last>>

Init == /\ opened = FALSE /\ running = FALSE /\ topen = FALSE /\ closeDone = FALSE
        /\ nin = 0 /\ good = 0 /\ cb = 0 /\ nout = 0 /\ wire = 0 /\ dropped = 0 /\ nopen = 0
        /\ runst = "idle" /\ last = "ok"

Udp == Kind = "udp"
RunSettles(cd) == IF runst = "waiting" /\ cd THEN "returned" ELSE runst

OpenOk == /\ nopen < MaxOpen /\ ~topen /\ nopen' = nopen + 1
          /\ opened' = TRUE /\ running' = TRUE /\ topen' = TRUE /\ closeDone' = FALSE /\ last' = "ok"
          /\ runst' = (IF Udp THEN "idle" ELSE runst)          \* (a run() of an earlier connection has returned)
          /\ UNCHANGED <<nin, good, cb, nout, wire, dropped>>
\* only the datagram face connects
OpenFail == /\ Udp /\ nopen < MaxOpen /\ ~topen /\ nopen' = nopen + 1
            /\ running' = (IF "DevRunningAfterFailedOpen" \in Dev THEN TRUE ELSE running) /\ last' = "OSError"
            /\ UNCHANGED <<opened, topen, closeDone, nin, good, cb, nout, wire, dropped, runst>>
Send == /\ nout < MaxOut /\ nout' = nout + 1
        /\ IF Udp /\ ~opened THEN last' = "AttributeError" /\ UNCHANGED <<wire, dropped>>
           ELSE /\ last' = "ok"
                /\ IF Udp /\ ~topen THEN dropped' = dropped + 1 /\ UNCHANGED wire
                   ELSE wire' = wire + 1 /\ UNCHANGED dropped
        /\ UNCHANGED <<opened, running, topen, closeDone, nin, good, cb, nopen, runst>>
Shutdown == /\ running' = FALSE
            /\ IF Udp /\ ~opened THEN last' = "AttributeError" /\ UNCHANGED <<topen, closeDone, runst>>
               ELSE /\ last' = "ok" /\ topen' = FALSE
                    \* transport.close() makes the endpoint report connection_lost(None) once
                    /\ closeDone' = (IF Udp THEN (closeDone \/ topen) ELSE closeDone)
                    /\ runst' = (IF Udp THEN RunSettles(closeDone \/ topen) ELSE runst)
            /\ UNCHANGED <<opened, nin, good, cb, nout, wire, dropped, nopen>>
Run == /\ runst = "idle"
       /\ IF Udp /\ ~opened THEN last' = "AttributeError" /\ UNCHANGED runst
          ELSE last' = "ok" /\ runst' = (IF Udp THEN (IF closeDone THEN "returned" ELSE "waiting") ELSE "returned")
       /\ UNCHANGED <<opened, running, topen, closeDone, nin, good, cb, nout, wire, dropped, nopen>>
\* kinds of input: "good" (an Interest), "typeonly" (one byte: a type number and nothing else), "empty",
\* "trunc" (a 3-byte number cut after its first byte), "trailing" (a packet followed by a stray byte)
Parses(k) == k \in {"good", "typeonly", "trailing"}
Datagram(k) == /\ Udp /\ topen /\ nin < MaxIn /\ nin' = nin + 1
               /\ good' = good + (IF Parses(k) THEN 1 ELSE 0)
               /\ cb' = cb + (IF Parses(k) THEN 1 ELSE 0) /\ last' = "ok"
               /\ UNCHANGED <<opened, running, topen, closeDone, nout, wire, dropped, nopen, runst>>
\* DummyFace.input_packet: exact-length assertion, then the callback is awaited (works without open())
Input(k) == /\ ~Udp /\ nin < MaxIn /\ nin' = nin + 1 /\ k \in {"good", "typeonly", "trailing", "empty"}
            /\ IF k = "good" THEN good' = good + 1 /\ cb' = cb + 1 /\ last' = "ok"
               ELSE UNCHANGED <<good, cb>> /\ last' = (IF k = "trailing" THEN "AssertionError" ELSE "ParseError")
            /\ UNCHANGED <<opened, running, topen, closeDone, nout, wire, dropped, nopen, runst>>
ErrorReceived == /\ Udp /\ topen
                 /\ IF closeDone THEN last' = (IF "DevErrorTwice" \in Dev THEN "InvalidStateError" ELSE "ok") /\ UNCHANGED <<closeDone, runst>>
                    ELSE last' = "ok" /\ closeDone' = TRUE /\ runst' = RunSettles(TRUE)
                 /\ UNCHANGED <<opened, running, topen, nin, good, cb, nout, wire, dropped, nopen>>
Next == OpenOk \/ OpenFail \/ Send \/ Shutdown \/ Run \/ ErrorReceived
        \/ \E k \in {"good", "typeonly", "empty", "trunc", "trailing"} : Datagram(k) \/ Input(k)
Spec == Init /\ [][Next]_vars

\* ---------------------------------------------------------------- design-level statements
TypeOK == /\ opened \in BOOLEAN /\ running \in BOOLEAN /\ topen \in BOOLEAN /\ closeDone \in BOOLEAN
          /\ runst \in {"idle", "waiting", "returned"} /\ cb <= nin /\ wire + dropped <= nout
OneCallbackPerDatagram == cb = good
\* running tells whether there is an open transport (with DevRunningAfterFailedOpen: except after a failed open)
FailedOpenPending == Udp /\ running /\ ~topen /\ "DevRunningAfterFailedOpen" \in Dev
RunningMeansOpen == running => (topen \/ FailedOpenPending)
NoProtocolError == last # "InvalidStateError" \/ "DevErrorTwice" \in Dev
TransportOpenMeansRunning == topen => running
\* run() has returned only if the endpoint is gone or reported an error
ReturnedMeansClosed == (Udp /\ runst = "returned") => closeDone
WaitingMeansOpen == runst = "waiting" => ~closeDone
\* nothing reaches the network without an open transport
NoWireWithoutTransport == Udp /\ ~opened => wire = 0
\* action properties
ShutdownIdempotent == [][(Shutdown /\ ~running /\ ~topen /\ (opened \/ ~Udp))
                         => (last' = "ok" /\ UNCHANGED <<opened, running, topen, closeDone, wire, dropped, cb, runst>>)]_vars
ClosedTransportSendsNothing == [][(~topen /\ Udp) => wire' = wire]_vars

W_Reopen      == ~(nopen = 2 /\ topen /\ cb > 0)
W_FailedOpen  == ~(Udp /\ nopen > 0 /\ ~opened /\ ~running /\ last = "AttributeError")   \* failed open, then a send
W_ErrorTwice  == ~(Udp /\ topen /\ closeDone /\ runst = "returned")       \* (a further error is possible here)
W_Dropped     == ~(dropped > 0)
W_Ignored     == ~(nin > good /\ Udp)
W_RunReturned == ~(runst = "returned" /\ Udp /\ ~running)
WitnessSeq == <<W_Reopen, W_FailedOpen, W_ErrorTwice, W_Dropped, W_Ignored, W_RunReturned>>
ASSUME \A n \in 1..6 : TLCSet(n, FALSE)
MarkW == \A n \in 1..6 : WitnessSeq[n] \/ TLCSet(n, TRUE)
PostW == Udp => \A n \in 1..6 : TLCGet(n) \/ PrintT(<<"VACUOUS", n>>)
=============================================================================
