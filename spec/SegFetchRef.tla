---------------------------- MODULE SegFetchRef ----------------------------
(* Links the specification that is bound to the code (SegFetch) with the integer abstraction whose
   invariant Apalache proves for unbounded sizes (SegFetchInd): every behaviour of SegFetch maps to a behaviour
   of SegFetchInd under ny = Len(yielded), and `yielded` really is 0,1,..,ny-1 (or the single unsegmented
   content). Checked by TLC on the bounded configuration of C19. *)
EXTENDS SegFetch

Ind == INSTANCE SegFetchInd WITH
          n <- cfg.n, seg <- cfg.seg, fin <- cfg.fin, disc <- cfg.disc, retry <- cfg.retry,
          ny <- Len(yielded)
RefinesInd == Ind!ISpec
YieldedIsCount == IF cfg.seg THEN \A i \in 1..Len(yielded) : yielded[i] = i - 1
                  ELSE yielded \in {<<>>, <<Whole>>}
IndInvHolds == Ind!IndInv
=============================================================================
