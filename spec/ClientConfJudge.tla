--------------------------- MODULE ClientConfJudge ---------------------------
(* C20 stage C (code -> spec): observations of read_client_conf / default_keychain / default_face on
   random configurations larger than the exhaustive product (up to 6 candidate files, any existence
   subset, every candidate a regular file or a directory, independent key states incl. empty values, variables
   unset / set / empty, independent location classes, several default locations) and on
   random transport URIs are judged by TLC evaluating the reference of ClientConf.
   Record k = "conf": c (configuration as JSON), obs (projection of what the library returned).
   Record k = "face": u (transport URI as a record), obs (face kind / address / port or "err").
   Every candidate is a regular file, a symbolic link to a file kept elsewhere, a directory, a link to a directory or a
   socket (kind); the other file-system-object fields of a configuration (ghost, cdir, cwd, sobj, smiss, rel) tell the
   executor what to put on disk and are not looked at by Resolve (ClientConf: P_ObjectKindIrrelevant), so CfgOf
   does not carry them; location classes include relT / relB.
   A record's verdict is the set of failing clauses; {} = accepted. *)
EXTENDS ClientConf, Json, IOUtils, TLCExt

Recs == ndJsonDeserialize(IOEnv.TRACE_FILE)
VARIABLE tid

ToSet(q) == {q[i] : i \in 1..Len(q)}
CfgOf(j) == [n |-> j.n, exist |-> ToSet(j.exist), kind |-> j.kind, key |-> j.key, env |-> j.env, loc |-> j.loc, defx |-> j.defx, val |-> j.val]
Verdict(r) == IF r.k = "conf" THEN Clauses(CfgOf(r.c), r.obs)
              ELSE (IF FaceOf(r.u) # r.obs THEN {"face"} ELSE {})

Init == tid \in 1..Len(Recs)
Next == UNCHANGED tid
Spec == Init /\ [][Next]_tid
Mark == TLCSet(tid, Verdict(Recs[tid]))
Post == \A i \in 1..Len(Recs) : TLCGet(i) = {} \/ PrintT(<<"REJECTED", i, TLCGet(i)>>)
=============================================================================
