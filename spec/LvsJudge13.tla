---------------------------- MODULE LvsJudge13 ----------------------------
(* Judge of C13, stage C: LvsJudge with the verdict on source texts (kind "w") extended by the signing relation
   between NAME PATTERNS (LvsTree, Part 4).  Same record format, same output line <<"R", sid, kind, verdict>>.

   kind "w"   rules, outcome of compile_lvs + Checker(...), model + loadok when accepted
     ~WellFormed                                   -> must be SemanticError                      (as LvsJudge!J13w)
     WellFormed, some name pattern is beyond doubt its own signer (PatternIsOwnSigner: the loop may close through a
       pattern that several rule identifiers / definitions share, no identifier being on a loop)
                                                   -> must be SemanticError
     WellFormed, only the coarse reading sees a loop (~NoSelfSigner)
                                                   -> no outcome prescribed; but a model that IS handed out must not
                                                      carry a loop in the signing relation of its own nodes
     WellFormed, NoSelfSigner                      -> accepted, model Sane and loadable           (as LvsJudge!J13w)
   other kinds: LvsJudge!Judge. *)
EXTENDS LvsJudge

J13wp(rec) ==
  LET S == [rules |-> rec.rules] IN
  IF ~WellFormed(S) THEN J13w(rec)
  ELSE LET CH == AllChains(S) IN
       IF ~NoSelfSigner(S, CH)
       THEN (IF PatternIsOwnSigner(S, CH)
             THEN (IF rec.outcome = "SemanticError" THEN <<"ok/pattern-signing-cycle-rejected">>
                   ELSE <<"pattern-signing-cycle-not-rejected/" \o rec.outcome>>)
             ELSE IF rec.outcome = "ok" /\ NodeSignCycle(rec.model)
             THEN <<"accepted-model-has-signing-cycle">>
             ELSE <<"ok/no-obligation-self-signer/" \o rec.outcome>>)
       ELSE IF rec.outcome # "ok" THEN <<"well-formed-rejected/" \o rec.outcome>>
       ELSE IF ~Sane(rec.model) THEN <<"well-formed-model-insane/" \o WhyInsane(rec.model)>>
       ELSE IF ~rec.loadok THEN <<"well-formed-model-not-loadable">>
       ELSE <<"ok/well-formed-accepted">>

Judge13(rec) == IF rec.kind = "w" THEN J13wp(rec) ELSE Judge(rec)

J13Init == /\ si \in 1..Len(Recs)
           /\ \E rec \in {Recs[si]} : PrintT(<<"R", rec.sid, rec.kind, Judge13(rec)>>)
           /\ ti = 0 /\ nm = <<>> /\ c0 = <<>> /\ cur = 0 /\ ei = 0 /\ stack = <<>> /\ ctx = <<>> /\ mts = <<>>
           /\ out = {} /\ steps = 0
=============================================================================
