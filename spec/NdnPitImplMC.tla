---------------------------- MODULE NdnPitImplMC ----------------------------
EXTENDS NdnPitImpl
A == <<"a">>
AB == <<"a", "b">>
ABC == <<"a", "b", "c">>
AC == <<"a", "c">>
T(n, c, g, l) == [name |-> n, cbp |-> c, dig |-> g, life |-> l]
D(n, i) == [name |-> n, id |-> i]
T_timing == {T(A, FALSE, 0, 1), T(A, TRUE, 0, 2)}
D_timing == {D(A, 1)}
T_small == {T(A, FALSE, 0, 1), T(A, TRUE, 0, 2), T(AB, FALSE, 0, 1)}
D_small == {D(A, 1), D(AB, 2)}
T_dig == {T(AB, FALSE, 2, 2), T(AB, FALSE, 0, 1), T(A, TRUE, 0, 2)}
D_dig == {D(AB, 2), D(AB, 3)}
V_two == {"PASS", "FAIL"}
V_all == {"PASS", "FAIL", "TIMEOUT", "SILENCE", "BYPASS", "RAISE"}
R_one == {1}
NoBug == {}
BugStale == {"staleDelete"}
BugCancel == {"cancelResidue"}
=============================================================================
