----------------------------- MODULE NdnPacketsMC -----------------------------
(* Stage A for C01/C02: make_interest / make_data as a three-step machine over every
   configuration of NdnPacketsCfg -
     Encode      the two encoding passes: a buffer laid out for the *reserved* signature length
     SignShrink  the signer writes a <= r bytes; the L of SignatureValue is overwritten in place,
                 the outer length is reduced and re-encoded (tlv_var.shrink_length)
     Refuse*     the documented refusals
   (the representation in which the caller hands over the parameters - cfg.rep - plays no role in any step: LawForms)
   and the laws of NdnPackets as invariants of the emitted packet.                          *)
EXTENDS NdnPacketsCfg

VARIABLES cfg, ph, out
vars == <<cfg, ph, out>>

Init == cfg \in CfgSpace /\ ph = "cfg" /\ out = [k |-> "none"]

Encode == /\ ph = "cfg" /\ ~RefusesName(cfg)
          /\ ph' = "reserved" /\ out' = [k |-> "buf", tree |-> Reserved(cfg)]
          /\ UNCHANGED cfg
RefuseName == ph = "cfg" /\ RefusesName(cfg) /\ ph' = "refused" /\ UNCHANGED <<cfg, out>>
SignShrink == /\ ph = "reserved" /\ ~RefusesShrink(cfg)
              /\ ph' = "made"
              /\ out' = [k |-> "pkt", tree |-> IF Signed(cfg) THEN OpShrink(cfg).tree ELSE out.tree]
              /\ UNCHANGED cfg
RefuseShrink == ph = "reserved" /\ RefusesShrink(cfg) /\ ph' = "refused" /\ UNCHANGED <<cfg, out>>

Next == Encode \/ RefuseName \/ SignShrink \/ RefuseShrink
Spec == Init /\ [][Next]_vars

TypeOK == ph \in {"cfg", "reserved", "made", "refused"} /\ RepOK(cfg)
InvBuffer == ph = "reserved" => out.tree = Reserved(cfg) /\ WellTiled(Flat(out.tree))
InvMade == ph = "made" => out.tree = Final(cfg) /\ Laws(cfg) /\ LawForms(cfg)
\* the same laws split by the property they serve
InvC01 == ph = "made" => out.tree = Final(cfg) /\ LawOneElement(cfg) /\ LawShrink(cfg) /\ LawParseBack(cfg) /\ LawForms(cfg)
InvC02 == ph = "made" => LawRanges(cfg) /\ LawDigestOp(cfg) /\ LawRegions(cfg) /\ LawEdits(cfg)
InvRefused == ph = "refused" => Refuses(cfg)

\* vacuity: every action is taken (coverage) and the situations the laws talk about occur in the
\* configuration space (NdnPacketsWit, evaluated once over CfgSpace)
=============================================================================
