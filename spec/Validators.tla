------------------------------ MODULE Validators ------------------------------
(* X03 (extra check, not a listed property): decision model of the stand-alone validators of
   ndn.security.validator - digest_validator.py (sha256_digest_checker, params_sha256_checker,
   union_checker) and known_key_validator.py (EccChecker / RsaChecker / HmacChecker / Ed25519Checker
   built by from_key / from_cert on top of verify_ecdsa / verify_rsa / verify_hmac / verify_ed25519).
   cascade_validator.py and light_versec are covered by TrustChain / Lvs.

   Written from the code.  A *case* is (checker description c, packet description p); the model says what the
   awaited call  c(name, sig_ptrs)  produces for the SignaturePtrs that parse_interest / parse_data return
   for the packet:  "accept" (True) | "reject" (False) | "raiseV" (a ValueError escapes) | "raiseT"
   (a TypeError escapes).

   Packet description (how harness/valkit.py builds the bytes is stated with every field):
     kind    "I" | "D"
     decl    the SignatureType written in SignatureInfo: "digest" 0 | "rsa" 1 | "ecdsa" 3 | "hmac" 4 | "ed" 5 |
             "unknown" (any other number) | "none" (the packet has neither SignatureInfo nor SignatureValue)
     alg     which real signer of ndn.security.signer produced the SignatureValue ("none" iff decl = "none").
             decl # alg = the packet announces another algorithm than the one that made the value
     skey    "A" | "B": which key of that algorithm signed (two independent keys per algorithm)
     loc     KeyLocator: "absent" | "digest" (KeyDigest form) | "empty" (Name of zero components) |
             "K" (the key name the checkers are built with) | "Kext" (K plus components, e.g. a certificate
             name) | "Kpre" (a proper prefix of K) | "other"
     integ   set of tampers applied AFTER signing ({} = intact):
             "name" / "content" / "siginfo": a byte of the signed portion changed (Name other than the
             parameters-digest component; Content or MetaInfo of Data, ApplicationParameters of an Interest;
             SignatureInfo without touching SignatureType and the KeyLocator class),
             "sv_subst" / "sv_trunc" / "sv_long" / "sv_empty" / "sv_absent": the SignatureValue is replaced
             by other bytes of the same length / shortened / lengthened / made zero-length / removed as element
     params  ApplicationParameters of an Interest: "absent" | "empty" | "nonempty"        (Data: "absent")
     digest  ParametersSha256DigestComponent of an Interest, judged on the FINAL bytes: "absent" |
             "correct" (SHA-256 of ApplicationParameters .. end of the Interest) | "wrong"  (Data: "absent")
     dpos    where the digest component stands in the Name: "end" | "mid" | "none"
   Checker description:
     fn      "digest" | "params" | "rsa" | "ecdsa" | "hmac" | "ed" (the checker classes) | "union" |
             "v_rsa" | "v_ecdsa" | "v_hmac" | "v_ed" (the plain functions verify_rsa(pub_key, sig_ptrs) ... called
             directly with an imported key object / the HMAC key bytes; ckey "A" | "B" only)
     ckey    key-based checkers: the key bits it was built with: "A" | "B" | "X" (bits of a key of ANOTHER
             algorithm: an Ed25519 key for ecdsa, a P-256 key for ed, an RSA key for hmac, an ECC key for rsa)
     via     "key" (from_key(K, bits)) | "cert" (from_cert(certificate of K))
     mem     union: sequence of member descriptions (members may be unions) *)
EXTENDS Naturals, Sequences, FiniteSets

KeyTypes == {"rsa", "ecdsa", "hmac", "ed"}
Algs     == KeyTypes \cup {"digest"}
Decls    == Algs \cup {"unknown", "none"}
Locs     == {"absent", "digest", "empty", "K", "Kext", "Kpre", "other"}
SignedTampers == {"name", "content", "siginfo"}
ValueTampers  == {"sv_subst", "sv_trunc", "sv_long", "sv_empty", "sv_absent"}
Tampers  == SignedTampers \cup ValueTampers
Outcomes == {"accept", "reject", "raiseV", "raiseT"}

\* Deviation switches.  Both defects below were found by this check and are REPAIRED in the library (commit 83a1840
\* "key-based validators answer False instead of raising ..."): the model is strict, `Deviations` is empty and only the
\* intended "reject" conforms - a regression of the fix is a violation.  The switches stay as documentation of the old
\* behaviour (`Legacy`), for the witnesses that the repaired situations are in the case space, and for sensitivity tests.
\*   DevLateKeyImport  (old) from_key / from_cert never look at the key bits; Ecc/Rsa/Ed25519Checker imported them on
\*                     EVERY validation, after the KeyLocator and SignatureType tests: bits the algorithm cannot
\*                     import made the validator raise ValueError packet by packet.  Now: False.
\*   DevNoSigValue     (old) a packet with SignatureInfo but without SignatureValue element: verify_ecdsa / verify_rsa /
\*                     verify_ed25519 called bytes(None) -> TypeError escaped the validator (HmacChecker and
\*                     sha256_digest_checker answered False for the same packet).  Now: False.
RepairedDeviations == {"DevLateKeyImport", "DevNoSigValue"}
Deviations == {}

\* what the packet's SignatureValue is, cryptographically: a valid signature of algorithm T under key k over the
\* signed portion as received  <=>  it was made by T with k and nothing was touched since
SigVerifies(p, T, k) == p.alg = T /\ (T = "digest" \/ p.skey = k) /\ p.integ = {}

KeyLocOk(p) == p.loc \in {"K", "Kext"}         \* Name.is_prefix(key_name, key_locator.name)

\* KnownChecker.from_key(...).validator followed by <T>Checker._verify, branch by branch.
\* dev = set of deviations taken as coded.
KeyChecker(T, ck, p, dev) ==
  IF p.decl = "none" THEN "reject"                              \* no signature_info
  ELSE IF p.loc = "absent" THEN "reject"                        \* no key_locator
  ELSE IF p.loc \in {"digest", "empty"} THEN "reject"           \* key_locator without (non-empty) name
  ELSE IF ~KeyLocOk(p) THEN "reject"
  ELSE IF p.decl # T THEN "reject"                              \* signature_type test of _verify
  ELSE IF ck = "X" /\ T # "hmac" /\ "DevLateKeyImport" \in dev THEN "raiseV"
  ELSE IF "sv_absent" \in p.integ /\ T # "hmac" /\ "DevNoSigValue" \in dev THEN "raiseT"
  ELSE IF SigVerifies(p, T, ck) THEN "accept" ELSE "reject"

\* verify_rsa / verify_ecdsa / verify_hmac / verify_ed25519 called directly: they look neither at the announced
\* SignatureType nor at the KeyLocator, only at the covered bytes and the value.
VerifyFns == {"v_rsa", "v_ecdsa", "v_hmac", "v_ed"}
AlgOfFn(f) == IF f = "v_rsa" THEN "rsa" ELSE IF f = "v_ecdsa" THEN "ecdsa" ELSE IF f = "v_hmac" THEN "hmac" ELSE "ed"
VerifyFn(T, ck, p, dev) ==
  IF (p.alg = "none" \/ "sv_absent" \in p.integ) /\ T # "hmac" /\ "DevNoSigValue" \in dev THEN "raiseT"
  ELSE IF SigVerifies(p, T, ck) THEN "accept" ELSE "reject"

\* sha256_digest_checker: only packets that announce DigestSha256 are checked, everything else passes
\* (unsigned packets and packets signed with any key included) - as coded and as the legacy NDNApp uses it.
DigestChecker(p) ==
  IF p.decl = "digest" THEN (IF SigVerifies(p, "digest", "A") THEN "accept" ELSE "reject")
  ELSE "accept"

\* params_sha256_checker: needs a digest component and compares it.  Data packets have none.
\* (An Interest with a digest component but without ApplicationParameters is compared against the SHA-256 of the
\*  whole Interest value, which contains the digest itself: "correct" does not exist there.)
ParamsChecker(p) == IF p.kind = "I" /\ p.digest = "correct" THEN "accept" ELSE "reject"

\* union_checker(*members): members are awaited in order; the first one that does not answer True decides
\* (False -> False, exception -> propagates), later members are not called; no member -> True.
FirstBad(outs) == IF \E i \in 1..Len(outs) : outs[i] # "accept"
                  THEN CHOOSE i \in 1..Len(outs) : outs[i] # "accept" /\ \A j \in 1..(i - 1) : outs[j] = "accept"
                  ELSE 0
UnionOut(outs) == IF FirstBad(outs) = 0 THEN "accept" ELSE outs[FirstBad(outs)]
UnionCalls(outs) == IF FirstBad(outs) = 0 THEN Len(outs) ELSE FirstBad(outs)

RECURSIVE VerdictD(_, _, _)
VerdictD(c, p, dev) ==
  IF c.fn = "digest" THEN DigestChecker(p)
  ELSE IF c.fn = "params" THEN ParamsChecker(p)
  ELSE IF c.fn \in VerifyFns THEN VerifyFn(AlgOfFn(c.fn), c.ckey, p, dev)
  ELSE IF c.fn = "union" THEN UnionOut([i \in 1..Len(c.mem) |-> VerdictD(c.mem[i], p, dev)])
  ELSE KeyChecker(c.fn, c.ckey, p, dev)

Verdict(c, p)  == VerdictD(c, p, Deviations)          \* the model the library is compared with
Intended(c, p) == VerdictD(c, p, {})                  \* (= Verdict while Deviations is empty)
Legacy(c, p)   == VerdictD(c, p, RepairedDeviations)  \* what the code did before the repairs
\* number of top-level members a union invokes (0 for the other checkers: nothing to count)
Calls(c, p) == IF c.fn = "union" THEN UnionCalls([i \in 1..Len(c.mem) |-> Verdict(c.mem[i], p)]) ELSE 0
\* v / calls: what a conforming library produces (compared strictly);  old: what the unrepaired code produced
Out(c, p) == [v |-> Verdict(c, p), calls |-> Calls(c, p), old |-> Legacy(c, p)]

\* ---------------------------------------------------------------- packets the executor can build
WellFormed(p) ==
  /\ (p.decl = "none") = (p.alg = "none")
  /\ p.alg = "none" => p.integ \subseteq {"name", "content"} /\ p.loc = "absent"
  /\ p.alg \in {"none", "digest"} => p.skey = "A"
  /\ Cardinality(p.integ \cap ValueTampers) <= 1
  /\ p.kind = "D" => p.params = "absent" /\ p.digest = "absent"
  /\ (p.digest = "absent") = (p.dpos = "none")
  /\ p.kind = "I" =>
       /\ p.alg # "none" => p.params # "absent"        \* make_interest adds empty parameters to a signed Interest
       /\ p.digest = "correct" => p.params # "absent"
       /\ "content" \in p.integ => p.params # "absent"

\* ---------------------------------------------------------------- design-level statements (stage A)
\* a key-based checker accepts exactly the packets that announce its algorithm, name its key (or a name under it),
\* and carry an untouched signature of that algorithm under the key the checker was built with
AcceptCondition(c, p) ==
  /\ p.decl = c.fn /\ p.alg = c.fn /\ p.skey = c.ckey /\ p.integ = {} /\ KeyLocOk(p)
P_KeySoundComplete(c, p) == c.fn \in KeyTypes => ((Verdict(c, p) = "accept") = AcceptCondition(c, p))
\* no tampered packet is accepted by a checker that looks at the signature
P_NoTamperAccepted(c, p) ==
  /\ c.fn \in KeyTypes /\ p.integ # {} => Verdict(c, p) # "accept"
  /\ c.fn = "digest" /\ p.decl = "digest" /\ p.integ # {} => Verdict(c, p) # "accept"
\* a key of the same algorithm that did not sign, or a key of another algorithm, never accepts
P_WrongKeyNeverAccepts(c, p) == c.fn \in KeyTypes /\ (c.ckey # p.skey \/ p.alg # c.fn) => Verdict(c, p) # "accept"
P_VerifyFn(c, p) == c.fn \in VerifyFns =>
  /\ (Verdict(c, p) = "accept") = (p.alg = AlgOfFn(c.fn) /\ p.skey = c.ckey /\ p.integ = {})
  /\ p.integ # {} => Verdict(c, p) # "accept"
P_Digest(c, p) == c.fn = "digest" =>
  ((Verdict(c, p) = "accept") = (p.decl # "digest" \/ (p.alg = "digest" /\ p.integ = {})))
P_Params(c, p) == c.fn = "params" =>
  ((Verdict(c, p) = "accept") = (p.kind = "I" /\ p.params # "absent" /\ p.digest = "correct"))
\* union = conjunction; adding a member never turns a refusal into an acceptance; without exceptions the order
\* of the members does not matter
Rev(s) == [i \in 1..Len(s) |-> s[Len(s) + 1 - i]]
P_Union(c, p) == c.fn = "union" =>
  LET outs == [i \in 1..Len(c.mem) |-> Verdict(c.mem[i], p)]
      front == [fn |-> "union", ckey |-> "A", via |-> "key", mem |-> SubSeq(c.mem, 1, Len(c.mem) - 1)]
      rev == [fn |-> "union", ckey |-> "A", via |-> "key", mem |-> Rev(c.mem)]
  IN /\ (Verdict(c, p) = "accept") = (\A i \in 1..Len(outs) : outs[i] = "accept")
     /\ Len(c.mem) = 0 => Verdict(c, p) = "accept"
     /\ Len(c.mem) > 0 /\ Verdict(c, p) = "accept" => Verdict(front, p) = "accept"          \* monotone
     /\ (\A i \in 1..Len(outs) : outs[i] \in {"accept", "reject"}) => Verdict(rev, p) = Verdict(c, p)
     /\ Verdict(c, p) \in {"raiseV", "raiseT"} => \E i \in 1..Len(outs) : outs[i] = Verdict(c, p)
     /\ Calls(c, p) <= Len(c.mem) /\ (Verdict(c, p) = "accept" => Calls(c, p) = Len(c.mem))
\* no checker raises any more; the repairs changed nothing but exceptions into refusals: where the old code differs
\* from the model it raised and the model refuses
P_DevBounded(c, p) ==
  /\ Verdict(c, p) = Intended(c, p) /\ Verdict(c, p) \in {"accept", "reject"}
  /\ Legacy(c, p) # Verdict(c, p) => Verdict(c, p) = "reject" /\ Legacy(c, p) \in {"raiseV", "raiseT"}
P_Total(c, p) == Verdict(c, p) \in Outcomes /\ Intended(c, p) \in {"accept", "reject"}
=============================================================================
