--------------------------- MODULE NdnPacketsSignHist ---------------------------
(* C02, clause "the bytes handed to the signer ... are exactly the signed portion [of that packet] and
   the matching verifier accepts it" for a signer object that is REUSED: applications keep one signer
   and sign many packets with it.

     Sign(k)   the signer signs one more packet of kind k ("data" / "interest")

   pks   the packets signed so far; over = the packets whose signed portions went into the signature
         of this packet.  The reference: exactly this packet's.  DevAccum = TRUE models the deviation
         "one running MAC/hash context kept in the signer and never reset": TLC must refute
         OwnPortionOnly then (sensitivity witness of this module).                               *)
EXTENDS Integers, Sequences, TLC
CONSTANTS MaxPk, DevAccum
VARIABLES pks, acc
vars == <<pks, acc>>
Kinds == {"data", "interest"}
Init == pks = <<>> /\ acc = <<>>
Sign(k) == /\ Len(pks) < MaxPk /\ k \in Kinds
           /\ LET i == Len(pks) + 1  ctx == IF DevAccum THEN Append(acc, i) ELSE <<i>> IN
                /\ pks' = Append(pks, [kind |-> k, over |-> ctx])
                /\ acc' = IF DevAccum THEN ctx ELSE acc
\* the application re-reads the packets (and parse results) it kept: they are what they were
Recheck == UNCHANGED vars
Next == \E k \in Kinds : Sign(k)
Spec == Init /\ [][Next]_vars
OwnPortionOnly == \A i \in 1..Len(pks) : pks[i].over = <<i>>
W_Third == Len(pks) < 3
=============================================================================
