SPECIFICATION TSpec
CONSTANTS MaxPk = 64 DevAccum = FALSE
CONSTRAINT Mark
POSTCONDITION Post
CHECK_DEADLOCK FALSE
