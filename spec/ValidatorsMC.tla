----------------------------- MODULE ValidatorsMC -----------------------------
(* X03 stages A and B for the validators: the case space as initial states, one state per case
   (c = checker description, p = packet description, out = what Validators says the awaited call produces).
   Stage A: the design-level statements of Validators are invariants; Witnesses = vacuity.
   Stage B: harness/valkit.py builds every p as real bytes (make_data / make_interest with the real signers,
   then byte surgery), builds every c as the real checker object and compares.

   Families (the product is taken inside a family; dimensions a family's checker never reads are fixed):
     key     every key-based checker (4 algorithms x key A / B / X x from_key / from_cert)
             x kind x (announced type, real algorithm) x signing key x KeyLocator class x tamper
     verify  verify_rsa / verify_ecdsa / verify_hmac / verify_ed25519 called directly with key A / B
             x kind x (announced type, real algorithm) x signing key x tamper
     digest  sha256_digest_checker x kind x (announced type, real algorithm) x tamper
     params  params_sha256_checker x Interest parameter / digest / digest position classes x signing x tamper
     union   union_checker over sequences of 0..3 members (digest, params, key-based incl. a raising one)
             x representative packets
   Thorough = FALSE keeps a sub-product for the quick tier (see the IF Thorough alternatives). *)
EXTENDS Validators, TLC
CONSTANT Thorough
VARIABLES fam, c, p, out
vars == <<fam, c, p, out>>

Integs == {{}} \cup {{t} : t \in Tampers}
Chk(f, k, v) == [fn |-> f, ckey |-> k, via |-> v, mem |-> <<>>]
Un(m) == [fn |-> "union", ckey |-> "A", via |-> "key", mem |-> m]
Pkt(k, d, a, s, l, g, pa, di, dp) ==
  [kind |-> k, decl |-> d, alg |-> a, skey |-> s, loc |-> l, integ |-> g, params |-> pa, digest |-> di, dpos |-> dp]
\* canonical Interest / Data tail for families that do not look at it
Canon(k, d, a, s, l, g) == IF k = "I" THEN Pkt(k, d, a, s, l, g, "nonempty", "correct", "end")
                           ELSE Pkt(k, d, a, s, l, g, "absent", "absent", "none")

\* announced types tried against a real algorithm
DeclsFor(a) == IF Thorough THEN Decls \ {"none"}
               ELSE {a, "unknown", IF a = "ecdsa" THEN "ed" ELSE IF a = "ed" THEN "ecdsa"
                                   ELSE IF a = "rsa" THEN "hmac" ELSE IF a = "hmac" THEN "digest" ELSE "rsa"}
LocsMC == IF Thorough THEN Locs ELSE {"absent", "K", "Kext", "Kpre", "other"}
ViasMC == IF Thorough THEN {"key", "cert"} ELSE {"key"}

KeyCheckers == {Chk(f, k, v) : f \in KeyTypes, k \in {"A", "B", "X"}, v \in ViasMC}
                 \cup (IF Thorough THEN {} ELSE {Chk(f, "A", "cert") : f \in KeyTypes})

InitKey ==
  /\ fam = "key" /\ c \in KeyCheckers
  /\ \E k \in {"I", "D"} :
       \/ \E a \in Algs : \E d \in DeclsFor(a) : \E s \in {"A", "B"} : \E l \in LocsMC : \E g \in Integs :
            p = Canon(k, d, a, s, l, g)
       \/ \E g \in {{}, {"name"}, {"content"}} : p = Canon(k, "none", "none", "A", "absent", g)

InitVerify ==
  /\ fam = "verify" /\ \E f \in VerifyFns : \E k \in {"A", "B"} : c = Chk(f, k, "key")
  /\ \E k \in {"I", "D"} :
       \/ \E a \in Algs : \E d \in DeclsFor(a) : \E s \in {"A", "B"} : \E g \in Integs :
            p = Canon(k, d, a, s, IF Thorough /\ s = "B" THEN "other" ELSE "K", g)
       \/ \E g \in {{}, {"name"}, {"content"}} : p = Canon(k, "none", "none", "A", "absent", g)

InitDigest ==
  /\ fam = "digest" /\ c = Chk("digest", "A", "key")
  /\ \E k \in {"I", "D"} :
       \/ \E a \in Algs : \E d \in DeclsFor(a) \cup {"digest"} : \E l \in {"absent", "K"} : \E g \in Integs :
            p = Canon(k, d, a, "A", l, g)
       \/ \E g \in {{}, {"name"}, {"content"}} : p = Canon(k, "none", "none", "A", "absent", g)

ParamIntegs == {{}, {"name"}, {"content"}, {"sv_subst"}} \cup (IF Thorough THEN {{"siginfo"}, {"sv_long"}, {"sv_absent"}} ELSE {})
InitParams ==
  /\ fam = "params" /\ c = Chk("params", "A", "key")
  /\ \/ \E a \in {"none", "digest", "ecdsa", "hmac"} : \E pa \in {"absent", "empty", "nonempty"} :
        \E di \in {"absent", "correct", "wrong"} : \E dp \in {"end", "mid", "none"} : \E g \in ParamIntegs :
          p = Pkt("I", a, a, "A", IF a \in KeyTypes THEN "K" ELSE "absent", g, pa, di, dp)
     \/ \E a \in {"none", "digest", "ecdsa"} : p = Canon("D", a, a, "A", IF a \in KeyTypes THEN "K" ELSE "absent", {})

UnionBase == {Chk("digest", "A", "key"), Chk("params", "A", "key"), Chk("ecdsa", "A", "key"),
              Chk("hmac", "A", "key"), Chk("ecdsa", "X", "key")}
               \cup (IF Thorough THEN {Chk("ed", "A", "cert"), Chk("rsa", "B", "key")} ELSE {})
MemSeqs == {<<>>} \cup {<<a>> : a \in UnionBase} \cup {<<a, b>> : a, b \in UnionBase}
             \cup {<<a, b, d>> : a, b, d \in UnionBase}
UnionPkts ==
  {Pkt("I", a, a, "A", IF a \in KeyTypes THEN "K" ELSE "absent", g, "nonempty", di, IF di = "absent" THEN "none" ELSE "end") :
      a \in {"none", "digest", "ecdsa", "hmac"}, g \in {{}, {"content"}, {"sv_absent"}}, di \in {"correct", "wrong"}}
  \cup {Canon("D", a, a, "A", IF a \in KeyTypes THEN "K" ELSE "absent", g) :
      a \in {"none", "digest", "ecdsa"}, g \in {{}, {"content"}}}
InitUnion == /\ fam = "union" /\ \E m \in MemSeqs : c = Un(m)
             /\ p \in UnionPkts
\* one level of nesting: union(union(a, b), d) behaves as union(a, b, d)
InitNested == /\ fam = "union" /\ \E a, b, d \in UnionBase : c = Un(<<Un(<<a, b>>), d>>)
              /\ p \in UnionPkts

Init == /\ (InitKey \/ InitVerify \/ InitDigest \/ InitParams \/ InitUnion \/ InitNested)
        /\ WellFormed(p)
        /\ out = Out(c, p)
Next == UNCHANGED vars
Spec == Init /\ [][Next]_vars

I_Total            == P_Total(c, p)
I_KeySoundComplete == P_KeySoundComplete(c, p)
I_NoTamperAccepted == P_NoTamperAccepted(c, p)
I_WrongKey         == P_WrongKeyNeverAccepts(c, p)
I_VerifyFn         == P_VerifyFn(c, p)
I_Digest           == P_Digest(c, p)
I_Params           == P_Params(c, p)
I_Union            == P_Union(c, p)
I_DevBounded       == P_DevBounded(c, p)
I_Nested == (c.fn = "union" /\ Len(c.mem) = 2 /\ c.mem[1].fn = "union") =>
               Verdict(c, p) = Verdict(Un(c.mem[1].mem \o <<c.mem[2]>>), p)

\* vacuity witnesses: each must be VIOLATED (checked by separate tiny runs with -continue off)
W_KeyAccept   == ~(fam = "key" /\ out.v = "accept" /\ p.loc = "Kext" /\ c.via = "cert")
W_KeyTamper   == ~(fam = "key" /\ p.integ = {"sv_long"} /\ p.decl = c.fn /\ p.alg = c.fn /\ p.skey = c.ckey /\ KeyLocOk(p))
W_RaiseV      == ~(out.old = "raiseV" /\ out.v = "reject" /\ fam = "key")      \* (repaired situations are in the space)
W_RaiseT      == ~(out.old = "raiseT" /\ out.v = "reject" /\ fam = "key")
W_DigestRej   == ~(fam = "digest" /\ out.v = "reject")
W_DigestPass  == ~(fam = "digest" /\ out.v = "accept" /\ p.decl = "ecdsa" /\ p.integ # {})
W_ParamsAcc   == ~(fam = "params" /\ out.v = "accept" /\ p.dpos = "mid")
W_UnionShort  == ~(fam = "union" /\ Len(c.mem) = 3 /\ out.calls = 2 /\ out.v = "reject")
W_UnionRaise  == ~(fam = "union" /\ out.old = "raiseV" /\ out.v = "reject" /\ out.calls = 3)
W_VerifyDecl  == ~(fam = "verify" /\ out.v = "accept" /\ p.decl # p.alg)
WitnessSeq == <<W_KeyAccept, W_KeyTamper, W_RaiseV, W_RaiseT, W_DigestRej, W_DigestPass, W_ParamsAcc, W_UnionShort, W_UnionRaise, W_VerifyDecl>>
\* one run: a state CONSTRAINT notes which witnesses were seen, the POSTCONDITION wants all of them (1 worker)
ASSUME \A i \in 1..10 : TLCSet(i, FALSE)
MarkW == \A i \in 1..10 : WitnessSeq[i] \/ TLCSet(i, TRUE)
PostW == \A i \in 1..10 : TLCGet(i) \/ PrintT(<<"VACUOUS", i>>)
=============================================================================
