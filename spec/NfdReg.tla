------------------------------- MODULE NfdReg -------------------------------
(* C17 - prefix registration against the forwarder management protocol.

   Implementation-shaped model of BOTH front-ends:
     FrontEnd = "v2"     ndn.appv2.NDNApp.register/unregister -> ndn.transport.nfd_registerer.NfdRegister
     FrontEnd = "legacy" ndn.app.NDNApp.register/unregister
   One action per run-to-next-await segment of the coroutines, one per external stimulus.

   Scheduling discipline (asyncio is cooperative): `running` is the call whose synchronous
   section is executing; no other call moves meanwhile. External stimuli (Call, FwdReply,
   Wake, Tick, Connect, Disconnect, Cancel..., LateReply) happen only when the loop is quiescent, exactly
   as the executor applies one stimulus and then runs the loop until nothing is ready.

   Cancellation.  The caller may cancel a call in progress (task.cancel(), asyncio.wait_for, a TaskGroup
   torn down).  At quiescence a call is suspended in one of three places: in the queue of the command
   semaphore (CancelWaiting), in `asyncio.sleep(0.001)` of the timestamp guard while HOLDING the semaphore
   (CancelSleeping), in the express of its command Interest while holding it (CancelSent).  The call ends
   there (pc "cancelled"): it leaves the queue / releases the semaphore, so that the other calls go on;
   _last_command_timestamp and the wire are untouched.  Interpretation: the statement does not say what a
   cancelled call reports; the code raises CancelledError in the first two places and, in the third, turns
   the cancellation of the express into InterestCanceled and returns False - CancelSent accepts either.
   A cancelled call is not an "exchange that finished" (fin is unchanged, SuccessIff200 does not judge it);
   a reply that arrives for its command later goes nowhere (LateReply).  Only calls made by the user are
   cancelled (not the starting task, not the task of a route declared while connected).

   Clock.  `clock` is the wall clock in ms (utils.timestamp()).  It may or may not advance
   between any two steps: Tick advances it between stimuli; inside a run the only two places
   where the code reads it are the guard (ReadClock) and the signer (Send), a Tick before
   the guard read is the same as a Tick before the stimulus, so the stimulus carries one
   bit d = "the clock ticks between the first and the second clock read of this run"
   (variable pend; it is added at Send, or at the end of the run if there was no second read).
   Interpretation (DESIGN 9, C17): "strictly increasing" is judged on the timestamps found
   in the command Interests, in the order they were put on the wire.
   Assumptions: the wall clock never goes backwards; 1 ms of loop time (asyncio.sleep(0.001))
   is at least 1 ms of wall time (Wake advances the clock by 1); an Interest lifetime is at
   least 1 ms of wall time (FwdReply "silence" advances the clock by 1).

   Deviations.  The actions describe the CORRECT design.  Behaviour of the present code that
   departs from it is modelled by extra disjuncts guarded by `name \in Allowed`; they record the
   name in `dev`.  Stage A checks the properties with Allowed = Forced = {}; stage B first learns
   on a small graph (all deviations in Allowed) which of them the code under test has, then uses
   graphs / trace runs with those in Forced, so that an execution of the code is always explained;
   the property clauses that every explanation violates (variable bad) are reported. A deviant
   disjunct is enabled only where it is distinguishable from the correct one.                *)
EXTENDS Integers, Sequences, FiniteSets, TLC

CONSTANTS FrontEnd,      \* "v2" | "legacy"
          NCalls,        \* call ids 1..NCalls, used in increasing order
          UserPrefixes,  \* prefixes user calls may name
          UserVerbs,     \* verbs user calls may use (subset of Verbs)
          Routes,        \* sequence of prefixes declared with route() before connecting
          LateRoutes,    \* set of prefixes that may be declared with route() WHILE connected (disjoint from the others)
          Stall,         \* TRUE: 1 ms of loop time may pass with the wall clock standing still (Wake with adv = 0)
          MaxConn,       \* number of Connect steps allowed
          MaxCancel,     \* number of calls the caller may cancel while they are in progress (bound)
          MaxClock,
          ReplyKinds,    \* subset of AllReplyKinds
          Allowed,       \* subset of AllDevs: deviations the code may or may not have (decided at the first point they show)
          Forced         \* subset of AllDevs: deviations the code is known to have (taken wherever they show)

AllReplyKinds == {"r200", "r400", "r403", "r503", "nack", "silence", "garbage", "vfail"}
StatusKinds   == {"r200", "r400", "r403", "r503"}
DataKinds     == StatusKinds \cup {"garbage"}
GiveUp == 10    \* NfdRegister: `for _ in range(10)` around the guard
AllDevs == {"UnregAnyData", "RegRaisesNoBody", "RegRaisesGarbage", "V2TwoReads", "V2GuardGivesUp",
            "LegacyNoGuard", "LegacyUnregNoSem", "LegacyUnregKeyError"}

\* values for Routes (a cfg file cannot spell a sequence): Routes <- R0 | R1 | R2
R0 == <<>>
R1 == <<"x">>
R2 == <<"x", "y">>

Calls == 1..NCalls
Verbs == {"register", "unregister"}

VARIABLES clock,    \* wall clock (ms)
          pend,     \* 0/1: a tick that happens between the first and second clock read of the current run
          up,       \* connected to the forwarder
          conn,     \* connection epoch (number of Connect steps so far)
          autoQ,    \* declared routes still to be registered on this connection (starting task)
          autoCall, \* call id of the auto-registration in progress, or 0
          nauto,    \* number of auto-registrations started so far; they use the call ids from NCalls downwards,
                    \* user calls the ids from 1 upwards (the harness sees the results of user calls only)
          pc,       \* per call: idle|start|wantSem|waitingSem|acquired|guardOk|guardFail|sleeping|woken|sent|replied|done|cancelled
          vb, pf, wf,  \* per call: verb, prefix, legacy register called with a handler function
          g,        \* per call: clock value read by the guard (last reading, passed or not)
          tries,    \* per call: guard readings that did not pass
          late,     \* routes declared while connected, in order: [r, e (connection epoch of the declaration)]
          sem,      \* holder of the command semaphore, 0 = free
          semQ,     \* FIFO of calls waiting for it
          lastTs,   \* _last_command_timestamp
          cmds,     \* command Interests put on the wire: [verb, prefix, ts, fmt, call, conn]
          replies,  \* per call: what the forwarder answered [k, body] (cleared when the call finishes)
          fin,      \* the exchange that finished last: [c, k, body] (c = 0: none yet)
          result,   \* per call: [k |-> "none"] | [k |-> "ret", v] | [k |-> "raised"] | [k |-> "cancelled"] (CancelledError)
          filt,     \* legacy: prefixes that currently have an Interest filter
          running,  \* call executing its synchronous section, 0 = none
          dev,      \* deviations the code was seen to have
          nodev,    \* deviations the code was seen not to have
          bad       \* property clauses violated so far (history variable)

vars == <<clock, pend, up, conn, autoQ, autoCall, nauto, pc, vb, pf, wf, g, tries, late, sem, semQ, lastTs, cmds,
          replies, fin, result, filt, running, dev, nodev, bad>>

NoReply == [k |-> "none", body |-> FALSE]
NoResult == [k |-> "none", v |-> FALSE]
Ret(b) == [k |-> "ret", v |-> b]
Raised == [k |-> "raised", v |-> FALSE]
CancelledRes == [k |-> "cancelled", v |-> FALSE]

Range(s) == {s[i] : i \in 1..Len(s)}
Legacy == FrontEnd = "legacy"
Idle == {c \in Calls : pc[c] = "idle"}
NextId == CHOOSE c \in Idle : \A x \in Idle : c <= x
TopId == CHOOSE c \in Idle : \A x \in Idle : c >= x

Init ==
  /\ clock = 0 /\ pend = 0 /\ up = FALSE /\ conn = 0 /\ autoQ = <<>> /\ autoCall = 0 /\ nauto = 0
  /\ pc = [c \in Calls |-> "idle"]
  /\ vb = [c \in Calls |-> "register"] /\ pf = [c \in Calls |-> "none"] /\ wf = [c \in Calls |-> FALSE]
  /\ g = [c \in Calls |-> 0] /\ tries = [c \in Calls |-> 0] /\ late = <<>>
  /\ sem = 0 /\ semQ = <<>> /\ lastTs = 0 - 1
  /\ cmds = <<>>
  /\ replies = [c \in Calls |-> NoReply] /\ fin = [c |-> 0, k |-> "none", body |-> FALSE]
  /\ result = [c \in Calls |-> NoResult]
  /\ filt = {} /\ running = 0 /\ dev = {} /\ nodev = {} /\ bad = {}

-----------------------------------------------------------------------------
(* internal actions enabled with no section running *)
WakeSemEnabled == running = 0 /\ sem = 0 /\ semQ # <<>>
AutoNextEnabled == running = 0 /\ up /\ autoCall = 0 /\ autoQ # <<>> /\ Idle # {}
EndRunEnabled == running = 0 /\ ~WakeSemEnabled /\ ~AutoNextEnabled /\ pend > 0
Quiescent == running = 0 /\ ~WakeSemEnabled /\ ~AutoNextEnabled /\ pend = 0
\* routes the starting task registers on a new connection: those declared before connecting, then those declared later
AllRoutes == Routes \o [i \in 1..Len(late) |-> late[i].r]
Undeclared == {r \in LateRoutes : \A i \in 1..Len(late) : late[i].r # r}
\* call ids still needed by auto-registrations: of this connection, of later connections, of routes not yet declared
IdsReserved == Len(autoQ) + Len(AllRoutes) * (MaxConn - conn) + Cardinality(Undeclared) * (MaxConn - conn + 1)

-----------------------------------------------------------------------------
(* Properties of C17 as state predicates *)
InFlight == {c \in Calls : pc[c] = "sent"}
OneAtATime == Cardinality(InFlight) <= 1
TsStrictlyIncreasing == \A i \in 1..Len(cmds) : \A j \in 1..Len(cmds) : i < j => cmds[i].ts < cmds[j].ts
\* judged when an exchange finishes (fin); Track accumulates the verdict over the behaviour
SuccessIff200 == (fin.c # 0 /\ result[fin.c].k = "ret") => (result[fin.c].v <=> (fin.k = "r200"))
NeverRaises == \A c \in Calls : result[c].k # "raised"
CmdsOf(c) == {i \in 1..Len(cmds) : cmds[i].call = c}
ExactlyOneCommand ==
  \A c \in Calls :
    /\ Cardinality(CmdsOf(c)) <= 1
    /\ (pc[c] \in {"sent", "replied"} \/ (pc[c] \in {"done", "cancelled"} /\ result[c].k = "ret")) => Cardinality(CmdsOf(c)) = 1
    /\ \A i \in CmdsOf(c) : cmds[i].verb = vb[c] /\ cmds[i].prefix = pf[c] /\ cmds[i].fmt = FrontEnd
    /\ pc[c] \in {"idle", "start", "wantSem", "waitingSem", "acquired", "guardOk", "guardFail", "sleeping", "woken"} => CmdsOf(c) = {}
RegCount(e, r) == Cardinality({i \in 1..Len(cmds) : cmds[i].conn = e /\ cmds[i].verb = "register" /\ cmds[i].prefix = r})
AutoDone(e) == e < conn \/ (e = conn /\ autoQ = <<>> /\ autoCall = 0)
RoutesOncePerConnection ==
  /\ \A e \in 1..conn : \A r \in Range(Routes) :
       /\ RegCount(e, r) <= 1
       /\ (AutoDone(e) /\ Quiescent) => RegCount(e, r) = 1
  \* a route declared while connected is, for every LATER connection, a route declared before connecting
  /\ \A i \in 1..Len(late) : \A e \in (late[i].e + 1)..conn :
       /\ RegCount(e, late[i].r) <= 1
       /\ (AutoDone(e) /\ Quiescent) => RegCount(e, late[i].r) = 1
\* no waiter is left behind when the semaphore is free and nothing runs
NoStrandedWaiter == Quiescent => ~(sem = 0 /\ semQ # <<>>)
SemHolderOk == sem # 0 => pc[sem] \in {"acquired", "guardOk", "guardFail", "sleeping", "woken", "sent", "replied"}
\* a cancelled call holds nothing: neither the semaphore nor a place in its queue (and the queue holds waiting calls only)
Canc == {c \in Calls : pc[c] = "cancelled"}
CancelReleases == /\ \A c \in Canc : sem # c /\ c \notin Range(semQ)
                  /\ \A i \in 1..Len(semQ) : pc[semQ[i]] = "waitingSem"
\* calls made by the user (the starting task and the tasks of late routes use the ids from the top)
IsUser(c) == c <= NCalls - nauto /\ c # autoCall

BadNow == (IF OneAtATime THEN {} ELSE {"OneAtATime"})
     \cup (IF TsStrictlyIncreasing THEN {} ELSE {"TsStrictlyIncreasing"})
     \cup (IF SuccessIff200 THEN {} ELSE {"SuccessIff200"})
     \cup (IF NeverRaises THEN {} ELSE {"NeverRaises"})
     \cup (IF ExactlyOneCommand THEN {} ELSE {"ExactlyOneCommand"})
     \cup (IF RoutesOncePerConnection THEN {} ELSE {"RoutesOncePerConnection"})
NothingBad == bad = {}
Track == bad' = bad \cup BadNow'

-----------------------------------------------------------------------------
(* external stimuli *)

\* the application calls app.register(p) / app.unregister(p); d: see pend
Call(c, v, p, w, d) ==
  /\ Quiescent /\ up /\ clock + d <= MaxClock
  /\ Cardinality(Idle) > IdsReserved                          \* bound: ids are kept for the auto-registrations still to come
  /\ c = NextId
  /\ v \in UserVerbs /\ p \in UserPrefixes
  /\ (w => (Legacy /\ v = "register" /\ p \notin filt))   \* a duplicate handler raises the documented ValueError: not generated
  /\ pc' = [pc EXCEPT ![c] = "start"]
  /\ vb' = [vb EXCEPT ![c] = v] /\ pf' = [pf EXCEPT ![c] = p] /\ wf' = [wf EXCEPT ![c] = w]
  /\ running' = c /\ pend' = d
  /\ UNCHANGED <<clock, up, conn, autoQ, autoCall, nauto, g, tries, late, sem, semQ, lastTs, cmds, replies, fin, result, filt, dev, nodev>>
  /\ Track

Tick ==
  /\ Quiescent /\ clock < MaxClock
  /\ clock' = clock + 1
  /\ UNCHANGED <<pend, up, conn, autoQ, autoCall, nauto, pc, vb, pf, wf, g, tries, late, sem, semQ, lastTs, cmds, replies, fin, result, filt, running, dev, nodev>>
  /\ Track

\* 1 ms passes on the loop clock (and so on the wall clock): the call sleeping in the guard loop resumes
Wake(c, d, adv) ==
  /\ Quiescent /\ pc[c] = "sleeping" /\ clock + adv + d <= MaxClock
  /\ adv \in 0..1 /\ (adv = 0 => Stall)
  /\ clock' = clock + adv
  /\ pc' = [pc EXCEPT ![c] = "woken"]
  /\ running' = c /\ pend' = d
  /\ UNCHANGED <<up, conn, autoQ, autoCall, nauto, vb, pf, wf, g, tries, late, sem, semQ, lastTs, cmds, replies, fin, result, filt, dev, nodev>>
  /\ Track

\* the forwarder answers the outstanding command of call c (or stays silent until its lifetime ends)
FwdReply(c, k, b, d) ==
  /\ Quiescent /\ pc[c] = "sent"
  /\ k \in ReplyKinds /\ b \in BOOLEAN /\ (k \notin StatusKinds => b = FALSE)
  /\ clock + (IF k = "silence" THEN 1 ELSE 0) + d <= MaxClock
  /\ (k = "silence" => InFlight = {c})      \* bound: lifetimes of commands sent together would end together
  /\ clock' = IF k = "silence" THEN clock + 1 ELSE clock
  /\ replies' = [replies EXCEPT ![c] = [k |-> k, body |-> b]]
  /\ pc' = [pc EXCEPT ![c] = "replied"]
  /\ running' = c /\ pend' = d
  /\ UNCHANGED <<up, conn, autoQ, autoCall, nauto, vb, pf, wf, g, tries, late, sem, semQ, lastTs, cmds, fin, result, filt, dev, nodev>>
  /\ Track

\* @app.route(r) while connected: the route is remembered for later connections and registered now (a task of its own,
\* the caller does not see its result: it uses an id from the top like the auto-registrations)
DeclareRoute(r, d) ==
  /\ Quiescent /\ up /\ r \in Undeclared /\ clock + d <= MaxClock /\ Cardinality(Idle) > IdsReserved
  /\ late' = Append(late, [r |-> r, e |-> conn])
  \* the starting task iterates over the list of routes itself: while it is still at work it picks the new route up too
  \* (so the route may be registered twice on the connection it is declared on - the statement is about routes
  \* declared BEFORE connecting and does not decide this; the model follows the code)
  /\ autoQ' = IF autoCall # 0 \/ autoQ # <<>> THEN Append(autoQ, r) ELSE autoQ
  /\ LET c == TopId IN
       /\ pc' = [pc EXCEPT ![c] = "start"]
       /\ vb' = [vb EXCEPT ![c] = "register"] /\ pf' = [pf EXCEPT ![c] = r] /\ wf' = [wf EXCEPT ![c] = Legacy]
       /\ running' = c
  /\ nauto' = nauto + 1 /\ pend' = d
  /\ UNCHANGED <<clock, up, conn, autoCall, g, tries, sem, semQ, lastTs, cmds, replies, fin, result, filt, dev, nodev>>
  /\ Track

\* main_loop: face opened, the starting task registers the declared routes one after the other
Connect(d) ==
  /\ Quiescent /\ ~up /\ conn < MaxConn /\ clock + d <= MaxClock
  /\ Cardinality(Idle) >= Len(AllRoutes)
  /\ up' = TRUE /\ conn' = conn + 1 /\ autoQ' = AllRoutes /\ pend' = d
  /\ (IF Legacy THEN sem' = 0 /\ semQ' = <<>> ELSE UNCHANGED <<sem, semQ>>)   \* legacy main_loop makes a new semaphore
  /\ UNCHANGED <<clock, autoCall, nauto, pc, vb, pf, wf, g, tries, late, lastTs, cmds, replies, fin, result, filt, running, dev, nodev>>
  /\ Track

\* the face goes down; bound: only with no call in progress
Disconnect ==
  /\ Quiescent /\ up /\ autoQ = <<>> /\ autoCall = 0
  /\ \A c \in Calls : pc[c] \in {"idle", "done", "cancelled"}
  /\ up' = FALSE
  /\ filt' = {}                                             \* legacy _clean_up clears the handler table
  /\ UNCHANGED <<clock, pend, conn, autoQ, autoCall, nauto, pc, vb, pf, wf, g, tries, late, sem, semQ, lastTs, cmds, replies, fin, result, running, dev, nodev>>
  /\ Track

\* The caller cancels call c. d: see pend (the run that follows may read the clock: a waiter that goes on).
CanCancel(c, d) == Quiescent /\ IsUser(c) /\ Cardinality(Canc) < MaxCancel /\ clock + d <= MaxClock
Release(c) == IF sem = c THEN 0 ELSE sem
\* ... while it waits in the queue of the command semaphore: it leaves the queue
CancelWaiting(c, d) ==
  /\ CanCancel(c, d) /\ pc[c] = "waitingSem"
  /\ semQ' = SelectSeq(semQ, LAMBDA x : x # c)
  /\ pc' = [pc EXCEPT ![c] = "cancelled"] /\ result' = [result EXCEPT ![c] = CancelledRes]
  /\ pend' = d
  /\ UNCHANGED <<clock, up, conn, autoQ, autoCall, nauto, vb, pf, wf, g, tries, late, sem, lastTs, cmds, replies, fin, filt, running, dev, nodev>>
  /\ Track
\* ... while it holds the semaphore and sleeps in the guard loop: `async with` releases the semaphore, the first waiter goes on
CancelSleeping(c, d) ==
  /\ CanCancel(c, d) /\ pc[c] = "sleeping"
  /\ sem' = Release(c)
  /\ pc' = [pc EXCEPT ![c] = "cancelled"] /\ result' = [result EXCEPT ![c] = CancelledRes]
  /\ pend' = d
  /\ UNCHANGED <<clock, up, conn, autoQ, autoCall, nauto, vb, pf, wf, g, tries, late, semQ, lastTs, cmds, replies, fin, filt, running, dev, nodev>>
  /\ Track
\* ... while it holds the semaphore and waits for the reply: the pending Interest is dropped, the semaphore released.
\* The code reports False (the express turns the cancellation into InterestCanceled); CancelledError is as good.
\* (the choice is NOT a parameter of the action: the implementation makes it, the observation tells)
CancelSent(c, d) ==
  /\ CanCancel(c, d) /\ pc[c] = "sent"
  /\ sem' = Release(c)
  /\ pc' = [pc EXCEPT ![c] = "cancelled"]
  /\ \E swallowed \in BOOLEAN : result' = [result EXCEPT ![c] = IF swallowed THEN Ret(FALSE) ELSE CancelledRes]
  /\ pend' = d
  /\ UNCHANGED <<clock, up, conn, autoQ, autoCall, nauto, vb, pf, wf, g, tries, late, semQ, lastTs, cmds, replies, fin, filt, running, dev, nodev>>
  /\ Track
CancelCall(c, d) == CancelWaiting(c, d) \/ CancelSleeping(c, d) \/ CancelSent(c, d)

\* the forwarder answers a command whose call was cancelled meanwhile: nobody waits for it, nothing happens
LateReply(c, d) ==
  /\ Quiescent /\ pc[c] = "cancelled" /\ CmdsOf(c) # {} /\ clock + d <= MaxClock
  /\ pend' = d
  /\ UNCHANGED <<clock, up, conn, autoQ, autoCall, nauto, pc, vb, pf, wf, g, tries, late, sem, semQ, lastTs, cmds, replies, fin, result, filt, running, dev, nodev>>
  /\ Track

-----------------------------------------------------------------------------
(* internal actions: the segments of register()/unregister() *)

\* starting task: next declared route
AutoNext ==
  /\ AutoNextEnabled
  /\ LET c == TopId IN
       /\ pc' = [pc EXCEPT ![c] = "start"]
       /\ vb' = [vb EXCEPT ![c] = "register"] /\ pf' = [pf EXCEPT ![c] = Head(autoQ)]
       /\ wf' = [wf EXCEPT ![c] = Legacy]
       /\ autoCall' = c /\ running' = c
  /\ autoQ' = Tail(autoQ) /\ nauto' = nauto + 1
  /\ UNCHANGED <<clock, pend, up, conn, g, tries, late, sem, semQ, lastTs, cmds, replies, fin, result, filt, dev, nodev>>
  /\ Track

\* A deviation point. app = "defect d would show here". The code either has a defect or not, so the
\* choice made at the first point where d shows is kept for the rest of the behaviour (dev / nodev).
Dev(d, app) == app /\ d \in (Allowed \cup Forced) /\ d \notin nodev /\ dev' = dev \cup {d} /\ UNCHANGED nodev
NoDev(d, app) == /\ ~(app /\ (d \in dev \/ d \in Forced))
                 /\ nodev' = IF app /\ d \in Allowed THEN nodev \cup {d} ELSE nodev
                 /\ UNCHANGED dev

\* legacy: register(name, func) for a prefix that already has a handler is refused by the handler table (ValueError from
\* set_interest_filter, before anything is sent). User calls of that kind are not generated (Call); the starting task meets
\* it when a route was declared while it was at work (the route's own task attached the handler first): it notes the refusal
\* and goes on with the next declared route (fix 33f53e0; before, the exception ended the starting task)
Refused == [k |-> "refused", v |-> FALSE]
DupHandler(c) == Legacy /\ vb[c] = "register" /\ wf[c] /\ pf[c] \in filt
BeginRefused(c) ==
  /\ running = c /\ pc[c] = "start" /\ DupHandler(c)
  /\ result' = [result EXCEPT ![c] = Refused]
  /\ pc' = [pc EXCEPT ![c] = "done"]
  /\ running' = 0
  /\ autoCall' = IF c = autoCall THEN 0 ELSE autoCall
  /\ UNCHANGED <<clock, pend, up, conn, autoQ, nauto, vb, pf, wf, g, tries, late, sem, semQ, lastTs, cmds, replies, fin, filt, dev, nodev>>
  /\ Track

\* entry of the coroutine up to the semaphore: legacy handler table bookkeeping
Begin(c) ==
  /\ running = c /\ pc[c] = "start" /\ ~DupHandler(c)
  /\ LET app == Legacy /\ vb[c] = "unregister" /\ pf[c] \notin filt IN
     \/ /\ NoDev("LegacyUnregKeyError", app)
        /\ pc' = [pc EXCEPT ![c] = "wantSem"]
        /\ filt' = IF Legacy /\ vb[c] = "register" /\ wf[c] THEN filt \cup {pf[c]}
                   ELSE IF Legacy /\ vb[c] = "unregister" THEN filt \ {pf[c]} ELSE filt
        /\ UNCHANGED <<result, running>>
     \/ \* DEVIATION: legacy unregister does `del self._prefix_tree[name]` and raises KeyError when no handler was set
        /\ Dev("LegacyUnregKeyError", app)
        /\ result' = [result EXCEPT ![c] = Raised]
        /\ pc' = [pc EXCEPT ![c] = "done"]
        /\ running' = 0
        /\ UNCHANGED filt
  /\ UNCHANGED <<clock, pend, up, conn, autoQ, autoCall, nauto, vb, pf, wf, g, tries, late, sem, semQ, lastTs, cmds, replies, fin>>
  /\ Track

\* `async with self._prefix_register_semaphore` (asyncio.Semaphore is FIFO-fair)
Acquire(c) ==
  /\ running = c /\ pc[c] = "wantSem"
  /\ LET app == Legacy /\ vb[c] = "unregister" IN
     \/ /\ NoDev("LegacyUnregNoSem", app)
        /\ sem = 0 /\ semQ = <<>>
        /\ sem' = c /\ pc' = [pc EXCEPT ![c] = "acquired"]
        /\ UNCHANGED <<semQ, running>>
     \/ /\ NoDev("LegacyUnregNoSem", app)
        /\ ~(sem = 0 /\ semQ = <<>>)
        /\ semQ' = Append(semQ, c) /\ pc' = [pc EXCEPT ![c] = "waitingSem"] /\ running' = 0
        /\ UNCHANGED sem
     \/ \* DEVIATION: legacy unregister does not take the semaphore at all
        /\ Dev("LegacyUnregNoSem", app)
        /\ pc' = [pc EXCEPT ![c] = "acquired"]
        /\ UNCHANGED <<sem, semQ, running>>
  /\ UNCHANGED <<clock, pend, up, conn, autoQ, autoCall, nauto, vb, pf, wf, g, tries, late, lastTs, cmds, replies, fin, result, filt>>
  /\ Track

\* the semaphore was released: its first waiter resumes
AcquireWake(c) ==
  /\ WakeSemEnabled /\ c = Head(semQ) /\ pc[c] = "waitingSem"
  /\ sem' = c /\ semQ' = Tail(semQ) /\ pc' = [pc EXCEPT ![c] = "acquired"] /\ running' = c
  /\ UNCHANGED <<clock, pend, up, conn, autoQ, autoCall, nauto, vb, pf, wf, g, tries, late, lastTs, cmds, replies, fin, result, filt, dev, nodev>>
  /\ Track

\* guard: now = timestamp(); proceed only if now > _last_command_timestamp
ReadClock(c) ==
  /\ running = c /\ pc[c] \in {"acquired", "woken"}
  /\ LET app == Legacy /\ clock <= lastTs
         gaveUp == ~Legacy /\ tries[c] >= GiveUp IN
     \/ /\ NoDev("LegacyNoGuard", app) /\ ~(gaveUp /\ ("V2GuardGivesUp" \in dev \/ "V2GuardGivesUp" \in Forced))
        /\ clock > lastTs
        /\ lastTs' = clock /\ g' = [g EXCEPT ![c] = clock] /\ pc' = [pc EXCEPT ![c] = "guardOk"]
        /\ UNCHANGED tries
     \/ /\ NoDev("LegacyNoGuard", app) /\ ~(gaveUp /\ ("V2GuardGivesUp" \in dev \/ "V2GuardGivesUp" \in Forced))
        /\ clock <= lastTs
        /\ pc' = [pc EXCEPT ![c] = "guardFail"]
        /\ g' = [g EXCEPT ![c] = clock] /\ tries' = [tries EXCEPT ![c] = IF @ > GiveUp THEN @ ELSE @ + 1]   \* saturating counter
        /\ UNCHANGED lastTs
     \/ \* DEVIATION: the legacy front-end has no guard; the timestamp is whatever the clock shows
        /\ Dev("LegacyNoGuard", app)
        /\ g' = [g EXCEPT ![c] = clock] /\ pc' = [pc EXCEPT ![c] = "guardOk"]
        /\ UNCHANGED <<lastTs, tries>>
     \/ \* DEVIATION: NfdRegister stops guarding after GiveUp readings: it does not read the clock again and sends the
        \* command with its last (not larger) reading
        /\ Dev("V2GuardGivesUp", gaveUp)
        /\ pc' = [pc EXCEPT ![c] = "guardOk"]
        /\ UNCHANGED <<lastTs, g, tries>>
  /\ UNCHANGED <<clock, pend, up, conn, autoQ, autoCall, nauto, vb, pf, wf, late, sem, semQ, cmds, replies, fin, result, filt, running>>
  /\ Track

\* await asyncio.sleep(0.001)
Sleep(c) ==
  /\ running = c /\ pc[c] = "guardFail"
  /\ pc' = [pc EXCEPT ![c] = "sleeping"] /\ running' = 0
  /\ UNCHANGED <<clock, pend, up, conn, autoQ, autoCall, nauto, vb, pf, wf, g, tries, late, sem, semQ, lastTs, cmds, replies, fin, result, filt, dev, nodev>>
  /\ Track

\* build, sign and send the command Interest; the pending tick (if any) falls before the signer runs
Send(c) ==
  /\ running = c /\ pc[c] = "guardOk"
  /\ clock' = clock + pend /\ pend' = 0
  /\ LET app == ~Legacy /\ clock' # g[c]
         cmd(t) == [verb |-> vb[c], prefix |-> pf[c], ts |-> t, fmt |-> FrontEnd, call |-> c, conn |-> conn] IN
     \/ /\ NoDev("V2TwoReads", app)
        /\ cmds' = Append(cmds, cmd(g[c]))
     \/ \* DEVIATION: v2 signer reads the clock again instead of using the guard's reading
        /\ Dev("V2TwoReads", app)
        /\ cmds' = Append(cmds, cmd(clock'))
  /\ pc' = [pc EXCEPT ![c] = "sent"] /\ running' = 0
  /\ UNCHANGED <<up, conn, autoQ, autoCall, nauto, vb, pf, wf, g, tries, late, sem, semQ, lastTs, replies, fin, result, filt>>
  /\ Track

\* the awaited express returns or raises; the result is computed; the semaphore is released
Finish(c) ==
  /\ running = c /\ pc[c] = "replied"
  /\ LET k == replies[c].k
         b == replies[c].body
         appU == vb[c] = "unregister" /\ k \in DataKinds \ {"r200"}
         appB == vb[c] = "register" /\ k \in StatusKinds /\ ~b
         appG == vb[c] = "register" /\ k = "garbage"
         d == IF appU THEN "UnregAnyData" ELSE IF appB THEN "RegRaisesNoBody" ELSE "RegRaisesGarbage"
         raise == /\ result' = [result EXCEPT ![c] = Raised]
                  /\ autoQ' = IF c = autoCall THEN <<>> ELSE autoQ    \* an exception ends the starting task
     IN \/ /\ NoDev(d, appU \/ appB \/ appG)
           /\ result' = [result EXCEPT ![c] = Ret(k = "r200")]
           /\ UNCHANGED autoQ
        \/ \* DEVIATION: unregister never parses the status; any Data means success
           /\ Dev("UnregAnyData", appU)
           /\ result' = [result EXCEPT ![c] = Ret(TRUE)] /\ UNCHANGED autoQ
        \/ \* DEVIATION: parse_response raises AttributeError on a ControlResponse without body; register does not catch it
           /\ Dev("RegRaisesNoBody", appB) /\ raise
        \/ \* DEVIATION: content that is not a ControlResponse makes parse_response raise; register does not catch it
           /\ Dev("RegRaisesGarbage", appG) /\ raise
  /\ pc' = [pc EXCEPT ![c] = "done"]
  /\ sem' = IF sem = c THEN 0 ELSE sem
  /\ autoCall' = IF c = autoCall THEN 0 ELSE autoCall
  /\ running' = 0
  /\ fin' = [c |-> c, k |-> replies[c].k, body |-> replies[c].body]
  /\ replies' = [replies EXCEPT ![c] = NoReply]
  /\ UNCHANGED <<clock, pend, up, conn, nauto, vb, pf, wf, g, tries, late, semQ, lastTs, cmds, filt>>
  /\ Track

\* no second clock read happened in this run: the pending tick simply elapses
EndRun ==
  /\ EndRunEnabled
  /\ clock' = clock + pend /\ pend' = 0
  /\ UNCHANGED <<up, conn, autoQ, autoCall, nauto, pc, vb, pf, wf, g, tries, late, sem, semQ, lastTs, cmds, replies, fin, result, filt, running, dev, nodev>>
  /\ Track

-----------------------------------------------------------------------------
Env == \/ \E c \in Calls, v \in UserVerbs, p \in UserPrefixes, w \in BOOLEAN, d \in 0..1 : Call(c, v, p, w, d)
       \/ Tick
       \/ \E c \in Calls, d \in 0..1, adv \in 0..1 : Wake(c, d, adv)
       \/ \E r \in LateRoutes, d \in 0..1 : DeclareRoute(r, d)
       \/ \E c \in Calls, k \in ReplyKinds, b \in BOOLEAN, d \in 0..1 : FwdReply(c, k, b, d)
       \/ \E d \in 0..1 : Connect(d)
       \/ Disconnect
       \/ \E c \in Calls, d \in 0..1 : CancelWaiting(c, d) \/ CancelSleeping(c, d) \/ CancelSent(c, d) \/ LateReply(c, d)
Internal == \/ AutoNext \/ EndRun
            \/ \E c \in Calls : Begin(c) \/ BeginRefused(c) \/ Acquire(c) \/ AcquireWake(c) \/ ReadClock(c) \/ Sleep(c) \/ Send(c) \/ Finish(c)

Next == Env \/ Internal
Spec == Init /\ [][Next]_vars

TypeOK ==
  /\ clock \in 0..MaxClock /\ pend \in 0..1 /\ running \in 0..NCalls /\ sem \in 0..NCalls
  /\ \A c \in Calls : pc[c] \in {"idle", "start", "wantSem", "waitingSem", "acquired", "guardOk", "guardFail",
                                 "sleeping", "woken", "sent", "replied", "done", "cancelled"}
  /\ \A c \in Calls : result[c].k \in {"none", "ret", "raised", "refused", "cancelled"}
  /\ dev \subseteq (Allowed \cup Forced) /\ nodev \subseteq Allowed /\ dev \cap nodev = {}

\* the stimuli are guarded so that the clock stays inside the bound
ClockBound == clock + pend <= MaxClock

\* vacuity witnesses: each must be VIOLATED (reachable) when checked as an invariant
W_Waiting == ~(Len(semQ) >= 2)
W_Slept == ~(\E c \in Calls : pc[c] = "woken")
W_TwoCmds == ~(Len(cmds) >= 2 /\ \E c \in Calls : pc[c] = "done" /\ result[c] = Ret(TRUE))
W_FailNack == ~(fin.c # 0 /\ fin.k = "nack" /\ result[fin.c] = Ret(FALSE))
\* cancellations: each place is reached; after a call was cancelled (having sent nothing: in the queue or in the guard
\* loop) a LATER call still gets its command onto the wire and its answer; a waiter goes on after the holder was cancelled
W_CancelHolder == ~(\E c \in Canc : CmdsOf(c) = {} /\ sem > c /\ pc[sem] = "sleeping")
W_CancelSentRet == ~(\E c \in Canc : result[c] = Ret(FALSE))
W_CancelSentExc == ~(\E c \in Canc : CmdsOf(c) # {} /\ result[c] = CancelledRes)
W_CmdAfterCancel == ~(\E c \in Canc : CmdsOf(c) = {} /\ \E x \in Calls : x > c /\ IsUser(x) /\ pc[x] = "done" /\ result[x] = Ret(TRUE)
                                                                             /\ \E i \in CmdsOf(x) : cmds[i].ts > 0)
W_Reconnect == ~(conn = 2 /\ Quiescent /\ AutoDone(2) /\ Len(cmds) >= 2 * Len(Routes) /\ Len(Routes) > 0)
=============================================================================
