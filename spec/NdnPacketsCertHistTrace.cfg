SPECIFICATION TSpec
CONSTANTS NLoc = 8 MaxSteps = 64 DevCache = FALSE DevShare = FALSE Fns = {"self_sign", "sign_req", "derive", "new_cert"}
CONSTRAINT Mark
POSTCONDITION Post
CHECK_DEADLOCK FALSE
