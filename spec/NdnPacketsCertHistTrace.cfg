SPECIFICATION TSpec
CONSTANTS NLoc = 8 MaxSteps = 64 DevCache = FALSE
CONSTRAINT Mark
POSTCONDITION Post
CHECK_DEADLOCK FALSE
