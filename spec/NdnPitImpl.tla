---------------------------- MODULE NdnPitImpl ----------------------------
(* Implementation-level model of the pending-Interest table of appv2.NDNApp (src/ndn/appv2.py),
   one level below NdnPit: the name trie maps a name to a *node object*; a node object owns a
   pending list; the coroutine waiting for an Interest keeps a *reference to the node object it was
   appended to* (not to the trie slot); Data removes satisfied entries from the list, or removes the
   node from the trie while leaving the object (and its list) alive; validators run as separate tasks
   with a done-guard; timeout / cancellation clean up through the node reference.

   TLC checks that this structure refines the observable specification NdnPit (Defer = {FALSE},
   v2 verdicts) - i.e. that the data-structure manipulation implements "pending", "validating",
   "finished" - and the structural invariants below.  The two defects the conformance checks found in
   the original code are kept as switches (Bug): with "staleDelete" or "cancelResidue" enabled TLC
   produces the counterexamples (a caller receiving KeyError, a newer Interest losing its node, an
   InvalidStateError in the receive path), which is how a design-level check would have caught them.

   Macro-step granularity as in NdnPit: each action is one external stimulus followed by everything
   the event loop runs at that instant.                                                          *)
EXTENDS Integers, Sequences, FiniteSets, TLC

CONSTANTS MaxEntries, MaxT, Templates, DataSet, Verdicts, Reasons, MaxNodes,
          Bug            \* subset of {"staleDelete", "cancelResidue"}

VARIABLES now, up, used,
          trie,          \* name -> node id (0 = no node under that name)
          plist,         \* node id -> sequence of entry ids (the node object's pending_list)
          nnodes,        \* node objects allocated so far
          nref,          \* entry -> node object its waiter holds
          fut,           \* entry -> "none" | "pending" | "result" | "exc" | "cancelled"
          res,           \* entry -> outcome record delivered through the future / raised by the waiter
          waiter,        \* entry -> "none" | "waiting" | "done"
          vtask,         \* entry -> data id the validator task of the entry is working on (0 = none)
          tm, dl,        \* entry -> template, deadline
          err            \* number of exceptions that escaped the receive path or a background task
ivars == <<now, up, used, trie, plist, nnodes, nref, fut, res, waiter, vtask, tm, dl, err>>

Entry == 1..MaxEntries
Node == 1..MaxNodes
Names == { t.name : t \in Templates } \cup { d.name : d \in DataSet } \cup
         UNION { { SubSeq(d.name, 1, k) : k \in 0..Len(d.name) } : d \in DataSet }
NoOut == [k |-> "none", d |-> 0, r |-> 0, v |-> "-", at |-> 0]
NoTm == [name |-> <<>>, cbp |-> FALSE, dig |-> 0, life |-> 0]
IsPrefix(a, b) == Len(a) <= Len(b) /\ \A i \in 1..Len(a) : a[i] = b[i]
SeqToSet(s) == { s[i] : i \in 1..Len(s) }
Filter(s, keep(_)) == LET F[i \in 0..Len(s)] == IF i = 0 THEN <<>> ELSE IF keep(s[i]) THEN Append(F[i-1], s[i]) ELSE F[i-1] IN F[Len(s)]
Accepting(v) == v \in {"PASS", "BYPASS"}
Reported(v) == IF v = "RAISE" THEN "TIMEOUT" ELSE v

Init ==
  /\ now = 0 /\ up = TRUE /\ used = 0 /\ nnodes = 0 /\ err = 0
  /\ trie = [n \in Names |-> 0]
  /\ plist = [x \in Node |-> <<>>]
  /\ nref = [e \in Entry |-> 0]
  /\ fut = [e \in Entry |-> "none"]
  /\ res = [e \in Entry |-> NoOut]
  /\ waiter = [e \in Entry |-> "none"]
  /\ vtask = [e \in Entry |-> 0]
  /\ tm = [e \in Entry |-> NoTm]
  /\ dl = [e \in Entry |-> 0]

\* express_raw_interest + the first segment of _wait_for_data (the caller awaits at once)
IExpress(t) ==
  /\ up /\ used < MaxEntries /\ now + t.life <= MaxT
  /\ LET e == used + 1
         fresh == trie[t.name] = 0
         node == IF fresh THEN nnodes + 1 ELSE trie[t.name] IN
       /\ (fresh => nnodes < MaxNodes)
       /\ used' = e
       /\ nnodes' = IF fresh THEN nnodes + 1 ELSE nnodes
       /\ trie' = [trie EXCEPT ![t.name] = node]                  \* setdefault
       /\ plist' = [plist EXCEPT ![node] = Append(plist[node], e)] \* append_interest
       /\ nref' = [nref EXCEPT ![e] = node]
       /\ fut' = [fut EXCEPT ![e] = "pending"]
       /\ waiter' = [waiter EXCEPT ![e] = "waiting"]
       /\ tm' = [tm EXCEPT ![e] = t]
       /\ dl' = [dl EXCEPT ![e] = now + t.life]
  /\ UNCHANGED <<now, up, res, vtask, err>>

\* InterestTreeNode.satisfy for one node: which entries of its list the Data satisfies
Sat(node, d, isPrefix) ==
  { e \in SeqToSet(plist[node]) : (tm[e].cbp \/ ~isPrefix) /\ (tm[e].dig = 0 \/ tm[e].dig = d.id) }
\* _on_data: for every prefix of the Data name that has a node
IRecvData(d) ==
  /\ up
  /\ LET pre == { p \in Names : IsPrefix(p, d.name) /\ trie[p] # 0 }
         sat(p) == Sat(trie[p], d, p # d.name)
         allSat == UNION { sat(p) : p \in pre }
         emptied == { p \in pre : sat(p) = SeqToSet(plist[trie[p]]) } IN
       \* satisfied entries: a validator task is created for each (entry.satisfy); their futures stay pending
       /\ vtask' = [e \in Entry |-> IF e \in allSat THEN d.id ELSE vtask[e]]
       \* a node whose entries were all satisfied is deleted from the trie, its list is NOT touched;
       \* otherwise its list becomes the unsatisfied entries
       /\ trie' = [n \in Names |-> IF n \in emptied THEN 0 ELSE trie[n]]
       /\ plist' = [x \in Node |->
            IF \E p \in pre : trie[p] = x /\ p \notin emptied
            THEN Filter(plist[x], LAMBDA e : e \notin allSat) ELSE plist[x]]
  /\ UNCHANGED <<now, up, used, nnodes, nref, fut, res, waiter, tm, dl, err>>

\* the validator of entry e returns; done-guard; set_result / set_exception; the waiter wakes and returns
IValFinish(e, v) ==
  /\ vtask[e] # 0
  /\ vtask' = [vtask EXCEPT ![e] = 0]
  /\ IF fut[e] = "pending"
     THEN /\ fut' = [fut EXCEPT ![e] = IF Accepting(v) THEN "result" ELSE "exc"]
          /\ res' = [res EXCEPT ![e] = IF Accepting(v)
                        THEN [k |-> "data", d |-> vtask[e], r |-> 0, v |-> "-", at |-> now]
                        ELSE [k |-> "vfail", d |-> vtask[e], r |-> 0, v |-> Reported(v), at |-> now]]
          /\ waiter' = [waiter EXCEPT ![e] = "done"]
     ELSE UNCHANGED <<fut, res, waiter>>
  /\ UNCHANGED <<now, up, used, trie, plist, nnodes, nref, tm, dl, err>>

\* node.timeout(future) followed by the deletion of the trie slot (shared by timeout and cancellation)
RemovePending(S, tr, pl) ==
  \* removes every entry of S from the list of the node its waiter references; then deletes trie slots.
  \* Returns [trie, plist, keyerr] where keyerr = entries whose cleanup raised KeyError (original code only).
  LET pl2 == [x \in Node |-> Filter(pl[x], LAMBDA e : ~(e \in S /\ nref[e] = x))]
      empt(e) == pl2[nref[e]] = <<>>
      own(e) == tr[tm[e].name] = nref[e]
      del == IF "staleDelete" \in Bug
             THEN { tm[e].name : e \in { x \in S : empt(x) } }             \* del self._pit[node_name], whatever is there
             ELSE { tm[e].name : e \in { x \in S : empt(x) /\ own(x) } }  \* only the node we own
      kerr == IF "staleDelete" \in Bug THEN { e \in S : empt(e) /\ tr[tm[e].name] = 0 } ELSE {} IN
    [trie |-> [n \in Names |-> IF n \in del THEN 0 ELSE tr[n]], plist |-> pl2, keyerr |-> kerr]

Due == { e \in Entry : waiter[e] = "waiting" /\ dl[e] = now }
IFire ==
  /\ Due # {}
  /\ LET r == RemovePending(Due, trie, plist) IN
       /\ trie' = r.trie /\ plist' = r.plist
       /\ fut' = [e \in Entry |-> IF e \in Due THEN "cancelled" ELSE fut[e]]      \* wait_for cancels the future
       /\ waiter' = [e \in Entry |-> IF e \in Due THEN "done" ELSE waiter[e]]
       /\ res' = [e \in Entry |-> IF e \in Due
                    THEN (IF e \in r.keyerr THEN [k |-> "error", d |-> 0, r |-> 0, v |-> "-", at |-> now]
                                            ELSE [k |-> "timeout", d |-> 0, r |-> 0, v |-> "-", at |-> now])
                    ELSE res[e]]
  /\ UNCHANGED <<now, up, used, nnodes, nref, vtask, tm, dl, err>>

ITick == /\ now < MaxT /\ Due = {} /\ now' = now + 1
         /\ UNCHANGED <<up, used, trie, plist, nnodes, nref, fut, res, waiter, vtask, tm, dl, err>>

ICancel(e) ==
  /\ waiter[e] = "waiting"
  /\ LET r == IF "cancelResidue" \in Bug THEN [trie |-> trie, plist |-> plist, keyerr |-> {}]
                                        ELSE RemovePending({e}, trie, plist) IN
       /\ trie' = r.trie /\ plist' = r.plist
  /\ fut' = [fut EXCEPT ![e] = "cancelled"]
  /\ waiter' = [waiter EXCEPT ![e] = "done"]
  /\ res' = [res EXCEPT ![e] = [k |-> "cancel", d |-> 0, r |-> 0, v |-> "-", at |-> now]]
  /\ UNCHANGED <<now, up, used, nnodes, nref, vtask, tm, dl, err>>

\* _on_nack: exact-name lookup, nack_interest on the entries with the same implicit digest
IRecvNack(t, r) ==
  /\ up
  /\ LET node == trie[t.name] IN
     IF node = 0 THEN UNCHANGED <<trie, plist, fut, res, waiter, err>>
     ELSE LET hit == { e \in SeqToSet(plist[node]) : tm[e].dig = t.dig }
              bad == { e \in hit : fut[e] # "pending" }      \* set_exception on a finished future: InvalidStateError
              rest == Filter(plist[node], LAMBDA e : e \notin hit) IN
          IF bad # {}
          THEN /\ err' = err + 1 /\ UNCHANGED <<trie, plist, fut, res, waiter>>
          ELSE /\ fut' = [e \in Entry |-> IF e \in hit THEN "exc" ELSE fut[e]]
               /\ res' = [e \in Entry |-> IF e \in hit THEN [k |-> "nack", d |-> 0, r |-> r, v |-> "-", at |-> now] ELSE res[e]]
               /\ waiter' = [e \in Entry |-> IF e \in hit THEN "done" ELSE waiter[e]]
               /\ plist' = [plist EXCEPT ![node] = rest]
               /\ trie' = IF rest = <<>> THEN [trie EXCEPT ![t.name] = 0] ELSE trie
               /\ UNCHANGED err
  /\ UNCHANGED <<now, up, used, nnodes, nref, vtask, tm, dl>>

\* _clean_up: cancel every future reachable through the trie, clear the trie
IShutdown ==
  /\ up /\ up' = FALSE
  /\ LET reach == UNION { SeqToSet(plist[trie[n]]) : n \in { m \in Names : trie[m] # 0 } }
         live == { e \in reach : fut[e] = "pending" } IN
       /\ fut' = [e \in Entry |-> IF e \in live THEN "cancelled" ELSE fut[e]]
       /\ waiter' = [e \in Entry |-> IF e \in live THEN "done" ELSE waiter[e]]
       /\ res' = [e \in Entry |-> IF e \in live THEN [k |-> "cancel", d |-> 0, r |-> 0, v |-> "-", at |-> now] ELSE res[e]]
  /\ trie' = [n \in Names |-> 0]
  /\ UNCHANGED <<now, used, plist, nnodes, nref, vtask, tm, dl, err>>

INext ==
  \/ \E t \in Templates : IExpress(t)
  \/ \E d \in DataSet : IRecvData(d)
  \/ \E e \in Entry, v \in Verdicts : IValFinish(e, v)
  \/ IFire \/ ITick \/ IShutdown
  \/ \E e \in Entry : ICancel(e)
  \/ \E t \in Templates, r \in Reasons : IRecvNack(t, r)
ISpec == Init /\ [][INext]_ivars

-----------------------------------------------------------------------------
(* Refinement mapping to NdnPit *)
Reachable(e) == \E n \in Names : trie[n] # 0 /\ e \in SeqToSet(plist[trie[n]])
AbsPh == [e \in Entry |->
            IF e > used THEN "unused"
            ELSE IF waiter[e] = "done" THEN "fin"
            ELSE IF vtask[e] # 0 THEN "val"
            ELSE "pend"]
AbsOut == [e \in Entry |-> IF waiter[e] = "done" THEN res[e] ELSE NoOut]
Abs == INSTANCE NdnPit WITH
          Front <- "v2", Envs <- {"bare"}, Junk <- {}, Defer <- {FALSE}, Races <- {{}}, Reconn <- FALSE, Dev <- {},
          ph <- AbsPh, out <- AbsOut, vrun <- vtask,
          aw <- [e \in Entry |-> e <= used], held <- [e \in Entry |-> 0], buf <- [e \in Entry |-> NoOut]
\* every behaviour of the structure is a behaviour of the observable specification (safety part)
Refines == Abs!Init /\ [][Abs!Next]_(Abs!vars)

(* Structural invariants *)
\* a waiting Interest whose Data has not arrived is reachable through the trie (otherwise Data can never satisfy it)
PendingReachable == \A e \in Entry : (waiter[e] = "waiting" /\ vtask[e] = 0) => Reachable(e)
\* nothing about a finished Interest remains in a reachable pending list
NoResidueImpl == \A e \in Entry : waiter[e] = "done" => ~Reachable(e)
\* an entry sits in at most one node object, which is the one its waiter references
OneNode == \A e \in Entry, x \in Node : e \in SeqToSet(plist[x]) => nref[e] = x
\* no trie slot points to an empty node
NoEmptyNode == \A n \in Names : trie[n] # 0 => plist[trie[n]] # <<>>
\* no internal error: nothing escapes the receive path, no caller sees an internal exception
NoInternalError == err = 0 /\ \A e \in Entry : res[e].k # "error"
=============================================================================
