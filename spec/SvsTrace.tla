---------------------------- MODULE SvsTrace ----------------------------
(* Trace validation for C18: executions recorded from a real SvsInst on the virtual-time loop
   (harness/svskit.py) must be behaviours of Svs in Mode = "open", with the recorded projection
   after every event:
     post.local   public local_sv                    post.out     decoded vectors of the sync Interests
     post.missed  on_missing_data calls of the step                emitted during the step
     post.state   public state                       post.timer   ticks until public next_sync_timing
     post.seq     public self_seq
     post.ret     values returned by new_data() during the step (Svs!PublishedSeqs)
     post.cbsaw   local_sv as seen inside on_missing_data (Svs!CallbackSaw)
   The choices C18 leaves open (when suppression is entered, timer lengths, steady emission, whether the
   announcement of PublishThenRecv goes out before or after the packet is handled) are
   existentially quantified in Svs and pinned here by post.state / post.timer / post.out.
   Sequence numbers are recorded in SCALED CLASSES (Svs, header): below Svs!HiSeq as they are, HiSeq + k for
   cfg.hi + k (cfg.hi: decimal string, the executor's; absent = no high class), Svs!BadSeq for a number the
   instance showed that is in neither class. Groups of up to 100 nodes (NodeOrder <- Nodes20 .. Nodes101): an
   execution of a smaller group is also one of a larger one whose other nodes are never heard of (the harness
   pads the recorded vectors with zero entries, so that executions of an instance and of its loop-back peer -
   one node more - are judged in one run).
   Events may carry more fields than the actions read (x: which member of a byte-level packet class was delivered).

   A step that can only be explained by a named deviation (Dev) is accepted and reported as
   <<"DEVUSED", trace, event, choice>>; the harness turns that into a finding.

   IOEnv.SVS_RELAX = <field> drops the comparison of one projection field at the last event of
   each trace; the harness uses it only to name the field in the signature of a rejected trace
   (it re-validates the rejected prefix once per field).                                     *)
EXTENDS Svs, Json, IOUtils, TLCExt

\* the file is read once (TLC would re-evaluate a plain definition at every use)
TraceReg == 8999
ASSUME TLCSet(TraceReg, ndJsonDeserialize(IOEnv.TRACE_FILE))
Traces == TLCGet(TraceReg)
RelaxField == IF "SVS_RELAX" \in DOMAIN IOEnv THEN IOEnv.SVS_RELAX ELSE "none"
VARIABLES tid, l
tvars == <<vars, tid, l>>

Tr == Traces[tid].ev
Max2(a, b) == IF a > b THEN a ELSE b

TInit == /\ tid \in 1..Len(Traces)
         /\ l = 1
         /\ InitWith(Traces[tid].cfg.init, Traces[tid].cfg.t0)
         /\ TLCSet(tid, 1)

\* the relaxation applies to the last event of a (truncated) trace only
Relax == IF l = Len(Tr) THEN RelaxField ELSE "none"
Ev(a) == l <= Len(Tr) /\ Tr[l].a = a /\ l' = l + 1 /\ UNCHANGED tid
Same(f, x, y) == Relax = f \/ x = y
PostOk == LET p == Tr[l].post IN
            /\ Same("local", local', p.local)
            /\ Same("out", out', p.out)
            /\ Same("missed", missed', p.missed)
            /\ Same("state", state', p.state)
            /\ Same("timer", timer', p.timer)
            /\ Same("seq", selfSeq', p.seq)
            /\ Same("ret", PublishedSeqs, p.ret)
            /\ Same("cbsaw", CallbackSaw, p.cbsaw)
\* name the observed open choices before Svs enumerates them
Hint == hint' = [t |-> (IF Relax = "timer" THEN -1 ELSE Tr[l].post.timer),
                 s |-> (IF Relax = "state" THEN "any" ELSE Tr[l].post.state)]
Report(c) == (c \in {"devNoSeq", "devAgg", "devPostponed"}) => PrintT(<<"DEVUSED", tid, l, c>>)

TRecv == /\ Ev("RecvSV") /\ Hint
         /\ \E c \in {"norm", "reject", "devNoSeq"} : RecvSV(Tr[l].p, 0, c, Tr[l].r) /\ PostOk /\ Report(c)
TFire == /\ Ev("TimerFire") /\ Hint
         /\ \E c \in {"norm", "skip", "devAgg"} : TimerFire(0, c) /\ PostOk /\ Report(c)
TPub == /\ Ev("Publish") /\ Hint
        /\ \E m \in 1..Tr[l].n : Publish(Tr[l].n, 0, m) /\ PostOk
TTick == /\ Ev("Tick") /\ Hint
         /\ Tick(Tr[l].d) /\ PostOk
\* n publications and then packet p, handled before the timer task ran (r: publications inside the callback)
TPtr == /\ Ev("PublishThenRecv") /\ Hint
        /\ \E c \in {"norm", "reject", "devNoSeq"}, e \in {"late", "early", "devPostponed"} :
             PublishThenRecv(Tr[l].n, Tr[l].p, 0, c, Tr[l].r, e) /\ PostOk /\ Report(c) /\ Report(e)

TNext == TRecv \/ TFire \/ TPub \/ TTick \/ TPtr
TSpec == TInit /\ [][TNext]_tvars

TView == <<View, tid, l>>
Mark == TLCSet(tid, Max2(TLCGet(tid), l))
Post == \A i \in 1..Len(Traces) :
          \/ TLCGet(i) = Len(Traces[i].ev) + 1
          \/ PrintT(<<"REJECTED", i, TLCGet(i)>>)
=============================================================================
