------------------------------- MODULE Rdr -------------------------------
(* X04 - two applications and an unreliable network between them: the RDR ("putchunks" / "catchunks")
   tools of ndn.bin.tools.  The producer (cmd_serve_rdrcontent.execute: a route on the prefix that answers with
   the metadata packet or segment k of the version it created) and the consumer (cmd_fetch_rdrcontent:
   fetch_metadata / fetch_content / retry on an appv2 NDNApp) are both the real code; the network - loss of
   Interests and Data, late delivery after the consumer gave up on an attempt, Nacks from the forwarder, PIT
   tokens the forwarder puts on the Interests it hands to the producer - is the environment.

   Grain: one action per external stimulus (macro-step discipline as in NdnPit): the consumer's reaction to a
   packet or to a timer runs up to its next `await` in the same instant, which includes expressing the next
   Interest, so "react and send" is one step.

   cfg = [n     : number of segments of the served object (>= 1),
          retry : the -r argument (0 = "no limit"; the tool turns retries <= 0 into sys.maxsize),
          given : how the consumer names the object - "prefix" (metadata discovery on the bare prefix),
                  "metaver" (the versioned metadata name), "dataver" (the versioned data name: no discovery)]

   Precondition: the prefix has at least one component (an Interest name must not be empty; `fetch-rdrcontent /`
   stops with an IndexError, which is outside this model).

   A request is identified by what it asks for: M = the metadata, k >= 0 = segment k.                         *)
EXTENDS Integers, Sequences, FiniteSets, TLC

CONSTANTS MaxN, MaxRetry, MaxFaults, Givens

VARIABLES cfg, c, net, nsent, faults
vars == <<cfg, c, net, nsent, faults>>

M == -1
CfgSpace == [n : 1..MaxN, retry : 0..MaxRetry, given : Givens]

Limit == IF cfg.retry = 0 THEN 1000000 ELSE cfg.retry
Req(cs) == IF cs.stage = "meta" THEN M ELSE cs.seg
IntP(id, req, tok) == [k |-> "I", id |-> id, req |-> req, tok |-> tok, fin |-> 0]
DatP(id, req, tok) == [k |-> "D", id |-> id, req |-> req, tok |-> tok, fin |-> cfg.n - 1]

C0(g) == [pc |-> "start", stage |-> IF g.given = "dataver" THEN "seg" ELSE "meta", seg |-> 0, trial |-> 0,
          got |-> <<>>, err |-> "none"]

InitWith(g) == /\ cfg = g /\ c = C0(g) /\ net = {} /\ nsent = 0 /\ faults = 0
Init == \E g \in CfgSpace : InitWith(g)

\* the consumer continues from state c1 with the packets nb in the network: if it has something to ask, the next
\* Interest leaves in the same instant (tok: whether the forwarder hands it to the producer with a PIT token)
Step(c1, nb, tok) ==
  IF c1.pc = "idle"
  THEN /\ c' = [c1 EXCEPT !.pc = "wait"]
       /\ net' = nb \cup {IntP(nsent + 1, Req(c1), tok)}
       /\ nsent' = nsent + 1
  ELSE /\ c' = c1 /\ net' = nb /\ nsent' = nsent

\* retry(): the awaited Interest was answered
Accept(cs, fin) ==
  IF cs.stage = "meta"
  THEN [cs EXCEPT !.stage = "seg", !.seg = 0, !.trial = 0, !.pc = "idle"]
  ELSE LET g == Append(cs.got, cs.seg) IN
       IF fin = cs.seg THEN [cs EXCEPT !.got = g, !.trial = 0, !.pc = "done"]
                       ELSE [cs EXCEPT !.got = g, !.seg = cs.seg + 1, !.trial = 0, !.pc = "idle"]
\* retry(): the awaited Interest timed out or was nacked
Failed(cs, why) ==
  LET tr == cs.trial + 1 IN
  IF tr >= Limit THEN [cs EXCEPT !.trial = tr, !.pc = "fail", !.err = why]
                 ELSE [cs EXCEPT !.trial = tr, !.pc = "idle"]

Live == c.pc \in {"wait"}
\* a packet under way is referred to by the number of the Interest it is / it answers (an Interest and its answer are never
\* under way together)
HasId(i) == \E p \in net : p.id = i
PktOf(i) == CHOOSE p \in net : p.id = i
MaxSent == (MaxN + 1) * (MaxRetry + 1) + MaxFaults + 2
Ids == 1..MaxSent
Hopeless == \A p \in net : p.req # Req(c)      \* nothing that could still answer the awaited Interest is under way

\* after_start begins: the first Interest leaves
Begin(tok) ==
  /\ c.pc = "start"
  /\ Step([c EXCEPT !.pc = "idle"], net, tok)
  /\ UNCHANGED <<cfg, faults>>

\* an Interest reaches the producer: on_interest answers with the metadata packet / the segment, or not at all
PRecv(i) == LET p == PktOf(i) IN
  /\ HasId(i) /\ Live
  /\ p.k = "I"
  /\ net' = (net \ {p}) \cup (IF p.req = M \/ p.req < cfg.n THEN {DatP(p.id, p.req, p.tok)} ELSE {})
  /\ UNCHANGED <<cfg, c, nsent, faults>>

\* a Data packet reaches the consumer: it answers the awaited Interest, or it is late / unsolicited and is dropped
CData(i, tok) == LET p == PktOf(i) IN
  /\ HasId(i) /\ Live
  /\ p.k = "D"
  /\ IF p.req = Req(c) THEN Step(Accept(c, p.fin), net \ {p}, tok)
                       ELSE Step(c, net \ {p}, tok)
  /\ UNCHANGED <<cfg, faults>>

\* the lifetime of the awaited Interest runs out. Premature (an answer is still under way) it is a fault of the
\* network; packets under way stay under way
CTimeout(tok) ==
  /\ Live
  /\ IF Hopeless THEN faults' = faults ELSE faults' = faults + 1
  /\ Step(Failed(c, "timeout"), net, tok)
  /\ UNCHANGED cfg

\* the forwarder answers an Interest with a Nack (any reason). A Nack is matched by name: one caused by an earlier
\* attempt for the same request hits the attempt that is pending now
CNack(i, tok) == LET p == PktOf(i) IN
  /\ HasId(i) /\ Live
  /\ p.k = "I"
  /\ faults' = faults + 1
  /\ IF p.req = Req(c) THEN Step(Failed(c, "nack"), net \ {p}, tok)
                       ELSE Step(c, net \ {p}, tok)
  /\ UNCHANGED cfg

\* a packet is lost
Lose(i) == LET p == PktOf(i) IN
  /\ HasId(i) /\ Live
  /\ net' = net \ {p} /\ faults' = faults + 1
  /\ UNCHANGED <<cfg, c, nsent>>

Next == \/ \E t \in BOOLEAN : Begin(t)
        \/ \E t \in BOOLEAN : CTimeout(t)
        \/ \E p \in Ids : PRecv(p)
        \/ \E p \in Ids : Lose(p)
        \/ \E p \in Ids, t \in BOOLEAN : CData(p, t)
        \/ \E p \in Ids, t \in BOOLEAN : CNack(p, t)

Bounded == faults <= MaxFaults
Progress == \/ \E t \in BOOLEAN : Begin(t)
            \/ \E p \in Ids : PRecv(p) \/ \E t \in BOOLEAN : CData(p, t)
            \/ (Hopeless /\ \E t \in BOOLEAN : CTimeout(t))
Spec == Init /\ [][Next]_vars
\* the network stops misbehaving after MaxFaults faults (Fault actions are disabled by the guard, not by a CONSTRAINT)
FaultFree == faults < MaxFaults
FCTimeout(t) == (Hopeless \/ FaultFree) /\ CTimeout(t)
FLose(p) == FaultFree /\ Lose(p)
FCNack(p, t) == FaultFree /\ CNack(p, t)
NextF == \/ \E t \in BOOLEAN : Begin(t)
         \/ \E t \in BOOLEAN : FCTimeout(t)
         \/ \E p \in Ids : PRecv(p)
         \/ \E p \in Ids : FLose(p)
         \/ \E p \in Ids, t \in BOOLEAN : CData(p, t)
         \/ \E p \in Ids, t \in BOOLEAN : FCNack(p, t)
FairSpec == Init /\ [][NextF]_vars /\ WF_vars(Progress)
-----------------------------------------------------------------------------
Expected == [i \in 1..cfg.n |-> i - 1]
IsPrefixOf(a, b) == Len(a) <= Len(b) /\ \A i \in 1..Len(a) : a[i] = b[i]

TypeOK == /\ c.pc \in {"start", "idle", "wait", "done", "fail"} /\ c.pc # "idle"
          /\ c.err \in {"none", "timeout", "nack"}
          /\ \A p \in net : p.k \in {"I", "D"} /\ p.id \in 1..nsent
\* segments are collected in order, each once
InOrder == IsPrefixOf(c.got, Expected)
\* the tool reports success exactly with the whole object (count = n, content = all segments)
DoneExact == c.pc = "done" => (c.got = Expected /\ c.err = "none")
\* it gives up exactly when one request failed `retry` times in a row, and never when retries are unlimited
FailExhausted == (c.pc = "fail") <=> (cfg.retry # 0 /\ c.trial >= cfg.retry)
ErrIffFail == (c.err # "none") <=> (c.pc = "fail")
RetryBound == cfg.retry # 0 => c.trial <= cfg.retry
\* never asks beyond the final segment, never asks for metadata when it was given the data version
NoOverfetch == \A p \in net : (p.req = M \/ p.req < cfg.n) /\ (cfg.given = "dataver" => p.req # M)
\* the producer's answers carry the token of the Interest they answer and designate the last segment
AnswersOk == \A p \in net : p.k = "D" => p.fin = cfg.n - 1
\* one attempt at a time: the Interests sent never exceed what the retry loop allows
SentBound == cfg.retry # 0 => nsent <= (cfg.n + 1) * cfg.retry
\* with fewer faults than retries the fetch completes
Completes == (cfg.retry = 0 \/ cfg.retry > MaxFaults) => <>(c.pc = "done")
Ends == <>(c.pc \in {"done", "fail"})

\* vacuity witnesses (must be VIOLATED)
W_DoneAfterFaults == ~(c.pc = "done" /\ faults >= 2 /\ cfg.n >= 2)
W_FailNack == ~(c.pc = "fail" /\ c.err = "nack" /\ Len(c.got) >= 1)
W_LateDataAccepted == ~(\E p \in net : p.k = "D" /\ Live /\ p.req = Req(c) /\ p.id < nsent)
W_StaleDropped == ~(\E p \in net : p.k = "D" /\ Live /\ p.req # Req(c))
=============================================================================
