---------------------------- MODULE NdnPacketsCert ----------------------------
(* C16: certificates issued by security_v2.self_sign / sign_req / derive_cert (all through new_cert).

   request q:
     fn       "self_sign" | "sign_req" | "derive" (derive_cert) | "new_cert" (issuance with explicit start and end)
     subj     subject key type (only selects the key; publen is its DER length)
     keyname  <<[t, l], ...>>   the subject key name  /<identity>/KEY/<key id>
     lit      <<"", "KEY", ...>> parallel to keyname: a component that is a fixed text rather than arbitrary bytes
              ("KEY" two before the end; identities may themselves contain components spelt KEY, self,
              cert-request at any depth - the certificate name is still key-name / issuer-id / version)
     enc      how the caller ENCODES that key in the bytes it hands over (EncsOf): the canonical DER
              SubjectPublicKeyInfo an exporter produces ("spki"), the same key in any other encoding ("spki-compressed"
              point, "spki-explicit" curve parameters, bare "pkcs1" RSAPublicKey, "pem" text, "openssh" text, a bare
              "point" / "raw" key, ...), or "opaque": bytes that are no key encoding at all.  The issuing calls take
              "key bits": whatever is handed over IS the public key of the statement
     pubbuf   the Python buffer the bytes are handed over in (BufKinds); a writable one is overwritten by the caller
              after the call ("given" = the bytes at the time of the call)
     publen   length of the bytes given (the certificate content)
     issuer   [t, l]            the issuer-id component the caller asks for
     idform   how the caller writes it for derive_cert: "comp" (an encoded component) or text in NDN URI
              syntax - "plain" (unreserved characters), "escaped" (%XX escapes), "typed" (<type>=<value>),
              "short" (v= seg= off= t= seq= followed by a decimal number).  All spellings denote the same
              component, so the expected certificate does not depend on idform; the executor writes the
              text from the component (an oracle independent of Component.from_str)
     sg       signer model of the issuing key (kind, reserve r, actual a, key locator kl)
     clock    [d, s, ms]        the wall clock while issuing (version component; "now" of self_sign / sign_req)
     start    [d, s]  dur  n    derive_cert arguments: not-before instant (UTC) and lifetime in seconds
     tz, tz2  minutes east of UTC in which the caller expresses `start` resp. the end (-1000 = naive datetime
              taken as UTC); an aware datetime denotes an instant, so the expected validity text does not
              depend on them.  derive_cert computes the end from the start (tz2 = tz); new_cert takes both
              datetimes, and they may be of different kinds (naive start, aware end, ...)

     zone     "" or an IANA zone name (DST-bearing): the caller expresses `start` in that zone instead of the fixed
              offset tz.  The requested lifetime is a number of SECONDS, so the end instant is start + dur seconds
              of elapsed time whatever the zone's clock does in between
     zone2    "" or an IANA zone name: new_cert's END datetime is expressed in that zone (instead of tz2).  Start and end are
              two independent datetimes: they may be the two passes of ONE wall-clock reading of a repeated hour
     sw, sf   the start AS THE CALLER WRITES IT in `zone`: wall-clock reading (an Inst read on the zone's clock) and PEP 495
     ew, ef   fold; likewise the end in `zone2`.  For the zones and years CertTimeZone knows, ArgsDenote(q) ties them to
              the instants: the reading with its fold denotes q.start (resp. start + dur).  A reading of the repeated
              interval denotes two instants, told apart by fold only; a reading inside the gap denotes the instant PEP 495
              assigns.  The enumerated requests are BUILT from the readings (InZone, FromWall in NdnPacketsCertCfg) and the
              executor constructs the datetime from (reading, fold); recorded requests carry the reading the driver used
     host     the time zone of the HOST PROCESS (TZ / tzset) while the function runs.  A naive datetime is UTC by
              the library's convention (self_sign's epoch, the CLI), not host-local time, so the expected
              certificate does not depend on host either

   expected certificate = Data packet CertCfg(q) (NdnPackets!Final): name = keyname / issuer / version,
   MetaInfo{ContentType = KEY, FreshnessPeriod = 3 600 000}, Content = exactly the bytes given (ContentExpect),
   SignatureInfo{type, KeyLocator = signer's, ValidityPeriod{NotBefore, NotAfter}}, SignatureValue of the
   actual length with every enclosing length exact.                                             *)
EXTENDS NdnPackets, CertTimeZone

TVersion == 54
SelfComp == [t |-> 8, l |-> 4]          \* "self"
ReqComp == [t |-> 8, l |-> 12]          \* "cert-request"
Epoch == Inst(0, 0)
Now(q) == Inst(q.clock.d, q.clock.s)

\* ---- the bytes of the subject key ("whose content is exactly the given public key")
KeyTypes == {"ec256", "ec384", "rsa", "ed25519"}
EcEncs == {"spki", "spki-compressed", "spki-explicit", "pem", "pem-compressed", "openssh", "point", "point-compressed"}
RsaEncs == {"spki", "spki-noparams", "pkcs1", "pkcs1-padded", "pem", "pem-pkcs1", "openssh"}     \* -padded: modulus with a surplus leading zero
EdEncs == {"spki", "pem", "openssh", "raw"}
EncsOf(k) == (IF k \in {"ec256", "ec384"} THEN EcEncs ELSE IF k = "rsa" THEN RsaEncs ELSE EdEncs) \cup {"opaque"}
BufKinds == {"bytes", "bytearray", "memoryview", "memoryview-slice"}
\* encodings the importers of a relying party (the library's checkers: ECC.import_key / RSA.import_key on the
\* Content) do not read: explicit curve parameters, bare points / raw keys without a curve name, non-keys.
\* (cross-validated against PyCryptodome on the bytes GIVEN, every run: a disagreement is a machinery failure)
Unreadable == {"spki-explicit", "point", "point-compressed", "raw", "opaque"}
Readable(q) == q.enc \notin Unreadable
\* the issuing key is the subject key itself (the harness keeps ONE key per type: P-256 signs with reserve 72, P-384 with 104)
OwnKey(q) == \/ q.subj = "ec256" /\ q.sg.kind = "ecdsa" /\ q.sg.r = 72
             \/ q.subj = "ec384" /\ q.sg.kind = "ecdsa" /\ q.sg.r = 104
             \/ q.subj = "rsa" /\ q.sg.kind = "rsa"
             \/ q.subj = "ed25519" /\ q.sg.kind = "ed25519"
\* what is observed of the Content of the certificate:
\*   is       "given" (byte for byte what was handed over) | "other" | "absent"
\*   key      what a relying party imports from it: "subject" (the subject's key) | "other-key" | "unreadable"
\*   carried  a checker built from (key locator, Content) accepts the certificate (expected TRUE = it must, when the
\*            certificate is signed with the very key it carries; expected FALSE = not constrained)
\* The expectation does not depend on enc beyond readability, nor on pubbuf at all: no encoding is rewritten.
ContentExpect(q) == [is |-> "given", key |-> IF Readable(q) THEN "subject" ELSE "unreadable", carried |-> Readable(q) /\ OwnKey(q)]
ContentClause(q, o) == IF o.is # "given" THEN 7 ELSE IF o.key # ContentExpect(q).key THEN 8
                       ELSE IF ContentExpect(q).carried /\ ~o.carried THEN 9 ELSE 1

IssuerComp(q) == IF q.fn = "self_sign" THEN SelfComp ELSE IF q.fn = "sign_req" THEN ReqComp ELSE q.issuer   \* derive, new_cert
CertName(q) == q.keyname \o <<IssuerComp(q), [t |-> TVersion, l |-> MsWidth(q.clock)]>>

CertCfg(q) ==
  [kind |-> "cert", name |-> CertName(q), cbp |-> FALSE, mbf |-> FALSE, fh |-> <<>>, nonce |-> FALSE, life |-> 0,
   hop |-> FALSE, app |-> -1, meta |-> [p |-> TRUE, ct |-> 1, fp |-> 4, fbi |-> -1], content |-> q.publen,
   sg |-> q.sg, vp |-> TRUE]

\* "encodes exactly the requested instants": derive_cert / new_cert are given them (start, start + lifetime).
\* self_sign and sign_req request their documented periods: the epoch .. the same calendar day and time 20 years
\* after the moment of issuing, resp. that moment .. 10 days later.  Only when 29 February has no counterpart
\* 20 years later (2080 -> 2100) the day is not determined: 28 February and 1 March are both accepted.
NotBeforeInst(q) == IF q.fn = "self_sign" THEN Epoch ELSE IF q.fn = "sign_req" THEN Now(q) ELSE q.start
NotAfterInsts(q) == IF q.fn = "self_sign" THEN AddYears(Now(q), 20)
                    ELSE IF q.fn = "sign_req" THEN {AddDays(Now(q), 10)} ELSE {AddSec(q.start, q.dur)}
NotBefore(q) == Render(NotBeforeInst(q))
NotAfter(q) == { Render(i) : i \in NotAfterInsts(q) }
InScope(q) == \A i \in NotAfterInsts(q) : InstLeq(i, MaxInst)
ValidityOk(q, nb, na) == nb = NotBefore(q) /\ na \in NotAfter(q)

\* the datetimes handed over denote the requested instants (zones and years outside CertTimeZone's scope: not constrained here,
\* the executor converts the instant with zoneinfo as before)
EndInst(q) == AddSec(q.start, q.dur)
StartDenotes(q) == q.zone = "" \/ ~KnownAt(q.zone, q.sw) \/ InstOf(ZoneOf(q.zone), q.sw, q.sf) = q.start
EndDenotes(q) == q.zone2 = "" \/ ~KnownAt(q.zone2, q.ew) \/ InstOf(ZoneOf(q.zone2), q.ew, q.ef) = EndInst(q)
ArgsDenote(q) == q.fn \in {"derive", "new_cert"} => StartDenotes(q) /\ (q.fn = "new_cert" => EndDenotes(q))

\* byte ranges of the two instants inside the wire
ValidityRanges(q) ==
  LET fl == Flat(Final(CertCfg(q)))
      nb == CHOOSE i \in 1..Len(fl) : fl[i].t = TNotBefore
      na == CHOOSE i \in 1..Len(fl) : fl[i].t = TNotAfter IN
  [nb |-> Iv(fl[nb].off + fl[nb].hdr, End(fl[nb])), na |-> Iv(fl[na].off + fl[na].hdr, End(fl[na]))]
KeyLocatorRange(q) ==
  LET fl == Flat(Final(CertCfg(q)))  S == { i \in 1..Len(fl) : fl[i].t = TKeyLocator } IN
  IF S = {} THEN <<>> ELSE LET i == CHOOSE j \in S : TRUE IN <<Iv(fl[i].off + fl[i].hdr, End(fl[i]))>>

LawCert(q) ==
  LET c == CertCfg(q)  F == Final(c)  nm == F.kids[1] IN
  /\ Laws(c)
  /\ F.t = TData /\ KidTypes(F) = <<TName, TMetaInfo, TContent, TSigInfo, TSigValue>>
  /\ Len(nm.kids) = Len(q.keyname) + 2
  /\ nm.kids[Len(nm.kids)].t = TVersion /\ nm.kids[Len(nm.kids)].len \in {1, 2, 4, 8}
  /\ CompsOf(nm)[Len(nm.kids) - 1] = IssuerComp(q)
  /\ KidTypes(F.kids[2]) = <<TContentType, TFreshness>> /\ F.kids[2].kids[1].len = 1 /\ F.kids[2].kids[2].len = 4
  /\ F.kids[3].len = q.publen /\ q.enc \in EncsOf(q.subj) /\ q.pubbuf \in BufKinds
  /\ ContentClause(q, ContentExpect(q)) = 1 /\ ContentClause(q, [ContentExpect(q) EXCEPT !.is = "other"]) = 7
  /\ LET si == F.kids[4]  vp == si.kids[Len(si.kids)] IN
       /\ vp.t = TValidity /\ KidTypes(vp) = <<TNotBefore, TNotAfter>> /\ vp.kids[1].len = 15 /\ vp.kids[2].len = 15
       /\ si.kids[1].t = TSigType
       /\ (q.sg.haskl => si.kids[2].t = TKeyLocator /\ CompsOf(si.kids[2].kids[1]) = q.sg.kl)
  /\ F.kids[5].len = q.sg.a
  \* the whole certificate except its outer TL and its SignatureValue is signed (so are both instants and the locator)
  /\ SignedRange(c) = <<Iv(Hdr(F), Size(F) - Size(F.kids[5]))>>
  /\ Inside(ValidityRanges(q).nb, SignedRange(c)[1]) /\ Inside(ValidityRanges(q).na, SignedRange(c)[1])
  /\ ArgsDenote(q) /\ q.sf \in {0, 1} /\ q.ef \in {0, 1}
  /\ Len(NotBefore(q)) = 15 /\ ParseInst(NotBefore(q)) = [ok |-> TRUE, i |-> NotBeforeInst(q)]
  /\ \A i \in NotAfterInsts(q) : /\ ParseInst(Render(i)) = [ok |-> TRUE, i |-> i]
                                  /\ InstLeq(NotBeforeInst(q), i)
                                  /\ (LexLess(NotBefore(q), Render(i)) \/ NotBefore(q) = Render(i))
  \* 20 years later is the same month and day whenever that day exists
  /\ (q.fn = "self_sign" /\ HasSameDay(Now(q), 20) =>
        \A i \in NotAfterInsts(q) : LET a == CivilFromDays(Now(q).d)  b == CivilFromDays(i.d) IN
                                        b.y = a.y + 20 /\ b.m = a.m /\ b.d = a.d /\ i.s = Now(q).s)

CertExpect(q) ==
  LET c == CertCfg(q) IN
  [lay |-> Flat(Final(c)), signed |-> SignedRange(c), sv |-> <<SigValueRange(c)>>,
   nb |-> NotBefore(q), na |-> NotAfter(q),
   nbr |-> ValidityRanges(q).nb, nar |-> ValidityRanges(q).na,
   klr |-> KeyLocatorRange(q), content |-> ContentExpect(q), sameday |-> (q.fn # "self_sign" \/ HasSameDay(Now(q), 20))]
=============================================================================
