---------------------------- MODULE NdnPacketsCert ----------------------------
(* C16: certificates issued by security_v2.self_sign / sign_req / derive_cert (all through new_cert).

   request q:
     fn       "self_sign" | "sign_req" | "derive" (derive_cert) | "new_cert" (issuance with explicit start and end)
     subj     subject key type (only selects the key; publen is its DER length)
     keyname  <<[t, l], ...>>   the subject key name  /<identity>/KEY/<key id>
     publen   length of the public key (the certificate content)
     issuer   [t, l]            the issuer-id component the caller asks for
     idform   how the caller writes it for derive_cert: "comp" (an encoded component) or text in NDN URI
              syntax - "plain" (unreserved characters), "escaped" (%XX escapes), "typed" (<type>=<value>),
              "short" (v= seg= off= t= seq= followed by a decimal number).  All spellings denote the same
              component, so the expected certificate does not depend on idform; the executor writes the
              text from the component (an oracle independent of Component.from_str)
     sg       signer model of the issuing key (kind, reserve r, actual a, key locator kl)
     clock    [d, s, ms]        the wall clock while issuing (version component; "now" of self_sign / sign_req)
     start    [d, s]  dur  n    derive_cert arguments: not-before instant (UTC) and lifetime in seconds
     tz, tz2  minutes east of UTC in which the caller expresses `start` resp. the end (-1000 = naive datetime
              taken as UTC); an aware datetime denotes an instant, so the expected validity text does not
              depend on them.  derive_cert computes the end from the start (tz2 = tz); new_cert takes both
              datetimes, and they may be of different kinds (naive start, aware end, ...)

   expected certificate = Data packet CertCfg(q) (NdnPackets!Final): name = keyname / issuer / version,
   MetaInfo{ContentType = KEY, FreshnessPeriod = 3 600 000}, Content = public key,
   SignatureInfo{type, KeyLocator = signer's, ValidityPeriod{NotBefore, NotAfter}}, SignatureValue of the
   actual length with every enclosing length exact.                                             *)
EXTENDS NdnPackets, CertTime

TVersion == 54
SelfComp == [t |-> 8, l |-> 4]          \* "self"
ReqComp == [t |-> 8, l |-> 12]          \* "cert-request"
Epoch == Inst(0, 0)
Now(q) == Inst(q.clock.d, q.clock.s)

IssuerComp(q) == IF q.fn = "self_sign" THEN SelfComp ELSE IF q.fn = "sign_req" THEN ReqComp ELSE q.issuer   \* derive, new_cert
CertName(q) == q.keyname \o <<IssuerComp(q), [t |-> TVersion, l |-> MsWidth(q.clock)]>>

CertCfg(q) ==
  [kind |-> "cert", name |-> CertName(q), cbp |-> FALSE, mbf |-> FALSE, fh |-> <<>>, nonce |-> FALSE, life |-> 0,
   hop |-> FALSE, app |-> -1, meta |-> [p |-> TRUE, ct |-> 1, fp |-> 4, fbi |-> -1], content |-> q.publen,
   sg |-> q.sg, vp |-> TRUE]

\* "encodes exactly the requested instants": only derive_cert is given instants (start, start + lifetime).
\* self_sign and sign_req choose their own period (today: 1970..now+20 years, now..now+10 days); the statement
\* fixes no numbers for them, so the reference only requires a well-formed period that contains the moment of
\* issuing (a certificate that is not valid when it is made would be useless).
Exact(q) == q.fn \in {"derive", "new_cert"}
NotBefore(q) == Render(q.start)
NotAfterInst(q) == AddSec(q.start, q.dur)
NotAfter(q) == Render(NotAfterInst(q))
InScope(q) == IF Exact(q) THEN InstLeq(NotAfterInst(q), MaxInst)
              ELSE \A i \in AddYears(Now(q), 20) : InstLeq(i, MaxInst)
ValidityOk(q, nb, na) ==
  IF Exact(q) THEN nb = NotBefore(q) /\ na = NotAfter(q)
  ELSE LET a == ParseInst(nb)  b == ParseInst(na) IN
       a.ok /\ b.ok /\ InstLeq(a.i, Now(q)) /\ InstLeq(Now(q), b.i)

\* byte ranges of the two instants inside the wire
ValidityRanges(q) ==
  LET fl == Flat(Final(CertCfg(q)))
      nb == CHOOSE i \in 1..Len(fl) : fl[i].t = TNotBefore
      na == CHOOSE i \in 1..Len(fl) : fl[i].t = TNotAfter IN
  [nb |-> Iv(fl[nb].off + fl[nb].hdr, End(fl[nb])), na |-> Iv(fl[na].off + fl[na].hdr, End(fl[na]))]
KeyLocatorRange(q) ==
  LET fl == Flat(Final(CertCfg(q)))  S == { i \in 1..Len(fl) : fl[i].t = TKeyLocator } IN
  IF S = {} THEN <<>> ELSE LET i == CHOOSE j \in S : TRUE IN <<Iv(fl[i].off + fl[i].hdr, End(fl[i]))>>

LawCert(q) ==
  LET c == CertCfg(q)  F == Final(c)  nm == F.kids[1] IN
  /\ Laws(c)
  /\ F.t = TData /\ KidTypes(F) = <<TName, TMetaInfo, TContent, TSigInfo, TSigValue>>
  /\ Len(nm.kids) = Len(q.keyname) + 2
  /\ nm.kids[Len(nm.kids)].t = TVersion /\ nm.kids[Len(nm.kids)].len \in {1, 2, 4, 8}
  /\ CompsOf(nm)[Len(nm.kids) - 1] = IssuerComp(q)
  /\ KidTypes(F.kids[2]) = <<TContentType, TFreshness>> /\ F.kids[2].kids[1].len = 1 /\ F.kids[2].kids[2].len = 4
  /\ F.kids[3].len = q.publen
  /\ LET si == F.kids[4]  vp == si.kids[Len(si.kids)] IN
       /\ vp.t = TValidity /\ KidTypes(vp) = <<TNotBefore, TNotAfter>> /\ vp.kids[1].len = 15 /\ vp.kids[2].len = 15
       /\ si.kids[1].t = TSigType
       /\ (q.sg.haskl => si.kids[2].t = TKeyLocator /\ CompsOf(si.kids[2].kids[1]) = q.sg.kl)
  /\ F.kids[5].len = q.sg.a
  \* the whole certificate except its outer TL and its SignatureValue is signed (so are both instants and the locator)
  /\ SignedRange(c) = <<Iv(Hdr(F), Size(F) - Size(F.kids[5]))>>
  /\ Inside(ValidityRanges(q).nb, SignedRange(c)[1]) /\ Inside(ValidityRanges(q).na, SignedRange(c)[1])
  /\ (Exact(q) => /\ Len(NotBefore(q)) = 15 /\ Len(NotAfter(q)) = 15
                   /\ (LexLess(NotBefore(q), NotAfter(q)) \/ NotBefore(q) = NotAfter(q))
                   /\ ParseInst(NotBefore(q)) = [ok |-> TRUE, i |-> q.start]
                   /\ ValidityOk(q, NotBefore(q), NotAfter(q)))

CertExpect(q) ==
  LET c == CertCfg(q) IN
  [lay |-> Flat(Final(c)), signed |-> SignedRange(c), sv |-> <<SigValueRange(c)>>,
   exact |-> Exact(q), nb |-> IF Exact(q) THEN NotBefore(q) ELSE <<>>, na |-> IF Exact(q) THEN NotAfter(q) ELSE <<>>,
   nbr |-> ValidityRanges(q).nb, nar |-> ValidityRanges(q).na,
   klr |-> KeyLocatorRange(q), sameday |-> (q.fn # "self_sign" \/ HasSameDay(Now(q), 20))]
=============================================================================
