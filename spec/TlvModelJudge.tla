--------------------------- MODULE TlvModelJudge ---------------------------
(* C08 stage C (code -> spec): observations recorded from the implementation on generated and
   shipped model classes with random legal values are judged by TLC evaluating the reference.
   One NDJSON record per (class, value):
     [id, schema, decl, v, alen, wlen, tree, back, eq, edits : <<[path, op, pos, src, elem, kind, got, gv]>>]
       decl = class declaration with IncludeBase entries (entries = <<>> for shipped classes);
              schema = what the metaclass collected (_encoded_fields), must equal Collect(decl)
       alen = encoded_length() announced before encoding      wlen = len(encode())
       tree = strict projection of the wire (or <<>> with proj = reason when it is not strict TLV)
       back = projection of parse(wire)                        eq = (parse(wire) == original)
       got  = outcome of parse on the edited wire: "same" | "other" | "reject" | "error:<class>",
              gv = the value it returned when accepted
       life = <<[m, sized, encoded, alen, wlen, tree]>> : what the SAME instance (the one that was sized and
              encoded for v above) announced / encoded after each in-place change m (TlvModelLife); sized /
              encoded say which of the two observations was made at that step
   For every record with failed checks TLC prints <<"V", id, <<tags>>>>.                    *)
EXTENDS TlvModelLife, Json, IOUtils

Recs == ndJsonDeserialize(IOEnv.JUDGE_IN)

\* edits as in TlvModelFamily (operators duplicated here to keep this module free of its constants)
ApplyLevel(L, e) ==
  CASE e.op = "ins"  -> Insert(L, e.pos, e.elem)
    [] e.op = "dup"  -> Insert(L, e.pos, L[e.src])
    [] e.op = "swap" -> [i \in 1 .. Len(L) |-> IF i = e.pos THEN L[e.pos + 1] ELSE IF i = e.pos + 1 THEN L[e.pos] ELSE L[i]]
RECURSIVE Apply(_, _)
Apply(L, e) == IF e.path = <<>> THEN ApplyLevel(L, e)
               ELSE [L EXCEPT ![Head(e.path)].kids = Apply(@, [e EXCEPT !.path = Tail(@)])]

Sig(s) == [i \in 1 .. Len(s) |-> <<s[i].name, s[i].t, s[i].kind>>]
\* the life of the instance: the value after each change is computed HERE (Mutate), the implementation is
\* compared with AnnouncedLength / Encode of that value; tag = "life/<check>/<step>", first failing step only
RECURSIVE LifeTags(_, _, _, _)
LifeTags(s, v, steps, j) ==
  IF steps = <<>> THEN <<>>
  ELSE LET x == steps[1] IN
       IF ~MutOk(s, v, x.m) THEN <<"ILLEGAL-INPUT">>
       ELSE LET v2 == Mutate(s, v, x.m)
                L == Encode(s, v2)
                bad == (IF x.sized /\ x.alen # AnnouncedLength(s, v2) THEN <<"life/alen/" \o ToString(j)>> ELSE <<>>)
                       \o (IF x.encoded /\ x.wlen # SeqSize(L) THEN <<"life/wlen/" \o ToString(j)>> ELSE <<>>)
                       \o (IF x.encoded /\ x.tree # L THEN <<"life/tree/" \o ToString(j)>> ELSE <<>>)
            IN IF bad # <<>> THEN bad ELSE LifeTags(s, v2, Tail(steps), j + 1)
Tags(r) ==
  IF ~LegalModel(r.schema, r.v) THEN <<"ILLEGAL-INPUT">>
  ELSE
  LET s == r.schema
      L == Encode(s, r.v)
      back == RunScan(s, FALSE, L)
  IN (IF r.alen = AnnouncedLength(s, r.v) THEN <<>> ELSE <<"alen">>)
     \o (IF r.wlen = SeqSize(L) THEN <<>> ELSE <<"wlen">>)
     \o (IF r.tree = L THEN <<>> ELSE <<"tree">>)
     \o (IF back.status = "accept" /\ back.out = r.v THEN <<>> ELSE <<"SPEC-ROUNDTRIP">>)
     \o (IF r.back = r.v THEN <<>> ELSE <<"back">>)
     \o (IF r.eq THEN <<>> ELSE <<"eq">>)
     \o (IF r.decl.entries = <<>> \/ Sig(Collect(r.decl)) = Sig(s) THEN <<>> ELSE <<"collect">>)
     \* other representations / views of the same value (alt-repr, reencode, container, attr, asdict, repr): the
     \* harness compares them with the wire and value judged above; any disagreement is a failed check
     \o [j \in 1 .. Len(r.views) |-> "view/" \o r.views[j]]
     \o (IF r.tree # L \/ r.alen # AnnouncedLength(s, r.v) THEN <<>> ELSE LifeTags(s, r.v, r.life, 1))
     \o (IF r.tree # L THEN <<>> ELSE        \* edits are positions in the tree: judged only on a correct base encoding
         Flat([j \in 1 .. Len(r.edits) |->
               LET e == r.edits[j]
                   w == RunScan(s, FALSE, Apply(L, e))
                   want == IF w.status = "reject" THEN "reject" ELSE IF w.out = r.v THEN "same" ELSE "other"
               IN IF e.got = want /\ (want = "other" => e.gv = w.out) THEN <<>>
                  ELSE <<"edit/" \o e.kind \o "/" \o want \o "/" \o e.got \o "/" \o ToString(j)>>]))

ASSUME \A i \in 1 .. Len(Recs) :
          LET t == Tags(Recs[i]) IN t = <<>> \/ PrintT(<<"V", Recs[i].id, t>>)
ASSUME PrintT(<<"JUDGED", Len(Recs)>>)

VARIABLE dummy
Init == dummy = 0
Next == UNCHANGED dummy
=============================================================================
