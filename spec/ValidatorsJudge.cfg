SPECIFICATION Spec
CONSTRAINT Mark
POSTCONDITION Post
CHECK_DEADLOCK FALSE
