SPECIFICATION TSpec
CONSTANTS
  Ids = {"A", "B", "C"}
  KeyIds = {1, 2, 3, 4}
  CertIds = {1, 2, 3, 4}
  KTypes = {"e", "r"}
  KidTypes = {"r", "h"}
  SignOpts <- AllSignOpts
  DevRemoveCrash = TRUE
  DevSignReqCrash = TRUE
  DevDecodeCrash = TRUE
  DevRemoveCertSilent = TRUE
  DevSignUnlisted = TRUE
INVARIANT TypeOK
INVARIANT Containment
INVARIANT AtMostOneDefault
INVARIANT DefaultWhenPopulated
INVARIANT ListingIsStore
INVARIANT DefaultsAgree
INVARIANT RemovalCascades
INVARIANT FailedChangesNothing
INVARIANT MissingChangesNothing
INVARIANT SetDefaultWorks
INVARIANT NewItemWorks
INVARIANT ExportImportRoundTrip
INVARIANT SignerIsOurs
CONSTRAINT Mark
POSTCONDITION Post
CHECK_DEADLOCK FALSE
