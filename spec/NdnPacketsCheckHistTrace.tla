------------------------ MODULE NdnPacketsCheckHistTrace ------------------------
(* Histories over several real verifier objects of one class, recorded from the implementation:
   record [insts, ev: <<[a |-> "Check", i, pn, pk, tam, acc]>>]; acc = what the verifier answered.      *)
EXTENDS NdnPacketsCheckHist, Json, IOUtils, TLCExt
Traces == ndJsonDeserialize(IOEnv.TRACE_FILE)
VARIABLES tid, l
tvars == <<vars, tid, l>>
Tr == Traces[tid].ev
Max2(a, b) == IF a > b THEN a ELSE b
TInit == tid \in 1..Len(Traces) /\ l = 1 /\ InitWith(Traces[tid].insts) /\ TLCSet(tid, 1)
TCheck == /\ l <= Len(Tr) /\ Tr[l].a = "Check" /\ l' = l + 1 /\ UNCHANGED tid
          /\ Check(Tr[l].i, Tr[l].pn, Tr[l].pk, Tr[l].tam)
          /\ log'[Len(log')].acc = Tr[l].acc
TSpec == TInit /\ [][TCheck]_tvars
Mark == TLCSet(tid, Max2(TLCGet(tid), l))
Post == \A i \in 1..Len(Traces) : TLCGet(i) = Len(Traces[i].ev) + 1 \/ PrintT(<<"REJECTED", i, TLCGet(i)>>)
=============================================================================
