---------------------------- MODULE NdnFibImpl ----------------------------
(* Implementation-level model of the producer side of NDNApp - appv2.NDNApp (src/ndn/appv2.py:
   attach_handler, detach_handler, route, _on_interest, submit_interest, reply, _clean_up) and the
   legacy front-end (src/ndn/app.py: set_interest_filter / register(func), unset_interest_filter /
   unregister, _on_interest, submit_interest, _clean_up) - one level below NdnFib:

   * the handler table is a pygtrie.Trie (name_tree.NameTrie) mapping a name to a *node object*
     (name_tree.PrefixTreeNode) with the attributes callback, validator, extra_param.  Only slots with a
     value are modelled (trie[n] = 0: no value); pygtrie's inner nodes without value are skipped by
     longest_prefix and pruned by __delitem__, so they carry no behaviour.
   * _on_interest resolves the node ONCE (longest_prefix), checks node.callback, runs the digest gate
     (params_sha256_checker is a coroutine without a suspension point: _on_interest is one critical
     section), computes the deadline, builds the reply closure and creates a task (submit_interest).
     The task keeps a *reference to the node object*; it reads node.validator when it starts and
     node.callback when it calls.  `del trie[name]` removes the slot, not the object: a node that a
     task references stays alive with its attributes (Collect below is Python's reference counting).
     This is exactly how a detached - or detached and re-attached - handler still receives the
     Interests that were resolved while it was attached.
   * the reply closure (appv2 only) captures the deadline and the PIT token of ITS _on_interest call.
   * legacy: validator = node.validator if set, else the application-wide int_validator; only signed
     Interests are validated; unset_interest_filter deletes the slot like detach_handler (the node is
     NOT kept); _clean_up clears the whole table on shutdown; there is no reply closure
     (put_raw_packet has no deadline and no token).

   One action per critical section (code between two suspension points):
     IAttach / IAttachDup   attach_handler, set_interest_filter (setdefault, the two branches of `if node.callback`)
     IDetach                detach_handler, unset_interest_filter (`del trie[name]`)
     IDispatch              _receive -> _on_interest up to aio.create_task(submit_interest())
     ITaskStart             submit_interest from its start to `await node.validator(...)`, or through the call
     IValReturn             the validator returns; submit_interest from there to its end
     IReply                 the reply closure
     ITick, IShutdown (face.shutdown + _clean_up, as one step like NdnPitImpl), IConnect

   Scheduling: asyncio's ready queue is FIFO.  A created task therefore starts before anything that
   becomes ready later: ITaskStart takes the oldest created task, time does not advance and no validator
   continuation (IValReturn = the validator's completion AND the continuation it wakes) runs while a created
   task is waiting.  Application code that was already runnable MAY run between IDispatch and ITaskStart
   (attach, detach, reply, shutdown; further packets from the transport's buffer) - NdnFib's RecvInterest is
   a macro-step that contains ITaskStart, so the refinement mapping below looks ahead: a created task counts
   as what its first segment will make of it (`handled` for an Interest that needs no validation, `val` or
   `dropped` otherwise).  This is sound because (TaskNodeStable) the attributes of a referenced node never
   change.
   Named restriction (guard `Created = {}` of IValReturn): a validator that returns WITHOUT suspending makes
   ITaskStart + IValReturn one critical section; when a second Interest was dispatched before the first
   task started, the handler then sees the Interests in arrival order (1, 2) while NdnFib - whose
   RecvInterest(2) appends to `handled` at once and IntValFinish(1) later - says (2, 1).  NdnFib orders
   `handled` totally across Interests, C04 does not; the harness validators always suspend and the loop is
   settled after every packet, so the executions judged by NdnFibTrace never show this.  Without the guard
   TLC reports Refines violated by exactly that order (measured; the real library gives (1, 2) as well).

   TLC checks that this structure refines NdnFib (Refines) and the structural invariants below.  Bug
   re-creates realistic defects; TLC must find a counterexample for each:
     "detachKeepsNode"   detach clears node.callback but leaves the node in the trie: longest_prefix stops at
                         the empty node, Interests under it no longer reach the handler on the shorter prefix
     "relookup"          submit_interest resolves the handler by name AGAIN when the validator returns: a
                         handler attached meanwhile receives an Interest resolved before it existed
     "sharedReplyVars"   the reply closure reads token / deadline from a variable of the node shared by all
                         its Interests (late binding): a reply to the first carries the second one's token
     "dupOverwrites"     the `if node.callback: raise` check is missing: a second attach replaces the handler
                         in place, also under the feet of tasks that resolved the old one                     *)
EXTENDS Integers, Sequences, FiniteSets, TLC

CONSTANTS Front,        \* "v2" | "legacy"
          Names,        \* names that may be attached
          IntTemplates, \* set of [name, params, signed, digOk, tok, life]
          MaxInts, MaxT, MaxOps, MaxReplies,
          Verdicts, Vals,
          Bug           \* subset of {"detachKeepsNode", "relookup", "sharedReplyVars", "dupOverwrites"}

VARIABLES now, up,
          trie,         \* name -> node id (0 = no value under that name)
          nd,           \* node id -> the node object [cb, val, xp, name]; name is a ghost (the key it was inserted under)
          nnodes,       \* node objects allocated so far
          ops,          \* attach / detach calls so far (the k-th call brings handler k, as in NdnFib)
          task,         \* Interest id -> the submit_interest task / closure state of that Interest
          nint,
          calls,        \* handler invocations in the order they really happen: <<[h, i]>>
          shared,       \* node id -> [tok, dl]: only written and read under "sharedReplyVars"
          wire, rets,   \* as in NdnFib
          err           \* exceptions escaping a task (calling None)
ivars == <<now, up, trie, nd, nnodes, ops, task, nint, calls, shared, wire, rets, err>>

IntId == 1..MaxInts
Node == 1..MaxOps                     \* every node object is created by an attach call
DeadNode == [cb |-> 0, val |-> FALSE, xp |-> FALSE, name |-> <<>>]
\* st: "none" | "dropped" (in _on_interest) | "created" | "val" | "called" | "rejected" | "crashed"
\* node, tok, dl: what the task / the reply closure captured;  at, h0, v0: ghosts = name, callback, validator of
\* that node at dispatch;  vs: which validator the task awaits ("node" | "app");  dl of a dropped Interest is a ghost
NoTask == [st |-> "none", it |-> 0, node |-> 0, at |-> <<>>, h0 |-> 0, v0 |-> FALSE, vs |-> "-", dl |-> 0, tok |-> 0]

SigReq(it) == it.params \/ it.signed
NeedVal(it) == IF Front = "v2" THEN SigReq(it) ELSE it.signed
Accepting(v) == IF Front = "v2" THEN v \in {"PASS", "BYPASS"} ELSE v = "T"
Running(tk) == { i \in IntId : tk[i].st \in {"created", "val"} }
Created == { i \in IntId : task[i].st = "created" }

\* reference counting: a node object lives while the trie or a running task refers to it
Collect(n2, tr, tk) ==
  LET live == ({ tr[n] : n \in Names } \cup { tk[i].node : i \in Running(tk) }) \ {0}
  IN [x \in Node |-> IF x \in live THEN n2[x] ELSE DeadNode]

\* pygtrie longest_prefix: walk down the components, remember the last slot that has a value
RECURSIVE Walk(_, _, _)
Walk(name, k, best) ==
  IF k > Len(name) THEN best
  ELSE LET p == SubSeq(name, 1, k) IN
       Walk(name, k + 1, IF p \in Names /\ trie[p] # 0 THEN k ELSE best)
LongestPrefix(name) == Walk(name, 1, IF <<>> \in Names /\ trie[<<>>] # 0 THEN 0 ELSE -1)

Init ==
  /\ now = 0 /\ up = TRUE /\ nnodes = 0 /\ ops = 0 /\ nint = 0 /\ err = 0
  /\ trie = [n \in Names |-> 0]
  /\ nd = [x \in Node |-> DeadNode]
  /\ task = [i \in IntId |-> NoTask]
  /\ shared = [x \in Node |-> [tok |-> 0, dl |-> 0]]
  /\ calls = <<>> /\ wire = <<>> /\ rets = <<>>

\* node = self._fib.setdefault(name, PrefixTreeNode()); node.callback is falsy: set callback, validator
\* (legacy: extra_param always, validator only `if validator:` - a node found without callback keeps its old one)
IAttach(n, h, val) ==
  /\ ops < MaxOps /\ h = ops + 1
  /\ LET fresh == trie[n] = 0
         x == IF fresh THEN nnodes + 1 ELSE trie[n] IN
       /\ (fresh \/ nd[x].cb = 0)
       /\ nnodes' = IF fresh THEN nnodes + 1 ELSE nnodes
       /\ trie' = [trie EXCEPT ![n] = x]
       /\ nd' = [nd EXCEPT ![x] = [cb |-> h,
                                   val |-> IF Front = "v2" THEN val ELSE (val \/ nd[x].val),
                                   xp |-> Front = "legacy", name |-> n]]
  /\ ops' = ops + 1
  /\ UNCHANGED <<now, up, task, nint, calls, shared, wire, rets, err>>

\* the slot holds a node with a callback: ValueError, nothing changes (setdefault did not insert)
IAttachDup(n, h, val) ==
  /\ ops < MaxOps /\ h = ops + 1
  /\ trie[n] # 0 /\ nd[trie[n]].cb # 0
  /\ ops' = ops + 1
  /\ IF "dupOverwrites" \in Bug
     THEN nd' = [nd EXCEPT ![trie[n]].cb = h, ![trie[n]].val = IF Front = "v2" THEN val ELSE (val \/ @)]
     ELSE UNCHANGED nd
  /\ UNCHANGED <<now, up, trie, nnodes, task, nint, calls, shared, wire, rets, err>>

\* del self._fib[name] (a name that has a handler; KeyError for any other name is not explored, as in NdnFib)
IDetach(n) ==
  /\ ops < MaxOps /\ trie[n] # 0 /\ nd[trie[n]].cb # 0
  /\ ops' = ops + 1
  /\ IF "detachKeepsNode" \in Bug
     THEN /\ nd' = [nd EXCEPT ![trie[n]].cb = 0]
          /\ UNCHANGED trie
     ELSE /\ trie' = [trie EXCEPT ![n] = 0]
          /\ nd' = Collect(nd, trie', task)
  /\ UNCHANGED <<now, up, nnodes, task, nint, calls, shared, wire, rets, err>>

\* _receive -> _on_interest: longest_prefix, `node.callback is None`, digest gate, deadline, reply closure, create_task
IDispatch(it) ==
  /\ up /\ nint < MaxInts
  /\ LET i == nint + 1
         b == LongestPrefix(it.name)
         p == SubSeq(it.name, 1, b)
         x == IF b < 0 THEN 0 ELSE trie[p]
         dropped == [NoTask EXCEPT !.st = "dropped", !.it = it, !.dl = now + it.life] IN
       /\ nint' = i
       /\ IF b < 0 \/ nd[x].cb = 0 \/ (SigReq(it) /\ ~it.digOk)
          THEN /\ task' = [task EXCEPT ![i] = dropped]
               /\ UNCHANGED shared
          ELSE /\ task' = [task EXCEPT ![i] = [st |-> "created", it |-> it, node |-> x, at |-> p, h0 |-> nd[x].cb,
                                               v0 |-> nd[x].val, vs |-> "-", dl |-> now + it.life,
                                               tok |-> IF Front = "v2" THEN it.tok ELSE 0]]
               /\ shared' = IF "sharedReplyVars" \in Bug
                            THEN [shared EXCEPT ![x] = [tok |-> it.tok, dl |-> now + it.life]] ELSE shared
  /\ UNCHANGED <<now, up, trie, nd, nnodes, ops, calls, wire, rets, err>>

\* node.callback(...) with the callback h read from the node at this moment; None is not callable
Call(i, h) ==
  IF h = 0
  THEN /\ task' = [task EXCEPT ![i].st = "crashed"] /\ err' = err + 1 /\ UNCHANGED calls
  ELSE /\ task' = [task EXCEPT ![i].st = "called"] /\ calls' = Append(calls, [h |-> h, i |-> i]) /\ UNCHANGED err
Reject(i) == task' = [task EXCEPT ![i].st = "rejected"] /\ UNCHANGED <<calls, err>>

\* submit_interest starts (the oldest created task: FIFO ready queue)
ITaskStart(i) ==
  /\ i \in Created /\ \A j \in Created : i <= j
  /\ LET t == task[i]
         x == t.node IN
       IF NeedVal(t.it)
       THEN IF Front = "v2" /\ ~nd[x].val
            THEN Reject(i)                                      \* v2 without validator: valid = FAIL
            ELSE /\ task' = [task EXCEPT ![i].st = "val", ![i].vs = IF nd[x].val THEN "node" ELSE "app"]
                 /\ UNCHANGED <<calls, err>>
       ELSE Call(i, nd[x].cb)
  /\ nd' = Collect(nd, trie, task')
  /\ UNCHANGED <<now, up, trie, nnodes, ops, nint, shared, wire, rets>>

\* the validator returns v (or raises) and the task continues to its end
IValReturn(i, v) ==
  /\ task[i].st = "val" /\ Created = {}
  /\ LET t == task[i]
         b == LongestPrefix(t.it.name)
         h == IF "relookup" \in Bug
              THEN (IF b < 0 THEN 0 ELSE nd[trie[SubSeq(t.it.name, 1, b)]].cb)
              ELSE nd[t.node].cb IN
       IF ~Accepting(v) \/ ("relookup" \in Bug /\ b < 0) THEN Reject(i) ELSE Call(i, h)
  /\ nd' = Collect(nd, trie, task')
  /\ UNCHANGED <<now, up, trie, nnodes, ops, nint, shared, wire, rets>>

\* reply(data): `now > deadline` -> False; _put_raw_packet[_with_pit_token] raises NetworkError while the face is down
IReply(i) ==
  /\ Front = "v2" /\ task[i].st = "called" /\ Len(rets) < MaxReplies
  /\ LET c == IF "sharedReplyVars" \in Bug THEN shared[task[i].node] ELSE [tok |-> task[i].tok, dl |-> task[i].dl] IN
       IF now > c.dl
       THEN /\ rets' = Append(rets, [i |-> i, ret |-> "F"]) /\ UNCHANGED wire
       ELSE IF ~up
       THEN /\ rets' = Append(rets, [i |-> i, ret |-> "E"]) /\ UNCHANGED wire
       ELSE /\ wire' = Append(wire, [i |-> i, tok |-> c.tok, env |-> IF c.tok = 0 THEN "bare" ELSE "lp"])
            /\ rets' = Append(rets, [i |-> i, ret |-> "T"])
  /\ UNCHANGED <<now, up, trie, nd, nnodes, ops, task, nint, calls, shared, err>>

ITick == /\ now < MaxT /\ Created = {} /\ now' = now + 1
         /\ UNCHANGED <<up, trie, nd, nnodes, ops, task, nint, calls, shared, wire, rets, err>>

\* face.shutdown(); main_loop's finally: _clean_up - appv2 keeps the table ("FIB is not cleared now"), legacy clears it
IShutdown ==
  /\ up /\ up' = FALSE
  /\ trie' = IF Front = "legacy" THEN [n \in Names |-> 0] ELSE trie
  /\ nd' = Collect(nd, trie', task)
  /\ UNCHANGED <<now, nnodes, ops, task, nint, calls, shared, wire, rets, err>>

IConnect == /\ ~up /\ up' = TRUE
            /\ UNCHANGED <<now, trie, nd, nnodes, ops, task, nint, calls, shared, wire, rets, err>>

INext ==
  \/ \E n \in Names, h \in 1..MaxOps, val \in Vals : IAttach(n, h, val)
  \/ \E n \in Names, h \in 1..MaxOps, val \in Vals : IAttachDup(n, h, val)
  \/ \E n \in Names : IDetach(n)
  \/ \E it \in IntTemplates : IDispatch(it)
  \/ \E i \in IntId : ITaskStart(i)
  \/ \E i \in IntId, v \in Verdicts : IValReturn(i, v)
  \/ \E i \in IntId : IReply(i)
  \/ ITick \/ IShutdown \/ IConnect
ISpec == Init /\ [][INext]_ivars

-----------------------------------------------------------------------------
(* Refinement mapping to NdnFib *)
AbsFib == [n \in Names |-> IF trie[n] # 0 /\ nd[trie[n]].cb # 0
                           THEN [h |-> nd[trie[n]].cb, val |-> nd[trie[n]].val]
                           ELSE [h |-> 0, val |-> FALSE]]
\* a v2 task for an Interest that needs validation on a node without validator ends in "Drop unvalidated Interest":
\* NdnFib drops it at RecvInterest without recording a handler
NoValidator(t) == Front = "v2" /\ NeedVal(t.it) /\ ~t.v0
AbsInt(t) ==
  IF t.st = "none" THEN [st |-> "unused", it |-> 0, h |-> 0, at |-> <<>>, dl |-> 0, acc |-> FALSE]
  ELSE IF t.st = "dropped" \/ NoValidator(t)
  THEN [st |-> "dropped", it |-> t.it, h |-> 0, at |-> <<>>, dl |-> t.dl, acc |-> FALSE]
  ELSE [st |-> CASE t.st = "created" -> (IF NeedVal(t.it) THEN "val" ELSE "handled")   \* look-ahead, see header
                 [] t.st = "val" -> "val"
                 [] t.st = "called" -> "handled"
                 [] OTHER -> "dropped",
        it |-> t.it, h |-> t.h0, at |-> t.at, dl |-> t.dl, acc |-> (t.st = "called" /\ NeedVal(t.it))]
AbsInts == [i \in IntId |-> AbsInt(task[i])]
\* the calls made, followed by the calls the created tasks are about to make (in FIFO order)
Ahead == LET F[k \in 0..MaxInts] ==
               IF k = 0 THEN <<>>
               ELSE IF task[k].st = "created" /\ ~NeedVal(task[k].it) THEN Append(F[k - 1], [h |-> task[k].h0, i |-> k])
               ELSE F[k - 1]
         IN F[MaxInts]
AbsHandled == calls \o Ahead

NF == INSTANCE NdnFib WITH Handlers <- 1..MaxOps, Reprs <- {"uri"}, Envs <- {"bare", "lp"}, Junk <- {},
                           fib <- AbsFib, ints <- AbsInts, handled <- AbsHandled
\* every behaviour of the structure is a behaviour of the observable specification (safety part).  NdnFib leaves open
\* whether a handler detached during validation is still called (IntValFinish) and what reply() does at now = deadline
\* and while the face is down; the structure takes one branch of each (always calls; sends at the deadline; "E" while
\* down and in time) - Refines only needs the step to be ONE of the allowed ones.  ITaskStart is a stuttering step.
\* (two properties in the cfg, PROPERTY RefinesInit Refines: TLC names an action property in its report only when the
\* configured property is the box formula itself)
RefinesInit == NF!Init
Refines == [][NF!Next]_(NF!vars)

(* Structural invariants *)
\* no slot of the trie holds a node without callback (else longest_prefix stops there and hides the shorter prefixes)
NodeHasCallback == \A n \in Names : trie[n] # 0 => nd[trie[n]].cb # 0
\* a slot holds the node that was inserted under that name, no node sits in two slots, handlers are pairwise distinct
NoAlias == /\ \A n \in Names : trie[n] # 0 => nd[trie[n]].name = n
           /\ \A n, m \in Names : (trie[n] # 0 /\ trie[m] # 0 /\ n # m) => (trie[n] # trie[m] /\ nd[trie[n]].cb # nd[trie[m]].cb)
\* the node a running task references is alive and still has the attributes it had at dispatch (whatever happened to
\* the slot meanwhile); a finished task pins nothing
TaskNodeStable == \A i \in Running(task) :
  LET x == task[i].node IN x # 0 /\ nd[x].cb = task[i].h0 /\ nd[x].val = task[i].v0 /\ nd[x].name = task[i].at
NoGarbage == \A x \in Node : nd[x] # DeadNode => (x \in { trie[n] : n \in Names } \/ \E i \in Running(task) : task[i].node = x)
\* a task only ever calls the callback of the node it resolved at dispatch, at most once, and never calls None
CallsResolved == \A k \in 1..Len(calls) : calls[k].h = task[calls[k].i].h0 /\ task[calls[k].i].st = "called"
CallsOnce == \A a, b \in 1..Len(calls) : calls[a].i = calls[b].i => a = b
NoInternalError == err = 0
\* the reply closure uses the token of its own Interest and never sends after its own deadline or while down
ReplyBinds == \A k \in 1..Len(wire) : wire[k].tok = task[wire[k].i].it.tok
ReplyInTimeImpl == [][Len(wire') > Len(wire) => (up /\ now <= task[wire'[Len(wire')].i].dl)]_ivars
\* the mapped state is a state of NdnFib's type
AbsTypeOK == NF!TypeOK

(* Witnesses (must be VIOLATED): the situations the model exists for are reachable *)
\* a running task references a node that is no longer in its slot (detached, or detached and re-attached)
W_StaleNode == ~(\E i \in Running(task) : trie[task[i].at] # task[i].node)
\* ... and the handler of such a node is called although another handler holds the name now
W_ReplacedCalled == ~(\E k \in 1..Len(calls) : LET t == task[calls[k].i] IN
                        trie[t.at] # 0 /\ nd[trie[t.at]].cb # calls[k].h)
\* application code ran between _on_interest and the start of its task
W_DetachBeforeStart == ~(\E i \in Created : trie[task[i].at] = 0)
=============================================================================
