----------------------------- MODULE TrustChain -----------------------------
(* C14 - the trust-schema validator (light_versec.lvs_validator = schema check on every link +
   security.validator.CascadeChecker) accepts a packet iff a chain packet - certificate - ... -
   trust anchor exists, refuses to be built on a bad anchor, and its verdict does not depend on
   what other validator instances validated before.

   World (data, chosen in Init / taken from the recorded trace):
     W.schema  set of <<shape of signed name, shape of signing certificate name>>: the naming relation
               of the trust schema (what Checker.check decides on names)
     W.roots   roots of trust of the schema (one or several); W.covers  shape -> roots of trust it matches
     W.shape   name -> shape, for every name that occurs (also names of certificates that do not exist)
     W.certs   certificate name -> [key (public key it carries), kl (key locator name | "none"),
               sig (key that made its signature | "forged" | "replay" | "digest" | "hmac" | "unknownsig" | "hmacpub" | "digestkl" | "wrongtype"), serv (yes|nack|timeout|absent)]
     W.pkts    packet name -> [kl, sig]
     W.epoch   number of Heal steps so far (the set of retrievable certificates changes only there)
     W.alg     key -> algorithm of that key pair (KeyAlgs; a key that is not listed is "p256"): ECDSA on the curves
               P-224 / P-256 / P-384 / P-521, RSA with a 1024 / 2048 / 3072 bit modulus, Ed25519. The keys of one
               hierarchy are of several algorithms: the anchor's key, the key of an intermediate certificate and the
               key that signs the packet each have their own.
     W.sch, W.q   labels for the executor (which LVS text materialises the world) and witnesses
     W.alias   HOW A LINK NAMES ITS SIGNER. A key locator carries a Name. Besides the name of a certificate it may be
               - the FULL name of a certificate packet: certificate name + implicit SHA-256 digest of one packet. It names
                 exactly that packet: an Interest for it is satisfied by that packet only. Two packets may have the same
                 certificate name (a certificate issued again under the same name - for the same or another key);
               - the KEY name (certificate name without issuer and version): no certificate has that name, the schema's
                 certificate rules do not match it.
               W.alias: name -> [base (the certificate name it extends / shortens), pk (the packet a full name pins: base =
               the packet served under the plain name, another id = another packet of that name, retrievable iff it has
               an entry in W.certs), kind ("full" | "key")]. Names outside DOMAIN W.alias are plain.
               Every such name is a name of its own for the validator: it is what is compared with the anchor's name, what
               the key storage is asked for, what is requested from the network. INTERPRETATION (least demanding reading of
               "names the next as its key"): the trust anchor is named by its certificate name only; a key locator that
               carries the anchor's full name refers to a certificate to be fetched and validated like any other.
               The schema's check ignores a trailing digest component: a full name has the shape of its base.
     W.fp      certificate name -> FreshnessPeriod of that certificate packet: "pos" (positive), "zero", "none" (no such
               field); a name that is not listed: "pos". Certificates are fetched with MustBeFresh; a packet the network
               DELIVERS satisfies the Interest whatever its FreshnessPeriod is (freshness is the business of caches on the
               way), so no clause below reads W.fp: like W.alg it only tells the executor what to materialise.
   Key storage (the `storage` argument; inst[v].store, chosen by NewValidator from StoreChoice(v)):
     "default" (no argument), "memory" (the library's MemoryKeyStorage), "empty" (the library's EmptyKeyStorage: keeps
     nothing), "app" (an application-supplied mapping, unbounded), "fifo1" / "fifo2" (application-supplied, keeps the 1 / 2
     entries saved last). An application-supplied storage may lose what it holds at any time (Forget). cache[v] is what the
     storage of v holds, oldest first. The storage is a CACHE of validated keys: neither ChainExists nor the anchor depends
     on it - only which certificates are requested again does.
   Crypto is abstract: a signature verifies under a certificate iff sig = that certificate's key - WHATEVER the
   algorithm of that key is. No clause of ChainExists / GoodAnchor reads W.alg: the verdict over a hierarchy is the
   same for every assignment of algorithms to its keys (anchor, intermediate certificates, packet signer). The only
   reader of W.alg is the deviation Ed25519Unsupported. The executor materialises every key with its algorithm
   (curve / modulus size), so the encodings that depend on it (length forms of the DER signature, of the
   SignatureValue and of the certificate's Content) occur in every role.
   Names identify certificates (one certificate packet is served per name; a plain name and the full name of the packet
   served under it are two names of one packet: SameP).

   Implementation shape: one validator instance per application/face; a validation is a stack of
   elements (packet, then the certificates fetched for it); per element: CheckSchema (validate_name),
   then the key is taken from the anchor / the key cache / a fetched certificate (which is pushed and
   validated the same way), then VerifySig, which on success caches the certificate's key and
   resumes the element below. Internal steps run to the next await (a fetch) before any stimulus.

   Deviations (see NfdReg.tla for the convention): Allowed = may or may not be present, decided at
   the first point where it shows; Forced = known to be present.                                  *)
EXTENDS Integers, Sequences, FiniteSets, TLC

CONSTANTS Inst,          \* validator instances, e.g. {"v1","v2"}
          Slots,         \* validations that can be in progress at once: "v1" = first slot of instance v1, "v1b" = a second
                         \* validation on v1 started while the first is still fetching (likewise "v2b")
          SameApp,       \* TRUE: all instances are built on ONE application (one face, one table of pending Interests)
          MaxVal,        \* number of Validate calls in a behaviour
          MaxHeal,       \* number of Heal steps (a certificate that could not be fetched becomes retrievable)
          Allowed, Forced,
          WorldSet,      \* the worlds Init may choose (MCWorlds(MaxDepth) or the world of a trace)
          AnchorChoice(_), \* instance -> set of anchor names NewValidator may give it
          StoreChoice(_)  \* instance -> set of key storage kinds NewValidator may give it

AllDevs == {"SharedCache", "LoopRefetch", "Ed25519Unsupported"}

VARIABLES W,        \* the world
          inst,     \* instance -> [k: "none"|"ok"|"refused", anchor]
          cache,    \* instance -> sequence (oldest first, no duplicates) of the names whose key its storage holds
          val,      \* slot -> validation in progress [k |-> "none"] or
                    \*   [k |-> "run", p, stack (sequence of names, last = element being resolved), pc, vk]
          wire,     \* application -> sequence of certificate names requested with Interests on its face
          out,      \* sequence of finished validations [v, p, r: "T"|"F"|"diverged", c: Chain(anchor, p), evaluated once]
          nval,
          dev, nodev, bad
vars == <<W, inst, cache, val, wire, out, nval, dev, nodev, bad>>

NoVal == [k |-> "none"]
I(s) == IF s = "v1b" THEN "v1" ELSE IF s = "v2b" THEN "v2" ELSE s      \* instance of a slot
AppOf(v) == IF SameApp THEN "app" ELSE v                                \* application an instance is built on
Apps == {AppOf(v) : v \in Inst}
Top(s) == s[Len(s)]
IsPkt(n) == n \in DOMAIN W.pkts
El(n) == IF IsPkt(n) THEN [kl |-> W.pkts[n].kl, sig |-> W.pkts[n].sig]
                     ELSE [kl |-> W.certs[n].kl, sig |-> W.certs[n].sig]
Serv(n) == IF n \in DOMAIN W.certs THEN W.certs[n].serv ELSE "absent"
\* names and packets (W.alias)
Base(n) == IF n \in DOMAIN W.alias THEN W.alias[n].base ELSE n
Pk(n) == IF n \in DOMAIN W.alias THEN W.alias[n].pk ELSE n
SameP(m, n) == Base(m) = Base(n) /\ Pk(m) = Pk(n)                       \* two names of one packet
\* the pending Interests (by name) that the packet delivered for request n satisfies: those for its plain name and
\* those for its own full name
Sat(n) == {m \in DOMAIN W.shape : Base(m) = Base(n) /\ (m = Base(m) \/ Pk(m) = Pk(n))}
\* key storage
StoreKinds == {"default", "memory", "empty", "app", "fifo1", "fifo2"}
AppStores == {"app", "fifo1", "fifo2"}                                    \* supplied (and handled) by the application
Cap(st) == IF st = "empty" THEN 0 ELSE IF st = "fifo1" THEN 1 ELSE IF st = "fifo2" THEN 2 ELSE 99
CacheSet(v) == {cache[v][i] : i \in 1..Len(cache[v])}
Saved(v, n) == IF n \in CacheSet(v) THEN cache[v]
               ELSE LET s == Append(cache[v], n)
                        c == Cap(inst[v].store) IN
                      IF Len(s) > c THEN SubSeq(s, Len(s) - c + 1, Len(s)) ELSE s
SchemaOk(a, b) == <<W.shape[a], W.shape[b]>> \in W.schema
\* the anchor's name must match ALL roots of trust of the schema (rules that sign and are not signed);
\* W.covers: shape -> roots of trust that names of that shape match
Covers(sh) == IF sh \in DOMAIN W.covers THEN W.covers[sh] ELSE {}
GoodAnchor(a) == /\ W.roots # {} /\ W.roots \subseteq Covers(W.shape[a])
                 /\ W.certs[a].sig = W.certs[a].key            \* properly self-signed
\* key algorithms (the order is used by the world generators below)
AlgSeq == <<"p256", "p384", "p521", "p224", "rsa1024", "rsa2048", "ed">>
AlgSeqT == AlgSeq \o <<"rsa3072">>
KeyAlgs == {AlgSeqT[i] : i \in 1..Len(AlgSeqT)}
AlgOf(k) == IF k \in DOMAIN W.alg THEN W.alg[k] ELSE "p256"
IsEd(k) == AlgOf(k) = "ed"

-----------------------------------------------------------------------------
(* The property: a chain exists.  Declarative form over the certificate graph ... *)
MaxChain == Cardinality(DOMAIN W.certs) + 1
MaxK == 4     \* most certificates between packet and anchor written out by the declarative form (model-checked worlds: <= 3)
Retrievable(a) == {n \in DOMAIN W.certs \ {a} : W.certs[n].serv = "yes"}
ChainExists(a, p) ==
  \E k \in 0..MaxK : \E s \in [1..k -> Retrievable(a)] :          \* every certificate on the way can be retrieved
     LET e(j) == IF j = 0 THEN p ELSE IF j = k + 1 THEN a ELSE s[j] IN
       \A j \in 1..(k + 1) : /\ El(e(j - 1)).kl = e(j)                   \* names the next as its key
                              /\ SchemaOk(e(j - 1), e(j))                 \* link allowed by the schema
                              /\ El(e(j - 1)).sig = W.certs[e(j)].key     \* signature verifies under the next key
(* ... and the equivalent walk along the key locators (names are unique), used in the invariants
   because it is cheap; TLC checks the equivalence on every world (ChainDefsAgree). *)
RECURSIVE Walk(_, _, _)
Walk(a, x, fuel) ==
  LET n == El(x).kl IN
    IF n = "none" \/ n \notin DOMAIN W.shape THEN FALSE
    ELSE IF ~SchemaOk(x, n) THEN FALSE
    ELSE IF n = a THEN El(x).sig = W.certs[a].key
    ELSE IF fuel = 0 \/ Serv(n) # "yes" THEN FALSE
    ELSE El(x).sig = W.certs[n].key /\ Walk(a, n, fuel - 1)
Chain(a, p) == Walk(a, p, MaxChain)
ChainDefsAgree == \A a \in {b \in DOMAIN W.certs : W.shape[b] \in W.roots} : \A p \in DOMAIN W.pkts :
                     ChainExists(a, p) <=> Chain(a, p)

VerdictIffChain == \A i \in 1..Len(out) : out[i].r # "diverged" => ((out[i].r = "T") <=> out[i].c)
InstanceIndependent ==
  \A i \in 1..Len(out) : \A j \in 1..Len(out) :
    (inst[out[i].v].anchor = inst[out[j].v].anchor /\ out[i].p = out[j].p /\ out[i].e = out[j].e) => out[i].r = out[j].r
ConstructorRefuses == \A v \in Inst : inst[v].k # "none" => ((inst[v].k = "refused") <=> ~inst[v].good)
Terminated == \A i \in 1..Len(out) : out[i].r # "diverged"
BadNow == (IF VerdictIffChain THEN {} ELSE {"VerdictIffChain"})
     \cup (IF InstanceIndependent THEN {} ELSE {"InstanceIndependent"})
     \cup (IF ConstructorRefuses THEN {} ELSE {"ConstructorRefuses"})
     \cup (IF Terminated THEN {} ELSE {"Terminates"})
NothingBad == bad = {}
Track == bad' = bad \cup BadNow'

Dev(d, app) == app /\ d \in (Allowed \cup Forced) /\ d \notin nodev /\ dev' = dev \cup {d} /\ UNCHANGED nodev
NoDev(d, app) == /\ ~(app /\ (d \in dev \/ d \in Forced))
                 /\ nodev' = IF app /\ d \in Allowed THEN nodev \cup {d} ELSE nodev
                 /\ UNCHANGED dev

-----------------------------------------------------------------------------
InitWith(w) ==
  /\ W = w
  /\ inst = [v \in Inst |-> [k |-> "none", anchor |-> "none", good |-> FALSE, store |-> "none"]]
  /\ cache = [v \in Inst |-> <<>>]
  /\ val = [s \in Slots |-> NoVal]
  /\ wire = [a \in Apps |-> <<>>]
  /\ out = <<>> /\ nval = 0 /\ dev = {} /\ nodev = {} /\ bad = {}
Init == \E w \in WorldSet : InitWith(w)

Busy(v) == val[v].k = "run" /\ val[v].pc \notin {"fetching", "diverged"}
Quiescent == \A v \in Slots : ~Busy(v)

(* external stimuli *)
\* lvs_validator(checker, app, anchor[, storage]): built, or refused with ValueError
NewValidator(v, a, st) ==
  /\ Quiescent /\ inst[v].k = "none" /\ a \in AnchorChoice(v) /\ a \in DOMAIN W.certs /\ st \in StoreChoice(v)
  /\ \/ /\ NoDev("Ed25519Unsupported", GoodAnchor(a) /\ IsEd(W.certs[a].key))
        /\ inst' = [inst EXCEPT ![v] = [k |-> IF GoodAnchor(a) THEN "ok" ELSE "refused", anchor |-> a, good |-> GoodAnchor(a), store |-> st]]
     \/ \* DEVIATION: a self-signature made with an Ed25519 key is never accepted, the anchor is refused
        /\ Dev("Ed25519Unsupported", GoodAnchor(a) /\ IsEd(W.certs[a].key))
        /\ inst' = [inst EXCEPT ![v] = [k |-> "refused", anchor |-> a, good |-> TRUE, store |-> st]]
  /\ UNCHANGED <<W, cache, val, wire, out, nval>>
  /\ Track

\* validator(name, sig_ptrs) of packet p started on slot v of its instance; the second slot of an instance
\* is used only while the first is busy (a validation started while another one of the same instance is fetching)
Validate(v, p) ==
  /\ Quiescent /\ inst[I(v)].k = "ok" /\ val[v] = NoVal /\ nval < MaxVal /\ p \in DOMAIN W.pkts
  /\ (v # I(v) => val[I(v)] # NoVal)
  /\ val' = [val EXCEPT ![v] = [k |-> "run", p |-> p, stack |-> <<p>>, pc |-> "check", vk |-> "none"]]
  /\ nval' = nval + 1
  /\ UNCHANGED <<W, inst, cache, wire, out, dev, nodev>>
  /\ Track

\* the network answers the certificate Interests for name n pending on application a as the world says. One Data
\* satisfies every pending Interest on that application that it can satisfy (Sat: the Interests for its name and for
\* its full name); a Nack answers the Interests of exactly the name it carries. (Bound: a packet is not delivered while
\* an Interest for the plain name is pending that the world answers with ANOTHER packet of that name.)
\* No answer = the Interest lifetime passes; it passes for every validation that is waiting, so that
\* step is taken only when the world gives none of them an answer, and ends all their fetches (bound of the model).
Waiting == {u \in Slots : val[u].k = "run" /\ val[u].pc = "fetching"}
Wanted(u) == El(Top(val[u].stack)).kl
FetchReply(a, n, kind) ==
  /\ Quiescent
  /\ LET hit == {u \in Waiting : AppOf(I(u)) = a /\ Wanted(u) \in (IF kind = "yes" THEN Sat(n) ELSE {n})} IN
       /\ {u \in hit : Wanted(u) = n} # {} /\ kind = Serv(n)
       /\ \/ /\ kind = "yes"        \* the fetched certificate is validated
             /\ \A u \in hit : SameP(Wanted(u), n)
             /\ val' = [u \in Slots |-> IF u \in hit THEN [val[u] EXCEPT !.stack = Append(@, Wanted(u)), !.pc = "check"] ELSE val[u]]
          \/ /\ kind = "nack"
             /\ val' = [u \in Slots |-> IF u \in hit THEN [val[u] EXCEPT !.pc = "reject"] ELSE val[u]]
          \/ /\ kind \in {"timeout", "absent"}
             /\ \A u \in Waiting : Serv(Wanted(u)) \in {"timeout", "absent"}
             /\ val' = [u \in Slots |-> IF u \in Waiting THEN [val[u] EXCEPT !.pc = "reject"] ELSE val[u]]
  /\ UNCHANGED <<W, inst, cache, wire, out, nval, dev, nodev>>
  /\ Track

\* the network changes between validations: a certificate that was not retrievable (Nack, timeout, absent)
\* is published. Earlier failures must leave no trace: later verdicts are those of the new world.
\* (bound: only while no validation is in progress)
Heal(n) ==
  /\ Quiescent /\ \A v \in Slots : val[v] = NoVal
  /\ W.epoch < MaxHeal
  /\ n \in DOMAIN W.certs /\ W.certs[n].kl # n /\ W.certs[n].serv \in {"nack", "timeout", "absent"}
  /\ W' = [W EXCEPT !.certs = [m \in DOMAIN @ |-> IF SameP(m, n) THEN [@[m] EXCEPT !.serv = "yes"] ELSE @[m]], !.epoch = @ + 1]
  /\ UNCHANGED <<inst, cache, val, wire, out, nval, dev, nodev>>
  /\ Track

\* a key storage supplied by the application loses what it holds (eviction, restart of what backs it, ...): any time
Forget(v) ==
  /\ Quiescent /\ inst[v].k = "ok" /\ inst[v].store \in AppStores /\ cache[v] # <<>>
  /\ cache' = [cache EXCEPT ![v] = <<>>]
  /\ UNCHANGED <<W, inst, val, wire, out, nval, dev, nodev>>
  /\ Track

(* internal steps *)
\* validate_name: key locator present and the schema allows the link
CheckSchema(v) ==
  /\ val[v].k = "run" /\ val[v].pc = "check"
  /\ LET x == Top(val[v].stack)
         n == El(x).kl IN
       val' = [val EXCEPT ![v].pc = IF n # "none" /\ n \in DOMAIN W.shape /\ SchemaOk(x, n) THEN "key" ELSE "reject"]
  /\ UNCHANGED <<W, inst, cache, wire, out, nval, dev, nodev>>
  /\ Track

UseAnchor(v) ==
  /\ val[v].k = "run" /\ val[v].pc = "key"
  /\ El(Top(val[v].stack)).kl = inst[I(v)].anchor
  /\ val' = [val EXCEPT ![v].pc = "verify", ![v].vk = W.certs[inst[I(v)].anchor].key]
  /\ UNCHANGED <<W, inst, cache, wire, out, nval, dev, nodev>>
  /\ Track

\* (the storage that is one object for all instances is the one of the default argument)
Others(v) == IF inst[v].store # "default" THEN {} ELSE UNION {CacheSet(u) : u \in {x \in Inst \ {v} : inst[x].store = "default"}}
UseCache(v) ==
  /\ val[v].k = "run" /\ val[v].pc = "key"
  /\ LET n == El(Top(val[v].stack)).kl
         app == n \notin CacheSet(I(v)) /\ n \in Others(I(v)) IN
       /\ n # inst[I(v)].anchor
       /\ \/ /\ n \in CacheSet(I(v)) /\ UNCHANGED <<dev, nodev>>
          \/ \* DEVIATION: the key storage is one object shared by all instances (default argument)
             Dev("SharedCache", app)
       /\ val' = [val EXCEPT ![v].pc = "verify", ![v].vk = W.certs[n].key]
  /\ UNCHANGED <<W, inst, cache, wire, out, nval>>
  /\ Track

\* express_interest(cert_name, must_be_fresh, validator = this validator)
Fetch(v) ==
  /\ val[v].k = "run" /\ val[v].pc = "key"
  /\ LET st == val[v].stack
         n == El(Top(st)).kl
         onStack == \E j \in 2..Len(st) : st[j] = n        \* already being resolved in this validation: a loop
         shared == n \notin CacheSet(I(v)) /\ n \in Others(I(v))
         nd0 == IF shared /\ "SharedCache" \in Allowed THEN nodev \cup {"SharedCache"} ELSE nodev IN
       /\ n # inst[I(v)].anchor /\ n \notin CacheSet(I(v))
       /\ ~(shared /\ ("SharedCache" \in dev \/ "SharedCache" \in Forced))   \* with a shared storage the code takes UseCache
       /\ \/ /\ ~onStack
             /\ wire' = [wire EXCEPT ![AppOf(I(v))] = Append(@, n)]
             /\ val' = [val EXCEPT ![v].pc = "fetching"]
             /\ dev' = dev /\ nodev' = nd0 /\ UNCHANGED out
          \/ \* correct design: a certificate that (transitively) names itself is rejected
             /\ onStack /\ "LoopRefetch" \notin dev /\ "LoopRefetch" \notin Forced
             /\ val' = [val EXCEPT ![v].pc = "reject"]
             /\ dev' = dev /\ nodev' = (IF "LoopRefetch" \in Allowed THEN nd0 \cup {"LoopRefetch"} ELSE nd0)
             /\ UNCHANGED <<wire, out>>
          \/ \* DEVIATION: the loop is followed again and again (until the caller gives up); recorded as
             \* "diverged", the instance is not used any more
             /\ onStack /\ "LoopRefetch" \in (Allowed \cup Forced) /\ "LoopRefetch" \notin nodev
             /\ wire' = [wire EXCEPT ![AppOf(I(v))] = Append(@, n)]
             /\ val' = [val EXCEPT ![v].pc = "diverged"]
             /\ out' = Append(out, [v |-> I(v), p |-> val[v].p, r |-> "diverged", c |-> Chain(inst[I(v)].anchor, val[v].p), e |-> W.epoch])
             /\ dev' = dev \cup {"LoopRefetch"} /\ nodev' = nd0
  /\ UNCHANGED <<W, inst, cache, nval>>
  /\ Track

VerifySig(v) ==
  /\ val[v].k = "run" /\ val[v].pc = "verify"
  /\ LET st == val[v].stack
         x == Top(st)
         good == El(x).sig = val[v].vk IN
       \/ /\ NoDev("Ed25519Unsupported", good /\ IsEd(val[v].vk))
          /\ \/ /\ ~good
                /\ val' = [val EXCEPT ![v].pc = "reject"] /\ UNCHANGED cache
             \/ /\ good /\ Len(st) = 1
                /\ val' = [val EXCEPT ![v].pc = "accept"] /\ UNCHANGED cache
             \/ \* a fetched certificate is valid: cache its key, resume the element it certifies
                /\ good /\ Len(st) > 1
                /\ cache' = [cache EXCEPT ![I(v)] = Saved(I(v), x)]
                /\ val' = [val EXCEPT ![v].stack = SubSeq(st, 1, Len(st) - 1), ![v].vk = W.certs[x].key]
       \/ \* DEVIATION: a signature to be verified under an Ed25519 key is never accepted (whatever the other keys of the chain are)
          /\ Dev("Ed25519Unsupported", good /\ IsEd(val[v].vk))
          /\ val' = [val EXCEPT ![v].pc = "reject"] /\ UNCHANGED cache
  /\ UNCHANGED <<W, inst, wire, out, nval>>
  /\ Track

Verdict(v) ==
  /\ val[v].k = "run" /\ val[v].pc \in {"accept", "reject"}
  /\ out' = Append(out, [v |-> I(v), p |-> val[v].p, r |-> IF val[v].pc = "accept" THEN "T" ELSE "F",
                           c |-> Chain(inst[I(v)].anchor, val[v].p), e |-> W.epoch])
  /\ val' = [val EXCEPT ![v] = NoVal]
  /\ UNCHANGED <<W, inst, cache, wire, nval, dev, nodev>>
  /\ Track

\* every name a world may use (model-checked worlds and recorded random worlds); a constant set, so that TLC
\* labels the transitions with the action and its parameters
\* (the names of the model-checked worlds; the recorded random worlds are judged by TrustChainTrace, which applies the
\* recorded stimuli directly and does not enumerate this set). PinNames: full names / key names of certificates (W.alias):
\* <certificate>p = full name of the packet served under the plain name, <certificate>w = full name with the digest of a
\* packet nobody serves, <certificate>y = full name of another packet of that certificate name, <certificate>k = key name
PinNames == {"RAp", "RAw", "RAy", "RAk", "A1p", "A1w", "A1y", "A1k", "A2p", "A2w", "A2y", "A2k"}
NameUniverse == {"RA", "RB", "RAx", "RAf", "RAo", "RAh", "RAd", "ROp", "A1", "A1b", "A2", "A3", "X", "B1",
                 "P1", "P1r", "A1r", "P2", "P3"} \cup PinNames
AppUniverse == {"app", "v1", "v2"}
Env == \/ \E v \in Inst, a \in NameUniverse, st \in StoreKinds : NewValidator(v, a, st)
       \/ \E v \in Slots, p \in NameUniverse : Validate(v, p)
       \/ \E a \in AppUniverse, n \in NameUniverse, kind \in {"yes", "nack", "timeout", "absent"} : FetchReply(a, n, kind)
       \/ \E n \in NameUniverse : Heal(n)
       \/ \E v \in Inst : Forget(v)
Internal == \E v \in Slots : CheckSchema(v) \/ UseAnchor(v) \/ UseCache(v) \/ Fetch(v) \/ VerifySig(v) \/ Verdict(v)
Next == Env \/ Internal
Fair == /\ \A v \in Slots : WF_vars(CheckSchema(v) \/ UseAnchor(v) \/ UseCache(v) \/ Fetch(v) \/ VerifySig(v) \/ Verdict(v))
        /\ \A a \in AppUniverse, n \in NameUniverse : WF_vars(\E kind \in {"yes", "nack", "timeout", "absent"} : FetchReply(a, n, kind))
Spec == Init /\ [][Next]_vars
FairSpec == Spec /\ Fair
\* every validation ends (with the network answering or timing out)
Terminates == \A v \in Slots : (val[v].k = "run") ~> (val[v] = NoVal)

TypeOK == /\ \A k \in DOMAIN W.alg : W.alg[k] \in KeyAlgs
          /\ \A v \in Inst : inst[v].k \in {"none", "ok", "refused"} /\ inst[v].store \in StoreKinds \cup {"none"}
          /\ \A v \in Inst : Len(cache[v]) <= Cap(inst[v].store) /\ Cardinality(CacheSet(v)) = Len(cache[v])
          /\ \A v \in Slots : val[v].k = "run" => val[v].pc \in {"check", "key", "fetching", "verify", "accept", "reject", "diverged"}
          /\ dev \subseteq (Allowed \cup Forced) /\ nodev \subseteq Allowed
StackBounded == \A v \in Slots : val[v].k = "run" => Len(val[v].stack) <= MaxChain + 1

-----------------------------------------------------------------------------
(* Worlds for model checking: hierarchies of depth 1..MaxD under anchor RA with one deviation at one
   link, a second clean packet under the same leaf certificate, and a clean depth-2 chain under RB.
   Elements of the chain, from the packet up: e(0) = P1, e(j) = A<d-j>, e(d) = RA.
   Link i joins e(i-1) (signed) and e(i) (signer).                                              *)
AName(k) == IF k = 0 THEN "RA" ELSE IF k = 1 THEN "A1" ELSE IF k = 2 THEN "A2" ELSE "A3"
AKey(k) == IF k = 0 THEN "kRA" ELSE IF k = 1 THEN "kA1" ELSE IF k = 2 THEN "kA2" ELSE "kA3"
CShape(k) == IF k = 1 THEN "c1" ELSE IF k = 2 THEN "c2" ELSE "c3"
DShape(d) == IF d = 1 THEN "d1" ELSE IF d = 2 THEN "d2" ELSE IF d = 3 THEN "d3" ELSE "d4"
Strict == {<<"c1", "root">>, <<"c2", "c1">>, <<"c3", "c2">>, <<"d1", "root">>, <<"d2", "c1">>, <<"d3", "c2">>, <<"d4", "c3">>}
\* the "peer" schema adds  #c1 <= #wild  and  #wild: #site/_/_/#KEY <= #root  (overlapping rules: a
\* certificate of the c1 shape may be signed by any 7-component key name, which may be signed by the root)
Peer == Strict \cup {<<"c1", "c1">>, <<"c1", "c2">>, <<"c1", "c3">>, <<"c1", "x">>, <<"c2", "root">>, <<"c3", "root">>, <<"x", "root">>}

\* at any link 1..d. "hmac" / "unknownsig": the element names the right certificate but its SignatureInfo says
\* HMAC_WITH_SHA256 / an unassigned SignatureType - no public key can verify it, so it must be rejected
\* The signature TYPE of a link is the adversary's choice as well: "hmacpub" = HMAC_WITH_SHA256 keyed with the PUBLIC
\* key bits of the named certificate (anybody can compute it), "digestkl" = DigestSha256 with a key locator,
\* "wrongtype" = a signature of another algorithm than the named certificate's key (ECDSA under an RSA key, ...).
\* "wrongcurve" = a genuine signature of the SAME SignatureType made with a key of another size than the named
\* certificate's key (ECDSA on another curve, RSA with another modulus length; Ed25519 has one size: as "wrongtype");
\* abstractly the same as "wrongtype", so it is injected where the algorithms vary (AlgWorld below, recorded random worlds).
\* None of them is a signature that verifies under the certificate's public key: all must be rejected.
\* A validator call that raises instead of returning is neither verdict: the executor reports it (raised:<Exception>).
LinkDevs == {"forged", "subst", "nokl", "digest", "hmac", "unknownsig", "hmacpub", "digestkl", "wrongtype"}
CertDevs == {"shape", "absent", "nack", "timeout"}         \* at links whose signer is a fetched certificate, 1..d-1
Params(maxd) ==
  {[sch |-> "strict", d |-> d, dev |-> "none", i |-> 0] : d \in 1..maxd}
  \cup {[sch |-> "strict", d |-> d, dev |-> x, i |-> i] : <<d, x, i>> \in {t \in (1..maxd) \X LinkDevs \X (1..maxd) : t[3] <= t[1]}}
  \cup {[sch |-> "strict", d |-> d, dev |-> x, i |-> i] : <<d, x, i>> \in {t \in (1..maxd) \X CertDevs \X (1..maxd) : t[3] < t[1]}}
  \cup {[sch |-> s, d |-> d, dev |-> "loop", i |-> i] : <<s, d, i>> \in {t \in {"strict", "peer"} \X (2..maxd) \X (2..maxd) : t[3] <= t[2]}}
  \cup {[sch |-> "peer", d |-> d, dev |-> "none", i |-> 0] : d \in 2..maxd}
  \* a second certificate A1b of the leaf key's NAME (other issuer/version), forged or not retrievable; P2 names it
  \cup (IF maxd >= 2 THEN {[sch |-> "strict", d |-> 2, dev |-> x, i |-> 1] : x \in {"twinforged", "twinabsent"}} ELSE {})
  \* a forgery that re-uses the SignatureValue of a genuine element over other signed bytes:
  \* "replaypkt": packet P1r (other name and content) carries the signature value of P1;
  \* "replaycert": certificate A1r (other name, the forger's key kO) carries the signature value of A1, P2 is signed by kO
  \* and names A1r. Both must be rejected - also after the genuine element was validated by the same or another instance.
  \cup (IF maxd >= 2 THEN {[sch |-> "strict", d |-> 2, dev |-> x, i |-> 1] : x \in {"replaypkt", "replaycert"}} ELSE {})

\* HOW A LINK NAMES ITS SIGNER (W.alias), at any link 1..d; the link is otherwise genuine.
\*  "pin"      the signer's FULL name (digest of the packet that is served under the plain name): the chain exists - unless
\*             the signer is the anchor (see INTERPRETATION at W.alias);
\*  "pinwrong" the signer's name + the digest of a packet nobody serves: the named certificate cannot be retrieved;
\*  "pintwin"  the full name of ANOTHER packet <signer>y of the signer's certificate name, genuinely issued by the same
\*             issuer for another key kO, retrievable under its full name; the signed element is signed with kO: the chain
\*             exists through <signer>y (and only for an element that pins it);
\*  "pinsubst" names <signer>y as well, but is signed with the key of the packet served under the plain name: no chain;
\*  "keyname"  the signer's KEY name: no certificate rule of the schema matches it.
\* P2 names the leaf certificate by its plain name: the same certificate under two names in one history.
PinDevs == {"pin", "pinwrong", "pintwin", "pinsubst", "keyname"}
PinParams(maxd) == {[sch |-> "strict", d |-> t[1], dev |-> t[2], i |-> t[3]] : t \in {t \in (1..maxd) \X PinDevs \X (1..maxd) : t[3] <= t[1]}}
PinSuffix(x) == IF x = "pin" THEN "p" ELSE IF x = "pinwrong" THEN "w" ELSE IF x = "keyname" THEN "k" ELSE "y"

MCWorld(q) ==
  LET d == q.d
      peer == q.sch = "peer"
      lvl(j) == d - j                                        \* level of element j (0 = root)
      en(j) == IF j = 0 THEN "P1" ELSE AName(lvl(j))         \* name of element j
      signed == IF q.i = 0 THEN "none" ELSE en(q.i - 1)       \* element whose link is deviated
      signer == IF q.i = 0 THEN "none" ELSE en(q.i)
      leafName == en(1)                                      \* certificate (or RA) that signs the packets
      leafKey == AKey(lvl(1))
      baseKl(k) == AName(k - 1)
      baseSig(k) == AKey(k - 1)
      \* key locator / signature of an element after the deviation
      pinDev == q.dev \in PinDevs
      pinName == IF pinDev THEN signer \o PinSuffix(q.dev) ELSE "none"
      klOf(n, kl0) == IF n # signed THEN kl0
                      ELSE IF pinDev THEN pinName
                      ELSE IF q.dev \in {"nokl", "digest"} THEN "none"
                      ELSE IF q.dev = "shape" THEN "X"
                      ELSE IF q.dev = "loop" THEN leafName
                      ELSE kl0
      sigOf(n, sig0) == IF n # signed THEN sig0
                        ELSE IF q.dev = "forged" THEN "forged"
                        ELSE IF q.dev \in {"subst", "pintwin"} THEN "kO"
                        ELSE IF q.dev = "digest" THEN "digest"
                        ELSE IF q.dev \in {"hmac", "unknownsig", "hmacpub", "digestkl", "wrongtype", "wrongcurve"} THEN q.dev
                        ELSE IF q.dev = "loop" THEN leafKey
                        ELSE sig0
      servOf(n) == IF n = signer /\ q.dev \in {"absent", "nack", "timeout"} THEN q.dev ELSE "yes"
      chainCerts == [n \in {AName(k) : k \in 1..(d - 1)} |->
                       LET k == CHOOSE k \in 1..(d - 1) : AName(k) = n IN
                         [key |-> AKey(k), kl |-> klOf(n, baseKl(k)), sig |-> sigOf(n, baseSig(k)), serv |-> servOf(n)]]
      xCert == IF q.dev = "shape"
               THEN [n \in {"X"} |-> LET k == lvl(q.i) IN [key |-> AKey(k), kl |-> baseKl(k), sig |-> baseSig(k), serv |-> "yes"]]
               ELSE [n \in {} |-> 0]
      \* RAh / RAd: "self-signed" with HMAC keyed with its own public key bits / with DigestSha256 - not a self-signature
      anchors == [n \in {"RA", "RB", "RAx", "RAf", "RAo", "RAh", "RAd"} |->
                    IF n = "RB" THEN [key |-> "kRB", kl |-> "RB", sig |-> "kRB", serv |-> "yes"]
                    ELSE [key |-> "kRA", kl |-> n, sig |-> IF n = "RAf" THEN "forged" ELSE IF n = "RAo" THEN "kO"
                                                          ELSE IF n = "RAh" THEN "hmacpub" ELSE IF n = "RAd" THEN "digestkl" ELSE "kRA",
                          serv |-> IF n = "RA" THEN "yes" ELSE "absent"]]
      bCert == [n \in {"B1"} |-> [key |-> "kB1", kl |-> "RB", sig |-> "kRB", serv |-> "yes"]]
      twinDev == q.dev \in {"twinforged", "twinabsent"}
      twinCert == IF twinDev
                  THEN [n \in {"A1b"} |-> [key |-> "kA1", kl |-> "RA", sig |-> IF q.dev = "twinforged" THEN "forged" ELSE "kRA",
                                           serv |-> IF q.dev = "twinabsent" THEN "absent" ELSE "yes"]]
                  ELSE [n \in {} |-> 0]
      replayCert == IF q.dev = "replaycert"
                    THEN [n \in {"A1r"} |-> [key |-> "kO", kl |-> "RA", sig |-> "replay", serv |-> "yes"]]
                    ELSE [n \in {} |-> 0]
      \* schema "two": a second, separate root of trust #oproot (no name matches both roots);
      \* schema "twin": a second root rule #root2 that every root-shaped name matches as well
      opCert == IF q.sch = "two" THEN [n \in {"ROp"} |-> [key |-> "kRA", kl |-> "ROp", sig |-> "kRA", serv |-> "absent"]]
                ELSE [n \in {} |-> 0]
      pshape == IF peer THEN "d2" ELSE DShape(d)
      signerRec == IF ~pinDev THEN [key |-> "", kl |-> "", sig |-> "", serv |-> ""]
                   ELSE IF signer = "RA" THEN anchors["RA"] ELSE chainCerts[signer]
      pinCert == IF q.dev = "pin" THEN [n \in {pinName} |-> signerRec]
                 ELSE IF q.dev \in {"pintwin", "pinsubst"}
                 THEN [n \in {pinName} |-> [key |-> "kO", kl |-> signerRec.kl, sig |-> IF signer = "RA" THEN "kO" ELSE signerRec.sig, serv |-> "yes"]]
                 ELSE [n \in {} |-> 0]
      baseShape == [n \in {"RA", "RB", "RAf", "RAo", "RAh", "RAd", "RAx", "ROp", "X", "A1", "A1b", "A1r", "A2", "A3", "B1", "P1", "P1r", "P2", "P3", "none"} |->
                   IF n \in {"RA", "RB", "RAf", "RAo", "RAh", "RAd"} THEN "root"
                   ELSE IF n = "ROp" THEN (IF q.sch = "two" THEN "oproot" ELSE "nil")
                   ELSE IF n = "A1b" THEN (IF twinDev THEN "c1" ELSE "nil")
                   ELSE IF n = "A1r" THEN (IF q.dev = "replaycert" THEN "c1" ELSE "nil")
                   ELSE IF n = "P1r" THEN (IF q.dev = "replaypkt" THEN pshape ELSE "nil")
                   ELSE IF n \in {"RAx", "X"} THEN "x"
                   ELSE IF n = "A1" THEN "c1" ELSE IF n = "A2" THEN (IF peer THEN "c1" ELSE "c2")
                   ELSE IF n = "A3" THEN (IF peer THEN "c1" ELSE "c3")
                   ELSE IF n = "B1" THEN "c1" ELSE IF n = "P3" THEN "d2"
                   ELSE IF n \in {"P1", "P2"} THEN pshape ELSE "nil"]
  IN [schema |-> IF peer THEN Peer ELSE IF q.sch = "two" THEN Strict \cup {<<"r1", "oproot">>}
                 ELSE IF q.sch = "twin" THEN Strict \cup {<<"e1", "root">>} ELSE Strict,
      roots |-> IF q.sch = "two" THEN {"root", "oproot"} ELSE IF q.sch = "twin" THEN {"root", "root2"} ELSE {"root"},
      covers |-> [sh \in {"root", "oproot"} |-> IF sh = "oproot" THEN {"oproot"}
                                                ELSE IF q.sch = "twin" THEN {"root", "root2"} ELSE {"root"}],
      twin |-> IF twinDev THEN [n \in {"A1b"} |-> "A1"] ELSE [n \in {} |-> ""],
      replay |-> IF q.dev = "replaypkt" THEN [n \in {"P1r"} |-> "P1"]
                 ELSE IF q.dev = "replaycert" THEN [n \in {"A1r"} |-> "A1"] ELSE [n \in {} |-> ""],
      alg |-> [k \in {} |-> ""],         \* every key "p256"; AlgWorld assigns algorithms by role
      fp |-> [n \in {} |-> ""],          \* every certificate "pos"; FpWorld assigns FreshnessPeriods
      alias |-> IF pinDev THEN [n \in {pinName} |-> [base |-> signer, pk |-> IF q.dev = "pin" THEN signer ELSE IF q.dev = "keyname" THEN "none" ELSE pinName,
                                                      kind |-> IF q.dev = "keyname" THEN "key" ELSE "full"]]
                ELSE [n \in {} |-> 0],
      epoch |-> 0,
      sch |-> q.sch,
      q |-> q,
      shape |-> (IF pinDev THEN [n \in {pinName} |-> IF q.dev = "keyname" THEN "kn" ELSE baseShape[signer]] ELSE [n \in {} |-> ""]) @@ baseShape,
      certs |-> chainCerts @@ xCert @@ anchors @@ bCert @@ twinCert @@ opCert @@ replayCert @@ pinCert,
      pkts |-> [n \in (IF q.dev = "replaypkt" THEN {"P1", "P1r", "P2", "P3"} ELSE {"P1", "P2", "P3"}) |->
                  IF n = "P1r" THEN [kl |-> leafName, sig |-> "replay"]
                  ELSE IF n = "P2" /\ q.dev = "replaycert" THEN [kl |-> "A1r", sig |-> "kO"]
                  ELSE IF n = "P1" THEN [kl |-> klOf("P1", leafName), sig |-> sigOf("P1", leafKey)]
                  ELSE IF n = "P2" THEN [kl |-> IF twinDev THEN "A1b" ELSE leafName, sig |-> leafKey]
                  ELSE [kl |-> "B1", sig |-> "kB1"]]]

MCWorlds(maxd) == {MCWorld(q) : q \in Params(maxd)}
W3 == MCWorlds(3)
W4 == MCWorlds(4)
W2 == MCWorlds(2)
WPin2 == {MCWorld(q) : q \in PinParams(2)}
WPin3 == {MCWorld(q) : q \in PinParams(3)}
WAll4 == W4 \cup WPin3
\* two validations in progress at once that name one certificate differently
WPinO == {MCWorld([sch |-> "strict", d |-> 2, dev |-> x, i |-> 1]) : x \in {"pin", "pintwin", "pinwrong"}}
\* key storages: clean chains, a second leaf certificate under the same anchor, one certificate under two names, fetch faults
WStore == {MCWorld(q) : q \in {[sch |-> "strict", d |-> 2, dev |-> "none", i |-> 0], [sch |-> "strict", d |-> 3, dev |-> "none", i |-> 0],
                                [sch |-> "strict", d |-> 2, dev |-> "twinforged", i |-> 1], [sch |-> "strict", d |-> 2, dev |-> "pin", i |-> 1],
                                [sch |-> "strict", d |-> 3, dev |-> "forged", i |-> 1], [sch |-> "strict", d |-> 2, dev |-> "nack", i |-> 1]}}
WStorePin == WStore \cup WPin2
MCStoreDefault(v) == {"default"}
MCStoreQ(v) == {"memory", "empty", "fifo1", "app"}
MCStoreT(v) == StoreKinds
\* FreshnessPeriod of the certificates on the way (A1, A2 of the clean chain RA - A1 - A2 - P1; the anchor is handed over, not fetched)
FpWorld(q, f) == [MCWorld(q) EXCEPT !.fp = [n \in {"RA", "A1", "A2"} |-> IF n = "RA" THEN f[1] ELSE IF n = "A1" THEN f[2] ELSE f[3]],
                                    !.q = [sch |-> q.sch, d |-> q.d, dev |-> q.dev, i |-> q.i, fp |-> f]]
FpKinds == {"pos", "zero", "none"}
WFresh == {FpWorld([sch |-> "strict", d |-> 3, dev |-> "none", i |-> 0], f) : f \in {"pos"} \X FpKinds \X FpKinds}
          \cup {FpWorld([sch |-> "strict", d |-> 2, dev |-> x, i |-> 1], <<"zero", "none", "pos">>) : x \in {"none", "forged"}}
          \cup {FpWorld([sch |-> "strict", d |-> 2, dev |-> "none", i |-> 0], <<"none", "zero", "pos">>)}
\* small world sets for the executor: learning which deviations the code has, orders of validations
\* fetch faults that Heal can repair
WHeal == {MCWorld(q) : q \in {[sch |-> "strict", d |-> 2, dev |-> "nack", i |-> 1], [sch |-> "strict", d |-> 2, dev |-> "timeout", i |-> 1],
                              [sch |-> "strict", d |-> 2, dev |-> "absent", i |-> 1], [sch |-> "strict", d |-> 3, dev |-> "nack", i |-> 2]}}
WClean == {MCWorld([sch |-> "strict", d |-> 2, dev |-> "none", i |-> 0])}
WLoop == {MCWorld([sch |-> "peer", d |-> 2, dev |-> "loop", i |-> 2])}
WOrd == {MCWorld(q) : q \in {[sch |-> "strict", d |-> 2, dev |-> "none", i |-> 0], [sch |-> "strict", d |-> 3, dev |-> "none", i |-> 0],
                             [sch |-> "strict", d |-> 2, dev |-> "twinforged", i |-> 1], [sch |-> "strict", d |-> 2, dev |-> "twinabsent", i |-> 1],
                             [sch |-> "strict", d |-> 2, dev |-> "forged", i |-> 1], [sch |-> "strict", d |-> 2, dev |-> "absent", i |-> 1],
                             [sch |-> "strict", d |-> 3, dev |-> "subst", i |-> 2], [sch |-> "peer", d |-> 3, dev |-> "none", i |-> 0]}}
(* RE-CERTIFIED KEYS: ONE KEY, SEVERAL CERTIFICATES ON ONE CHAIN. A key may hold several certificates (same key name,
   other issuer / version), and more than one of them may lie on the SAME chain: the key kA1, certified by the root
   (certificate A1), certifies other keys, one of which certifies kA1 again (certificate A1b: cross- / re-certification):
        P1 - [A3 -] A1b - (g certificates: A2 / A3, A2) - A1 - [X -] RA
   No CERTIFICATE occurs twice, every link is allowed by the overlapping-rule schema ("peer"; under the strict schema the
   signing relation between name shapes is acyclic and no key name can come back), every signature verifies: the chain
   exists. What must not repeat on a chain is a certificate NAME (Fetch: onStack compares names) - a key NAME may.
     g    certificates between the two certificates of the key (0: A1b is issued with the key itself, which it names as A1)
     bl   1: the packet is signed by a further key (kA3) that A1b certifies - the re-certified key is not the packet signer
     ab   1: A1 is issued by X, which the root issues - the re-certified key is not directly under the anchor
   (g + bl + ab <= 2: at most 4 certificates between packet and anchor, MaxK.)
   P2 is signed with kA1 as well and names A1: the short chain. An instance that validated P2 holds A1 (and only A1).
   x: "none"; "reloop" A1 is issued under A1b's name - a loop of certificate names through both certificates of the key,
   no chain for P1 and P2; "reforged" / "reabsent": the upper certificate A1 is forged / not retrievable - no chain, although
   another certificate of the very key was validated / is being validated.                                          *)
ReDevs == {"reloop", "reforged", "reabsent"}
ReWorld(g, bl, ab, x) ==
  LET w == MCWorld([sch |-> "peer", d |-> 2, dev |-> "none", i |-> 0])
      top == IF ab = 1 THEN "X" ELSE "RA"
      topKey == IF ab = 1 THEN "kX" ELSE "kRA"
      iss == IF g = 0 THEN "A1" ELSE IF g = 1 THEN "A2" ELSE "A3"          \* issuer of A1b
      issKey == IF g = 0 THEN "kA1" ELSE IF g = 1 THEN "kA2" ELSE "kA3"
      leaf == IF bl = 1 THEN "A3" ELSE "A1b"
      leafKey == IF bl = 1 THEN "kA3" ELSE "kA1"
      names == {"A1", "A1b"} \cup (IF g >= 1 THEN {"A2"} ELSE {}) \cup (IF g = 2 \/ bl = 1 THEN {"A3"} ELSE {})
                             \cup (IF ab = 1 THEN {"X"} ELSE {})
      cs == [n \in names |->
               IF n = "A1" THEN [key |-> "kA1", kl |-> IF x = "reloop" THEN "A1b" ELSE top,
                                 sig |-> IF x = "reloop" THEN "kA1" ELSE IF x = "reforged" THEN "forged" ELSE topKey,
                                 serv |-> IF x = "reabsent" THEN "absent" ELSE "yes"]
               ELSE IF n = "A1b" THEN [key |-> "kA1", kl |-> iss, sig |-> issKey, serv |-> "yes"]
               ELSE IF n = "A2" THEN [key |-> "kA2", kl |-> "A1", sig |-> "kA1", serv |-> "yes"]
               ELSE IF n = "A3" THEN (IF bl = 1 THEN [key |-> "kA3", kl |-> "A1b", sig |-> "kA1", serv |-> "yes"]
                                               ELSE [key |-> "kA3", kl |-> "A2", sig |-> "kA2", serv |-> "yes"])
               ELSE [key |-> "kX", kl |-> "RA", sig |-> "kRA", serv |-> "yes"]]
  IN [w EXCEPT !.certs = cs @@ w.certs,
               !.shape = [n \in {"A1b"} |-> "c1"] @@ w.shape,
               !.twin = [n \in {"A1b"} |-> "A1"],
               !.pkts = [n \in {"P1", "P2", "P3"} |-> IF n = "P1" THEN [kl |-> leaf, sig |-> leafKey]
                                                      ELSE IF n = "P2" THEN [kl |-> "A1", sig |-> "kA1"] ELSE w.pkts[n]],
               !.q = [sch |-> "peer", d |-> g + bl + ab + 2, dev |-> x, i |-> 0, re |-> <<g, bl, ab>>]]
ReShapes == {t \in (0..2) \X (0..1) \X (0..1) : t[1] + t[2] + t[3] <= 2}
\* thorough: every place of the re-certified key, clean and with every deviation; quick: every place clean, the deviations
\* on the shortest and on one long chain
WReT == {ReWorld(t[1], t[2], t[3], "none") : t \in ReShapes} \cup {ReWorld(t[1], t[2], t[3], x) : t \in ReShapes, x \in ReDevs}
WReQ == {ReWorld(t[1], t[2], t[3], "none") : t \in ReShapes}
        \cup {ReWorld(t[1], t[2], t[3], x) : t \in {<<0, 0, 0>>, <<1, 0, 1>>}, x \in ReDevs}
\* (for the executor's history graphs: the chains with 2, 3 and 4 fetched certificates)
WReH == {ReWorld(t[1], t[2], t[3], "none") : t \in {<<0, 0, 0>>, <<1, 0, 0>>, <<1, 1, 0>>, <<2, 0, 0>>}}
        \cup {ReWorld(1, 0, 0, x) : x \in ReDevs}
WAll4Re == WAll4 \cup WReT
AllKeys == {"kRA", "kRB", "kA1", "kA2", "kA3", "kB1", "kO"}
WEd == {[MCWorld(q) EXCEPT !.alg = [k \in AllKeys |-> "ed"]] : q \in {[sch |-> "strict", d |-> 2, dev |-> "none", i |-> 0],
                                                                     [sch |-> "strict", d |-> 2, dev |-> "forged", i |-> 1]}}
\* (hierarchies where only the anchor's / an intermediate certificate's / the packet signer's key is an Ed25519 key: WAlgQ)

(* Key algorithms by role. Chain RA - A1 - A2 - P1 (d = 3): kRA is the ANCHOR's key (it signs the anchor itself and
   A1), kA1 the key of an INTERMEDIATE certificate (it signs A2), kA2 the PACKET SIGNER (it signs P1): link i (1 =
   packet) is signed by the key of role 4 - i.  f = <<algorithm of kRA, of kA1, of kA2>>. The substituted key kO has
   the algorithm of the key it stands in for. The world is cut down to what the chain needs (anchors RA and the badly
   self-signed RAf, packet P1).        *)
Role(k) == IF k = "kRA" THEN 1 ELSE IF k = "kA1" THEN 2 ELSE 3
AlgWorld(q, f) ==
  LET w == MCWorld(q)
  IN [w EXCEPT !.alg = [k \in {"kRA", "kA1", "kA2", "kO"} |-> IF k = "kO" THEN f[IF q.i = 0 THEN 3 ELSE 4 - q.i] ELSE f[Role(k)]],
               !.certs = [n \in (DOMAIN w.certs) \cap {"RA", "RAf", "A1", "A2"} |-> w.certs[n]],
               !.pkts = [n \in {"P1"} |-> w.pkts[n]],
               !.q = [sch |-> q.sch, d |-> q.d, dev |-> q.dev, i |-> q.i, ka |-> f]]
Clean3 == [sch |-> "strict", d |-> 3, dev |-> "none", i |-> 0]
Idx(seq, a) == CHOOSE i \in 1..Len(seq) : seq[i] = a
\* all assignments / an orthogonal array of strength 2: every pair of roles gets every pair of algorithms
AllAssign(seq) == {<<seq[i], seq[j], seq[k]>> : i, j, k \in 1..Len(seq)}
PairAssign(seq) == {<<seq[i], seq[j], seq[((i + j) % Len(seq)) + 1]>> : i, j \in 1..Len(seq)}
\* the signer of link i (role 4 - i) has algorithm a, the other two roles the next and the next but one of seq
RotAssign(seq, a, i) == [r \in 1..3 |-> seq[((Idx(seq, a) - 1 + ((r + i + 2) % 3)) % Len(seq)) + 1]]
AlgLinkDevs == {"forged", "subst", "wrongtype", "wrongcurve", "hmacpub"}
DevQ(x, i) == [sch |-> "strict", d |-> 3, dev |-> x, i |-> i]
\* quick: every pair (role, algorithm) x (role, algorithm) on the clean chain; a forged signature / a signature of another
\* size at every link under every algorithm of that link's signer
WAlgQ == {AlgWorld(Clean3, f) : f \in PairAssign(AlgSeq)}
         \cup {AlgWorld(DevQ(t[1], t[2]), RotAssign(AlgSeq, t[3], t[2])) : t \in {"forged", "wrongcurve"} \X (1..3) \X (KeyAlgs \ {"rsa3072"})}
\* thorough: every assignment on the clean chain; every deviation at every link under every pair
WAlgT == {AlgWorld(Clean3, f) : f \in AllAssign(AlgSeqT)}
         \cup {AlgWorld(DevQ(t[1], t[2]), t[3]) : t \in AlgLinkDevs \X (1..3) \X PairAssign(AlgSeqT)}
MCAnchorsAlg(v) == {"RA", "RAf"}
\* schemas with two roots of trust: an anchor that matches only one of them must be refused
WTwin == {MCWorld([sch |-> "strict", d |-> 2, dev |-> x, i |-> 1]) : x \in {"twinforged", "twinabsent", "replaypkt", "replaycert"}}
W2R == {MCWorld([sch |-> s, d |-> 2, dev |-> "none", i |-> 0]) : s \in {"two", "twin"}}
MCAnchors2(v) == IF v = "v1" THEN {"RA", "ROp", "RAx", "RAf"} ELSE {"RB"}
MCAnchors(v) == IF v = "v1" THEN {"RA", "RAx", "RAf", "RAo", "RAh", "RAd"} ELSE {"RB", "RA"}
MCAnchorsGood(v) == IF v = "v1" THEN {"RA"} ELSE {"RB", "RA"}

\* vacuity witnesses (must be VIOLATED when checked as invariants)
W_AcceptDeep == ~(\E i \in 1..Len(out) : out[i].r = "T" /\ Len(wire[AppOf(out[i].v)]) >= 2)
W_CacheHit == ~(\E v \in Inst : Len(out) >= 2 /\ out[1].v = v /\ out[2].v = v /\ out[1].r = "T" /\ out[2].r = "T" /\ Len(wire[AppOf(v)]) = 1)
W_Refused == ~(\E v \in Inst : inst[v].k = "refused")
W_RejectOtherAnchor == ~(\E i \in 1..Len(out) : out[i].r = "F" /\ out[i].p = "P1" /\ inst[out[i].v].anchor = "RB" /\ W.q.dev = "none")
W_TwoRootsAccept == ~(\E v \in Inst : inst[v].k = "ok" /\ Cardinality(W.roots) = 2)
W_TwoRootsRefuse == ~(\E v \in Inst : inst[v].k = "refused" /\ Cardinality(W.roots) = 2 /\ W.shape[inst[v].anchor] = "root"
                                       /\ W.certs[inst[v].anchor].sig = W.certs[inst[v].anchor].key)
W_HealedAccept == ~(\E i \in 1..Len(out) : \E j \in 1..Len(out) : i < j /\ out[i].p = out[j].p /\ out[i].v = out[j].v
                                                                    /\ out[i].r = "F" /\ out[j].r = "T" /\ out[j].e = 1)
\* a packet is accepted over a chain whose anchor key, intermediate key and packet-signing key are of three algorithms
W_AcceptMixedAlgs == ~(\E i \in 1..Len(out) : out[i].r = "T" /\ Cardinality({AlgOf(k) : k \in {"kRA", "kA1", "kA2"}}) = 3
                                               /\ Len(wire[AppOf(out[i].v)]) = 2)
\* ... and rejected because of one link, under a P-521 / RSA-2048 / Ed25519 key, that does not verify
W_RejectBigKeyLink == ~(\E i \in 1..Len(out) : out[i].r = "F" /\ "ka" \in DOMAIN W.q /\ W.q.dev = "forged"
                                                /\ AlgOf(W.certs[W.pkts[out[i].p].kl].key) \in {"p521", "rsa2048", "ed"})
\* a packet that names its signer by full name is accepted; one that pins another packet of the signer's name as well
W_PinAccept == ~(\E i \in 1..Len(out) : out[i].r = "T" /\ W.q.dev = "pin" /\ El(out[i].p).kl \in DOMAIN W.alias)
W_PinTwinAccept == ~(\E i \in 1..Len(out) : out[i].r = "T" /\ W.q.dev = "pintwin" /\ El(out[i].p).kl \in DOMAIN W.alias)
\* one Data satisfies two validations that name it differently, both accepted
W_PinBoth == ~(Len(out) = 2 /\ out[1].r = "T" /\ out[2].r = "T" /\ W.q.dev = "pin" /\ \E a \in Apps : Len(wire[a]) = 2 /\ wire[a][1] # wire[a][2])
\* a storage that keeps nothing / too little: the same certificate fetched again, both packets accepted
W_Refetch == ~(\E a \in Apps : Len(wire[a]) >= 2 /\ wire[a][1] = wire[a][Len(wire[a])] /\ Len(out) = 2 /\ out[1].r = "T" /\ out[2].r = "T")
\* (one certificate under two names, three validations: the third fetch happens only because the entry was evicted)
W_Evicted == ~(\E v \in Inst : inst[v].store = "fifo1" /\ Len(out) = 3 /\ (\A i \in 1..3 : out[i].r = "T") /\ Len(wire[AppOf(v)]) = 3)
W_Forgot == ~(\E v \in Inst : inst[v].store = "app" /\ Len(out) = 2 /\ out[1].r = "T" /\ out[2].r = "T" /\ out[1].p = out[2].p /\ Len(wire[AppOf(v)]) = 2)
\* a packet is accepted over a chain on which one key holds two certificates, both fetched within that one validation;
\* ... and by an instance that held the upper one already (validated the short chain before): one fetch of A1 in all
Asked(a, n) == Cardinality({i \in 1..Len(wire[a]) : wire[a][i] = n})
W_RecertAccept == ~("re" \in DOMAIN W.q /\ Len(out) = 1 /\ out[1].r = "T" /\ out[1].p = "P1"
                    /\ \E a \in Apps : Asked(a, "A1") = 1 /\ Asked(a, "A1b") = 1 /\ Len(wire[a]) >= 3)
W_RecertWarm == ~("re" \in DOMAIN W.q /\ Len(out) = 2 /\ out[1].r = "T" /\ out[2].r = "T" /\ out[1].p = "P2" /\ out[2].p = "P1"
                  /\ out[1].v = out[2].v /\ Asked(AppOf(out[1].v), "A1") = 1 /\ Asked(AppOf(out[1].v), "A1b") = 1)
\* a loop through both certificates of the key is refused
W_RecertLoop == ~("re" \in DOMAIN W.q /\ W.q.dev = "reloop" /\ Len(out) = 1 /\ out[1].r = "F" /\ out[1].p = "P1"
                  /\ \E a \in Apps : Asked(a, "A1") = 1 /\ Asked(a, "A1b") = 1)
W_TwoInFlight ==~(\A v \in Slots : val[v].k = "run" /\ val[v].pc = "fetching")
\* two validations of ONE instance wait for the same certificate, and both end accepted
W_SameInstanceTwice == ~(\E v \in Inst : Cardinality({i \in 1..Len(out) : out[i].v = v /\ out[i].r = "T"}) >= 2
                                         /\ Len(wire[AppOf(v)]) >= 2 /\ wire[AppOf(v)][1] = wire[AppOf(v)][2])
=============================================================================
