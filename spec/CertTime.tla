------------------------------- MODULE CertTime -------------------------------
(* Civil-date arithmetic and the ISO-8601 basic rendering YYYYMMDDTHHMMSS used by the NDN
   certificate ValidityPeriod - an oracle independent of Python's datetime (C16).

   An instant is [d, s]: days since 1970-01-01 and second of the day (TLC integers are 32-bit;
   seconds since the epoch would overflow in 2038).  Text is a sequence of ASCII codes.
   Scope: years 1..9999 (proleptic Gregorian calendar, UTC, no leap seconds - as datetime); days before
   1970-01-01 are negative.                                                                  *)
EXTENDS Integers, Sequences

IsLeap(y) == (y % 4 = 0 /\ y % 100 # 0) \/ y % 400 = 0
DaysInMonth(y, m) == IF m = 2 THEN (IF IsLeap(y) THEN 29 ELSE 28)
                     ELSE IF m \in {4, 6, 9, 11} THEN 30 ELSE 31
Date(y, m, d) == [y |-> y, m |-> m, d |-> d]
ValidDate(x) == x.m \in 1..12 /\ x.d >= 1 /\ x.d <= DaysInMonth(x.y, x.m)

\* closed forms (era arithmetic on 400-year cycles of 146097 days, March-based year)
DaysFromCivil(y0, m, d) ==
  LET y == IF m <= 2 THEN y0 - 1 ELSE y0
      era == y \div 400
      yoe == y - era * 400
      mp == IF m > 2 THEN m - 3 ELSE m + 9
      doy == (153 * mp + 2) \div 5 + d - 1
      doe == yoe * 365 + yoe \div 4 - yoe \div 100 + doy
  IN era * 146097 + doe - 719468

CivilFromDays(z0) ==
  LET z == z0 + 719468
      era == z \div 146097
      doe == z - era * 146097
      yoe == (doe - doe \div 1460 + doe \div 36524 - doe \div 146096) \div 365
      doy == doe - (365 * yoe + yoe \div 4 - yoe \div 100)
      mp == (5 * doy + 2) \div 153
      d == doy - (153 * mp + 2) \div 5 + 1
      m == IF mp < 10 THEN mp + 3 ELSE mp - 9
      y == yoe + era * 400 + (IF m <= 2 THEN 1 ELSE 0)
  IN Date(y, m, d)

\* the calendar stated naively: the day after a date (used only to check the closed forms)
NextDate(x) == IF x.d < DaysInMonth(x.y, x.m) THEN Date(x.y, x.m, x.d + 1)
               ELSE IF x.m < 12 THEN Date(x.y, x.m + 1, 1) ELSE Date(x.y + 1, 1, 1)

Inst(d, s) == [d |-> d, s |-> s]
MaxInst == Inst(DaysFromCivil(9999, 12, 31), 86399)
InstLeq(a, b) == a.d < b.d \/ (a.d = b.d /\ a.s <= b.s)
\* n >= 0 seconds later (n < 2^31 - 86400)
AddSec(i, n) == LET t == i.s + (n % 86400) IN Inst(i.d + (n \div 86400) + (t \div 86400), t % 86400)
AddDays(i, n) == Inst(i.d + n, i.s)

\* same month/day/time k years later; February 29 has no such day in a non-leap year: datetime.replace
\* raises there, and a repaired implementation may choose either neighbour - both are accepted
AddYears(i, k) ==
  LET c == CivilFromDays(i.d) IN
  IF ValidDate(Date(c.y + k, c.m, c.d)) THEN { Inst(DaysFromCivil(c.y + k, c.m, c.d), i.s) }
  ELSE { Inst(DaysFromCivil(c.y + k, 2, 28), i.s), Inst(DaysFromCivil(c.y + k, 3, 1), i.s) }
HasSameDay(i, k) == LET c == CivilFromDays(i.d) IN ValidDate(Date(c.y + k, c.m, c.d))

Digit(n) == 48 + n
Dig2(n) == <<Digit(n \div 10), Digit(n % 10)>>
Dig4(n) == <<Digit(n \div 1000), Digit((n \div 100) % 10), Digit((n \div 10) % 10), Digit(n % 10)>>
Render(i) ==
  LET c == CivilFromDays(i.d) IN
  Dig4(c.y) \o Dig2(c.m) \o Dig2(c.d) \o <<84>> \o Dig2(i.s \div 3600) \o Dig2((i.s \div 60) % 60) \o Dig2(i.s % 60)

\* reading the text back: [ok, i]; ok iff txt is exactly the rendering of an instant
DigVal(c) == IF c >= 48 /\ c <= 57 THEN c - 48 ELSE -100000
Num2(t, i) == DigVal(t[i]) * 10 + DigVal(t[i + 1])
ParseInst(t) ==
  IF Len(t) # 15 \/ t[9] # 84 \/ \E i \in (1..15) \ {9} : DigVal(t[i]) < 0 THEN [ok |-> FALSE, i |-> Inst(0, 0)]
  ELSE LET y == Num2(t, 1) * 100 + Num2(t, 3)  m == Num2(t, 5)  d == Num2(t, 7)
           h == Num2(t, 10)  mi == Num2(t, 12)  sc == Num2(t, 14) IN
       IF ~ValidDate(Date(y, m, d)) \/ h > 23 \/ mi > 59 \/ sc > 59 THEN [ok |-> FALSE, i |-> Inst(0, 0)]
       ELSE [ok |-> TRUE, i |-> Inst(DaysFromCivil(y, m, d), h * 3600 + mi * 60 + sc)]

RECURSIVE LexLess(_, _)
LexLess(a, b) == IF Len(a) = 0 THEN Len(b) > 0 ELSE IF Len(b) = 0 THEN FALSE
                 ELSE IF Head(a) # Head(b) THEN Head(a) < Head(b) ELSE LexLess(Tail(a), Tail(b))

\* width of the NonNegativeInteger holding the millisecond timestamp of clock [d, s, ms]
\* (the version component of a certificate name); d*86400*1000 would overflow, so by thresholds
MsWidth(k) ==
  LET T == k.d * 86400 + k.s IN
  IF k.d = 0 /\ k.s = 0 /\ k.ms <= 255 THEN 1
  ELSE IF k.d = 0 /\ k.s <= 65 /\ k.s * 1000 + k.ms <= 65535 THEN 2
  ELSE IF k.d < 50 /\ (T < 4294967 \/ (T = 4294967 /\ k.ms <= 295)) THEN 4
  ELSE 8
=============================================================================
