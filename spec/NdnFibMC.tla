----------------------------- MODULE NdnFibMC -----------------------------
EXTENDS NdnFib
R == <<>>
A == <<"a">>
AB == <<"a", "b">>
ABC == <<"a", "b", "c">>
B == <<"b">>
I(n, p, s, d, t, l) == [name |-> n, params |-> p, pe |-> FALSE, signed |-> s, digOk |-> d, tok |-> t, life |-> l]
PE(x) == [x EXCEPT !.pe = TRUE]      \* the same Interest with empty (zero-length) ApplicationParameters

N_tree == {R, A, AB, ABC, B}
N_small == {A, AB, ABC}
\* routing: plain Interests on every name
I_route == { I(n, FALSE, FALSE, TRUE, 0, 1) : n \in N_tree }
\* gate: every combination of parameters / signature / digest correctness on one nested name
\* (signed => params; without params or signature there is no digest to get wrong)
I_gate0 == { x \in { I(AB, p, s, d, 0, 1) : p \in BOOLEAN, s \in BOOLEAN, d \in BOOLEAN } :
              (x.signed => x.params) /\ (~x.params => x.digOk) }
\* plus a signed Interest WITHOUT ApplicationParameters (InterestSignatureInfo / Value only): it carries a signature, so
\* it needs a correct parameters digest - and has none
I_gate == I_gate0 \cup { PE(x) : x \in { y \in I_gate0 : y.params } } \cup { I(AB, FALSE, TRUE, FALSE, 0, 1) }
\* reply / token: lifetimes 1,2 and tokens none, t1, t2
\* lifetime 0 (the Interest expires at once) included
I_reply == { I(AB, FALSE, FALSE, TRUE, t, l) : t \in 0..2, l \in 0..2 }
I_small == { I(AB, FALSE, FALSE, TRUE, 0, 1), I(ABC, TRUE, TRUE, TRUE, 1, 1), I(A, TRUE, FALSE, FALSE, 0, 1), I(ABC, TRUE, FALSE, TRUE, 2, 2) }
H4 == 1..4
H6 == 1..6
Val_no == {FALSE}
Val_yes == {TRUE}
Val_both == BOOLEAN
\* RAISE: the validator raises an exception instead of returning a verdict (nothing was accepted)
V_v2 == {"PASS", "FAIL", "TIMEOUT", "SILENCE", "BYPASS", "RAISE"}
V_v2two == {"PASS", "FAIL"}
V_legacy == {"T", "F", "RAISE"}
Rep_one == {"uri"}
Rep_all == {"uri", "strlist", "byteslist", "bytearraylist", "memviewlist", "wire", "wirebuf", "mutbuf", "tuple", "iter"}
E_all == {"bare", "lp", "lph", "lpo"}
E_two == {"bare", "lp"}
J_one == {"junk"}
J_none == {}
=============================================================================
