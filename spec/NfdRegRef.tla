----------------------------- MODULE NfdRegRef -----------------------------
(* Links the specification that is bound to the code (NfdReg, correct design: Allowed = Forced = {}) with the
   counting abstraction whose invariant Apalache proves for unbounded numbers of calls, commands and clock
   values (NfdRegInd): every step of NfdReg is a step of NfdRegInd (or leaves its variables unchanged) under
   the map below - calls are counted per section of the coroutine, the semaphore becomes its counter, the wire
   is seen through its last command.  A cancelled call (pc "cancelled") is counted nowhere: CancelWaiting /
   CancelSleeping / CancelSent of NfdReg are CancelWait / CancelSleep / CancelSent of the abstraction (the waiter
   leaves the count `waiting`, the holder leaves its section and the semaphore counter goes up); LateReply is a
   stuttering step.  Checked by TLC on the bounded configurations of C17 stage A. *)
EXTENDS NfdReg

Cnt(S) == Cardinality({c \in Calls : pc[c] \in S})
OkCalls == {c \in Calls : pc[c] = "guardOk"}
Ind == INSTANCE NfdRegInd WITH
          clock <- clock, lastTs <- lastTs,
          g <- IF OkCalls = {} THEN 0 - 1 ELSE g[CHOOSE c \in OkCalls : TRUE],
          wireTs <- IF cmds = <<>> THEN 0 - 1 ELSE cmds[Len(cmds)].ts,
          nWire <- Len(cmds),
          semVal <- IF sem = 0 THEN 1 ELSE 0,
          waiting <- Len(semQ),
          cAcq <- Cnt({"acquired"}), cOk <- Cnt({"guardOk"}), cFail <- Cnt({"guardFail"}), cSleep <- Cnt({"sleeping"}),
          cWoken <- Cnt({"woken"}), cSent <- Cnt({"sent"}), cRepl <- Cnt({"replied"})
RefinesInd == Ind!ISpec
IndInvHolds == Ind!IndInv
\* what the abstraction's "last command" view relies on: the whole wire is increasing, not only its last step
WireIncreasing == TsStrictlyIncreasing
=============================================================================
