SPECIFICATION TSpec
CONSTANTS MaxSteps = 64 DevScratch = FALSE DevSharedDefault = FALSE
CONSTRAINT Mark
POSTCONDITION Post
CHECK_DEADLOCK FALSE
