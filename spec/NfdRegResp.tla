---------------------------- MODULE NfdRegResp ----------------------------
(* C17, last clause: "decoding a management response returns the fields that were encoded".
   Reference for nfd_mgmt.parse_response on a ControlResponse
        0x65 { 0x66 StatusCode, 0x67 StatusText, [0x68 ControlParameters { fields... }] }.
   Values travel as strings (numbers exceed TLC's 32-bit integers): "=<text>" for a present value,
   "none" for an absent one; names as URIs.

   fields = [status_code, status_text, present (is there a ControlParameters element), body[16 fields]]
   Expected result: status code and text as encoded; every ControlParameters field with its
   encoded value, or none when it (or the whole ControlParameters element, which a forwarder
   omits in most error responses) is absent; no exception.

   Two uses: (1) enumeration - CASES_OUT set: write Cases with their expected results as JSON for the
   executor; (2) judgement - TRACE_FILE: ndjson of [fields, result] recorded from the real function. *)
EXTENDS Integers, Sequences, FiniteSets, TLC, Json, IOUtils, SequencesExt

UintFields == {"face_id", "origin", "cost", "capacity", "count", "base_congestion_mark_interval",
               "default_congestion_threshold", "mtu", "flags", "mask", "expiration_period"}
TextFields == {"uri", "local_uri"}
NameFields == {"name", "strategy"}
BodyNames == UintFields \cup TextFields \cup NameFields \cup {"face_persistency"}

Expected(f) ==
  [k \in {"raised", "status_code", "status_text"} \cup BodyNames |->
     IF k = "raised" THEN "none"
     ELSE IF k = "status_code" THEN f.status_code
     ELSE IF k = "status_text" THEN f.status_text
     ELSE IF f.present THEN f.body[k] ELSE "none"]

-----------------------------------------------------------------------------
Codes == {"0", "200", "255", "256", "403", "65535", "65536", "4294967295", "4294967296", "18446744073709551615"}
Texts == {"=", "=OK", "=no route 1"}
UintVals == {"=0", "=255", "=256", "=65536", "=4294967296", "=18446744073709551615"}
ValsOf(k) == IF k \in UintFields THEN UintVals
             ELSE IF k \in TextFields THEN {"=", "=udp4://1.2.3.4:6363"}
             ELSE IF k \in NameFields THEN {"=/a", "=/a/b/cc"}
             ELSE {"=0", "=1", "=2"}      \* face_persistency: the assigned values (an enumeration is quantified over its members only)
Empty == [k \in BodyNames |-> "none"]
Full == [k \in BodyNames |-> CHOOSE v \in ValsOf(k) : \A w \in ValsOf(k) : Len(w) <= Len(v)]
Singles == {[Empty EXCEPT ![k] = v] : <<k, v>> \in {<<k, v>> \in BodyNames \X (UNION {ValsOf(k) : k \in BodyNames}) : v \in ValsOf(k)}}
Pairs == {[k \in BodyNames |-> IF k \in {a, b} THEN Full[k] ELSE "none"] : <<a, b>> \in BodyNames \X BodyNames}

Cases ==
  {[status_code |-> c, status_text |-> t, present |-> p, body |-> b] :
      <<c, t, p, b>> \in (Codes \X Texts \X {FALSE} \X {Empty}) \cup (Codes \X Texts \X {TRUE} \X {Empty, Full})}
  \cup {[status_code |-> c, status_text |-> "=OK", present |-> TRUE, body |-> b] : <<c, b>> \in {"200", "400"} \X (Singles \cup Pairs)}

WriteCases == LET s == SetToSeq(Cases) IN
              JsonSerialize(IOEnv.CASES_OUT, [i \in 1..Len(s) |-> [fields |-> s[i], expected |-> Expected(s[i])]])

-----------------------------------------------------------------------------
Recs == ndJsonDeserialize(IOEnv.TRACE_FILE)
VARIABLE x
JInit == x = 0 /\ TLCSet(1, 0) /\ (("CASES_OUT" \in DOMAIN IOEnv) => WriteCases)
JNext == FALSE /\ x' = x
JPost == TLCGet(1) = 0 /\ \A i \in 1..Len(Recs) :
           \/ Recs[i].result = Expected(Recs[i].fields)
           \/ PrintT(<<"REJECTED", i, 0>>)
=============================================================================
