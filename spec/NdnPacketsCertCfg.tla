--------------------------- MODULE NdnPacketsCertCfg ---------------------------
(* Enumerated issue requests for C16 (stage A laws, stage B one real issuance per request).
   Slices: every subject key type x every issuing signer model (incl. each ECDSA DER length);
   issuer-id forms x start instants x durations x time zones for derive_cert; clocks for
   self_sign / sign_req (incl. 29 February, version-number width boundaries).
   Zones with daylight-saving time: start / end written as wall-clock reading + fold inside the repeated interval and the gap.
   The bytes of the subject key: every encoding of every key type x every issuing call x buffer kinds (KeyForms).
   Public-key lengths (canonical SubjectPublicKeyInfo) are measured from the run's key pool and passed as
   constants; the lengths of the other encodings are functions of the key type (EncLen; the executor refuses
   to run a request whose publen is not the length of the bytes it built).                               *)
EXTENDS NdnPacketsCert
CONSTANTS Scale, LenEc256, LenEc384, LenRsa, LenEd

Thorough == Scale >= 2
C(t, l) == [t |-> t, l |-> l]
SubjTypes == {"ec256", "ec384", "rsa", "ed25519"}
PubLen(k) == IF k = "ec256" THEN LenEc256 ELSE IF k = "ec384" THEN LenEc384 ELSE IF k = "rsa" THEN LenRsa ELSE LenEd
KeyName(n) == IF n = 1 THEN <<C(8, 3), C(8, 3), C(8, 8)>> ELSE <<C(8, 3), C(8, 5), C(8, 3), C(8, 8)>>   \* /id[/sub]/KEY/<8 bytes>
IssKL == <<C(8, 2), C(8, 3), C(8, 8)>>          \* the issuing key's name (key locator)
SgI(kind, r, a, haskl) == [kind |-> kind, r |-> r, a |-> a, st |-> TRUE, haskl |-> haskl,
                           kl |-> IF haskl THEN IssKL ELSE <<>>, nonce |-> 0, time |-> 0, seq |-> 0]
Issuers == { SgI("ecdsa", 72, a, TRUE) : a \in 70..72 } \cup { SgI("ecdsa", 104, a, TRUE) : a \in 102..104 }
           \cup { SgI("rsa", 256, 256, TRUE), SgI("ed25519", 64, 64, TRUE), SgI("hmac", 32, 32, TRUE),
                  SgI("digest", 32, 32, FALSE) }
OwnSigners(k) == IF k = "ec256" THEN { SgI("ecdsa", 72, a, TRUE) : a \in 70..72 }
                 ELSE IF k = "ec384" THEN { SgI("ecdsa", 104, a, TRUE) : a \in 102..104 }
                 ELSE IF k = "rsa" THEN { SgI("rsa", 256, 256, TRUE) } ELSE { SgI("ed25519", 64, 64, TRUE) }

At(y, m, d, h, mi, s) == Inst(DaysFromCivil(y, m, d), h * 3600 + mi * 60 + s)
Clk(i, ms) == [d |-> i.d, s |-> i.s, ms |-> ms]
NormalClock == Clk(At(2026, 9, 24, 5, 0, 0), 123)
Clocks == { Clk(Epoch, 0), Clk(Epoch, 255), Clk(Epoch, 256), Clk(Inst(0, 65), 535), Clk(Inst(0, 65), 536),
            Clk(Inst(49, 61367), 295), Clk(Inst(49, 61367), 296),
            Clk(At(2023, 12, 31, 23, 59, 59), 999), Clk(At(2024, 2, 29, 12, 0, 0), 0), Clk(At(2024, 3, 1, 0, 0, 0), 1),
            Clk(At(2028, 2, 29, 12, 34, 56), 0), Clk(At(2044, 2, 29, 0, 0, 0), 500), Clk(At(2076, 2, 29, 23, 59, 59), 0),
            Clk(At(2080, 2, 29, 0, 0, 0), 0), Clk(At(2096, 2, 29, 23, 59, 59), 0), Clk(At(2100, 2, 28, 23, 59, 59), 0),
            Clk(At(9979, 12, 21, 23, 59, 59), 999), NormalClock }
Starts == { Epoch, At(1999, 12, 31, 23, 59, 59), At(2000, 2, 28, 23, 59, 59), At(2024, 2, 29, 0, 0, 0),
            At(2038, 1, 19, 3, 14, 7), At(2100, 2, 28, 12, 0, 0), At(2399, 12, 31, 23, 59, 59), At(9979, 1, 1, 0, 0, 0) }
Durs == { 1, 86400, 2 * 86400, 365 * 86400, 7305 * 86400 }      \* 1 s, 1 day, 2 days (across 29 Feb), 365 days, 20 years
Naive == -1000
Zones == IF Thorough THEN {Naive, 0, 330, -480} ELSE {Naive, 0, 330}
IssuerIds == { C(8, 3), C(58, 1), C(300, 2) }                   \* text "iss", sequence-number component, 3-byte type number

Lit(n) == IF n = 1 THEN <<"", "KEY", "">> ELSE <<"", "", "KEY", "">>
ReqF(fn, subj, kn, iss, idform, sg, clock, start, dur, tz, tz2) ==
  [fn |-> fn, subj |-> subj, keyname |-> KeyName(kn), lit |-> Lit(kn), publen |-> PubLen(subj), issuer |-> iss,
   idform |-> idform, sg |-> sg, clock |-> clock, start |-> start, dur |-> dur, tz |-> tz, tz2 |-> tz2,
   zone |-> "", host |-> "UTC", enc |-> "spki", pubbuf |-> "bytes",
   zone2 |-> "", sw |-> start, sf |-> 0, ew |-> AddSec(start, dur), ef |-> 0]
\* the issuer id of a generic component as plain text, of any other as an encoded component
Req(fn, subj, kn, iss, sg, clock, start, dur, tz) ==
  ReqF(fn, subj, kn, iss, IF fn = "derive" /\ iss.t = 8 /\ iss.l > 0 THEN "plain" ELSE "comp", sg, clock, start, dur, tz, tz)

DeriveSigners == { Req("derive", k, 1, C(8, 3), s, NormalClock, At(2024, 2, 28, 23, 59, 59), 2 * 86400, Naive) :
                     k \in SubjTypes, s \in Issuers }
DeriveTimes == { Req("derive", "ec256", kn, id, s, NormalClock, st, du, tz) :
                   kn \in (IF Thorough THEN {1, 2} ELSE {1}), id \in IssuerIds,
                   s \in (IF Thorough THEN { SgI("ecdsa", 72, 71, TRUE), SgI("rsa", 256, 256, TRUE), SgI("ed25519", 64, 64, TRUE) }
                          ELSE { SgI("ecdsa", 72, 71, TRUE) }),
                   st \in (IF Thorough THEN Starts ELSE { Epoch, At(2000, 2, 28, 23, 59, 59), At(2024, 2, 29, 0, 0, 0), At(2100, 2, 28, 12, 0, 0) }),
                   du \in Durs, tz \in Zones }
\* issuer ids: every component shape x every spelling that can denote it
\* (shorthands exist for version 54, segment 50, byte offset 52, timestamp 56, sequence number 58)
ShortTypes == {50, 52, 54, 56, 58}
IdShapes == { C(8, 2), C(8, 7), C(8, 0), C(32, 2), C(54, 1), C(50, 2), C(58, 4), C(56, 8), C(300, 2), C(1, 32) }
FormsOf(c) == {"comp", "typed"} \cup (IF c.l > 0 THEN {"escaped"} ELSE {}) \cup (IF c.t = 8 /\ c.l > 0 THEN {"plain"} ELSE {})
              \cup (IF c.t \in ShortTypes /\ c.l \in {1, 2, 4, 8} THEN {"short"} ELSE {})
DeriveIssuerIds == UNION { { ReqF("derive", "ec256", 1, c, f, SgI("hmac", 32, 32, TRUE), NormalClock,
                                  At(2024, 5, 6, 7, 8, 9), 3600, 0, 0) : f \in FormsOf(c) } : c \in IdShapes }
\* new_cert with the start and the end expressed independently (naive / UTC / other zones)
NewCertZones == { ReqF("new_cert", "ec256", 1, C(8, 3), "comp", s, NormalClock, st, du, z1, z2) :
                    s \in { SgI("ecdsa", 72, 71, TRUE) } \cup (IF Thorough THEN { SgI("rsa", 256, 256, TRUE) } ELSE {}),
                    st \in { At(2024, 2, 28, 23, 59, 59), At(2000, 1, 1, 0, 0, 0) },
                    du \in (IF Thorough THEN { 1, 86400, 7305 * 86400 } ELSE { 86400 }),
                    z1 \in Zones \cup {-480}, z2 \in Zones \cup {-480} }
\* identities that contain reserved-looking components at every depth: KEY (incl. two places before the real
\* KEY marker, and doubled), self, cert-request
LitLen(w) == IF w = "KEY" THEN 3 ELSE IF w = "self" THEN 4 ELSE IF w = "cert-request" THEN 12 ELSE 2
RECURSIVE ShapeOf(_)
ShapeOf(ws) == IF Len(ws) = 0 THEN <<>> ELSE <<C(8, LitLen(Head(ws)))>> \o ShapeOf(Tail(ws))
Identities == { <<"KEY", "">>, <<"", "KEY", "">>, <<"KEY">>, <<"", "KEY">>, <<"KEY", "", "">>, <<"KEY", "KEY">>,
                <<"KEY", "KEY", "KEY">>, <<"KEY", "self">>, <<"self", "">>, <<"", "cert-request">>, <<"", "", "KEY", "">> }
WithKeyName(r, id) == [r EXCEPT !.keyname = ShapeOf(id) \o <<C(8, 3), C(8, 8)>>, !.lit = id \o <<"KEY", "">>]
OddIdentities ==
  { WithKeyName(r, id) :
      r \in { Req("derive", "ec256", 1, C(8, 3), SgI("hmac", 32, 32, TRUE), NormalClock, At(2024, 5, 6, 7, 8, 9), 3600, Naive),
               Req("self_sign", "ed25519", 1, C(8, 0), SgI("ed25519", 64, 64, TRUE), NormalClock, Epoch, 0, Naive),
               Req("sign_req", "ed25519", 1, C(8, 0), SgI("ed25519", 64, 64, TRUE), NormalClock, Epoch, 0, Naive),
               ReqF("new_cert", "ec256", 1, C(8, 3), "comp", SgI("hmac", 32, 32, TRUE), NormalClock, At(2024, 5, 6, 7, 8, 9), 3600, 0, 0) },
      id \in Identities }
\* the host process runs in another time zone (incl. the days its clock jumps); naive and aware callers
Hosts == {"America/Los_Angeles", "Asia/Kolkata"}
HostInstants == { At(2024, 3, 10, 10, 0, 0), At(2024, 11, 3, 8, 59, 59), At(2024, 7, 1, 0, 0, 0) }
HostZones ==
  { [r EXCEPT !.host = h] :
      h \in Hosts,
      r \in { Req("derive", "ed25519", 1, C(8, 3), SgI("hmac", 32, 32, TRUE), Clk(i, 7), i, 86400, z) : i \in HostInstants, z \in {Naive, 0} }
          \cup { ReqF("new_cert", "ed25519", 1, C(8, 3), "comp", SgI("hmac", 32, 32, TRUE), Clk(i, 7), i, 3600, z, z) :
                    i \in HostInstants, z \in {Naive, 330} }
          \cup { Req(fn, "ed25519", 1, C(8, 0), SgI("ed25519", 64, 64, TRUE), Clk(i, 7), Epoch, 0, Naive) :
                    fn \in {"self_sign", "sign_req"}, i \in HostInstants } }
\* the caller's zone has daylight-saving time: lifetimes are elapsed seconds
\* InZone: the start written on the clock of zone z (z = "": left as it is), new_cert's end on the clock of z2 - reading and
\* fold as CertTimeZone!WallOf gives them for the instants; FromWall: the start IS the reading w with fold f (also inside a gap)
InZone(r, z, z2) ==
  LET a == WallOf(ZoneOf(IF z = "" THEN "Europe/Berlin" ELSE z), r.start)
      e == WallOf(ZoneOf(IF z2 = "" THEN "Europe/Berlin" ELSE z2), AddSec(r.start, r.dur)) IN
  [r EXCEPT !.zone = z, !.tz = IF z = "" THEN r.tz ELSE 0, !.sw = IF z = "" THEN r.sw ELSE a.w, !.sf = IF z = "" THEN 0 ELSE a.fold,
            !.zone2 = z2, !.tz2 = IF z2 = "" THEN r.tz2 ELSE 0, !.ew = IF z2 = "" THEN r.ew ELSE e.w, !.ef = IF z2 = "" THEN 0 ELSE e.fold]
FromWall(r, z, w, f) ==
  LET i == InstOf(ZoneOf(z), w, f) IN
  [r EXCEPT !.zone = z, !.tz = 0, !.tz2 = 0, !.sw = w, !.sf = f, !.start = i, !.ew = AddSec(i, r.dur)]
DstZones ==
  { InZone(r, z, "") :
      \* (Europe/London, Europe/Lisbon: offset ZERO outside the summer - an aware start time whose utcoffset() is a falsy timedelta)
      z \in {"America/New_York", "Europe/Berlin", "Europe/London", "Europe/Lisbon"},
      r \in { Req("derive", "ed25519", 1, C(8, 3), SgI("hmac", 32, 32, TRUE), NormalClock, i, du, 0) :
                 i \in { At(2024, 3, 9, 17, 0, 0), At(2024, 3, 30, 12, 0, 0), At(2024, 11, 2, 16, 0, 0), At(2024, 6, 1, 0, 0, 0) },
                 du \in {3600, 86400} } }
\* the instants lie INSIDE the hour (half hour) the zone's clock shows twice, or the reading lies inside the gap: the wall-clock
\* fields alone do not say which instant is meant, fold does.  Start and end of one new_cert call on the same clock (the two
\* passes of one reading when the lifetime is the step), on different clocks, derive_cert; every known zone and several years (thorough)
FoldZones == IF Thorough THEN KnownZones ELSE {"Europe/Berlin", "Australia/Lord_Howe"}
FoldYears == IF Thorough THEN {2008, 2024, 2038} ELSE {2024}
BackOf(z, y) == LET t == Transitions(ZoneOf(z), y) IN IF t[1].after < t[1].before THEN t[1] ELSE t[2]
FwdOf(z, y) == LET t == Transitions(ZoneOf(z), y) IN IF t[1].after < t[1].before THEN t[2] ELSE t[1]
StepOf(t) == (IF t.before > t.after THEN t.before - t.after ELSE t.after - t.before) * 60
FoldBase(fn, i, du) ==
  IF fn = "derive" THEN Req("derive", "ed25519", 1, C(8, 3), SgI("hmac", 32, 32, TRUE), NormalClock, i, du, 0)
  ELSE ReqF("new_cert", "ed25519", 1, C(8, 3), "comp", SgI("hmac", 32, 32, TRUE), NormalClock, i, du, 0, 0)
DstFolds ==
  UNION { LET t == BackOf(z, y)  st == StepOf(t) IN
          { InZone(FoldBase(c[1], i, du), IF c[2] THEN z ELSE "", IF c[3] THEN z ELSE "") :
              c \in { <<"derive", TRUE, FALSE>>, <<"new_cert", TRUE, TRUE>>, <<"new_cert", TRUE, FALSE>>, <<"new_cert", FALSE, TRUE>> },
              i \in { Shift(t.at, 0 - st \div 2), Shift(t.at, st \div 2), Shift(t.at, 0 - st - 1) },
              du \in {st, 86400} } : z \in FoldZones, y \in FoldYears }
DstGaps ==
  UNION { LET t == FwdOf(z, y)  w == Shift(t.at, t.before * 60 + StepOf(t) \div 2) IN
          { FromWall(FoldBase(fn, Epoch, 86400), z, w, f) : fn \in {"derive", "new_cert"}, f \in {0, 1} } : z \in FoldZones, y \in FoldYears }
\* years before 1000 (four-digit year with leading zeros) and the first representable day
EarlyYears == { Req("derive", "ed25519", 1, C(8, 3), SgI("hmac", 32, 32, TRUE), NormalClock, i, du, Naive) :
                  i \in { At(999, 12, 31, 23, 59, 59), At(1000, 1, 1, 0, 0, 0), At(1, 1, 1, 0, 0, 0), At(1969, 12, 31, 23, 59, 59) },
                  du \in {1, 86400} }
\* certificates whose outer length lands on 252..256 / 65534..65538 before or after the signature shrink
\* (new_cert assembles the outer TL by hand around the shrunk value): the identity component is sized for it
OuterBnd == {252, 253, 254, 255, 256, 65534, 65535, 65536, 65537, 65538}
Sized(r, n) == [r EXCEPT !.keyname = <<C(8, n), C(8, 3), C(8, 8)>>]
SizedBase == { Req("derive", "ed25519", 1, C(8, 3), SgI("ecdsa", 72, a, TRUE), NormalClock, At(2024, 5, 6, 7, 8, 9), 3600, Naive) : a \in 70..72 }
             \cup { Req("self_sign", "ec256", 1, C(8, 0), SgI("ecdsa", 72, a, TRUE), NormalClock, Epoch, 0, Naive) : a \in {70, 72} }
             \cup { ReqF("new_cert", "ed25519", 1, C(8, 3), "comp", SgI("ecdsa", 104, a, TRUE), NormalClock, At(2024, 5, 6, 7, 8, 9), 3600, Naive, Naive) : a \in {102, 104} }
SizeCands(r) == UNION { { n \in (b - (Reserved(CertCfg(Sized(r, 1))).len - 1) - 6)..(b - (Final(CertCfg(Sized(r, 1))).len - 1) + 6) : n >= 0 } : b \in OuterBnd }
OuterBoundary == UNION { { Sized(r, n) : n \in { m \in SizeCands(r) : Reserved(CertCfg(Sized(r, m))).len \in OuterBnd
                                                                       \/ Final(CertCfg(Sized(r, m))).len \in OuterBnd } } : r \in SizedBase }
\* the bytes of the subject key as the caller hands them over: every encoding of every key type (and bytes that
\* are no key: empty, one byte, key-sized, long) through every issuing call, in every kind of buffer
EncLen(k, e) ==
  IF e = "spki" THEN PubLen(k)
  ELSE IF k = "ec256" THEN (CASE e = "spki-compressed" -> 59 [] e = "spki-explicit" -> 311 [] e = "pem" -> 177 [] e = "pem-compressed" -> 133
                              [] e = "openssh" -> 161 [] e = "point" -> 65 [] e = "point-compressed" -> 33)
  ELSE IF k = "ec384" THEN (CASE e = "spki-compressed" -> 72 [] e = "spki-explicit" -> 441 [] e = "pem" -> 214 [] e = "pem-compressed" -> 149
                              [] e = "openssh" -> 205 [] e = "point" -> 97 [] e = "point-compressed" -> 49)
  ELSE IF k = "rsa" THEN (CASE e = "spki-noparams" -> LenRsa - 2 [] e = "pkcs1" -> LenRsa - 24 [] e = "pkcs1-padded" -> LenRsa - 23
                            [] e = "pem" -> 450 [] e = "pem-pkcs1" -> 425 [] e = "openssh" -> 380)
  ELSE (CASE e = "pem" -> 112 [] e = "openssh" -> 81 [] e = "raw" -> 32)
OpaqueLens == {0, 1, 32, 300} \cup (IF Thorough THEN {253, 70000} ELSE {})
WithKey(r, e, b, n) == [r EXCEPT !.enc = e, !.pubbuf = b, !.publen = n]
OwnSg(k) == IF k = "ec256" THEN SgI("ecdsa", 72, 71, TRUE) ELSE IF k = "ec384" THEN SgI("ecdsa", 104, 103, TRUE)
            ELSE IF k = "rsa" THEN SgI("rsa", 256, 256, TRUE) ELSE SgI("ed25519", 64, 64, TRUE)
KeyFormBase(fn, k) ==
  IF fn = "derive" THEN Req("derive", k, 1, C(8, 3), SgI("hmac", 32, 32, TRUE), NormalClock, At(2024, 5, 6, 7, 8, 9), 3600, Naive)
  ELSE IF fn = "new_cert" THEN ReqF("new_cert", k, 1, C(8, 3), "comp", SgI("hmac", 32, 32, TRUE), NormalClock, At(2024, 5, 6, 7, 8, 9), 3600, 0, 0)
  ELSE Req(fn, k, 1, C(8, 0), OwnSg(k), NormalClock, Epoch, 0, Naive)
IssuingFns == {"self_sign", "sign_req", "derive", "new_cert"}
\* quick: every buffer kind through derive_cert, one (different) writable or viewed kind through each of the others
BufsFor(fn) == IF Thorough \/ fn = "derive" THEN BufKinds
               ELSE IF fn = "self_sign" THEN {"bytearray"} ELSE IF fn = "sign_req" THEN {"memoryview-slice"} ELSE {"memoryview"}
KeyForms ==
  UNION { { WithKey(KeyFormBase(fn, k), e, b, EncLen(k, e)) : e \in EncsOf(k) \ {"opaque"}, b \in BufsFor(fn) } : fn \in IssuingFns, k \in SubjTypes }
  \cup UNION { { WithKey(KeyFormBase(fn, k), "opaque", b, n) : n \in OpaqueLens, b \in BufsFor(fn) } :
                 fn \in IssuingFns, k \in (IF Thorough THEN SubjTypes ELSE {"ed25519"}) }
DeriveClocks == { Req("derive", "ed25519", 1, C(8, 3), SgI("hmac", 32, 32, TRUE), ck, Epoch, 1, Naive) : ck \in Clocks }
Own(fn) == UNION { { Req(fn, k, kn, C(8, 0), s, ck, Epoch, 0, Naive) :
                       kn \in (IF Thorough THEN {1, 2} ELSE {1}), s \in OwnSigners(k),
                       ck \in (IF Thorough \/ k = "ec256" THEN Clocks ELSE { NormalClock, Clk(At(2024, 2, 29, 12, 0, 0), 0), Clk(At(2028, 2, 29, 12, 34, 56), 0) }) } :
                   k \in SubjTypes }

ReqSpace == { q \in DeriveSigners \cup DeriveTimes \cup DeriveClocks \cup DeriveIssuerIds \cup NewCertZones \cup OddIdentities
                    \cup HostZones \cup DstZones \cup DstFolds \cup DstGaps \cup EarlyYears \cup OuterBoundary \cup KeyForms
                    \cup Own("self_sign") \cup Own("sign_req") : InScope(q) }
=============================================================================
