------------------------------- MODULE TlvNum -------------------------------
(* NDN-TLV numbers (C07, C08; reusable by the packet specs).
   TLC integers are 32-bit, TLV numbers go up to 2^64-1, so a number is a little-endian
   sequence of 16-bit limbs, normalised (no most-significant zero limb; zero is <<>>).
   The same form travels in JSON (arrays of ints < 65536).

   NumSize(n)   in {1,3,5,9}  size of a TLV-VAR-NUMBER (type or length) in its shortest form
   UintWidth(n) in {1,2,4,8}  smallest legal NonNegativeInteger width
   NumBytes(n,w)              big-endian expansion on w bytes
   VarBytes(n) / ParseVar(bs) / Shortest(bs)   the byte form of a var-number                     *)
EXTENDS Naturals, Sequences

B16 == 65536
Limb == 0 .. 65535

IsNum(n) == /\ Len(n) <= 4
            /\ \A i \in 1 .. Len(n) : n[i] \in Limb
            /\ (Len(n) > 0 => n[Len(n)] # 0)

\* i must be < 2^31
NumOfInt(i) == IF i = 0 THEN <<>> ELSE IF i < B16 THEN <<i>> ELSE <<i % B16, i \div B16>>
FitsInt(n)  == Len(n) <= 1 \/ (Len(n) = 2 /\ n[2] < 32768)
NumToInt(n) == IF Len(n) = 0 THEN 0 ELSE IF Len(n) = 1 THEN n[1] ELSE n[1] + B16 * n[2]

IsOdd(n) == Len(n) > 0 /\ n[1] % 2 = 1     \* the critical bit of a type number

NumSize(n) == CASE Len(n) = 0 -> 1
                [] Len(n) = 1 -> (IF n[1] <= 252 THEN 1 ELSE 3)
                [] Len(n) = 2 -> 5
                [] OTHER      -> 9

UintWidth(n) == CASE Len(n) = 0 -> 1
                  [] Len(n) = 1 -> (IF n[1] <= 255 THEN 1 ELSE 2)
                  [] Len(n) = 2 -> 4
                  [] OTHER      -> 8

FitsWidth(n, w) == UintWidth(n) <= w
LegalWidth(w)   == w \in {1, 2, 4, 8}

\* comparison, most significant limb first
RECURSIVE NumLTFrom(_, _, _)
NumLTFrom(a, b, i) == IF i = 0 THEN FALSE
                      ELSE IF a[i] # b[i] THEN a[i] < b[i] ELSE NumLTFrom(a, b, i - 1)
NumLT(a, b) == IF Len(a) # Len(b) THEN Len(a) < Len(b) ELSE NumLTFrom(a, b, Len(a))
NumLE(a, b) == a = b \/ NumLT(a, b)

\* byte j (0 = least significant) of n
ByteOf(n, j) == LET l == (j \div 2) + 1 IN
                IF l > Len(n) THEN 0 ELSE IF j % 2 = 0 THEN n[l] % 256 ELSE n[l] \div 256
NumBytes(n, w) == [i \in 1 .. w |-> ByteOf(n, w - i)]

\* big-endian bytes (Len <= 8) -> normalised number
RECURSIVE Normalise(_)
Normalise(l) == IF l # <<>> /\ l[Len(l)] = 0 THEN Normalise(SubSeq(l, 1, Len(l) - 1)) ELSE l
NumOfBytes(bs) ==
  LET w  == Len(bs)
      at(j) == IF j < w THEN bs[w - j] ELSE 0          \* byte j counted from the least significant
  IN Normalise([k \in 1 .. ((w + 1) \div 2) |-> at(2 * (k - 1)) + 256 * at(2 * (k - 1) + 1)])

VarBytes(n) == CASE NumSize(n) = 1 -> <<NumToInt(n)>>
                 [] NumSize(n) = 3 -> <<253>> \o NumBytes(n, 2)
                 [] NumSize(n) = 5 -> <<254>> \o NumBytes(n, 4)
                 [] OTHER          -> <<255>> \o NumBytes(n, 8)

\* parse one var-number at the head of bs: [ok, n, size]; same record shape on failure
ParseVar(bs) ==
  IF bs = <<>> THEN [ok |-> FALSE, n |-> <<>>, size |-> 0]
  ELSE LET b == bs[1]
           s == CASE b <= 252 -> 1 [] b = 253 -> 3 [] b = 254 -> 5 [] OTHER -> 9
       IN IF Len(bs) < s THEN [ok |-> FALSE, n |-> <<>>, size |-> 0]
          ELSE IF s = 1 THEN [ok |-> TRUE, n |-> NumOfInt(b), size |-> 1]
          ELSE [ok |-> TRUE, n |-> NumOfBytes(SubSeq(bs, 2, s)), size |-> s]

Shortest(bs) == LET p == ParseVar(bs) IN p.ok /\ p.size = Len(bs) /\ NumSize(p.n) = Len(bs)

-----------------------------------------------------------------------------
(* Boundary numbers and the laws TLC checks on them (ASSUMEd by TlvModelLaws). *)
N0      == <<>>
N252    == <<252>>
N253    == <<253>>
N255    == <<255>>
N256    == <<256>>
N65535  == <<65535>>
N65536  == <<0, 1>>
N2p32m1 == <<65535, 65535>>
N2p32   == <<0, 0, 1>>
N2p64m1 == <<65535, 65535, 65535, 65535>>
BoundaryNums == {N0, <<1>>, N252, N253, N255, N256, N65535, N65536, <<1, 1>>, N2p32m1, N2p32,
                 <<65535, 65535, 65535>>, <<0, 0, 0, 1>>, N2p64m1}

NumLaws ==
  /\ \A n \in BoundaryNums :
        /\ IsNum(n)
        /\ NumSize(n) \in {1, 3, 5, 9} /\ UintWidth(n) \in {1, 2, 4, 8}
        /\ Len(VarBytes(n)) = NumSize(n)
        /\ Shortest(VarBytes(n))
        /\ ParseVar(VarBytes(n)) = [ok |-> TRUE, n |-> n, size |-> NumSize(n)]
        /\ NumOfBytes(NumBytes(n, UintWidth(n))) = n
        /\ \A w \in {1, 2, 4, 8} : (w >= UintWidth(n)) <=> (NumOfBytes(NumBytes(n, w)) = n)
        /\ (FitsInt(n) => NumOfInt(NumToInt(n)) = n)
  /\ \A a, b \in BoundaryNums :
        /\ (NumLT(a, b) => NumSize(a) <= NumSize(b) /\ UintWidth(a) <= UintWidth(b))
        /\ (NumLT(a, b) \/ NumLT(b, a) \/ a = b)
        /\ ~(NumLT(a, b) /\ NumLT(b, a))
  \* a longer than necessary form is not shortest
  /\ ~Shortest(<<253, 0, 252>>) /\ ~Shortest(<<254, 0, 0, 255, 255>>)
  /\ ~Shortest(<<255, 0, 0, 0, 0, 255, 255, 255, 255>>) /\ ~Shortest(<<253, 1>>)
=============================================================================
