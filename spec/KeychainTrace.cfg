SPECIFICATION TSpec
CONSTANTS
  Ids = {"A", "B", "C", "D"}
  MaxKeys = 6
  CertN = 3
  Depth = 0
  MaxLevel = 0
  MaxFaults = 99
  DevScope = FALSE
  DevCacheLoc = FALSE
  DevDelKey = FALSE
  DevKeyId = FALSE
  DevDelCertView = FALSE
  DevCertObj = FALSE
  DevEmptyObj = FALSE
INVARIANT MappingViews
INVARIANT Containment
INVARIANT AtMostOneDefault
INVARIANT DefaultWhenPopulated
INVARIANT SignerMatchesKey
INVARIANT NoSignerForDeletedKey
INVARIANT DeleteCascades
INVARIANT RetryAfterFailureOk
CONSTRAINT Mark
POSTCONDITION Post
CHECK_DEADLOCK FALSE
