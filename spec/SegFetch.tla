---------------------------- MODULE SegFetch ----------------------------
(* C19 - segmented fetch: one action per run-to-next-await segment of
   ndn.app_support.segment_fetcher.segment_fetcher and one per forwarder/producer
   response. The object and the retry limit are part of the state (cfg) so that one
   TLC run quantifies over all objects, and the trace module can take them from the
   recorded execution.

   cfg = [n      : number of segments that exist (0 = nothing published),
          seg    : TRUE segmented object / FALSE a single unsegmented Data,
          fin    : segment number whose FinalBlockId designates itself as last, or -1 = no marker,
          disc   : which segment answers the CanBePrefix discovery Interest (ignored if ~seg),
          retry  : configured number of attempts per request,
          deep   : the object is published one level below the requested prefix (prefix/version/seg=k):
                   irrelevant to the state machine, it only changes the names the producer uses]     *)
EXTENDS Integers, Sequences, FiniteSets, TLC

CONSTANTS MaxN, MaxRetry

VARIABLES cfg, pc, target, tries, yielded, sent, err
vars == <<cfg, pc, target, tries, yielded, sent, err>>

Disc == -1                      \* target value of the discovery request
Whole == -2                     \* "segment id" of the unsegmented content

CfgSpace ==
  { c \in [n : 0..MaxN, seg : BOOLEAN, fin : -1..(MaxN-1), disc : 0..(MaxN-1), retry : 1..MaxRetry, deep : BOOLEAN] :
       /\ (c.n = 0 => (c.seg /\ c.fin = -1 /\ c.disc = 0 /\ ~c.deep))
       /\ (~c.seg => (c.n = 1 /\ c.fin = -1 /\ c.disc = 0))
       /\ (c.seg /\ c.n > 0 => (c.fin < c.n /\ c.disc < c.n)) }

InitWith(c) ==
  /\ cfg = c
  /\ pc = "req" /\ target = Disc /\ tries = 0
  /\ yielded = <<>> /\ sent = <<>> /\ err = "none"

Init == \E c \in CfgSpace : InitWith(c)

\* what the producer side answers to the outstanding request, if anything
Exists(t) == IF t = Disc THEN cfg.n > 0 ELSE t < cfg.n
Answer(t) == IF t = Disc THEN (IF cfg.seg THEN cfg.disc ELSE Whole) ELSE t
IsFinal(s) == s = cfg.fin

Send ==
  /\ pc = "req"
  /\ sent' = Append(sent, [t |-> target, cbp |-> (target = Disc), try |-> tries + 1])
  /\ pc' = "wait"
  /\ UNCHANGED <<cfg, target, tries, yielded, err>>

\* the awaited Interest is answered with Data (validator accepted)
RespData ==
  /\ pc = "wait" /\ Exists(target)
  /\ LET s == Answer(target) IN
       IF s = Whole
       THEN /\ yielded' = Append(yielded, Whole) /\ pc' = "done" /\ UNCHANGED target
       ELSE IF target = Disc /\ s # 0
            THEN \* discovery answered by a later segment: start over from segment 0, nothing yielded
                 /\ yielded' = yielded /\ target' = 0 /\ pc' = "req"
            ELSE /\ yielded' = Append(yielded, s)
                 /\ IF IsFinal(s) THEN pc' = "done" /\ UNCHANGED target
                                  ELSE pc' = "req" /\ target' = s + 1
  /\ tries' = 0
  /\ UNCHANGED <<cfg, sent, err>>

\* the awaited Interest times out (response lost / nothing published under that name)
RespLost ==
  /\ pc = "wait"
  /\ IF tries + 1 >= cfg.retry
     THEN pc' = "fail" /\ err' = "timeout" /\ tries' = tries + 1
     ELSE pc' = "req" /\ err' = err /\ tries' = tries + 1
  /\ UNCHANGED <<cfg, target, yielded, sent>>

\* any Nack reason (Congestion 50, Duplicate 100, NoRoute 150, ...) ends the fetch: Nacks are never retried
RespNack ==
  /\ pc = "wait"
  /\ pc' = "fail" /\ err' = "nack"
  /\ UNCHANGED <<cfg, target, tries, yielded, sent>>

RespVFail ==
  /\ pc = "wait" /\ Exists(target)
  /\ pc' = "fail" /\ err' = "vfail"
  /\ UNCHANGED <<cfg, target, tries, yielded, sent>>

\* the answer arrives in the very instant the lifetime of the awaited Interest runs out, before the timer has been served:
\* the Interest counts as answered or as timed out (both are correct; anything else - a hang, an internal error - is not)
RespDataLate == RespData \/ RespLost

Next == Send \/ RespData \/ RespLost \/ RespNack \/ RespVFail
Spec == Init /\ [][Next]_vars /\ WF_vars(Next)

-----------------------------------------------------------------------------
(* Properties of C19 *)
Last == IF ~cfg.seg THEN Whole ELSE cfg.fin
Expected == IF ~cfg.seg THEN <<Whole>>
            ELSE [i \in 1..(IF cfg.fin >= 0 THEN cfg.fin + 1 ELSE cfg.n) |-> i - 1]
IsPrefixOf(a, b) == Len(a) <= Len(b) /\ \A i \in 1..Len(a) : a[i] = b[i]

\* each segment at most once and in order: yielded is always a prefix of 0,1,..,final
InOrderOnce == IsPrefixOf(yielded, Expected)
\* normal termination exactly when everything up to the designated final segment was yielded
DoneComplete == pc = "done" => (yielded = Expected /\ err = "none" /\ (cfg.seg => cfg.fin >= 0))
\* a request is (re)sent at most `retry` times between two answers
Attempts(t) == Cardinality({ i \in 1..Len(sent) : sent[i].t = t })
RetryBound == \A i \in 1..Len(sent) : sent[i].try <= cfg.retry
\* timeout failure iff the outstanding request exhausted its attempts
FailsIffExhausted == (err = "timeout") <=> (pc = "fail" /\ tries >= cfg.retry /\ err # "nack" /\ err # "vfail")
NoSkip == (pc = "fail") => (err \in {"timeout", "nack", "vfail"} /\ InOrderOnce)
DiscoveryShape == \A i \in 1..Len(sent) : sent[i].cbp = (sent[i].t = Disc)
\* a fetch never hangs in the model: it ends in done or fail
Terminates == <>(pc \in {"done", "fail"})
TypeOK == pc \in {"req", "wait", "done", "fail"} /\ err \in {"none", "timeout", "nack", "vfail"}

\* vacuity witnesses (must be VIOLATED when checked as invariants)
W_DoneMulti == ~(pc = "done" /\ Len(yielded) >= 3)
W_TimeoutAfterYield == ~(err = "timeout" /\ Len(yielded) >= 1)
W_LateDisc == ~(pc = "done" /\ cfg.seg /\ cfg.disc > 0)
=============================================================================
