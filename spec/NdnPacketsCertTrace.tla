--------------------------- MODULE NdnPacketsCertTrace ---------------------------
(* Stage C for C16: issuances recorded from the real functions on random requests (any key-name
   length, any instant 1970..9979, any duration, any zone, any clock), judged by TLC.
   record: q (with sg.a = observed signature length), refused, lay, nb, na (ASCII of the two instants
   found in the wire), signed (where the parser's covered bytes lie), content (NdnPacketsCert!ContentExpect:
   is the Content the bytes given, what key a relying party imports from it, does the certificate verify under it). *)
EXTENDS NdnPacketsCert, Json, IOUtils, TLCExt
Traces == ndJsonDeserialize(IOEnv.TRACE_FILE)
VARIABLE tid
Judge(r) ==
  LET c == CertCfg(r.q) IN
  IF ~ArgsDenote(r.q) THEN 30                  \* the driver's zone arithmetic (zoneinfo) and CertTimeZone disagree: machinery, not a verdict
  ELSE IF r.refused THEN (IF r.q.fn = "self_sign" /\ ~HasSameDay(Now(r.q), 20) THEN 20 ELSE 2)
  ELSE IF r.content.is = "other" THEN 7        \* a Content is there and it is not what was given: the specific clause first
  ELSE IF r.lay # Flat(Final(c)) THEN 3
  ELSE IF r.nb # NotBefore(r.q) THEN 4
  ELSE IF r.na \notin NotAfter(r.q) THEN 5
  ELSE IF r.signed # SignedRange(c) THEN 6
  ELSE ContentClause(r.q, r.content)
TInit == tid \in 1..Len(Traces) /\ TLCSet(tid, Judge(Traces[tid]))
TSpec == TInit /\ [][UNCHANGED tid]_tid
Post == \A i \in 1..Len(Traces) : TLCGet(i) = 1 \/ PrintT(<<"REJECTED", i, TLCGet(i)>>)
=============================================================================
