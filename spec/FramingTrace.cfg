SPECIFICATION TSpec
CONSTANTS MaxPkts = 1 MaxBytes = 1 MaxVal = 1
INVARIANT PrefixOfPackets
INVARIANT NoEarlyDelivery
INVARIANT ExactAtEnd
INVARIANT ReaderBehind
CONSTRAINT Mark
POSTCONDITION Post
CHECK_DEADLOCK FALSE
