---------------------------- MODULE FramingTrace ----------------------------
(* Executions of the real StreamFace.run (a real asyncio.StreamReader fed chunk by chunk) judged
   against Framing.  Events are the environment's actions only (Feed(k), Eof, End); between two
   events the reader runs silently to quiescence, and the projection recorded *before* each event
   (delivered packets, whether the face is still running) must equal the specification's.      *)
EXTENDS Framing, Json, IOUtils, TLCExt

\* the parsed trace file is kept in a TLC register: as a plain definition TLC re-evaluates (re-parses) it at every use
TraceReg == 1000000
ASSUME TLCSet(TraceReg, ndJsonDeserialize(IOEnv.TRACE_FILE))
Traces == TLCGet(TraceReg)
VARIABLES tid, l
tvars == <<vars, tid, l>>
Tr == Traces[tid].ev
Max2(a, b) == IF a > b THEN a ELSE b

TInit == /\ tid \in 1..Len(Traces) /\ l = 1 /\ InitWith(Traces[tid].stream) /\ TLCSet(tid, 1)

PreOk == LET p == Tr[l].pre IN
  /\ Quiescent
  /\ delivered = p.delivered
  /\ (phase = "stopped") = ~p.running
Ev(a) == l <= Len(Tr) /\ Tr[l].a = a /\ PreOk /\ l' = l + 1 /\ UNCHANGED tid
TFeed == Ev("Feed") /\ Feed(Tr[l].k)
TEof == Ev("Eof") /\ Eof
TFeedEof == Ev("FeedEof") /\ FeedEof
TEnd == Ev("End") /\ UNCHANGED vars
Silent == Reader /\ UNCHANGED <<tid, l>>
TNext == TFeed \/ TEof \/ TFeedEof \/ TEnd \/ Silent
TSpec == TInit /\ [][TNext]_tvars

Mark == TLCSet(tid, Max2(TLCGet(tid), l))
Post == \A i \in 1..Len(Traces) :
          \/ TLCGet(i) = Len(Traces[i].ev) + 1
          \/ PrintT(<<"REJECTED", i, TLCGet(i)>>)
=============================================================================
