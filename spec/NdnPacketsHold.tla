----------------------------- MODULE NdnPacketsHold -----------------------------
(* C01 "parsing that wire returns the same name, parameters/MetaInfo and payload" (and with it C02 / C16:
   "the matching verifier accepts it", IssuedStable) for an application that KEEPS what it was handed:
   returned wires wait in queues and caches while more packets are made, parse results (names,
   MetaInfo / InterestParam objects, SignaturePtrs views) are held - and edited - while more wires are
   parsed.  What the library does later must not change what it returned earlier.

     Make(k, m)   make_interest / make_data returns a wire (k = kind, m = the packet carries a MetaInfo /
                  explicit parameters; otherwise the parser will fill in a default object)
     Parse(i)     parse held wire i; the caller keeps the result
     Edit(j)      the caller edits the parameter object of held parse result j (it owns it)

   wires[i] = [made, now]: the content the buffer had when it was returned / has now (content = the number
   of the Make that wrote it).  objs[j] = [of, dflt, want, now]: parse result of wire `of`; dflt = its
   parameter object was created by the parser as a default; want / now = "orig" | "edited".
   DevScratch = TRUE models "every make writes into one reusable buffer and returns a view of it",
   DevSharedDefault = TRUE "the parser hands out one shared default object": TLC must refute HeldStable
   under each (sensitivity witnesses of this module).                                                   *)
EXTENDS Integers, Sequences, TLC
CONSTANTS MaxSteps, DevScratch, DevSharedDefault
VARIABLES wires, objs, sharedEdited, steps
vars == <<wires, objs, sharedEdited, steps>>
Kinds == {"data", "interest"}
Init == wires = <<>> /\ objs = <<>> /\ sharedEdited = FALSE /\ steps = 0

Make(k, m) ==
  /\ steps < MaxSteps /\ k \in Kinds /\ m \in BOOLEAN
  /\ LET id == Len(wires) + 1
         old == IF DevScratch THEN [i \in 1..Len(wires) |-> [wires[i] EXCEPT !.now = id]] ELSE wires IN
       wires' = Append(old, [kind |-> k, meta |-> m, made |-> id, now |-> id])
  /\ steps' = steps + 1 /\ UNCHANGED <<objs, sharedEdited>>
Parse(i) ==
  /\ steps < MaxSteps /\ i \in 1..Len(wires)
  /\ LET d == ~wires[i].meta IN
       objs' = Append(objs, [of |-> i, dflt |-> d, want |-> "orig",
                             now |-> IF DevSharedDefault /\ d /\ sharedEdited THEN "edited" ELSE "orig"])
  /\ steps' = steps + 1 /\ UNCHANGED <<wires, sharedEdited>>
Edit(j) ==
  /\ steps < MaxSteps /\ j \in 1..Len(objs) /\ objs[j].want = "orig"
  /\ LET spill == DevSharedDefault /\ objs[j].dflt IN
       /\ objs' = [x \in 1..Len(objs) |->
                     IF x = j THEN [objs[x] EXCEPT !.want = "edited", !.now = "edited"]
                     ELSE IF spill /\ objs[x].dflt THEN [objs[x] EXCEPT !.now = "edited"] ELSE objs[x]]
       /\ sharedEdited' = (sharedEdited \/ spill)
  /\ steps' = steps + 1 /\ UNCHANGED wires
Next == (\E k \in Kinds, m \in BOOLEAN : Make(k, m)) \/ (\E i \in 1..MaxSteps : Parse(i)) \/ (\E j \in 1..MaxSteps : Edit(j))
Spec == Init /\ [][Next]_vars

WireOk(i) == wires[i].now = wires[i].made
ObjOk(j) == objs[j].now = objs[j].want /\ WireOk(objs[j].of)      \* a parse result is views into its wire
HeldStable == (\A i \in 1..Len(wires) : WireOk(i)) /\ (\A j \in 1..Len(objs) : objs[j].now = objs[j].want)
=============================================================================
