----------------------------- MODULE ClientConf -----------------------------
(* C20 - executable reference for the client configuration of python-ndn.

   A configuration c (everything read_client_conf can see):
     n      number of candidate configuration-file paths of the platform (ordered 1..n)
     exist  subset of 1..n: which candidate files exist
     kind   [1..n -> CandKinds]   what kind of FILE-SYSTEM OBJECT an EXISTING candidate path is:
            "file" a regular readable file; "link" a symbolic link to a regular file kept in ANOTHER directory (a
            dotfiles checkout, /etc alternatives) - it reads like that file, and it IS the configuration file: "that
            file's directory" is the directory the candidate path lies in, not the directory of the link's target;
            "dir" / "linkdir" / "sock" something that exists but cannot be read as a file (a directory of that name, a
            symbolic link to a directory, a unix socket; the portable stand-ins for "permission denied", "I/O error",
            ... - the sandbox runs as root, so mode bits do not stop open()).
            Meaningless for candidates that do not exist.
     ghost  [1..n -> GhostKinds]  what stands at a candidate path that does NOT exist (os.path.exists is false): "none"
            nothing, "dangling" a symbolic link whose target is missing, "loop" a symbolic link to itself.  Such a path
            is not an existing configuration file; Resolve does not look at ghost.  Meaningless for existing candidates.
     cdir   [1..n -> {"plain", "link"}]  the directory of candidate i is a real directory / is itself reached through
            a symbolic link to a directory elsewhere.  "That file's directory" is the same directory either way
            (the executor accepts it named as listed or by its canonical path); Resolve does not look at cdir.
     cwd    "plain" | "link": the working directory was entered through its own path / through a symbolic link to it
     key    [1..n -> [Settings -> {"present", "absent", "commented", "emptyval"}]]   content of each file;
            "emptyval" = the key is there with nothing after the '=' ("transport=")
     body   [1..n -> {"plain", "empty", "blank"}]   how an existing file is written: "empty" = 0 bytes (only if
            all its keys are absent), "blank" = nothing but whitespace and comment lines (no key present),
            "plain" otherwise.  A file EXISTS whatever its content: Resolve does not look at body.
     env    [Settings -> {"unset", "set", "empty"}]   NDN_CLIENT_TRANSPORT / _PIB / _TPM: not in the environment,
            set to a value, or set to the EMPTY string ("NDN_CLIENT_TRANSPORT= ./app", "export NDN_CLIENT_PIB=")
     loc    [Stores -> LocClass]             the location carried by every non-default value of that store
     rel    [Stores -> RelShapes]            how a RELATIVE location is spelled: "std" (a bare name from the environment,
            "d/name" from a file), "dot" ("./" in front), "dotdot" ("../name": the store sits one level above the
            base directory - above the directory the kernel reaches, also when that directory was reached through a
            link), "deep" ("up/../d/./name").  Which directory it is resolved against never depends on the spelling.
     defx   [Stores -> Seq(BOOLEAN)]         which of the platform's default locations exist (ordered)
     sobj   [Stores -> StoreObjs]            what kind of object every EXISTING location of that store is (given or
            default): "dir" a directory, "link" a symbolic link to a directory elsewhere, "file" a regular file.
            "A store location that exists is used as given" - existence counts, whatever exists there.
     smiss  [Stores -> {"absent", "dangling"}]  what stands where a MISSING location of that store is looked for (as
            given, next to the configuration file, the missing default locations): nothing / a dangling symbolic link.
     val    the alphabet of the values of the non-default sources:
            "plain"; "pct" = a '%' inside every value (IPv6 zone id "%25eth0" in the transport host, '%' in store
            directory names); "punct" = store directory names holding ' ', '=', ' #', ' ;' (what an inline-comment or
            split-at-'=' parser would cut); "foreigntpm" = the tpm
            value names a private-key store of ANOTHER platform ('tpm-osxkeychain:' / 'tpm-cng:' on Linux).
            Which source wins and how a location resolves never depends on the characters of a value.

   Every source has its own value, so the result tells which source was used:
     Src("env",0), Src("file",i), Src("def",0); the empty string (all empty sources look alike) shows as Src("empty",0).

   Interpretation decisions for the two "present but degenerate" dimensions:
   * PRESENT BUT EMPTY.  "the value used is the environment override IF PRESENT, else the value in the first
     existing file": a variable set to the empty string is present, a key written "transport=" is a value in the
     file.  The value used is then the empty string - it is not skipped in favour of a lower layer.  The empty
     string names no scheme, so default_face / default_keychain refuse it ("refused with an error rather than
     silently replaced"), and as a store value it carries no location (falls back to the default location).
   * EXISTS BUT UNREADABLE.  "the first EXISTING configuration file": existence decides which candidate is THE
     configuration file; a candidate that exists but cannot be read as a file is not skipped in favour of a
     lower-priority candidate, nor treated as if no file existed (its content is unknown, so neither another file's
     values nor the platform defaults are "the value in the first existing file").  The only outcome the reference
     accepts is that read_client_conf refuses with an OSError (err = "oserror").  Candidates AFTER the first
     existing one are never looked at, whatever they are.
   Location classes:  none (scheme only), absE / absM (absolute, exists / missing), relE (relative, exists
   next to the FIRST EXISTING configuration file), relM (relative, exists nowhere), relCwd (relative,
   exists as given, i.e. relative to the working directory), relOther (relative, exists only next to
   ANOTHER candidate path, which is not "the" configuration file), absEc (stage C only: absolute,
   exists, name contains ':'),
   relT (relative, exists only next to the TARGET of the symbolic link that the first existing candidate is - a
   directory that is not "that file's directory"; next to the link itself stands what smiss says; when that candidate
   is not a link to a file, relT exists nowhere), relB (relative, exists BOTH next to the first existing candidate
   and next to its link target - two different directories: the one next to the candidate is the one resolved to).

   Resolve is written the way the code is layered (defaults, then file, then environment; then
   location resolution); the P_* invariants are the clauses of the property statement.

   A foreign tpm scheme must be REFUSED by default_keychain (never silently replaced); the statement fixes the
   exception class only for transport schemes, so any exception counts as refusal there (the executor notes that
   the unchanged library raises NameError rather than ValueError).

   Platform: PlatformClass(sys.platform) and the Linux default transport (new socket path unless only the old
   NFD socket exists) are enumerated as states of kind "plat".

   Interpretation decision (DESIGN 9/C20): when a store location exists neither as given nor next to the
   configuration file and NO platform default location exists either, any candidate is accepted.
   (Re-examined with the observation "pib=pib-sqlite3:nowhere and no ~/.ndn gives <conf dir>/nowhere, no location at
   all gives 'pib-sqlite3:'": the platform hands out a LIST of default locations and the library falls back to the first
   that exists; the statement does not say which location is "the platform default location" when none exists, so no
   outcome is demanded there.  What the unchanged library returns then: the location joined to the configuration
   file's directory / the absolute location as given / the empty location.)

   Interpretation decision (transport URIs): the statement speaks of a transport URI; in URI syntax '?' and '#' end the
   path, so what "unix:///tmp/nfd#1.sock" denotes as socket path is not fixed by the statement (the library, through
   urlparse, takes "/tmp/nfd"), nor is the address denoted by "unix://" with no path at all (the library takes
   UnixFace's built-in /run/nfd.sock, as it takes port 6363 where no port is given).  "Refused rather than silently
   replaced" is stated for unknown SCHEMES only.  Such URIs are not in the domain of the check. *)
EXTENDS Naturals, Sequences, FiniteSets, TLC

Settings == {"transport", "pib", "tpm"}
Stores   == {"pib", "tpm"}
KeyStates == {"present", "absent", "commented", "emptyval"}
EnvStates == {"unset", "set", "empty"}
CandKinds == {"file", "link", "dir", "linkdir", "sock"}
ReadableKinds == {"file", "link"}                      \* open() + read() gives the text of the configuration
GhostKinds == {"none", "dangling", "loop"}
StoreObjs == {"dir", "link", "file"}
RelShapes == {"std", "dot", "dotdot", "deep"}
HasKey(k) == k \in {"present", "emptyval"}             \* the key is in the file (with or without characters after '=')
LocClasses == {"none", "absE", "absM", "relE", "relM", "relCwd", "relOther", "relT", "relB"}
RelClasses == {"relE", "relM", "relCwd", "relOther", "relT", "relB"}
\* only in stage C: an absolute existing location whose name contains ':' (like every Windows path)
LocClassesC == LocClasses \cup {"absEc"}

BodiesAllowed(ks) == {"plain"} \cup (IF \A s \in Settings : ks[s] = "absent" THEN {"empty"} ELSE {})
                                \cup (IF \A s \in Settings : ~HasKey(ks[s]) THEN {"blank"} ELSE {})
Src(k, i) == [k |-> k, i |-> i]
MinOf(S) == CHOOSE a \in S : \A b \in S : a <= b
FirstExisting(c) == IF c.exist = {} THEN 0 ELSE MinOf(c.exist)

\* ------------------------------------------------------------------ layering, as in read_client_conf
Layer0(c, s) == Src("def", 0)
Layer1(c, s) == LET f == FirstExisting(c) IN
                IF f # 0 /\ HasKey(c.key[f][s]) THEN Src("file", f) ELSE Layer0(c, s)
Layer2(c, s) == IF c.env[s] # "unset" THEN Src("env", 0) ELSE Layer1(c, s)
Winner(c, s) == Layer2(c, s)
\* the winning source is present but its value is the empty string
EmptyVal(c, s) == LET w == Winner(c, s) IN \/ w.k = "env" /\ c.env[s] = "empty"
                                           \/ w.k = "file" /\ c.key[w.i][s] = "emptyval"
\* what the value used shows: its source, or that it is the empty string
Shown(c, s) == IF EmptyVal(c, s) THEN Src("empty", 0) ELSE Winner(c, s)
\* the first existing candidate cannot be read as a file
Unreadable(c) == LET f == FirstExisting(c) IN f # 0 /\ c.kind[f] \notin ReadableKinds

\* ------------------------------------------------------------------ store location
ValClasses == {"plain", "pct", "punct", "foreigntpm"}
ForeignTpm(c, s) == s = "tpm" /\ c.val = "foreigntpm" /\ Winner(c, s).k # "def" /\ ~EmptyVal(c, s)    \* 'tpm-osxkeychain:' - no location
\* platform defaults name a scheme only; the empty string names nothing
LocOf(c, s) == IF Winner(c, s).k = "def" \/ ForeignTpm(c, s) \/ EmptyVal(c, s) THEN "none" ELSE c.loc[s]
DefIdx(c, s) == LET I == {i \in 1..Len(c.defx[s]) : c.defx[s][i]} IN IF I = {} THEN 0 ELSE MinOf(I)
W(w, i) == [where |-> w, idx |-> i]
Where(c, s) ==
  LET lc == LocOf(c, s)
      f  == FirstExisting(c)
      d  == DefIdx(c, s)
  IN IF lc \in {"absE", "absEc", "relCwd"} THEN {W("given", 0)}
     ELSE IF lc \in {"relE", "relB"} /\ f # 0 THEN {W("nexttofile", f)}      \* relT: not next to THE file - falls through
     ELSE IF d # 0 THEN {W("default", d)}
     ELSE {W("given", 0), W("empty", 0)} \cup {W("nexttofile", i) : i \in 0..c.n}
          \cup {W("default", i) : i \in 1..Len(c.defx[s])}

\* a value without location uses a scheme of its own (recognisable, and not a real store scheme);
\* values with a location and the platform default use the real scheme
SchemeValid(c, s) == Winner(c, s).k = "def" \/ (c.loc[s] # "none" /\ ~ForeignTpm(c, s) /\ ~EmptyVal(c, s))
Keychain(c) == IF SchemeValid(c, "pib") /\ SchemeValid(c, "tpm") THEN "ok" ELSE "err"

\* ------------------------------------------------------------------ transport URI -> face
FileHost == <<"file1host", "file2host", "file3host", "file4host", "file5host", "file6host">>
FileHostPct == <<"fe80::%25f1", "fe80::%25f2", "fe80::%25f3", "fe80::%25f4", "fe80::%25f5", "fe80::%25f6">>
Uri(scheme, addr, port, path) == [scheme |-> scheme, addr |-> addr, port |-> port, path |-> path]
UriOf(w, val) == CASE w.k = "env"  -> Uri("tcp", IF val = "pct" THEN "fe80::1%25eth0" ELSE "envhost", 7001, "")
                   [] w.k = "file" -> Uri("udp", IF val = "pct" THEN FileHostPct[w.i] ELSE FileHost[w.i], 0, "")
                   [] w.k = "def"  -> Uri("unix", "", 0, "DEFAULT")
                   [] w.k = "empty" -> Uri("", "", 0, "")
Face(k, addr, port) == [k |-> k, addr |-> addr, port |-> port]
DefaultPort == 6363
FaceOf(u) ==
  IF u.scheme = "unix" THEN Face("unix", u.path, 0)
  ELSE LET port == IF u.port = 0 THEN DefaultPort ELSE u.port IN
       IF u.scheme \in {"tcp", "tcp4", "tcp6"} THEN Face("tcp", u.addr, port)
       ELSE IF u.scheme \in {"udp", "udp4", "udp6"} THEN Face("udp", u.addr, port)
       ELSE Face("err", "", 0)

\* read_client_conf refuses (OSError); same shape as a result, nothing in it is observable
Refused == [err |-> "oserror", transport |-> Src("none", 0),
            pib |-> [src |-> Src("none", 0), where |-> {}], tpm |-> [src |-> Src("none", 0), where |-> {}],
            kc |-> "none", face |-> Face("none", "", 0)]
Resolve(c) == IF Unreadable(c) THEN Refused ELSE
              [err |-> "none",
               transport |-> Shown(c, "transport"),
               pib |-> [src |-> Shown(c, "pib"), where |-> Where(c, "pib")],
               tpm |-> [src |-> Shown(c, "tpm"), where |-> Where(c, "tpm")],
               kc |-> Keychain(c),
               face |-> FaceOf(UriOf(Shown(c, "transport"), c.val))]

\* is an observation of the implementation explained by the reference?  (set of failing clauses)
Clauses(c, o) ==
  LET r == Resolve(c) IN
  \* o.err: "none" (a result was returned), "oserror", "raised-<other exception class>"; nothing else is observable then
  IF o.err # r.err THEN {"refusal"} ELSE IF r.err # "none" THEN {} ELSE
  (IF o.transport # r.transport THEN {"transport"} ELSE {})
  \* src "unknown": the value fell back to a default location, which does not tell where the scheme came from
  \cup (IF o.pib.src.k # "unknown" /\ o.pib.src # r.pib.src THEN {"pib_src"} ELSE {})
  \cup (IF o.tpm.src.k # "unknown" /\ o.tpm.src # r.tpm.src THEN {"tpm_src"} ELSE {})
  \cup (IF W(o.pib.where, o.pib.idx) \notin r.pib.where THEN {"pib_where"} ELSE {})
  \cup (IF W(o.tpm.where, o.tpm.idx) \notin r.tpm.where THEN {"tpm_where"} ELSE {})
  \cup (IF o.kc \notin {"skipped", r.kc} THEN {"keychain"} ELSE {})
  \cup (IF o.face # r.face THEN {"face"} ELSE {})

\* ------------------------------------------------------------------ the property statement, clause by clause
P_EnvOverFileOverDefault(c, r) ==
  \A s \in Settings :
    LET f == FirstExisting(c)
        w == IF s = "transport" THEN r.transport ELSE r[s].src
    IN /\ c.env[s] = "set" => w = Src("env", 0)
       /\ c.env[s] = "empty" => w = Src("empty", 0)                 \* present: used, though empty
       /\ (c.env[s] = "unset" /\ f # 0 /\ c.key[f][s] = "present") => w = Src("file", f)
       /\ (c.env[s] = "unset" /\ f # 0 /\ c.key[f][s] = "emptyval") => w = Src("empty", 0)
       /\ (c.env[s] = "unset" /\ (f = 0 \/ ~HasKey(c.key[f][s]))) => w = Src("def", 0)
\* an empty value that is used is refused where a scheme is needed - never silently replaced by a lower layer - and
\* carries no store location
P_EmptyRefusedNotReplaced(c, r) ==
  /\ r.transport = Src("empty", 0) => r.face.k = "err"
  /\ \A s \in Stores : r[s].src = Src("empty", 0) =>
        /\ r.kc = "err"
        /\ DefIdx(c, s) # 0 => r[s].where = {W("default", DefIdx(c, s))}
\* the first existing candidate decides: unreadable <=> refused; and what comes after it never matters
P_UnreadableRefused(c, r) ==
  /\ (r.err = "oserror") <=> (c.exist # {} /\ c.kind[FirstExisting(c)] \in {"dir", "linkdir", "sock"})
  /\ r.err \in {"none", "oserror"}
  /\ LET f == FirstExisting(c)
         c2 == [c EXCEPT !.kind = [i \in DOMAIN c.kind |-> IF i = f THEN c.kind[i] ELSE "file"]]
         c3 == [c EXCEPT !.kind = [i \in DOMAIN c.kind |-> IF i = f THEN c.kind[i] ELSE "dir"]]
     IN r = Resolve(c2) /\ r = Resolve(c3)
P_OnlyFirstExistingFile(c, r) ==
  \A s \in Settings : LET w == IF s = "transport" THEN r.transport ELSE r[s].src IN
                      w.k = "file" => w.i = FirstExisting(c)
P_ExistingUsedAsGiven(c, r) ==
  \A s \in Stores : (r[s].src.k \in {"env", "file"} /\ ~ForeignTpm(c, s) /\ c.loc[s] \in {"absE", "relCwd"}) => r[s].where = {W("given", 0)}
P_RelativeNextToFile(c, r) ==
  \A s \in Stores : (r[s].src.k \in {"env", "file"} /\ ~ForeignTpm(c, s) /\ c.loc[s] \in {"relE", "relB"} /\ c.exist # {})
                      => r[s].where = {W("nexttofile", FirstExisting(c))}
P_MissingFallsBackToDefault(c, r) ==
  \A s \in Stores : ((r[s].src.k \in {"def", "empty"} \/ ForeignTpm(c, s) \/ c.loc[s] \in {"none", "absM", "relM", "relOther", "relT"} \/ (c.loc[s] \in {"relE", "relB"} /\ c.exist = {}))
                     /\ DefIdx(c, s) # 0) => r[s].where = {W("default", DefIdx(c, s))}
\* "the first existing configuration file": existence counts, not content - an existing file that is
\* empty or holds only comments still shadows every later candidate
P_ContentClassIrrelevant(c, r) ==
  LET f == FirstExisting(c) IN
  (f # 0 /\ c.body[f] \in {"empty", "blank"}) =>
     \A s \in Settings : LET w == IF s = "transport" THEN r.transport ELSE r[s].src IN
                         w = IF c.env[s] = "set" THEN Src("env", 0) ELSE IF c.env[s] = "empty" THEN Src("empty", 0) ELSE Src("def", 0)
\* what KIND of file-system object stands at a path never matters, existence does: a symbolic link to a file is that
\* configuration file (and its directory is where the link is), a link to a directory / a socket is as unreadable as a
\* directory, a dangling link or a link loop is no file, a store location that is a link or a regular file exists, a
\* dangling one is missing; nor does the spelling of a relative location or the way a directory was reached
Plain(c) == [c EXCEPT !.kind = [i \in DOMAIN c.kind |-> IF c.kind[i] \in ReadableKinds THEN "file" ELSE "dir"],
                      !.ghost = [i \in DOMAIN c.ghost |-> "none"], !.cdir = [i \in DOMAIN c.cdir |-> "plain"], !.cwd = "plain",
                      !.sobj = [s \in Stores |-> "dir"], !.smiss = [s \in Stores |-> "absent"], !.rel = [s \in Stores |-> "std"],
                      !.loc = [s \in Stores |-> CASE c.loc[s] = "relB" -> "relE" [] c.loc[s] = "relT" -> "relM" [] OTHER -> c.loc[s]]]
P_ObjectKindIrrelevant(c, r) == r = Resolve(Plain(c))
\* the characters of a value never matter: same sources, same resolution as with plain values
P_ValueAlphabetIrrelevant(c, r) ==
  c.val \in {"pct", "punct"} =>
    LET p == [c EXCEPT !.val = "plain"] IN
    /\ r.transport = Shown(p, "transport") /\ r.kc = Keychain(p)
    /\ \A s \in Stores : r[s].src = Shown(p, s) /\ r[s].where = Where(p, s)
\* a private-key store of another platform is refused, whoever names it; the platform default is never foreign
P_ForeignTpmRefused(c, r) == (c.val = "foreigntpm" /\ r.tpm.src.k \in {"env", "file"}) => r.kc = "err"

\* ------------------------------------------------------------------ platform selection and Linux defaults
PlatformClass(sysplat) == CASE sysplat = "linux" -> "Linux" [] sysplat = "darwin" -> "Darwin"
                            [] sysplat = "win32" -> "Win32" [] OTHER -> "err"
\* documented: unix:///run/nfd/nfd.sock; the pre-2022 path /run/nfd.sock only when it exists and the new one does not
LinuxDefaultTransport(newSock, oldSock) == IF ~newSock /\ oldSock THEN "unix:///run/nfd.sock" ELSE "unix:///run/nfd/nfd.sock"
PlatOf(x) == LET cls == PlatformClass(x.sys) IN
             [cls |-> cls, transport |-> IF cls = "Linux" THEN LinuxDefaultTransport(x.new, x.old) ELSE ""]

P_Face(u, f) == /\ (u.scheme = "unix") => (f.k = "unix" /\ f.addr = u.path)
                /\ (u.scheme \in {"tcp", "tcp4", "tcp6"}) => (f.k = "tcp" /\ f.addr = u.addr)
                /\ (u.scheme \in {"udp", "udp4", "udp6"}) => (f.k = "udp" /\ f.addr = u.addr)
                /\ (f.k \in {"tcp", "udp"} /\ u.port = 0) => f.port = 6363
                /\ (f.k \in {"tcp", "udp"} /\ u.port # 0) => f.port = u.port
                /\ (u.scheme \notin {"unix", "tcp", "tcp4", "tcp6", "udp", "udp4", "udp6"}) => f.k = "err"
=============================================================================
