----------------------------- MODULE ClientConf -----------------------------
(* C20 - executable reference for the client configuration of python-ndn.

   A configuration c (everything read_client_conf can see):
     n      number of candidate configuration-file paths of the platform (ordered 1..n)
     exist  subset of 1..n: which candidate files exist
     key    [1..n -> [Settings -> {"present", "absent", "commented"}]]   content of each file
     body   [1..n -> {"plain", "empty", "blank"}]   how an existing file is written: "empty" = 0 bytes (only if
            all its keys are absent), "blank" = nothing but whitespace and comment lines (no key present),
            "plain" otherwise.  A file EXISTS whatever its content: Resolve does not look at body.
     env    [Settings -> BOOLEAN]            NDN_CLIENT_TRANSPORT / _PIB / _TPM set?
     loc    [Stores -> LocClass]             the location carried by every non-default value of that store
     defx   [Stores -> Seq(BOOLEAN)]         which of the platform's default locations exist (ordered)
     val    the alphabet of the values of the non-default sources:
            "plain"; "pct" = a '%' inside every value (IPv6 zone id "%25eth0" in the transport host, '%' in store
            directory names); "punct" = store directory names holding ' ', '=', ' #', ' ;' (what an inline-comment or
            split-at-'=' parser would cut); "foreigntpm" = the tpm
            value names a private-key store of ANOTHER platform ('tpm-osxkeychain:' / 'tpm-cng:' on Linux).
            Which source wins and how a location resolves never depends on the characters of a value.

   Every source has its own value, so the result tells which source was used:
     Src("env",0), Src("file",i), Src("def",0).
   Location classes:  none (scheme only), absE / absM (absolute, exists / missing), relE (relative, exists
   next to the FIRST EXISTING configuration file), relM (relative, exists nowhere), relCwd (relative,
   exists as given, i.e. relative to the working directory), relOther (relative, exists only next to
   ANOTHER candidate path, which is not "the" configuration file), absEc (stage C only: absolute,
   exists, name contains ':').

   Resolve is written the way the code is layered (defaults, then file, then environment; then
   location resolution); the P_* invariants are the clauses of the property statement.

   A foreign tpm scheme must be REFUSED by default_keychain (never silently replaced); the statement fixes the
   exception class only for transport schemes, so any exception counts as refusal there (the executor notes that
   the unchanged library raises NameError rather than ValueError).

   Platform: PlatformClass(sys.platform) and the Linux default transport (new socket path unless only the old
   NFD socket exists) are enumerated as states of kind "plat".

   Interpretation decision (DESIGN 9/C20): when a store location exists neither as given nor next to the
   configuration file and NO platform default location exists either, any candidate is accepted. *)
EXTENDS Naturals, Sequences, FiniteSets, TLC

Settings == {"transport", "pib", "tpm"}
Stores   == {"pib", "tpm"}
KeyStates == {"present", "absent", "commented"}
LocClasses == {"none", "absE", "absM", "relE", "relM", "relCwd", "relOther"}
\* only in stage C: an absolute existing location whose name contains ':' (like every Windows path)
LocClassesC == LocClasses \cup {"absEc"}

BodiesAllowed(ks) == {"plain"} \cup (IF \A s \in Settings : ks[s] = "absent" THEN {"empty"} ELSE {})
                                \cup (IF \A s \in Settings : ks[s] # "present" THEN {"blank"} ELSE {})
Src(k, i) == [k |-> k, i |-> i]
MinOf(S) == CHOOSE a \in S : \A b \in S : a <= b
FirstExisting(c) == IF c.exist = {} THEN 0 ELSE MinOf(c.exist)

\* ------------------------------------------------------------------ layering, as in read_client_conf
Layer0(c, s) == Src("def", 0)
Layer1(c, s) == LET f == FirstExisting(c) IN
                IF f # 0 /\ c.key[f][s] = "present" THEN Src("file", f) ELSE Layer0(c, s)
Layer2(c, s) == IF c.env[s] THEN Src("env", 0) ELSE Layer1(c, s)
Winner(c, s) == Layer2(c, s)

\* ------------------------------------------------------------------ store location
ValClasses == {"plain", "pct", "punct", "foreigntpm"}
ForeignTpm(c, s) == s = "tpm" /\ c.val = "foreigntpm" /\ Winner(c, s).k # "def"      \* 'tpm-osxkeychain:' - no location
LocOf(c, s) == IF Winner(c, s).k = "def" \/ ForeignTpm(c, s) THEN "none" ELSE c.loc[s]   \* platform defaults name a scheme only
DefIdx(c, s) == LET I == {i \in 1..Len(c.defx[s]) : c.defx[s][i]} IN IF I = {} THEN 0 ELSE MinOf(I)
W(w, i) == [where |-> w, idx |-> i]
Where(c, s) ==
  LET lc == LocOf(c, s)
      f  == FirstExisting(c)
      d  == DefIdx(c, s)
  IN IF lc \in {"absE", "absEc", "relCwd"} THEN {W("given", 0)}
     ELSE IF lc = "relE" /\ f # 0 THEN {W("nexttofile", f)}
     ELSE IF d # 0 THEN {W("default", d)}
     ELSE {W("given", 0), W("empty", 0)} \cup {W("nexttofile", i) : i \in 0..c.n}
          \cup {W("default", i) : i \in 1..Len(c.defx[s])}

\* a value without location uses a scheme of its own (recognisable, and not a real store scheme);
\* values with a location and the platform default use the real scheme
SchemeValid(c, s) == Winner(c, s).k = "def" \/ (c.loc[s] # "none" /\ ~ForeignTpm(c, s))
Keychain(c) == IF SchemeValid(c, "pib") /\ SchemeValid(c, "tpm") THEN "ok" ELSE "err"

\* ------------------------------------------------------------------ transport URI -> face
FileHost == <<"file1host", "file2host", "file3host", "file4host", "file5host", "file6host">>
FileHostPct == <<"fe80::%25f1", "fe80::%25f2", "fe80::%25f3", "fe80::%25f4", "fe80::%25f5", "fe80::%25f6">>
Uri(scheme, addr, port, path) == [scheme |-> scheme, addr |-> addr, port |-> port, path |-> path]
UriOf(w, val) == CASE w.k = "env"  -> Uri("tcp", IF val = "pct" THEN "fe80::1%25eth0" ELSE "envhost", 7001, "")
                   [] w.k = "file" -> Uri("udp", IF val = "pct" THEN FileHostPct[w.i] ELSE FileHost[w.i], 0, "")
                   [] w.k = "def"  -> Uri("unix", "", 0, "DEFAULT")
Face(k, addr, port) == [k |-> k, addr |-> addr, port |-> port]
DefaultPort == 6363
FaceOf(u) ==
  IF u.scheme = "unix" THEN Face("unix", u.path, 0)
  ELSE LET port == IF u.port = 0 THEN DefaultPort ELSE u.port IN
       IF u.scheme \in {"tcp", "tcp4", "tcp6"} THEN Face("tcp", u.addr, port)
       ELSE IF u.scheme \in {"udp", "udp4", "udp6"} THEN Face("udp", u.addr, port)
       ELSE Face("err", "", 0)

Resolve(c) == [transport |-> Winner(c, "transport"),
               pib |-> [src |-> Winner(c, "pib"), where |-> Where(c, "pib")],
               tpm |-> [src |-> Winner(c, "tpm"), where |-> Where(c, "tpm")],
               kc |-> Keychain(c),
               face |-> FaceOf(UriOf(Winner(c, "transport"), c.val))]

\* is an observation of the implementation explained by the reference?  (set of failing clauses)
Clauses(c, o) ==
  LET r == Resolve(c) IN
  (IF o.transport # r.transport THEN {"transport"} ELSE {})
  \* src "unknown": the value fell back to a default location, which does not tell where the scheme came from
  \cup (IF o.pib.src.k # "unknown" /\ o.pib.src # r.pib.src THEN {"pib_src"} ELSE {})
  \cup (IF o.tpm.src.k # "unknown" /\ o.tpm.src # r.tpm.src THEN {"tpm_src"} ELSE {})
  \cup (IF W(o.pib.where, o.pib.idx) \notin r.pib.where THEN {"pib_where"} ELSE {})
  \cup (IF W(o.tpm.where, o.tpm.idx) \notin r.tpm.where THEN {"tpm_where"} ELSE {})
  \cup (IF o.kc \notin {"skipped", r.kc} THEN {"keychain"} ELSE {})
  \cup (IF o.face # r.face THEN {"face"} ELSE {})

\* ------------------------------------------------------------------ the property statement, clause by clause
P_EnvOverFileOverDefault(c, r) ==
  \A s \in Settings :
    LET f == FirstExisting(c)
        w == IF s = "transport" THEN r.transport ELSE r[s].src
    IN /\ c.env[s] => w = Src("env", 0)
       /\ (~c.env[s] /\ f # 0 /\ c.key[f][s] = "present") => w = Src("file", f)
       /\ (~c.env[s] /\ (f = 0 \/ c.key[f][s] # "present")) => w = Src("def", 0)
P_OnlyFirstExistingFile(c, r) ==
  \A s \in Settings : LET w == IF s = "transport" THEN r.transport ELSE r[s].src IN
                      w.k = "file" => w.i = FirstExisting(c)
P_ExistingUsedAsGiven(c, r) ==
  \A s \in Stores : (r[s].src.k # "def" /\ ~ForeignTpm(c, s) /\ c.loc[s] \in {"absE", "relCwd"}) => r[s].where = {W("given", 0)}
P_RelativeNextToFile(c, r) ==
  \A s \in Stores : (r[s].src.k # "def" /\ ~ForeignTpm(c, s) /\ c.loc[s] = "relE" /\ c.exist # {})
                      => r[s].where = {W("nexttofile", FirstExisting(c))}
P_MissingFallsBackToDefault(c, r) ==
  \A s \in Stores : ((r[s].src.k = "def" \/ ForeignTpm(c, s) \/ c.loc[s] \in {"none", "absM", "relM", "relOther"} \/ (c.loc[s] = "relE" /\ c.exist = {}))
                     /\ DefIdx(c, s) # 0) => r[s].where = {W("default", DefIdx(c, s))}
\* "the first existing configuration file": existence counts, not content - an existing file that is
\* empty or holds only comments still shadows every later candidate
P_ContentClassIrrelevant(c, r) ==
  LET f == FirstExisting(c) IN
  (f # 0 /\ c.body[f] \in {"empty", "blank"}) =>
     \A s \in Settings : LET w == IF s = "transport" THEN r.transport ELSE r[s].src IN
                         w = IF c.env[s] THEN Src("env", 0) ELSE Src("def", 0)
\* the characters of a value never matter: same sources, same resolution as with plain values
P_ValueAlphabetIrrelevant(c, r) ==
  c.val \in {"pct", "punct"} =>
    LET p == [c EXCEPT !.val = "plain"] IN
    /\ r.transport = Winner(p, "transport") /\ r.kc = Keychain(p)
    /\ \A s \in Stores : r[s].src = Winner(p, s) /\ r[s].where = Where(p, s)
\* a private-key store of another platform is refused, whoever names it; the platform default is never foreign
P_ForeignTpmRefused(c, r) == (c.val = "foreigntpm" /\ r.tpm.src.k # "def") => r.kc = "err"

\* ------------------------------------------------------------------ platform selection and Linux defaults
PlatformClass(sysplat) == CASE sysplat = "linux" -> "Linux" [] sysplat = "darwin" -> "Darwin"
                            [] sysplat = "win32" -> "Win32" [] OTHER -> "err"
\* documented: unix:///run/nfd/nfd.sock; the pre-2022 path /run/nfd.sock only when it exists and the new one does not
LinuxDefaultTransport(newSock, oldSock) == IF ~newSock /\ oldSock THEN "unix:///run/nfd.sock" ELSE "unix:///run/nfd/nfd.sock"
PlatOf(x) == LET cls == PlatformClass(x.sys) IN
             [cls |-> cls, transport |-> IF cls = "Linux" THEN LinuxDefaultTransport(x.new, x.old) ELSE ""]

P_Face(u, f) == /\ (u.scheme = "unix") => (f.k = "unix" /\ f.addr = u.path)
                /\ (u.scheme \in {"tcp", "tcp4", "tcp6"}) => (f.k = "tcp" /\ f.addr = u.addr)
                /\ (u.scheme \in {"udp", "udp4", "udp6"}) => (f.k = "udp" /\ f.addr = u.addr)
                /\ (f.k \in {"tcp", "udp"} /\ u.port = 0) => f.port = 6363
                /\ (f.k \in {"tcp", "udp"} /\ u.port # 0) => f.port = u.port
                /\ (u.scheme \notin {"unix", "tcp", "tcp4", "tcp6", "udp", "udp4", "udp6"}) => f.k = "err"
=============================================================================
