----------------------- MODULE NdnPacketsCertTimesTrace -----------------------
(* Issuing histories recorded from the real new_cert / derive_cert (longer than the exhaustive bound, every known zone,
   any year, readings anywhere around the changes of the clock, any lifetime) must be behaviours of NdnPacketsCertTimes
   with Dev = "none".
   record: [ev: <<[fn, a, b, n, nb, na, ia, ib]>>]: the call, the validity text found in the certificate (ASCII codes),
   and ia / ib = the instants the driver's own zone arithmetic (zoneinfo) gives for the arguments a and b: the two
   oracles must agree on every argument, else the run is a machinery failure ("XVAL" is printed), not a verdict. *)
EXTENDS NdnPacketsCertTimes, Json, IOUtils, TLCExt
Traces == ndJsonDeserialize(IOEnv.TRACE_FILE)
VARIABLES tid, l
tvars == <<vars, tid, l>>
Evs == Traces[tid].ev
Max2(a, b) == IF a > b THEN a ELSE b
Agree(e) == ArgOk(e.a) /\ ArgOk(e.b) /\ InstOfArg(e.a) = e.ia /\ InstOfArg(e.b) = e.ib
TInit == /\ tid \in 1..Len(Traces) /\ l = 1 /\ InitT /\ TLCSet(tid, 1)
         /\ ((\A i \in 1..Len(Traces[tid].ev) : Agree(Traces[tid].ev[i])) \/ PrintT(<<"XVAL", tid>>))
TIssue == /\ l <= Len(Evs) /\ l' = l + 1 /\ UNCHANGED tid
          /\ (IF Evs[l].fn = "new_cert" THEN NewCert(Evs[l].a, Evs[l].b) ELSE Evs[l].fn = "derive" /\ Derive(Evs[l].a, Evs[l].n))
          /\ certs'[l].nb = Evs[l].nb /\ certs'[l].na = Evs[l].na
TSpec == TInit /\ [][TIssue]_tvars
Mark == TLCSet(tid, Max2(TLCGet(tid), l))
Inv == EncodesRequested /\ TypeOK
Post == \A i \in 1..Len(Traces) : TLCGet(i) = Len(Traces[i].ev) + 1 \/ PrintT(<<"REJECTED", i, TLCGet(i)>>)
=============================================================================
