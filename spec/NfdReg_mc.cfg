\* reference configuration (bin/check C17 generates its own into build/): correct design, v2 front-end,
\* 3 concurrent calls, free clock 0..3;  tlc -config NfdReg_mc.cfg NfdReg
SPECIFICATION Spec
CONSTANTS
  FrontEnd = "v2"
  NCalls = 3
  UserPrefixes = {"a"}
  UserVerbs = {"register", "unregister"}
  Routes <- R0
  LateRoutes = {}
  Stall = FALSE
  MaxConn = 1
  MaxCancel = 2
  MaxClock = 3
  ReplyKinds = {"r200", "r400", "silence"}
  Allowed = {}
  Forced = {}
INVARIANT TypeOK
INVARIANT ClockBound
INVARIANT OneAtATime
INVARIANT TsStrictlyIncreasing
INVARIANT SuccessIff200
INVARIANT NeverRaises
INVARIANT ExactlyOneCommand
INVARIANT RoutesOncePerConnection
INVARIANT NoStrandedWaiter
INVARIANT SemHolderOk
INVARIANT CancelReleases
INVARIANT NothingBad
CHECK_DEADLOCK FALSE
