---------------------------- MODULE RdrTrace ----------------------------
(* Executions of the two real tools with the harness as the network (harness/rdrkit.py), recorded as the
   network's actions with the observable projection after each, must be behaviours of Rdr.               *)
EXTENDS Rdr, Json, IOUtils, TLCExt

TraceReg == 1000000
ASSUME TLCSet(TraceReg, ndJsonDeserialize(IOEnv.TRACE_FILE))
Traces == TLCGet(TraceReg)
VARIABLES tid, l
tvars == <<vars, tid, l>>

Tr == Traces[tid].ev
Max2(a, b) == IF a > b THEN a ELSE b

TInit == /\ tid \in 1..Len(Traces)
         /\ l = 1
         /\ InitWith(Traces[tid].cfg)
         /\ TLCSet(tid, 1)

Ev(a) == l <= Len(Tr) /\ Tr[l].a = a /\ l' = l + 1 /\ UNCHANGED tid
NetOf(s) == { [k |-> s[i].k, id |-> s[i].id, req |-> s[i].req, tok |-> s[i].tok, fin |-> s[i].fin] : i \in 1..Len(s) }
PostOk == LET p == Tr[l].post IN
            /\ c'.pc = p.pc
            /\ c'.err = p.err
            /\ nsent' = p.nsent
            /\ net' = NetOf(p.net)
            /\ (p.pc = "wait" => Req(c') = p.req)
            /\ (p.pc = "done" => p.result = "exact")
            /\ p.up = (p.pc \notin {"done", "fail"})

Has == HasId(Tr[l].id)

TBegin == Ev("Begin") /\ Begin(Tr[l].tok) /\ PostOk
TPRecv == Ev("PRecv") /\ Has /\ PRecv(Tr[l].id) /\ PostOk
TCData == Ev("CData") /\ Has /\ CData(Tr[l].id, Tr[l].tok) /\ PostOk
TCTimeout == Ev("CTimeout") /\ CTimeout(Tr[l].tok) /\ PostOk
TCNack == Ev("CNack") /\ Has /\ CNack(Tr[l].id, Tr[l].tok) /\ PostOk
TLose == Ev("Lose") /\ Has /\ Lose(Tr[l].id) /\ PostOk

TNext == TBegin \/ TPRecv \/ TCData \/ TCTimeout \/ TCNack \/ TLose
TSpec == TInit /\ [][TNext]_tvars

Mark == TLCSet(tid, Max2(TLCGet(tid), l))
Post == \A i \in 1..Len(Traces) :
          \/ TLCGet(i) = Len(Traces[i].ev) + 1
          \/ PrintT(<<"REJECTED", i, TLCGet(i)>>)
=============================================================================
