SPECIFICATION TSpec
CONSTANTS NKey = 8 NName = 8 NInst = 8 MaxChecks = 64 DevNameCache = FALSE DevVerdictCache = FALSE Plain = TRUE
CONSTRAINT Mark
POSTCONDITION Post
CHECK_DEADLOCK FALSE
