-------------------------- MODULE KeychainTrace --------------------------
(* Trace validation for C15: histories recorded from a real KeychainSqlite3 + TpmFile
   (events = the public call made, whether a fault point was made to raise, what the call
   returned, and the projection of the store through the Mapping API afterwards) must be
   behaviours of Keychain, with the recorded result and projection after every event.
   Event: [a |-> "Step"|"Fail"|"Reopen", o |-> operation record, n |-> fault point, m |-> "call"|"io",
           r |-> [out, got, lt, lc], post |-> [open, tpm, ids, keys, certs, dI, dK, dC]]
   (sets are JSON arrays; a key is [id, n], a certificate [[id, n], m]).            *)
EXTENDS Keychain, Json, IOUtils, TLCExt

Traces == ndJsonDeserialize(IOEnv.TRACE_FILE)
VARIABLES tid, l
tvars == <<st, tid, l>>

Tr == Traces[tid].ev
Max2(a, b) == IF a > b THEN a ELSE b
ToSet(s) == {s[j] : j \in 1..Len(s)}

TInit == /\ tid \in 1..Len(Traces)
         /\ l = 1
         /\ st = InitSt
         /\ TLCSet(tid, 1)

Ev(a) == l <= Len(Tr) /\ Tr[l].a = a /\ l' = l + 1 /\ UNCHANGED tid

PostOk == LET p == Tr[l].post IN
  /\ st'.open = p.open
  /\ st'.tpm = ToSet(p.tpm)
  /\ (p.open => /\ st'.cur.ids = ToSet(p.ids) /\ st'.cur.dI = ToSet(p.dI)
                /\ st'.cur.keys = ToSet(p.keys) /\ st'.cur.dK = ToSet(p.dK)
                /\ st'.cur.certs = ToSet(p.certs) /\ st'.cur.dC = ToSet(p.dC))

\* operations a recorded history may contain (the driver only calls these)
WellFormed(o, S) ==
  /\ o.op \in {"NewIdentity", "TouchIdentity", "NewKey", "ImportCert", "SetDefId", "SetDefKey", "SetDefCert",
               "DelCert", "DelKey", "DelIdentity", "GetSigner", "Close"}
  /\ (o.op = "NewKey" => o.i \in S.cur.ids /\ o.k[1] = o.i
                         /\ (o.k \in FreeSlots(S, o.i) \/ (o.by = "keyid" /\ (o.k \in S.cur.keys \/ OrphanFile(S, o.k)))))
  /\ (o.loc = "ext" => ~S.txn)
  /\ (o.op = "DelKey" /\ o.loc = "view" => o.k[1] \in S.cur.ids)
  /\ (o.op = "DelCert" /\ o.loc = "view" => o.c[1] \in S.cur.keys)
  /\ (o.op = "GetSigner" /\ o.t = "obj" => Enabled(o, S))
  /\ (o.op = "TouchIdentity" /\ o.i \notin S.cur.ids => o.k \in FreeSlots(S, o.i))
  /\ (o.op = "ImportCert" => o.k \in S.cur.keys /\ ImpSlot(o)[1] = o.k /\ ImpSlot(o)[2] \in 2..CertN)
  /\ (o.op = "SetDefKey" => o.k[1] \in S.cur.ids)
  /\ (o.op = "SetDefCert" => o.c[1] \in S.cur.keys)
  /\ (o.op = "GetSigner" /\ o.by = "cert" => OwnNamed(o.c) /\ (o.c \in S.cur.certs \/ o.c[1] \notin S.cur.keys))

ResOk(o, r) == LET x == Plan(o, st).res IN
  /\ x.out = r.out
  /\ (o.op = "GetSigner" /\ r.out = "ok" => x.got = r.got /\ x.lt = r.lt /\ x.lc = r.lc)

TStep == /\ Ev("Step") /\ WellFormed(Tr[l].o, st) /\ ResOk(Tr[l].o, Tr[l].r)
         /\ Call(Tr[l].o) /\ PostOk
TFail == /\ Ev("Fail") /\ WellFormed(Tr[l].o, st) /\ Tr[l].n \in 1..NFaults(Tr[l].o, st)
         /\ Crash(Tr[l].o, Tr[l].n, Tr[l].m) /\ PostOk
TReopen == Ev("Reopen") /\ Reopen /\ PostOk

TNext == TStep \/ TFail \/ TReopen
TSpec == TInit /\ [][TNext]_tvars

Mark == TLCSet(tid, Max2(TLCGet(tid), l))
Post == \A i \in 1..Len(Traces) :
          \/ TLCGet(i) = Len(Traces[i].ev) + 1
          \/ PrintT(<<"REJECTED", i, TLCGet(i)>>)
=============================================================================
