---------------------------- MODULE NameUriJudge ----------------------------
(* C09 stage C (code -> spec): calls recorded from the real library are judged by TLC evaluating
   the reference of NameUri.  One record per line of IOEnv.TRACE_FILE, one TLC state per record:

   k = "name":   n (components), to_str, canon (Name.to_str / Name.to_canonical_uri output text),
                 cstr, ccanon (Component.to_str / to_canonical_uri of every component), wire (Name.to_bytes)
                 -> the printed texts are PARSED BACK by UriToName / UriToComp and must denote n (the spelling
                    is not prescribed); the canonical texts must use no shorthand; the wire must be the
                    shortest-form TLV of n and decode to n.
   k = "esc":    raw (UTF-8 bytes of an arbitrary component string s), esc (Component.escape_str(s)),
                 lib ([k |-> "ok", c |-> Name.normalize([s])[0]] or [k |-> "err", c |-> ...]),
                 comp (the same for Component.from_str(s): the string handed to the component-level parser DIRECTLY,
                 unescaped; s may hold any Unicode character in any position)
                 -> escaping does not change the denoted component, leaves nothing to escape, and the
                    library's own reading of s is the reference's; what Component.from_str accepts is the
                    component the text denotes at the Name level (NameUri!FromStrClauses).
   k = "uri":    raw (UTF-8 bytes of an arbitrary Name URI string with raw non-ASCII characters), lib, norm
                 (Name.from_str / Name.normalize of it) -> must be the name the reference reads
   k = "pairs":  names, and the matrices the library/Python computed on all pairs:
                 less (lists of bytes(component)), vless (concatenated encodings), eq,
                 prefix (Name.is_prefix: one matrix per combination of argument forms list/wire/URI x list/wire/URI)
   k = "cpairs": comps, less (bytes(c_i) < bytes(c_j))
   A record's verdict is the set of clause names that fail; {} = accepted. *)
EXTENDS NameUri, Json, IOUtils, TLCExt

Recs == ndJsonDeserialize(IOEnv.TRACE_FILE)
VARIABLE tid

CompOf(j) == Comp(j.t, j.v)
NameOf(js) == [i \in 1..Len(js) |-> CompOf(js[i])]

NameClauses(r) ==
  LET n == NameOf(r.n) IN
  (IF UriToName(r.to_str) # n THEN {"to_str"} ELSE {})
  \cup (IF UriToName(r.canon) # n THEN {"canon"} ELSE {})
  \cup (IF \/ \E i \in 1..Len(r.ccanon) : HasShorthand(r.ccanon[i])
          \/ LET ps == Split(r.canon) IN \E i \in 1..Len(ps) : HasShorthand(ps[i])
        THEN {"canon_shorthand"} ELSE {})
  \cup (IF \E i \in 1..Len(n) : UriToComp(r.cstr[i]) # n[i] THEN {"cstr"} ELSE {})
  \cup (IF \E i \in 1..Len(n) : UriToComp(r.ccanon[i]) # n[i] THEN {"ccanon"} ELSE {})
  \cup (IF WireToName(r.wire) # n \/ r.wire # EncName(n) THEN {"wire"} ELSE {})

\* escape_str works on one component string ('/' is escaped too).  What the library accepts beyond the
\* reference grammar (byraw = CErr, e.g. '1_0=a') is not judged.
EscClauses(r) ==
  LET byraw == UriToComp(EscapeText(r.raw))
      byesc == UriToComp(r.esc)
  IN (IF byraw # byesc THEN {"esc_changes_component"} ELSE {})
     \cup (IF EscapeText(r.esc) # r.esc THEN {"esc_incomplete"} ELSE {})
     \cup (IF r.lib.k = "ok" /\ byraw # CErr /\ CompOf(r.lib.c) # byraw THEN {"from_str"} ELSE {})
     \cup (IF r.lib.k = "err" /\ byraw # CErr THEN {"from_str_refused"} ELSE {})
     \cup FromStrClauses(r.raw, [k |-> r.comp.k, c |-> CompOf(r.comp.c)], [k |-> r.lib.k, c |-> CompOf(r.lib.c)])

\* k = "uri": raw = UTF-8 bytes of an arbitrary Name URI string s (raw non-ASCII characters, reserved characters,
\* any slash pattern); lib / norm = what Name.from_str(s) / Name.normalize(s) returned ([k |-> "ok", n] or "err").
\* Strings the reference grammar does not accept (UriToName = NErr) are not judged.
UriClauses(r) ==
  LET want == UriToName(r.raw)
      bad(o) == o.k = "ok" /\ want # NErr /\ NameOf(o.n) # want
      refused(o) == o.k = "err" /\ want # NErr
  IN (IF bad(r.lib) THEN {"uri_from_str"} ELSE {})
     \cup (IF refused(r.lib) THEN {"uri_from_str_refused"} ELSE {})
     \cup (IF bad(r.norm) THEN {"uri_normalize"} ELSE {})
     \cup (IF refused(r.norm) THEN {"uri_normalize_refused"} ELSE {})

PairClauses(r) ==
  LET ns == [i \in 1..Len(r.names) |-> NameOf(r.names[i])]
      I == 1..Len(ns)
  IN (IF \E i, j \in I : r.less[i][j] # NameLess(ns[i], ns[j]) THEN {"less"} ELSE {})
     \cup (IF \E i, j \in I : r.vless[i][j] # NameLess(ns[i], ns[j]) THEN {"vless"} ELSE {})
     \cup (IF \E i, j \in I : r.eq[i][j] # (ns[i] = ns[j]) THEN {"eq"} ELSE {})
     \* r.prefix[f] = the matrix for the f-th combination of argument forms (list / wire / URI on either side)
     \cup (IF \E f \in 1..Len(r.prefix) : \E i, j \in I : r.prefix[f][i][j] # PrefixByComponents(ns[i], ns[j])
           THEN {"prefix"} ELSE {})

CPairClauses(r) ==
  LET cs == [i \in 1..Len(r.comps) |-> CompOf(r.comps[i])]
      I == 1..Len(cs)
  IN (IF \E i, j \in I : r.less[i][j] # CompLess(cs[i], cs[j]) THEN {"cless"} ELSE {})

Verdict(r) == CASE r.k = "name"   -> NameClauses(r)
                [] r.k = "esc"    -> EscClauses(r)
                [] r.k = "uri"    -> UriClauses(r)
                [] r.k = "pairs"  -> PairClauses(r)
                [] r.k = "cpairs" -> CPairClauses(r)

Init == tid \in 1..Len(Recs)
Next == UNCHANGED tid
Spec == Init /\ [][Next]_tid
Mark == TLCSet(tid, Verdict(Recs[tid]))
Post == \A i \in 1..Len(Recs) : TLCGet(i) = {} \/ PrintT(<<"REJECTED", i, TLCGet(i)>>)
=============================================================================
