---------------------------- MODULE NdnPitTrace ----------------------------
(* Trace validation for NdnPit: every execution recorded from the real front-end (schedules
   generated from TLC's state graph, and random larger ones) must be a behaviour of NdnPit with
   the recorded projection after every event. Front and Dev come from the cfg; the universe of
   templates / data / verdicts / reasons is read from the trace file itself. *)
EXTENDS NdnPit, Json, IOUtils, TLCExt

\* the parsed trace file is kept in a TLC register: as a plain definition TLC re-evaluates (re-parses) it at every use
TraceReg == 1000000
ASSUME TLCSet(TraceReg, ndJsonDeserialize(IOEnv.TRACE_FILE))
Traces == TLCGet(TraceReg)
VARIABLES tid, l
tvars == <<vars, tid, l>>

Tr == Traces[tid].ev
Max2(a, b) == IF a > b THEN a ELSE b
SeqToSet(s) == { s[i] : i \in 1..Len(s) }

\* universes (override the constants in the cfg)
TrNone == {}
Race_no == {{}}
Def_both == BOOLEAN
TrVerdicts == {"PASS", "FAIL", "TIMEOUT", "SILENCE", "BYPASS", "RAISE", "NONE", "FALSEV", "T", "F"}
TrReasons == 1..5
TrEnvs == {"bare", "lp", "lph", "lpo"}
TrJunk == {"junk"}
NoDev == {}
DevLegacy == {"legacySlowValidator"}

TInit == /\ tid \in 1..Len(Traces)
         /\ l = 1
         /\ Init
         /\ TLCSet(tid, 1)

Ev(a) == l <= Len(Tr) /\ Tr[l].a = a /\ l' = l + 1 /\ UNCHANGED tid

Started == { e \in Entry : vrun[e] = 0 /\ vrun'[e] # 0 }
XOf(i) == IF "x" \in DOMAIN Tr[i] THEN SeqToSet(Tr[i].x) ELSE {}
\* the cancellations in flight of one stimulus: those of the event itself and of the hidden events right in front of it
\* (a delivery recorded as RecvData (hidden, carries x) + ValFinish ... is ONE stimulus)
RECURSIVE HiddenX(_)
HiddenX(i) == IF i >= 1 /\ "hidden" \in DOMAIN Tr[i] THEN XOf(i) \cup HiddenX(i - 1) ELSE {}
InFlight == XOf(l) \cup HiddenX(l - 1)
\* A packet handed over in the SAME loop iteration in which lifetime timers are due (the packet's callback first, the
\* timer handles behind it in the ready queue) is recorded as two events, RecvData marked "hidden" + Fire: nothing can be
\* observed between the two, so the hidden step is constrained only by the specification's action and the Fire step
\* carries the observation.  Whether the validator of an Interest that is answered and times out in that iteration was
\* still called is left open (the awaiting coroutine may be woken by the answer or by the timer).
Hidden == "hidden" \in DOMAIN Tr[l]
AfterHidden == IF l > 1 /\ "hidden" \in DOMAIN Tr[l - 1] THEN { e \in Entry : vrun[e] # 0 } ELSE {}
PostOk == LET p == Tr[l].post IN
  /\ p.bg = 0
  /\ now' = p.now
  /\ up' = p.up
  /\ used' = Len(p.out)
  /\ \A e \in 1..Len(p.out) : out'[e] = p.out[e]
  /\ Cardinality({ e \in Entry : ph'[e] = "pend" }) = p.npit
  \* validators start exactly for the Interests the packet satisfies; for an Interest whose cancellation is in flight
  \* (Tr[l].x) the statement says nothing about a validator call, so one is tolerated
  /\ Started \subseteq SeqToSet(p.vnew)
  /\ SeqToSet(p.vnew) \subseteq Started \cup InFlight \cup AfterHidden

TExpress == Ev("Express") /\ (Express(Tr[l].t, Tr[l].defer) \/ (~Tr[l].defer /\ ExpressNow(Tr[l].t))) /\ PostOk
TAwait == Ev("Await") /\ Await(Tr[l].e) /\ PostOk
TExpressDown == Ev("ExpressDown") /\ ExpressDown(Tr[l].t) /\ PostOk
TRecvData == Ev("RecvData") /\ ~Hidden /\ RecvDataX(Tr[l].d, Tr[l].env, SeqToSet(Tr[l].x)) /\ PostOk
TRecvDataHidden == Ev("RecvData") /\ Hidden /\ RecvDataX(Tr[l].d, Tr[l].env, XOf(l))
\* a validator that answers in the very step in which it is called (the library's pass_all): its verdict follows the
\* delivery without anything observable in between
TValFinishHidden == Ev("ValFinish") /\ Hidden /\ ValFinish(Tr[l].e, Tr[l].v)
TValFinish == Ev("ValFinish") /\ ~Hidden /\ (ValFinish(Tr[l].e, Tr[l].v) \/ LateFinish(Tr[l].e, Tr[l].v)) /\ PostOk
\* a verdict delivered to nobody (the validator invocation was cancelled with its caller): stutter
TValNobody == Ev("ValFinish") /\ vrun[Tr[l].e] = 0 /\ UNCHANGED vars /\ PostOk
TFire == Ev("Fire") /\ ~Hidden /\ Fire /\ PostOk
TFireNone == Ev("Fire") /\ ~Hidden /\ Due = {} /\ UNCHANGED vars /\ PostOk
TFireHidden == Ev("Fire") /\ Hidden /\ (Fire \/ (Due = {} /\ UNCHANGED vars))
TTick == Ev("Tick") /\ Tick /\ PostOk
TJump == Ev("Jump") /\ Jump(Tr[l].to) /\ PostOk
TCancel == Ev("Cancel") /\ Cancel(Tr[l].e) /\ PostOk
TCancelDone == Ev("Cancel") /\ ph[Tr[l].e] \in {"fin", "unused"} /\ UNCHANGED vars /\ PostOk
TShutdown == Ev("Shutdown") /\ Shutdown /\ PostOk
TConnect == Ev("Connect") /\ Connect /\ PostOk
TRecvNack == Ev("RecvNack") /\ RecvNackX(Tr[l].t, Tr[l].r, Tr[l].env, SeqToSet(Tr[l].x)) /\ PostOk
\* the driver hands a Nack over together with the timers it believes due; when none is (legacy: the lifetime of an Interest
\* awaited late may count from the await) the stimulus is a plain Nack
TRecvNackFire == /\ Ev("RecvNackFire")
                 /\ (RecvNackFire(Tr[l].t, Tr[l].r, Tr[l].env) \/ (Due = {} /\ RecvNackX(Tr[l].t, Tr[l].r, Tr[l].env, {})))
                 /\ PostOk
TRecvJunk == Ev("RecvJunk") /\ RecvJunk("junk") /\ PostOk

TNext == \/ TExpress \/ TAwait \/ TExpressDown \/ TRecvData \/ TRecvDataHidden \/ TValFinishHidden \/ TValFinish \/ TValNobody \/ TFire \/ TFireNone \/ TFireHidden
         \/ TTick \/ TJump \/ TCancel \/ TCancelDone \/ TShutdown \/ TConnect \/ TRecvNack \/ TRecvNackFire \/ TRecvJunk
TSpec == TInit /\ [][TNext]_tvars

Mark == TLCSet(tid, Max2(TLCGet(tid), l))
Post == \A i \in 1..Len(Traces) :
          \/ TLCGet(i) = Len(Traces[i].ev) + 1
          \/ PrintT(<<"REJECTED", i, TLCGet(i)>>)
=============================================================================
