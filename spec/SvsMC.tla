------------------------------ MODULE SvsMC ------------------------------
(* Model-checking front-end of Svs (C18): the finite alphabets of received packets.
   cfg:  Packets <- PacketsFull | PacketsPlain | PacketsReplay                            *)
EXTENDS Svs

Ents(f, D, ord) ==
  LET ids == SelectSeq(ord, LAMBDA n : n \in D)
  IN  [i \in 1..Len(ids) |-> [id |-> ids[i], seq |-> f[ids[i]]]]
Rev(s) == [i \in 1..Len(s) |-> s[Len(s) + 1 - i]]
SV(es) == [k |-> "sv", es |-> es]

PlainOver(S) == UNION { { SV(Ents(f, D, NodeOrder)) : f \in [D -> S] } : D \in SUBSET Nodes }
\* exactly one entry (of at least two) lacks its sequence number; both encodings orders
NoSeqOver(S) == UNION { UNION { { SV(Ents(f, D, NodeOrder)), SV(Ents(f, D, Rev(NodeOrder))) } :
                                 f \in { g \in [D -> S \cup {NoSeq}] :
                                           Cardinality({ n \in D : g[n] = NoSeq }) = 1 } } :
                        D \in SUBSET Nodes }
\* an entry without node id in front of a plain vector with at most one entry
NoIdOver(S) == UNION { { SV(<<[id |-> ix[1], seq |-> ix[2]]>> \o Ents(f, D, NodeOrder)) : f \in [D -> S] } :
                       D \in { E \in SUBSET Nodes : Cardinality(E) <= 1 },
                       ix \in {<<NoId, NoSeq>>, <<NoId, MaxSeq>>, <<RootId, MaxSeq>>} }
Malformed == { [k |-> kk, es |-> <<>>] : kk \in {"empty", "garbage", "nowrapper", "badname", "unsigned", "seqlen0", "seqlen3"} }

PacketsFull == PlainOver(0..MaxSeq) \cup NoSeqOver(0..MaxSeq) \cup NoIdOver(0..MaxSeq) \cup Malformed
PacketsPlain == PlainOver(0..MaxSeq) \cup Malformed
\* smaller alphabet for the replay graph: plain vectors, and damaged ones over {1, MaxSeq}
PacketsReplay == PlainOver(0..MaxSeq) \cup NoSeqOver({MaxSeq}) \cup NoIdOver({MaxSeq}) \cup Malformed
=============================================================================
