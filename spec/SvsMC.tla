------------------------------ MODULE SvsMC ------------------------------
(* Model-checking front-end of Svs (C18): the finite alphabets of received packets.
   cfg:  Packets <- PacketsFull | PacketsPlain | PacketsReplay | PacketsAgain
         PrePackets <- the same as Packets | PacketsPre                                                 *)
EXTENDS Svs

Ents(f, D, ord) ==
  LET ids == SelectSeq(ord, LAMBDA n : n \in D)
  IN  [i \in 1..Len(ids) |-> [id |-> ids[i], seq |-> f[ids[i]]]]
Rev(s) == [i \in 1..Len(s) |-> s[Len(s) + 1 - i]]
SV(es) == [k |-> "sv", es |-> es]
SVL(es) == [k |-> "svl", es |-> es]

PlainOver(S) == UNION { { SV(Ents(f, D, NodeOrder)) : f \in [D -> S] } : D \in SUBSET Nodes }
\* exactly one entry (of at least two) lacks its sequence number; both encodings orders
NoSeqOver(S) == UNION { UNION { { SV(Ents(f, D, NodeOrder)), SV(Ents(f, D, Rev(NodeOrder))) } :
                                 f \in { g \in [D -> S \cup {NoSeq}] :
                                           Cardinality({ n \in D : g[n] = NoSeq }) = 1 } } :
                        D \in SUBSET Nodes }
\* an entry without node id in front of a plain vector with at most one entry
NoIdOver(S) == UNION { { SV(<<[id |-> ix[1], seq |-> ix[2]]>> \o Ents(f, D, NodeOrder)) : f \in [D -> S] } :
                       D \in { E \in SUBSET Nodes : Cardinality(E) <= 1 },
                       ix \in {<<NoId, NoSeq>>, <<NoId, MaxSeq>>, <<RootId, MaxSeq>>} }
\* a vector that names one node twice, with two different sequence numbers (both orders); between the two
\* entries at most one entry of another node. DupOver: every pair, the other node is the next one in NodeOrder, any value;
\* DupSome: the pair is 0 and MaxSeq, the other node is the next one in NodeOrder and has MaxSeq (only
\* for the own node also without another node)
NextNode(n) == LET i == CHOOSE x \in 1..Len(NodeOrder) : NodeOrder[x] = n IN NodeOrder[(i % Len(NodeOrder)) + 1]
DupPk(n, s1, s2, mid) == SV(<<[id |-> n, seq |-> s1]>> \o mid \o <<[id |-> n, seq |-> s2]>>)
DupOver(S) == UNION { { DupPk(t[1], t[2], t[3], <<>>) } \cup
                      (IF Len(NodeOrder) > 1 THEN { DupPk(t[1], t[2], t[3], <<[id |-> NextNode(t[1]), seq |-> x]>>) : x \in S } ELSE {}) :
                      t \in { u \in Nodes \X S \X S : u[2] # u[3] } }
DupSome == UNION { (IF t[1] = Self \/ Len(NodeOrder) = 1 THEN { DupPk(t[1], t[2], t[3], <<>>) } ELSE {}) \cup
                   (IF Len(NodeOrder) > 1 THEN { DupPk(t[1], t[2], t[3], <<[id |-> NextNode(t[1]), seq |-> MaxSeq]>>) } ELSE {}) :
                   t \in { u \in Nodes \X {0, MaxSeq} \X {0, MaxSeq} : u[2] # u[3] } }
Malformed == { [k |-> kk, es |-> <<>>] : kk \in {"empty", "garbage", "nowrapper", "badname", "unsigned", "seqlen0", "seqlen3", "cut"} }
\* plain non-empty vectors in a non-canonical encoding
LenientOver(S) == UNION { { SVL(Ents(f, D, NodeOrder)) : f \in [D -> S] } : D \in (SUBSET Nodes) \ {{}} }

\* ... about one peer (the last node) / about every node, all at MaxSeq (the own entry over-claims until MaxSeq is reached)
LenientSome == { SVL(Ents([n \in D |-> MaxSeq], D, NodeOrder)) : D \in {{NodeOrder[Len(NodeOrder)]}, Nodes} }

PacketsFull == PlainOver(0..MaxSeq) \cup NoSeqOver(0..MaxSeq) \cup NoIdOver(0..MaxSeq) \cup DupOver(0..MaxSeq) \cup Malformed
               \cup LenientOver(0..MaxSeq)
PacketsPlain == PlainOver(0..MaxSeq) \cup Malformed
\* smaller alphabet for the replay graph: plain vectors, and damaged ones over {1, MaxSeq}
PacketsReplay == PlainOver(0..MaxSeq) \cup NoSeqOver({MaxSeq}) \cup NoIdOver({MaxSeq}) \cup DupSome \cup Malformed
                 \cup LenientSome
\* for the runs with Remember = TRUE (the state space is multiplied by the square of the decodable packets)
PacketsAgain == PlainOver(0..MaxSeq)
\* for PublishThenRecv in the replay graph: what sync_handler does to the pending announcement depends on where it
\* returns (undecodable / over-claiming: at once; accepted: after one of its two timer branches; callback or not)
PacketsPre == PlainOver(0..MaxSeq) \cup Malformed
\* the alphabet without duplicates (spec-level sensitivity runs for the named deviations)
PacketsNoDup == PlainOver(0..MaxSeq) \cup NoSeqOver({MaxSeq}) \cup NoIdOver({MaxSeq}) \cup Malformed
=============================================================================
