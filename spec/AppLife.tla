------------------------------ MODULE AppLife ------------------------------
(* Life cycle of an NDNApp connection (appv2.NDNApp.main_loop / app.NDNApp.main_loop):

     main_loop(after_start):  face.open()  ->  create starting task  ->  face.run()  ->  face.shutdown()
                              -> _clean_up() -> await starting task -> return
     starting task:           for every route declared with route(): register it (one command at a time,
                              result ignored) -> await after_start (an exception there shuts the face down)

   One action = one external stimulus plus everything the library does until it is quiescent again
   (the harness settles the loop and lets a few milliseconds pass after every stimulus), so the
   implementation's await points inside one reaction are not separate actions here; the points
   at which the outside world can interleave (open pending, command outstanding, after_start
   running, face up/down, main task waiting for the starting task) are the values of ml / st.

   What the registration commands look like, their timestamps and the semaphore are NfdReg's
   subject; here a command is just <<connection, route index>>.                                *)
EXTENDS Naturals, Sequences, FiniteSets, TLC

CONSTANTS Front,        \* "v2" | "legacy"
          NRoutes,      \* routes declared with route() before the first connection
          MaxConn,      \* main_loop is called at most this often
          MaxExpress    \* user Interests expressed at most this often

VARIABLES ml,        \* main_loop: "none" | "opening" | "running" | "draining" | "ret"
          res,       \* how the last main_loop ended: "none" | "true" | "false" | "openerr" | "aftererr" | "cancelled" | "runerr"
          want,      \* value main_loop will return once the starting task is finished ("true" | "false")
          face,      \* face.running
          conn,      \* number of main_loop calls so far
          st,        \* starting task: "none" | "reg" | "after" | "done" | "aftererr" | "cancelled"
          regi,      \* route whose command is outstanding while st = "reg"
          cmds,      \* register commands sent so far: sequence of <<connection, route>>
          after,     \* after_start: "absent" | "given" | "started" | "finished" | "raised" | "closed" | "cancelled"
          pend,      \* user Interests pending
          out,       \* outcomes of user Interests so far: [data, cancel, neterr |-> Nat]
          attached   \* routes whose handler is in the prefix table

vars == <<ml, res, want, face, conn, st, regi, cmds, after, pend, out, attached>>

Routes == 1..NRoutes
Legacy == Front = "legacy"
NExp == out.data + out.cancel + out.neterr + pend

Init == /\ ml = "none" /\ res = "none" /\ want = "true" /\ face = FALSE /\ conn = 0
        /\ st = "none" /\ regi = 0 /\ cmds = <<>> /\ after = "absent" /\ pend = 0
        /\ out = [data |-> 0, cancel |-> 0, neterr |-> 0]
        \* appv2.route attaches the handler at once; the legacy front-end attaches it when the
        \* route is registered (set_interest_filter inside register)
        /\ attached = IF Legacy THEN {} ELSE Routes

----------------------------------------------------------------------------
(* pieces of a reaction *)

\* the starting task has no (more) route to register: it goes on to after_start
AfterStep(a) == IF a = "given" THEN [st |-> "after", after |-> "started"]
                              ELSE [st |-> "done", after |-> a]

\* _clean_up: every pending Interest is cancelled; the legacy front-end also forgets every handler
CleanPend == /\ out' = [out EXCEPT !.cancel = @ + pend] /\ pend' = 0
CleanAttached == attached' = IF Legacy THEN {} ELSE attached

\* main_loop got past face.run() (face is down, tables are clean) and now awaits the starting task,
\* whose state after reacting to the same stimulus is s / a; w is what it will return
Drain(s, a, w) ==
    /\ st' = s /\ after' = a /\ regi' = 0 /\ face' = FALSE
    /\ IF s \in {"done", "none"} THEN ml' = "ret" /\ res' = w /\ want' = w
       ELSE IF s = "aftererr" THEN ml' = "ret" /\ res' = "aftererr" /\ want' = w
       ELSE ml' = "draining" /\ res' = res /\ want' = w

----------------------------------------------------------------------------
StartMain(a) ==
    /\ ml \in {"none", "ret"} /\ conn < MaxConn
    /\ st \in {"none", "done", "aftererr", "cancelled"}      \* (the previous starting task is over)
    /\ ml' = "opening" /\ res' = "none" /\ want' = "true" /\ conn' = conn + 1
    /\ st' = "none" /\ regi' = 0 /\ after' = IF a THEN "given" ELSE "absent"
    /\ UNCHANGED <<face, cmds, pend, out, attached>>

OpenFail ==
    /\ ml = "opening"
    /\ ml' = "ret" /\ res' = "openerr"
    /\ after' = IF after = "given" THEN "closed" ELSE after     \* the coroutine is closed, never awaited
    /\ UNCHANGED <<want, face, conn, st, regi, cmds, pend, out, attached>>

OpenOk ==
    /\ ml = "opening"
    /\ ml' = "running" /\ face' = TRUE
    /\ IF NRoutes > 0
       THEN /\ st' = "reg" /\ regi' = 1 /\ cmds' = Append(cmds, <<conn, 1>>) /\ after' = after
            /\ attached' = attached \cup {1}
       ELSE /\ st' = AfterStep(after).st /\ after' = AfterStep(after).after /\ regi' = 0
            /\ UNCHANGED <<cmds, attached>>
    /\ UNCHANGED <<res, want, conn, pend, out>>

\* the forwarder answers the outstanding command (200, an error status, a Nack) or the command times
\* out: whatever the result, the starting task goes on ("errors in prefix registration are ignored")
Reply(kind) ==
    /\ st = "reg" /\ face
    /\ IF regi < NRoutes
       THEN /\ regi' = regi + 1 /\ cmds' = Append(cmds, <<conn, regi + 1>>) /\ st' = st /\ after' = after
            /\ attached' = attached \cup {regi + 1}
       ELSE /\ st' = AfterStep(after).st /\ after' = AfterStep(after).after /\ regi' = 0
            /\ UNCHANGED <<cmds, attached>>
    /\ UNCHANGED <<ml, res, want, face, conn, pend, out>>

AfterFinish ==
    /\ after = "started"
    /\ after' = "finished" /\ st' = "done"
    /\ IF ml = "draining" THEN ml' = "ret" /\ res' = want ELSE UNCHANGED <<ml, res>>
    /\ UNCHANGED <<want, face, conn, regi, cmds, pend, out, attached>>

\* an exception in after_start shuts the face down and ends main_loop with that exception
AfterRaise ==
    /\ after = "started" /\ ml # "ret"          \* (after a transport failure nobody waits for the starting task any more)
    /\ after' = "raised" /\ st' = "aftererr" /\ face' = FALSE
    /\ ml' = "ret" /\ res' = "aftererr"
    /\ IF ml = "running" THEN CleanPend /\ CleanAttached ELSE UNCHANGED <<pend, out, attached>>
    /\ UNCHANGED <<want, conn, regi, cmds>>

\* the connection ends: app.shutdown() ("shutdown"), the peer closes it ("eof": face.run() returns by
\* itself) or the main_loop task is cancelled ("cancel": Ctrl+C); main_loop returns True / True / False.
\* A route registration in progress is abandoned (its command is cancelled with the other pending
\* Interests) and the remaining routes are left for the next connection.
Down(kind) ==
    /\ ml = "running"
    /\ CleanPend /\ CleanAttached
    /\ LET w == IF kind = "cancel" THEN "false" ELSE "true" IN
       IF st = "reg" THEN Drain(AfterStep(after).st, AfterStep(after).after, w)
       ELSE Drain(st, after, w)
    /\ UNCHANGED <<conn, cmds>>

\* the transport fails: face.run() raises (connection aborted, broken pipe, ...). main_loop passes the exception on,
\* but the connection is gone all the same: the face is shut down and everything pending is cancelled. The starting task
\* is not waited for (an after_start that is running goes on by itself).
DownError ==
    /\ ml = "running"
    /\ CleanPend /\ CleanAttached
    /\ face' = FALSE /\ ml' = "ret" /\ res' = "runerr" /\ regi' = 0
    /\ IF st = "reg" THEN st' = AfterStep(after).st /\ after' = AfterStep(after).after
                     ELSE UNCHANGED <<st, after>>
    /\ UNCHANGED <<want, conn, cmds>>

\* the main_loop task is cancelled while it waits for after_start to finish: both end cancelled
CancelDraining ==
    /\ ml = "draining"
    /\ ml' = "ret" /\ res' = "cancelled" /\ st' = "cancelled"
    /\ after' = IF after = "started" THEN "cancelled" ELSE after
    /\ UNCHANGED <<want, face, conn, regi, cmds, pend, out, attached>>

\* a user Interest: refused with NetworkError unless the face is up
Express ==
    /\ NExp < MaxExpress
    /\ IF face THEN pend' = pend + 1 /\ out' = out
               ELSE pend' = pend /\ out' = [out EXCEPT !.neterr = @ + 1]
    /\ UNCHANGED <<ml, res, want, face, conn, st, regi, cmds, after, attached>>

Satisfy ==
    /\ pend > 0 /\ face
    /\ pend' = pend - 1 /\ out' = [out EXCEPT !.data = @ + 1]
    /\ UNCHANGED <<ml, res, want, face, conn, st, regi, cmds, after, attached>>

Next == \/ \E a \in BOOLEAN : StartMain(a)
        \/ OpenFail \/ OpenOk
        \/ \E k \in {"ok", "fail", "nack", "timeout"} : Reply(k)
        \/ AfterFinish \/ AfterRaise
        \/ \E k \in {"shutdown", "eof", "cancel"} : Down(k)
        \/ CancelDraining \/ DownError
        \/ Express \/ Satisfy

Spec == Init /\ [][Next]_vars
FairSpec == Spec /\ WF_vars(OpenOk) /\ WF_vars(Reply("ok")) /\ WF_vars(AfterFinish) /\ WF_vars(Down("shutdown"))

----------------------------------------------------------------------------
TypeOK ==
    /\ ml \in {"none", "opening", "running", "draining", "ret"}
    /\ res \in {"none", "true", "false", "openerr", "aftererr", "cancelled", "runerr"}
    /\ want \in {"true", "false"} /\ face \in BOOLEAN /\ conn \in 0..MaxConn
    /\ st \in {"none", "reg", "after", "done", "aftererr", "cancelled"}
    /\ regi \in 0..NRoutes /\ pend \in 0..MaxExpress
    /\ after \in {"absent", "given", "started", "finished", "raised", "closed", "cancelled"}
    /\ attached \subseteq Routes

\* the face is up exactly while main_loop sits in face.run()
FaceIffRunning == face <=> ml = "running"
\* nothing stays pending once the connection is gone, and nothing new is accepted
NoPendingWhenDown == ~face => pend = 0
\* when main_loop has returned the starting task is over as well
ReturnedMeansQuiet == (ml = "ret" /\ res # "runerr") => st \in {"none", "done", "aftererr", "cancelled"}
\* routes are registered in declaration order, each at most once per connection ...
CmdsOf(c) == SelectSeq(cmds, LAMBDA x : x[1] = c)
OncePerConnection ==
    \A c \in 1..conn : LET s == CmdsOf(c) IN \A i \in 1..Len(s) : s[i][2] = i
\* ... and all of them before after_start begins, which is only ever started on a completed list
AfterStartAfterRoutes ==
    (after \in {"started", "finished", "raised", "cancelled"} /\ want = "true" /\ face)
        => Len(CmdsOf(conn)) = NRoutes
\* after_start is closed unawaited exactly when the connection could not be opened
ClosedIffOpenFailed == (after = "closed") => res = "openerr"
\* a handler is present for every route that was registered on this connection (both front-ends);
\* appv2 keeps all handlers over reconnects
HandlersPresent ==
    /\ face => \A i \in 1..Len(CmdsOf(conn)) : i \in attached
    /\ ~Legacy => attached = Routes
\* results
ResultOk ==
    /\ res = "true" => ml = "ret" /\ ~face
    /\ res = "aftererr" => after = "raised"
    /\ res = "openerr" => ~face

\* liveness (FairSpec): a started main_loop that is shut down returns
Returns == (ml = "opening") ~> (ml = "ret")

\* witnesses (must be violated: the situations exist in the bounded model)
W_ReconnectAfterAbandon == ~(conn = 2 /\ Len(CmdsOf(1)) < NRoutes /\ Len(CmdsOf(2)) = NRoutes /\ NRoutes > 1)
W_AfterOnDownFace == ~(after = "started" /\ ~face)
W_CancelledDraining == res # "cancelled"
W_ExpressRefused == out.neterr = 0
W_CancelledAtShutdown == out.cancel = 0
=============================================================================
