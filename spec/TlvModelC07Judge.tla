-------------------------- MODULE TlvModelC07Judge --------------------------
(* C07 stage C (code -> spec): byte strings (every single-byte substitution, truncation and
   TLV-structural edit of valid packets, random strings) are classified by the harness' strict
   reader into the abstract element tree of the packet's value (with `fits` flags for elements
   that overrun their parent or whose header is cut), run through the real decoder, and judged
   here: the decoder must accept exactly when the reference machine accepts, and then return the
   fields of Extract.  One NDJSON record per input:
     [id, pk, must, outer : "ok" | "trunc" | "badtype" | "badlen", input : elements, got : "accept"|"reject"|"error:<cls>",
      out : projection of what the decoder returned (aligned with the packet schema; comps for a name),
      ptr : [dvb, scn, scr, dcr] the SignaturePtrs it returned (TlvModelPackets.Ptrs),
      hist : "" | the name of the HISTORY under which the observation was made]
   For a mismatch TLC prints <<"V", id, <<tag>>>> with tag = "<want>/<why>/<got>".
   HISTORIES.  The reference machine starts every packet from InitSt: no variable survives a packet, so
   Expect is a function of (pk, outer, input) alone and never looks at hist.  The harness therefore also
   records observations made by FRESH interpreters that met their inputs in other orders (hist = "adverse":
   the mutants first, the well-formed packets last) - a decoder that remembers anything across calls answers
   differently there.  Such records are judged by the same Expect; their tag is prefixed "history:<hist>|". *)
EXTENDS TlvModelPackets, Json, IOUtils

Recs == ndJsonDeserialize(IOEnv.JUDGE_IN)

\* decoder-level normalisations of the generic machine output
NormFh(fv)   == IF fv.k = "model" /\ fv.v[1].items = <<>> THEN None ELSE fv      \* parse_interest: hint list
NormMeta(fv) == IF fv.k = "none" THEN [k |-> "model", v |-> <<[k |-> "uint", n |-> <<>>], None, None>>] ELSE fv  \* parse_data: MetaInfo() default, ContentType BLOB
Norm(pk, out) == CASE pk \in {"interest", "interest2017"} -> [out EXCEPT ![4] = NormFh(@)]
                   [] pk = "data" -> [out EXCEPT ![2] = NormMeta(@)]     \* (the 2017 parse_data returns None for an absent MetaInfo)
                   [] pk = "lp.legacy" -> LpLegacyOut(out)
                   [] pk = "lp.nack" -> NetNackOut(out)
                   [] OTHER -> out

Expect(r) ==
  IF r.outer # "ok" THEN [v |-> "reject", why |-> "outer-" \o r.outer, out |-> <<>>]
  ELSE IF r.pk = "name" THEN
       LET p == ParseValue(FName("name", N(7)), Node(N(7), r.input)) IN
       IF p.ok THEN [v |-> "accept", why |-> "", out |-> p.fv.comps] ELSE [v |-> "reject", why |-> p.why, out |-> <<>>]
  ELSE LET st == RunScan(SchemaOfPk(r.pk), IcOfPk(r.pk), r.input) IN
       IF Verdict(r.pk, st) = "accept" THEN [v |-> "accept", why |-> "", out |-> Norm(r.pk, st.out)]
       ELSE [v |-> "reject", why |-> Why(r.pk, st), out |-> <<>>]

\* derived pointers (SignaturePtrs) of an accepted Interest / Data: r.ptr = what the decoder returned
ExpectPtrs(r) == IF r.pk \in {"interest", "data", "interest2017", "data2017"}
                 THEN Ptrs(r.pk, r.input, RunScan(SchemaOfPk(r.pk), IcOfPk(r.pk), r.input))
                 ELSE Ptrs("none", <<>>, <<>>)
\* r.must = "accept": an unmutated hand-written corpus packet; the reference itself must accept it (else the
\* corpus is dead: nothing below the rejected element would ever be decided)
Tags(r) == LET e == Expect(r)
               h == IF r.hist = "" THEN "" ELSE "history:" \o r.hist \o "|"
           IN
           IF r.must = "accept" /\ e.v # "accept" THEN <<h \o "CORPUS-DEAD/" \o e.why \o "/" \o r.got>>
           ELSE IF e.v # r.got THEN <<h \o e.v \o "/" \o e.why \o "/" \o r.got>>
           ELSE IF e.v = "accept" /\ e.out # r.out THEN <<h \o e.v \o "/fields-differ/" \o r.got>>
           ELSE IF e.v = "accept" /\ ~PtrsOk(ExpectPtrs(r), r.ptr) THEN <<h \o e.v \o "/pointers-differ/" \o r.got>>
           ELSE <<>>

ASSUME \A i \in 1 .. Len(Recs) :
          LET t == Tags(Recs[i]) IN t = <<>> \/ PrintT(<<"V", Recs[i].id, t>>)
ASSUME PrintT(<<"JUDGED", Len(Recs)>>)

VARIABLE dummy
Init == dummy = 0
Next == UNCHANGED dummy
=============================================================================
