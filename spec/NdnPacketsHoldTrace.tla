-------------------------- MODULE NdnPacketsHoldTrace --------------------------
(* Histories recorded from the real make_* / parse_* with everything they returned kept alive.
   event: [a |-> "Make", kind, meta] | [a |-> "Parse", i] | [a |-> "Edit", j], each with
   wsame / osame: for every held wire / parse result, does it still read as it should
   (wire: the bytes it had when returned; parse result: the values it had, or the caller's edits).     *)
EXTENDS NdnPacketsHold, Json, IOUtils, TLCExt
Traces == ndJsonDeserialize(IOEnv.TRACE_FILE)
VARIABLES tid, l
tvars == <<vars, tid, l>>
Tr == Traces[tid].ev
Max2(a, b) == IF a > b THEN a ELSE b
TInit == tid \in 1..Len(Traces) /\ l = 1 /\ Init /\ TLCSet(tid, 1)
Ev(a) == l <= Len(Tr) /\ Tr[l].a = a /\ l' = l + 1 /\ UNCHANGED tid
Seen == /\ Len(Tr[l].wsame) = Len(wires') /\ \A i \in 1..Len(wires') : Tr[l].wsame[i] = (wires'[i].now = wires'[i].made)
        /\ Len(Tr[l].osame) = Len(objs') /\ \A j \in 1..Len(objs') : Tr[l].osame[j] = (objs'[j].now = objs'[j].want)
TMake == Ev("Make") /\ Make(Tr[l].kind, Tr[l].meta) /\ Seen
TParse == Ev("Parse") /\ Parse(Tr[l].i) /\ Seen
TEdit == Ev("Edit") /\ Edit(Tr[l].j) /\ Seen
TSpec == TInit /\ [][TMake \/ TParse \/ TEdit]_tvars
Mark == TLCSet(tid, Max2(TLCGet(tid), l))
Post == \A i \in 1..Len(Traces) : TLCGet(i) = Len(Traces[i].ev) + 1 \/ PrintT(<<"REJECTED", i, TLCGet(i)>>)
=============================================================================
