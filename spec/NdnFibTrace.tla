---------------------------- MODULE NdnFibTrace ----------------------------
(* Trace validation for NdnFib (producer side). *)
EXTENDS NdnFib, Json, IOUtils, TLCExt

\* the parsed trace file is kept in a TLC register: as a plain definition TLC re-evaluates (re-parses) it at every use
TraceReg == 1000000
ASSUME TLCSet(TraceReg, ndJsonDeserialize(IOEnv.TRACE_FILE))
Traces == TLCGet(TraceReg)
VARIABLES tid, l
tvars == <<vars, tid, l>>

Tr == Traces[tid].ev
Max2(a, b) == IF a > b THEN a ELSE b
SeqToSet(s) == { s[i] : i \in 1..Len(s) }

TrNames == { <<>>, <<"a">>, <<"a", "b">>, <<"a", "b", "c">>, <<"a", "c">>, <<"b">>, <<"a", "b", "d">>, <<"b", "a">>,
             \* long histories: prefixes four to six components deep
             <<"a", "b", "d", "e">>, <<"a", "b", "d", "e", "f">>, <<"a", "b", "d", "e", "f", "g">>, <<"b", "a", "e", "f">> }
TrHandlers == 1..64
TrNone == {}
TrVerdicts == {"PASS", "FAIL", "TIMEOUT", "SILENCE", "BYPASS", "T", "F", "RAISE"}
TrReprs == {"uri", "strlist", "byteslist", "bytearraylist", "memviewlist", "wire", "wirebuf", "mutbuf"}
TrEnvs == {"bare", "lp", "lph", "lpo"}
TrJunk == {"junk"}

TInit == /\ tid \in 1..Len(Traces)
         /\ l = 1
         /\ Init
         /\ TLCSet(tid, 1)

Ev(a) == l <= Len(Tr) /\ Tr[l].a = a /\ l' = l + 1 /\ UNCHANGED tid

StartedVal == { i \in IntId : ints[i].st # "val" /\ ints'[i].st = "val" }
PostOk == LET p == Tr[l].post IN
  /\ p.bg = 0
  /\ now' = p.now
  /\ up' = p.up
  /\ handled' = p.handled
  /\ wire' = p.wire
  /\ rets' = p.rets
  /\ Cardinality({ n \in Names : fib'[n].h # 0 }) = p.natt
  /\ StartedVal = SeqToSet(p.vnew)

TAttach == Ev("Attach") /\ ~Tr[l].raised /\ Attach(Tr[l].n, Tr[l].h, Tr[l].val, Tr[l].repr) /\ PostOk
TAttachDup == Ev("AttachDup") /\ Tr[l].raised /\ AttachDup(Tr[l].n, Tr[l].h, Tr[l].repr) /\ PostOk
TDetach == Ev("Detach") /\ Detach(Tr[l].n) /\ PostOk
TRecvInterest == Ev("RecvInterest") /\ RecvInterest(Tr[l].it, Tr[l].env) /\ PostOk
TIntValFinish == Ev("IntValFinish") /\ IntValFinish(Tr[l].i, Tr[l].v) /\ PostOk
TReply == Ev("Reply") /\ Reply(Tr[l].i) /\ PostOk
TTick == Ev("Tick") /\ Tick /\ PostOk
TJump == Ev("Jump") /\ Jump(Tr[l].to) /\ PostOk
TShutdown == Ev("Shutdown") /\ Shutdown /\ PostOk
TConnect == Ev("Connect") /\ Connect /\ PostOk
TRecvJunk == Ev("RecvJunk") /\ RecvJunk("junk") /\ PostOk

TNext == \/ TAttach \/ TAttachDup \/ TDetach \/ TRecvInterest \/ TIntValFinish \/ TReply
         \/ TTick \/ TJump \/ TShutdown \/ TConnect \/ TRecvJunk
TSpec == TInit /\ [][TNext]_tvars

Mark == TLCSet(tid, Max2(TLCGet(tid), l))
Post == \A i \in 1..Len(Traces) :
          \/ TLCGet(i) = Len(Traces[i].ev) + 1
          \/ PrintT(<<"REJECTED", i, TLCGet(i)>>)
=============================================================================
