----------------------------- MODULE CertTimeZoneMC -----------------------------
(* Stage A for the zone oracle: for every known zone and every year of Years TLC walks, in quarter hours, the
   instants from four hours before to four hours after each change of the zone's clock and checks the laws that make
   "the instant a zone-aware datetime denotes" well defined:
     InvRound     reading an instant on the zone's clock and interpreting that reading (with its fold) gives the instant back
     InvTwoPasses an instant of the second pass has a twin one step earlier with the same reading and fold = 0: two
                  DIFFERENT instants share all wall-clock fields (so nothing keyed by those fields may stand for the instant)
     InvFoldOnly  fold is irrelevant exactly outside repeated intervals and gaps
     InvGap       a reading inside a gap is shown at no instant; its two folds denote instants one step apart
     InvOffset    the offset is one of the zone's two, changes at the change only, and the change falls on a local Sunday       *)
EXTENDS CertTimeZone, TLC
CONSTANTS Years

VARIABLES zn, y, k, q
vars == <<zn, y, k, q>>
Quarters == 16
ZZ == ZoneOf(zn)
Tk == Transitions(ZZ, y)[k]
Cur == IF q >= 0 THEN AddSec(Tk.at, q * 900) ELSE Shift(Tk.at, q * 900)
Init == zn \in KnownZones /\ y \in Years /\ k \in 1..2 /\ q = 0 - Quarters
Next == q < Quarters /\ q' = q + 1 /\ UNCHANGED <<zn, y, k>>
Spec == Init /\ [][Next]_vars

Step == (IF Tk.before > Tk.after THEN Tk.before - Tk.after ELSE Tk.after - Tk.before) * 60
W == WallOf(ZZ, Cur)
InvRound == InstOf(ZZ, W.w, W.fold) = Cur
InvTwoPasses == W.fold = 1 => LET twin == Shift(Cur, 0 - Step) IN
                              /\ WallOf(ZZ, twin) = [w |-> W.w, fold |-> 0] /\ twin # Cur
                              /\ Render(twin) # Render(Cur) /\ Ambiguous(ZZ, W.w)
InvFoldOnly == FoldMatters(ZZ, W.w) <=> (Tk.after < Tk.before /\ ~InstLess(Cur, Shift(Tk.at, 0 - Step)) /\ InstLess(Cur, Shift(Tk.at, Step)))
\* the reading that a clock which did NOT change would show at Cur
Unchanged == Shift(Cur, Tk.before * 60)
InvGap == (Tk.after > Tk.before /\ ~InstLess(Cur, Tk.at) /\ InstLess(Cur, Shift(Tk.at, Step))) =>
             /\ InGap(ZZ, Unchanged) /\ InstOf(ZZ, Unchanged, 0) = Cur /\ InstOf(ZZ, Unchanged, 1) = Shift(Cur, 0 - Step)
             /\ WallOf(ZZ, InstOf(ZZ, Unchanged, 1)).w # Unchanged
InvOffset == /\ OffsetAt(ZZ, Cur) \in {ZZ.std, ZZ.dst}
             /\ OffsetAt(ZZ, Cur) = (IF InstLess(Cur, Tk.at) THEN Tk.before ELSE Tk.after)
             /\ Weekday(Shift(Tk.at, Tk.before * 60).d) = 0          \* every rule changes the clock on a Sunday of the local calendar
\* vacuity (evaluated when the run starts; a false ASSUME fails the run): every zone has, in every year walked, a reading that is
\* shown twice and one that is never shown, and one zone's step is not a whole hour
ASSUME \A name \in KnownZones : \A yy \in Years : \E k1, k2 \in 1..2 :
          LET t == Transitions(ZoneOf(name), yy) IN /\ Ambiguous(ZoneOf(name), Shift(t[k1].at, t[k1].after * 60))
                                                    /\ InGap(ZoneOf(name), Shift(t[k2].at, t[k2].before * 60))
ASSUME \E name \in KnownZones : ZoneOf(name).dst - ZoneOf(name).std = 30
=============================================================================
