---------------------------- MODULE NfdRegTrace ----------------------------
(* Trace validation for C17. A trace is what the harness did to one application instance
   (Connect / Call / Tick / Pass (1 ms passes) / FwdReply / Disconnect / Cancel (task.cancel() on the task of a
   call in progress), each with the tick bit d)
   and, after the loop went quiescent, the projection it observed:
       post.cmds = command Interests found on the wire so far, decoded by the strict reader
       post.res  = return value of every call ("T" | "F" | "exc" | "none")
   The segments of register()/unregister() (Internal) are not observed: TLC looks for them.
   A trace is accepted if some behaviour of NfdReg (with the deviations in Allowed available)
   reproduces every observation; for every accepted end state the deviations taken and the
   property clauses violated are printed, the harness reports those common to all explanations. *)
EXTENDS NfdReg, Json, IOUtils, TLCExt

Traces == ndJsonDeserialize(IOEnv.TRACE_FILE)
VARIABLES tid, l, ph
tvars == <<vars, tid, l, ph>>

Tr == Traces[tid].ev
Max2(a, b) == IF a > b THEN a ELSE b

TInit == /\ tid \in 1..Len(Traces)
         /\ l = 1 /\ ph = "env"
         /\ Init
         /\ TLCSet(tid, 1)

ResStr(r) == IF r.k = "none" THEN "none" ELSE IF r.k = "raised" THEN "exc" ELSE IF r.k = "cancelled" THEN "canc"
             ELSE IF r.v THEN "T" ELSE "F"

PostOk(p) ==
  /\ Len(cmds) = Len(p.cmds)
  /\ \A i \in 1..Len(cmds) : cmds[i].verb = p.cmds[i].v /\ cmds[i].prefix = p.cmds[i].p /\ cmds[i].ts = p.cmds[i].ts
  /\ \A c \in 1..(NCalls - nauto) : ResStr(result[c]) = p.res[c]

\* 1 ms passes (plus the tick d of the run) with nobody sleeping: only the clock moves
PassIdle(d, adv) ==
  /\ Quiescent /\ clock' = clock + adv + d
  /\ UNCHANGED <<pend, up, conn, autoQ, autoCall, nauto, pc, vb, pf, wf, g, tries, late, sem, semQ, lastTs, cmds, replies, fin, result,
                 filt, running, dev, nodev>>
  /\ Track

Stim(e) ==
  CASE e.a = "Call" -> Call(e.c, e.v, e.p, e.w, e.d)
    [] e.a = "Tick" -> Tick
    [] e.a = "Pass" -> IF \E c \in Calls : pc[c] = "sleeping" THEN \E c \in Calls : Wake(c, e.d, e.adv) ELSE PassIdle(e.d, e.adv)
    [] e.a = "Declare" -> DeclareRoute(e.r, e.d)
    \* the harness answers the e.i-th command on the wire; whether its call still waits for the answer is for TLC to
    \* find out: the answer to a command whose call was cancelled is a LateReply
    [] e.a = "FwdReply" -> /\ e.i \in 1..Len(cmds)
                           /\ IF pc[cmds[e.i].call] = "cancelled" THEN e.k \in DataKinds \cup {"nack"} /\ LateReply(cmds[e.i].call, e.d)
                                                                  ELSE FwdReply(cmds[e.i].call, e.k, e.b, e.d)
    \* where the call is suspended is not observed: one of CancelWaiting / CancelSleeping / CancelSent explains it
    [] e.a = "Cancel" -> CancelCall(e.c, e.d)
    [] e.a = "Connect" -> Connect(e.d)
    [] e.a = "Disconnect" -> Disconnect
    [] OTHER -> FALSE

TEnv == /\ ph = "env" /\ l <= Len(Tr)
        /\ Stim(Tr[l])
        /\ ph' = "run" /\ UNCHANGED <<tid, l>>
TInt == /\ ph = "run"
        /\ Internal
        /\ UNCHANGED <<tid, l, ph>>
TObs == /\ ph = "run" /\ Quiescent
        /\ PostOk(Tr[l].post)
        /\ l' = l + 1 /\ ph' = "env"
        /\ UNCHANGED <<vars, tid>>

TNext == TEnv \/ TInt \/ TObs
TSpec == TInit /\ [][TNext]_tvars

Mark == /\ TLCSet(tid, Max2(TLCGet(tid), l))
        /\ (l = Len(Tr) + 1 => PrintT(<<"END", tid, dev, bad>>))
Post == \A i \in 1..Len(Traces) :
          \/ TLCGet(i) = Len(Traces[i].ev) + 1
          \/ PrintT(<<"REJECTED", i, TLCGet(i)>>)
=============================================================================
