SPECIFICATION TSpec
CONSTANTS NCert = 8 MaxSteps = 64 MaxHandles = 64 Dev = "none" Bufs = {"returned", "bytes", "copy", "bytearray", "memoryview"}
CONSTRAINT Mark
POSTCONDITION Post
CHECK_DEADLOCK FALSE
