-------------------------- MODULE SegFetchTrace --------------------------
(* Trace validation for C19: executions recorded from the real segment_fetcher
   (events = observed Interests on the face and the responses the harness gave)
   must be behaviours of SegFetch, with the recorded projection after every event. *)
EXTENDS SegFetch, Json, IOUtils, TLCExt

\* the parsed trace file is kept in a TLC register: as a plain definition TLC re-evaluates (re-parses) it at every use
TraceReg == 1000000
ASSUME TLCSet(TraceReg, ndJsonDeserialize(IOEnv.TRACE_FILE))
Traces == TLCGet(TraceReg)
VARIABLES tid, l
tvars == <<vars, tid, l>>

Tr == Traces[tid].ev
Max2(a, b) == IF a > b THEN a ELSE b

TInit == /\ tid \in 1..Len(Traces)
         /\ l = 1
         /\ InitWith(Traces[tid].cfg)
         /\ TLCSet(tid, 1)

Ev(a) == l <= Len(Tr) /\ Tr[l].a = a /\ l' = l + 1 /\ UNCHANGED tid
PostOk == LET p == Tr[l].post IN
            /\ yielded' = p.yielded
            /\ Len(sent') = p.nsent
            /\ err' = p.err
            /\ (p.fin => pc' \in {"done", "fail"})
            /\ (~p.fin => pc' \in {"req", "wait"})
            /\ ((p.fin /\ p.err = "none") => pc' = "done")

TSend == /\ Ev("Send") /\ Send
         /\ sent'[Len(sent')].t = Tr[l].t /\ sent'[Len(sent')].cbp = Tr[l].cbp
         /\ PostOk
TData == Ev("RespData") /\ RespData /\ PostOk
TLost == Ev("RespLost") /\ RespLost /\ PostOk
TNack == Ev("RespNack") /\ RespNack /\ PostOk
TVFail == Ev("RespVFail") /\ RespVFail /\ PostOk

TLate == Ev("RespDataLate") /\ Exists(target) /\ RespDataLate /\ PostOk

TNext == TSend \/ TData \/ TLost \/ TNack \/ TVFail \/ TLate
TSpec == TInit /\ [][TNext]_tvars

Mark == TLCSet(tid, Max2(TLCGet(tid), l))
Post == \A i \in 1..Len(Traces) :
          \/ TLCGet(i) = Len(Traces[i].ev) + 1
          \/ PrintT(<<"REJECTED", i, TLCGet(i)>>)
=============================================================================
