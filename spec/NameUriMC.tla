----------------------------- MODULE NameUriMC -----------------------------
(* C09 stage A (laws on the reference) and stage B source (one implementation test per
   enumerated state).  One state = one input: TLC enumerates the whole bounded domain as
   initial states and evaluates the laws as invariants on each.

   Mode "comp": x = a component      (all of Comps)
   Mode "name": x = a name of 0..3 components over R (NR reduced components)
   Mode "pair": x = <<a, b>>, names of 0..3 components over Q (NQ components), all pairs
   Mode "ord":  x = <<c, d>>, components around the 1-/3-byte TLV length and type boundaries

   Stage B replays into the library what the reference computed for every input: for "comp" and
   "name" the record `out` of each ph = 1 state (read from TLC's -dump), for "pair"/"ord" one record
   with the domain sorted by the reference order (POSTCONDITION, env C09_OUT).  Numbers are all
   < 2^16; texts and byte strings are sequences of 0..255. *)
EXTENDS NameUri, Json, IOUtils
CONSTANTS Mode, NR, NQ
VARIABLES x, ph, out

SX == INSTANCE SequencesExt

Rep(b, n) == [i \in 1..n |-> b]
Types == {1, 2, 8, 9, 32, 50, 52, 54, 56, 58, 252, 253, 65535}
Alpha12 == {0, 32, 37, 46, 47, 61, 65, 102, 126, 127, 128, 255}
\* canonical encodings of 0, 255, 256, 65535, 65536, 2^32-1, 2^32, 2^64-1
NumVals == {<<0>>, <<255>>, <<1, 0>>, <<255, 255>>, <<0, 1, 0, 0>>, Rep(255, 4),
            <<0, 0, 0, 1, 0, 0, 0, 0>>, Rep(255, 8)}
\* values of a width that is not a canonical number (no shorthand may be used for them)
OddVals == {<<1, 2, 3>>, <<0, 0, 0, 0, 0, 0, 0, 1>>, Rep(1, 9), <<0, 0, 0, 7>>}
Digest32 == [i \in 1..32 |-> (i * 37) % 256]
\* well-formed UTF-8 text with non-ASCII characters (given raw in URI text by the "rawU" form): e-acute, Cyrillic
\* "Алек", "Bölter", "x²" (superscript digit), Arabic-Indic digit three, "e" + combining acute, CJK, an emoji
\* (4 bytes), "Σπ", and text that also holds '/', '%', '=' and a space
Utf8Vals == {<<195, 169>>, <<208, 144, 208, 187, 208, 181, 208, 186>>, <<66, 195, 182, 108, 116, 101, 114>>,
             <<120, 194, 178>>, <<217, 163>>, <<101, 204, 129>>, <<229, 144, 141>>, <<240, 159, 152, 128>>,
             <<206, 163, 207, 128>>, <<97, 47, 195, 169, 37, 61, 32, 208, 176>>}
\* values whose BYTES look like percent escapes ("%41", "%2F", "%2f", "%zz", "%25", "a%41b"): a parser that unescapes
\* twice, or a printer that leaves '%' alone, changes them
PctLikeVals == {<<37, 52, 49>>, <<37, 50, 70>>, <<37, 50, 102>>, <<37, 122, 122>>, <<37, 50, 53>>, <<97, 37, 52, 49, 98>>}
Vals == {<<b>> : b \in 0..255} \cup {<<a, b>> : a, b \in Alpha12} \cup {<<>>}
        \cup NumVals \cup OddVals \cup {Digest32} \cup Utf8Vals \cup PctLikeVals
Comps == {Comp(t, v) : t \in Types, v \in Vals}

RFull == << Comp(8, <<>>), Comp(8, <<97>>), Comp(8, <<47>>), Comp(8, <<37>>), Comp(8, <<61>>),
            Comp(8, <<46>>), Comp(32, <<>>), Comp(1, Digest32), Comp(50, <<1, 0>>), Comp(253, <<97>>),
            Comp(8, <<208, 144, 208, 187>>), Comp(8, <<120, 194, 178>>),
            Comp(8, <<46, 46>>), Comp(50, <<0, 1>>), Comp(8, <<255>>), Comp(65535, <<>>), Comp(2, <<171, 205>>),
            Comp(54, Rep(255, 8)), Comp(8, <<32>>), Comp(8, <<0>>), Comp(50, <<>>), Comp(9, <<65, 61, 66>>),
            Comp(56, <<0, 0, 0, 1, 0, 0, 0, 0>>), Comp(58, <<7>>), Comp(252, <<97>>), Comp(253, <<>>),
            Comp(65535, <<61>>), Comp(52, <<1, 2, 3>>), Comp(1, <<>>), Comp(32, <<97, 47, 98>>),
            Comp(8, <<195, 169>>), Comp(8, <<115, 101, 103, 61, 49>>) >>
QFull == << Comp(8, <<>>), Comp(8, <<98>>), Comp(8, <<97, 97>>), Comp(253, <<97>>),
            Comp(1, <<255>>), Comp(8, <<97>>), Comp(65535, <<>>) >>
NamesOver(C) == {<<>>} \cup {<<a>> : a \in C} \cup {<<a, b>> : a, b \in C} \cup {<<a, b, c>> : a, b, c \in C}
R == {RFull[i] : i \in 1..NR}
Q == {QFull[i] : i \in 1..NQ}
RNames == NamesOver(R)
QNames == NamesOver(Q)

TweakLast(v) == [v EXCEPT ![Len(v)] = 1]
OrdVals == {<<>>, <<0>>, <<255>>, <<0, 0>>, <<255, 255>>, <<0, 255>>,
            Rep(0, 252), Rep(255, 252), Rep(0, 253), TweakLast(Rep(0, 253)), Rep(255, 253), Rep(0, 256)}
OrdComps == {Comp(t, v) : t \in {1, 8, 252, 253, 65535}, v \in OrdVals}

Domain == CASE Mode = "comp" -> Comps
            [] Mode = "name" -> RNames
            [] Mode = "pair" -> QNames \X QNames
            [] Mode = "ord"  -> OrdComps \X OrdComps
\* what stage B replays into the library for one input (computed by the workers, read back from -dump)
\* dec: decimal text of the big-endian number the value holds (what Component.to_number must return), typed-number types
CompRec(c) == [t |-> c.t, v |-> c.v, enc |-> Enc(c), forms |-> CompForms(c),
               dec |-> IF c.t \in AltTypes THEN NumToDec(c.v) ELSE <<>>]
NameRec(n) == [n |-> n, encs |-> EncList(n), wire |-> EncName(n), forms |-> NameForms(n),
               parts |-> [k \in {"canonU", "canonL", "short", "raw", "rawU"} |-> [i \in 1..Len(n) |-> FormOf(n[i], k)]]]
Rec(v) == CASE Mode = "comp" -> CompRec(v) [] Mode = "name" -> NameRec(v) [] OTHER -> <<>>

\* TLC evaluates invariants on initial states in one thread; the laws are therefore evaluated on the
\* successor (ph = 1) of every input so that the workers share them.  distinct states = 2 x inputs.
Init == x \in Domain /\ ph = 0 /\ out = <<>>
Next == ph = 0 /\ ph' = 1 /\ x' = x /\ out' = Rec(x)
Spec == Init /\ [][Next]_<<x, ph, out>>

\* ------------------------------------------------------------------ laws: component
I_CompShort == ph = 1 => (UriToComp(CompToUri(x)) = x)
I_CompCanon == ph = 1 => (UriToComp(Canonical(x)) = x)
I_CanonNoShorthand == ph = 1 => (~HasShorthand(Canonical(x)))
I_CompForms == ph = 1 => (\A f \in out.forms :
                 /\ UriToComp(EscapeText(f.s)) = x
                 /\ (f.k \notin {"raw", "rawU"} => EscapeText(f.s) = f.s))      \* only the raw forms need escaping
I_ShorthandOnlyCanonNumbers == ph = 1 => ((x.t \in AltTypes /\ HasShorthand(CompToUri(x))) => IsCanonNum(x.v))

\* ------------------------------------------------------------------ laws: name
I_NameShort == ph = 1 => (UriToName(NameToUri(x)) = x)
I_NameCanon == ph = 1 => (UriToName(CanonicalName(x)) = x)
I_NameCanonNoShorthand == ph = 1 => (LET ps == Split(CanonicalName(x)) IN \A i \in 1..Len(ps) : ~HasShorthand(ps[i]))
I_NameForms == ph = 1 => (\A f \in out.forms : UriToName(f.s) = x)
I_Wire == ph = 1 => (WireToName(out.wire) = x)

\* ------------------------------------------------------------------ laws: pairs
I_NameOrder == ph = 1 => (LET a == x[1]  b == x[2] IN
                 /\ BytesLess(EncNameValue(a), EncNameValue(b)) <=> NameLess(a, b)
                 /\ ListLess(EncList(a), EncList(b)) <=> NameLess(a, b))
B2N(p) == IF p THEN 1 ELSE 0
I_Trichotomy == ph = 1 => (B2N(NameLess(x[1], x[2])) + B2N(x[1] = x[2]) + B2N(NameLess(x[2], x[1])) = 1)
I_Prefix == ph = 1 => (IsPrefix(x[1], x[2]) <=> PrefixByComponents(x[1], x[2]))
I_PrefixOrder == ph = 1 => ((IsPrefix(x[1], x[2]) /\ x[1] # x[2]) => NameLess(x[1], x[2]))

I_CompOrder == ph = 1 => (BytesLess(Enc(x[1]), Enc(x[2])) <=> CompLess(x[1], x[2]))
I_CompTrichotomy == ph = 1 => (B2N(CompLess(x[1], x[2])) + B2N(x[1] = x[2]) + B2N(CompLess(x[2], x[1])) = 1)

\* ------------------------------------------------------------------ stage B emission
\* (pair / ord: one record, written by the POSTCONDITION when env C09_OUT is set)
FormSeq(S) == SX!SetToSeq(S)
SortedNames == SX!SetToSortSeq(QNames, NameLess)
PairRec == [names |-> SortedNames,
            prefix |-> [i \in 1..Len(SortedNames) |->
                          FormSeq({j \in 1..Len(SortedNames) : IsPrefix(SortedNames[i], SortedNames[j])})]]
OrdRec == [comps |-> SX!SetToSortSeq(OrdComps, CompLess)]
Out == IOEnv.C09_OUT
\* vacuity: the situations the laws talk about occur in the enumerated domain
Witnesses ==
  CASE Mode = "comp" -> /\ \E c \in Comps : HasShorthand(CompToUri(c)) /\ c.t \in AltTypes /\ c.v = Rep(255, 8)
                        /\ \E c \in Comps : c.t \in AltTypes /\ ~IsCanonNum(c.v)        \* no shorthand allowed
                        /\ \E c \in Comps : c.t = 8 /\ \E i \in 1..Len(c.v) : ~Literal(c.v[i])
                        /\ \E c \in Comps : "rawU" \in StylesOf(c) /\ Len(c.v) = 4 /\ c.v[1] = 240   \* raw 4-byte character
                        /\ \E c \in Comps : HasNonAscii(c.v) /\ ~IsUtf8(c.v)                        \* bytes that are not text
    [] Mode = "name" -> /\ \E n \in RNames : Len(n) = 3 /\ Last(n) = Comp(8, <<>>)       \* mandatory trailing slash
                        /\ \E n \in RNames : Len(n) = 2 /\ n[1] = Comp(8, <<>>)          \* leading slash mandatory
                        /\ \E n \in RNames : Len(n) > 0 /\ n[1] # Comp(8, <<>>)          \* leading slash optional
                        /\ \E n \in RNames : Len(n) = 2 /\ "rawU" \in StylesOf(n[1])           \* raw non-ASCII component
    [] Mode = "pair" -> /\ \E a, b \in QNames : IsPrefix(a, b) /\ a # b /\ a # <<>>
                        /\ \E a, b \in QNames : Len(a) = 2 /\ Len(b) = 2 /\ a[1] = b[1] /\ a[2].t < b[2].t
                                                  /\ Len(a[2].v) > Len(b[2].v)            \* type decides before length
    [] Mode = "ord"  -> \E c, d \in OrdComps : c.t = d.t /\ Len(c.v) = 252 /\ Len(d.v) = 253
EmitB == IF Out = "" THEN TRUE
         ELSE CASE Mode = "pair" -> ndJsonSerialize(Out, <<PairRec>>)
                [] Mode = "ord"  -> ndJsonSerialize(Out, <<OrdRec>>)
                [] OTHER -> TRUE
PostOK == Witnesses /\ EmitB
=============================================================================
