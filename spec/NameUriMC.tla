----------------------------- MODULE NameUriMC -----------------------------
(* C09 stage A (laws on the reference) and stage B source (one implementation test per
   enumerated state).  One state = one input: TLC enumerates the whole bounded domain as
   initial states and evaluates the laws as invariants on each.

   Mode "comp": x = a component      (all of Comps)
   Mode "name": x = a name of 0..3 components over R (NR reduced components)
   Mode "pair": x = <<a, b>>, names of 0..3 components over Q (NQ components), all pairs
   Mode "ord":  x = <<c, d>>, components around the 1-/3-byte TLV length and type boundaries
   Mode "text": x = a component TEXT (UTF-8 octets of an arbitrary Unicode string): every character of TextChars
                (ASCII inside / outside CHARSET and non-ASCII characters of every Unicode general category, among them
                the decimal digits of other scripts, full-width and compatibility forms of CHARSET characters,
                combining marks, characters outside the BMP) in every position of every component kind (Templates);
                pairs of the first NP characters in the two-hole templates

   Stage B replays into the library what the reference computed for every input: for "comp" and
   "name" the record `out` of each ph = 1 state (read from TLC's -dump), for "pair"/"ord" one record
   with the domain sorted by the reference order (POSTCONDITION, env C09_OUT).  Numbers are all
   < 2^16; texts and byte strings are sequences of 0..255. *)
EXTENDS NameUri, Json, IOUtils
CONSTANTS Mode, NR, NQ, NP
VARIABLES x, ph, out

SX == INSTANCE SequencesExt

Rep(b, n) == [i \in 1..n |-> b]
Types == {1, 2, 8, 9, 32, 50, 52, 54, 56, 58, 252, 253, 65535}
Alpha12 == {0, 32, 37, 46, 47, 61, 65, 102, 126, 127, 128, 255}
\* canonical encodings of 0, 255, 256, 65535, 65536, 2^32-1, 2^32, 2^64-1
NumVals == {<<0>>, <<255>>, <<1, 0>>, <<255, 255>>, <<0, 1, 0, 0>>, Rep(255, 4),
            <<0, 0, 0, 1, 0, 0, 0, 0>>, Rep(255, 8)}
\* values of a width that is not a canonical number (no shorthand may be used for them)
OddVals == {<<1, 2, 3>>, <<0, 0, 0, 0, 0, 0, 0, 1>>, Rep(1, 9), <<0, 0, 0, 7>>}
Digest32 == [i \in 1..32 |-> (i * 37) % 256]
\* well-formed UTF-8 text with non-ASCII characters (given raw in URI text by the "rawU" form): e-acute, Cyrillic
\* "Алек", "Bölter", "x²" (superscript digit), Arabic-Indic digit three, "e" + combining acute, CJK, an emoji
\* (4 bytes), "Σπ", and text that also holds '/', '%', '=' and a space
Utf8Vals == {<<195, 169>>, <<208, 144, 208, 187, 208, 181, 208, 186>>, <<66, 195, 182, 108, 116, 101, 114>>,
             <<120, 194, 178>>, <<217, 163>>, <<101, 204, 129>>, <<229, 144, 141>>, <<240, 159, 152, 128>>,
             <<206, 163, 207, 128>>, <<97, 47, 195, 169, 37, 61, 32, 208, 176>>}
\* values whose BYTES look like percent escapes ("%41", "%2F", "%2f", "%zz", "%25", "a%41b"): a parser that unescapes
\* twice, or a printer that leaves '%' alone, changes them
PctLikeVals == {<<37, 52, 49>>, <<37, 50, 70>>, <<37, 50, 102>>, <<37, 122, 122>>, <<37, 50, 53>>, <<97, 37, 52, 49, 98>>}
Vals == {<<b>> : b \in 0..255} \cup {<<a, b>> : a, b \in Alpha12} \cup {<<>>}
        \cup NumVals \cup OddVals \cup {Digest32} \cup Utf8Vals \cup PctLikeVals
Comps == {Comp(t, v) : t \in Types, v \in Vals}

RFull == << Comp(8, <<>>), Comp(8, <<97>>), Comp(8, <<47>>), Comp(8, <<37>>), Comp(8, <<61>>),
            Comp(8, <<46>>), Comp(32, <<>>), Comp(1, Digest32), Comp(50, <<1, 0>>), Comp(253, <<97>>),
            Comp(8, <<208, 144, 208, 187>>), Comp(8, <<120, 194, 178>>),
            Comp(8, <<46, 46>>), Comp(50, <<0, 1>>), Comp(8, <<255>>), Comp(65535, <<>>), Comp(2, <<171, 205>>),
            Comp(54, Rep(255, 8)), Comp(8, <<32>>), Comp(8, <<0>>), Comp(50, <<>>), Comp(9, <<65, 61, 66>>),
            Comp(56, <<0, 0, 0, 1, 0, 0, 0, 0>>), Comp(58, <<7>>), Comp(252, <<97>>), Comp(253, <<>>),
            Comp(65535, <<61>>), Comp(52, <<1, 2, 3>>), Comp(1, <<>>), Comp(32, <<97, 47, 98>>),
            Comp(8, <<195, 169>>), Comp(8, <<115, 101, 103, 61, 49>>) >>
QFull == << Comp(8, <<>>), Comp(8, <<98>>), Comp(8, <<97, 97>>), Comp(253, <<97>>),
            Comp(1, <<255>>), Comp(8, <<97>>), Comp(65535, <<>>) >>
NamesOver(C) == {<<>>} \cup {<<a>> : a \in C} \cup {<<a, b>> : a, b \in C} \cup {<<a, b, c>> : a, b, c \in C}
R == {RFull[i] : i \in 1..NR}
Q == {QFull[i] : i \in 1..NQ}
RNames == NamesOver(R)
QNames == NamesOver(Q)

TweakLast(v) == [v EXCEPT ![Len(v)] = 1]
OrdVals == {<<>>, <<0>>, <<255>>, <<0, 0>>, <<255, 255>>, <<0, 255>>,
            Rep(0, 252), Rep(255, 252), Rep(0, 253), TweakLast(Rep(0, 253)), Rep(255, 253), Rep(0, 256)}
OrdComps == {Comp(t, v) : t \in {1, 8, 252, 253, 65535}, v \in OrdVals}

\* ------------------------------------------------------------------ component texts (Mode "text")
\* ASCII: a F s v 7 0 3 - . _ ~ = % space : + / NUL DEL
AsciiChars == {<<97>>, <<70>>, <<115>>, <<118>>, <<55>>, <<48>>, <<51>>, <<45>>, <<46>>, <<95>>, <<126>>, <<61>>, <<37>>,
               <<32>>, <<58>>, <<43>>, <<47>>, <<0>>, <<127>>}
\* one character = its UTF-8 octets; the comment gives the code point, the Unicode general category and the Python
\* str / re / int() predicate or transformation under which the character passes for an ASCII one
UniChars == <<
    <<195, 169>>,                \* U+00E9 Ll  (re \w, isalnum)
    <<217, 163>>,                \* U+0663 Nd Arabic-Indic digit three (\d, isdigit, int() = 3)
    <<239, 188, 157>>,           \* U+FF1D Sm fullwidth equals sign (NFKC "=")
    <<239, 188, 133>>,           \* U+FF05 Po fullwidth percent sign (NFKC "%")
    <<240, 157, 159, 155>>,      \* U+1D7DB Nd outside the BMP (int() = 3)
    <<204, 129>>,                \* U+0301 Mn combining acute
    <<239, 188, 166>>,           \* U+FF26 Lu fullwidth F (NFKC "F", int(.., 16) = 15)
    <<197, 191>>,                \* U+017F Ll long s (upper() = "S", casefold() = "s")
    <<206, 163>>,                \* U+03A3 Lu
    <<199, 133>>,                \* U+01C5 Lt
    <<202, 176>>,                \* U+02B0 Lm
    <<229, 144, 141>>,           \* U+540D Lo
    <<239, 189, 129>>,           \* U+FF41 Ll fullwidth a (NFKC "a")
    <<226, 132, 170>>,           \* U+212A Lu KELVIN SIGN (lower() = "k")
    <<240, 144, 144, 128>>,      \* U+10400 Lu outside the BMP
    <<224, 164, 190>>,           \* U+093E Mc
    <<226, 131, 157>>,           \* U+20DD Me
    <<239, 188, 147>>,           \* U+FF13 Nd fullwidth digit three
    <<224, 165, 166>>,           \* U+0966 Nd Devanagari digit zero
    <<226, 133, 167>>,           \* U+2167 Nl
    <<194, 178>>,                \* U+00B2 No superscript two (isdigit, not int())
    <<194, 189>>,                \* U+00BD No
    <<226, 145, 160>>,           \* U+2460 No circled one (isdigit)
    <<226, 128, 191>>,           \* U+203F Pc
    <<239, 188, 191>>,           \* U+FF3F Pc fullwidth low line
    <<226, 128, 144>>,           \* U+2010 Pd
    <<239, 188, 141>>,           \* U+FF0D Pd fullwidth hyphen-minus
    <<239, 188, 142>>,           \* U+FF0E Po fullwidth full stop
    <<239, 189, 158>>,           \* U+FF5E Sm fullwidth tilde
    <<239, 188, 143>>,           \* U+FF0F Po fullwidth solidus
    <<226, 130, 172>>,           \* U+20AC Sc
    <<240, 159, 152, 128>>,      \* U+1F600 So outside the BMP
    <<194, 180>>,                \* U+00B4 Sk
    <<195, 151>>,                \* U+00D7 Sm
    <<194, 160>>,                \* U+00A0 Zs no-break space (isspace, strip())
    <<226, 128, 168>>,           \* U+2028 Zl
    <<226, 128, 141>>,           \* U+200D Cf zero width joiner
    <<194, 133>>,                \* U+0085 Cc NEL
    <<239, 187, 191>>,           \* U+FEFF Cf BOM
    <<238, 128, 128>>,           \* U+E000 Co private use
    <<239, 191, 191>>,           \* U+FFFF Cn noncharacter
    <<244, 143, 191, 191>> >>    \* U+10FFFF Cn last scalar value
TextChars == AsciiChars \cup {UniChars[i] : i \in 1..Len(UniChars)}
\* characters that are combined pairwise: a 3 = % 0 F and the first NP non-ASCII ones
PairChars == {<<97>>, <<51>>, <<61>>, <<37>>, <<48>>, <<70>>} \cup {UniChars[i] : i \in 1..NP}

H1 == <<1000>>       \* the holes of a template (not octets)
H2 == <<1001>>
Eq == <<61>>
Templates == {
    \* generic value: @  a@  @a  @@  a@b
    <<H1>>, <<<<97>>, H1>>, <<H1, <<97>>>>, <<H1, H1>>, <<<<97>>, H1, <<98>>>>,
    \* next to / inside a percent-escape: @%41  %41@  %C3@  @%  %@  %@1  %1@  %@@  a%4@
    <<H1, <<37, 52, 49>>>>, <<<<37, 52, 49>>, H1>>, <<<<37, 67, 51>>, H1>>, <<H1, <<37>>>>, <<<<37>>, H1>>,
    <<<<37>>, H1, <<49>>>>, <<<<37, 49>>, H1>>, <<<<37>>, H1, H1>>, <<<<97, 37, 52>>, H1>>,
    \* typed NN= value: 32=@  32=a@  8=@  65535=@%41  253=%@1
    <<<<51, 50, 61>>, H1>>, <<<<51, 50, 61, 97>>, H1>>, <<<<56, 61>>, H1>>, <<<<54, 53, 53, 51, 53, 61>>, H1, <<37, 52, 49>>>>,
    <<<<50, 53, 51, 61, 37>>, H1, <<49>>>>,
    \* in the type number: @=a  3@=a  @2=a  0@=a  @=
    <<H1, <<61, 97>>>>, <<<<51>>, H1, <<61, 97>>>>, <<H1, <<50, 61, 97>>>>, <<<<48>>, H1, <<61, 97>>>>, <<H1, Eq>>,
    \* in the convention keyword: @eg=1  s@g=1  se@=1  @=1
    <<H1, <<101, 103, 61, 49>>>>, <<<<115>>, H1, <<103, 61, 49>>>>, <<<<115, 101>>, H1, <<61, 49>>>>, <<H1, <<61, 49>>>>,
    \* in the convention number: seg=@  seg=1@  v=@1  t=@@  off=@  seq=0@
    <<AltPrefix(50), Eq, H1>>, <<AltPrefix(50), Eq, <<49>>, H1>>, <<AltPrefix(54), Eq, H1, <<49>>>>,
    <<AltPrefix(56), Eq, H1, H1>>, <<AltPrefix(52), Eq, H1>>, <<AltPrefix(58), Eq, <<48>>, H1>>,
    \* in / after the digest keyword: sha256digest=@@  sha256digest=0@  params-sha256=@0  sha256digest@=00  sha256digest=00@
    <<S_sha, Eq, H1, H1>>, <<S_sha, Eq, <<48>>, H1>>, <<S_par, Eq, H1, <<48>>>>, <<S_sha, H1, Eq, <<48, 48>>>>,
    <<S_sha, Eq, <<48, 48>>, H1>> }
\* two different characters: @#  @=#  seg=@#  %@#  32=@#
Templates2 == { <<H1, H2>>, <<H1, Eq, H2>>, <<AltPrefix(50), Eq, H1, H2>>, <<<<37>>, H1, H2>>, <<<<51, 50, 61>>, H1, H2>> }
Fill(tp, p, q) == Cat([i \in 1..Len(tp) |-> IF tp[i] = H1 THEN p ELSE IF tp[i] = H2 THEN q ELSE tp[i]])
Texts == {<<>>} \cup {Fill(tp, p, p) : tp \in Templates, p \in TextChars}
         \cup {Fill(tp, p, q) : tp \in Templates2, p \in PairChars, q \in PairChars}

Domain == CASE Mode = "comp" -> Comps
            [] Mode = "name" -> RNames
            [] Mode = "pair" -> QNames \X QNames
            [] Mode = "ord"  -> OrdComps \X OrdComps
            [] Mode = "text" -> Texts
\* what stage B replays into the library for one input (computed by the workers, read back from -dump)
\* dec: decimal text of the big-endian number the value holds (what Component.to_number must return), typed-number types
\* strict: the spelling is within CHARSET, i.e. Component.from_str has to accept it; the raw spellings with characters
\* outside CHARSET it may refuse, but if it accepts them the component must be c all the same (NameUri, TextComp)
CompRec(c) == [t |-> c.t, v |-> c.v, enc |-> Enc(c),
               forms |-> {[k |-> f.k, s |-> f.s, strict |-> (StrictComp(f.s) # CErr)] : f \in CompForms(c)},
               dec |-> IF c.t \in AltTypes THEN NumToDec(c.v) ELSE <<>>]
NameRec(n) == [n |-> n, encs |-> EncList(n), wire |-> EncName(n), forms |-> NameForms(n),
               parts |-> [k \in {"canonU", "canonL", "short", "raw", "rawU"} |-> [i \in 1..Len(n) |-> FormOf(n[i], k)]]]
\* text: what Component.from_str has to answer if it is to accept the text at all (strict: it has to), what the Name-level
\* entry points (str element of a list, one-component URI) have to answer, and the encoded component
EncAns(a) == [k |-> a.k, c |-> a.c, enc |-> IF a.k = "ok" THEN Enc(a.c) ELSE <<>>,
              wire |-> IF a.k = "ok" THEN EncName(<<a.c>>) ELSE <<>>]
TextRec(s) == [s |-> s, strict |-> EncAns(Ans(StrictComp(s))), loose |-> EncAns(Ans(TextComp(s))),
               slash |-> (\E i \in 1..Len(s) : s[i] = 47)]
Rec(v) == CASE Mode = "comp" -> CompRec(v) [] Mode = "name" -> NameRec(v) [] Mode = "text" -> TextRec(v) [] OTHER -> <<>>

\* TLC evaluates invariants on initial states in one thread; the laws are therefore evaluated on the
\* successor (ph = 1) of every input so that the workers share them.  distinct states = 2 x inputs.
Init == x \in Domain /\ ph = 0 /\ out = <<>>
Next == ph = 0 /\ ph' = 1 /\ x' = x /\ out' = Rec(x)
Spec == Init /\ [][Next]_<<x, ph, out>>

\* ------------------------------------------------------------------ laws: component
I_CompShort == ph = 1 => (UriToComp(CompToUri(x)) = x)
I_CompCanon == ph = 1 => (UriToComp(Canonical(x)) = x)
I_CanonNoShorthand == ph = 1 => (~HasShorthand(Canonical(x)))
I_CompForms == ph = 1 => (\A f \in out.forms :
                 /\ UriToComp(EscapeText(f.s)) = x
                 /\ (f.k \notin {"raw", "rawU"} => EscapeText(f.s) = f.s))      \* only the raw forms need escaping
I_ShorthandOnlyCanonNumbers == ph = 1 => ((x.t \in AltTypes /\ HasShorthand(CompToUri(x))) => IsCanonNum(x.v))

\* ------------------------------------------------------------------ laws: name
I_NameShort == ph = 1 => (UriToName(NameToUri(x)) = x)
I_NameCanon == ph = 1 => (UriToName(CanonicalName(x)) = x)
I_NameCanonNoShorthand == ph = 1 => (LET ps == Split(CanonicalName(x)) IN \A i \in 1..Len(ps) : ~HasShorthand(ps[i]))
I_NameForms == ph = 1 => (\A f \in out.forms : UriToName(f.s) = x)
I_Wire == ph = 1 => (WireToName(out.wire) = x)

\* ------------------------------------------------------------------ laws: pairs
I_NameOrder == ph = 1 => (LET a == x[1]  b == x[2] IN
                 /\ BytesLess(EncNameValue(a), EncNameValue(b)) <=> NameLess(a, b)
                 /\ ListLess(EncList(a), EncList(b)) <=> NameLess(a, b))
B2N(p) == IF p THEN 1 ELSE 0
I_Trichotomy == ph = 1 => (B2N(NameLess(x[1], x[2])) + B2N(x[1] = x[2]) + B2N(NameLess(x[2], x[1])) = 1)
I_Prefix == ph = 1 => (IsPrefix(x[1], x[2]) <=> PrefixByComponents(x[1], x[2]))
I_PrefixOrder == ph = 1 => ((IsPrefix(x[1], x[2]) /\ x[1] # x[2]) => NameLess(x[1], x[2]))

I_CompOrder == ph = 1 => (BytesLess(Enc(x[1]), Enc(x[2])) <=> CompLess(x[1], x[2]))
I_CompTrichotomy == ph = 1 => (B2N(CompLess(x[1], x[2])) + B2N(x[1] = x[2]) + B2N(CompLess(x[2], x[1])) = 1)

\* ------------------------------------------------------------------ laws: component texts
\* what Component.from_str has to accept is plain CHARSET text, and means there what it means at the Name level
I_TextStrictIsLoose == ph = 1 => (StrictComp(x) # CErr => (EscapeText(x) = x /\ TextComp(x) = StrictComp(x) /\ ~HasNonAscii(x)))
I_TextEscapeIdem == ph = 1 => (EscapeText(EscapeText(x)) = EscapeText(x))
\* an accepted text names a component that survives printing in both forms
I_TextRoundTrip == ph = 1 => (LET c == TextComp(x) IN c # CErr => (UriToComp(CompToUri(c)) = c /\ UriToComp(Canonical(c)) = c))
\* a text without '/' is the one-component URI '/' text (the empty text is the empty name there)
I_TextAsName == ph = 1 => ((x # <<>> /\ ~out.slash) =>
                   UriToName(<<47>> \o x) = (IF TextComp(x) = CErr THEN NErr ELSE <<TextComp(x)>>))
\* the three verdicts of FromStrClauses are reachable only by a wrong answer: the reference's own answers pass
I_TextSelfJudged == ph = 1 => (/\ FromStrClauses(x, Ans(StrictComp(x)), Ans(TextComp(x))) = {}
                               /\ FromStrClauses(x, Ans(TextComp(x)), Ans(TextComp(x))) = {})

\* ------------------------------------------------------------------ stage B emission
\* (pair / ord: one record, written by the POSTCONDITION when env C09_OUT is set)
FormSeq(S) == SX!SetToSeq(S)
SortedNames == SX!SetToSortSeq(QNames, NameLess)
PairRec == [names |-> SortedNames,
            prefix |-> [i \in 1..Len(SortedNames) |->
                          FormSeq({j \in 1..Len(SortedNames) : IsPrefix(SortedNames[i], SortedNames[j])})]]
OrdRec == [comps |-> SX!SetToSortSeq(OrdComps, CompLess)]
Out == IOEnv.C09_OUT
\* vacuity: the situations the laws talk about occur in the enumerated domain
Witnesses ==
  CASE Mode = "comp" -> /\ \E c \in Comps : HasShorthand(CompToUri(c)) /\ c.t \in AltTypes /\ c.v = Rep(255, 8)
                        /\ \E c \in Comps : c.t \in AltTypes /\ ~IsCanonNum(c.v)        \* no shorthand allowed
                        /\ \E c \in Comps : c.t = 8 /\ \E i \in 1..Len(c.v) : ~Literal(c.v[i])
                        /\ \E c \in Comps : "rawU" \in StylesOf(c) /\ Len(c.v) = 4 /\ c.v[1] = 240   \* raw 4-byte character
                        /\ \E c \in Comps : HasNonAscii(c.v) /\ ~IsUtf8(c.v)                        \* bytes that are not text
    [] Mode = "name" -> /\ \E n \in RNames : Len(n) = 3 /\ Last(n) = Comp(8, <<>>)       \* mandatory trailing slash
                        /\ \E n \in RNames : Len(n) = 2 /\ n[1] = Comp(8, <<>>)          \* leading slash mandatory
                        /\ \E n \in RNames : Len(n) > 0 /\ n[1] # Comp(8, <<>>)          \* leading slash optional
                        /\ \E n \in RNames : Len(n) = 2 /\ "rawU" \in StylesOf(n[1])           \* raw non-ASCII component
    [] Mode = "text" -> /\ \E s \in Texts : HasNonAscii(s) /\ TextComp(s) # CErr /\ TextComp(s).t = 8          \* raw character, generic
                        /\ \E s \in Texts : HasNonAscii(s) /\ TextComp(s) # CErr /\ TextComp(s).t = 32         \* ... in a typed value
                        /\ \E s \in Texts : HasNonAscii(s) /\ TextComp(s) # CErr /\ Len(TextComp(s).v) = 5     \* 4-octet character next to an escape
                        /\ \E s \in Texts : HasNonAscii(s) /\ TextComp(s) = CErr /\ Len(s) > 4 /\ SubSeq(s, 1, 4) = AltPrefix(50) \o Eq  \* foreign digit as a number
                        /\ \E s \in Texts : HasNonAscii(s) /\ TextComp(s) = CErr /\ Len(s) > 2 /\ Last(s) = 97 /\ s[Len(s) - 1] = 61    \* ... as a type
                        /\ \E s \in Texts : StrictComp(s) # CErr /\ StrictComp(s).t = 50                       \* plain shorthand
                        /\ \E s \in Texts : StrictComp(s) = CErr /\ ~HasNonAscii(s) /\ TextComp(s) # CErr      \* ASCII outside CHARSET
                        /\ \E s \in Texts : StrictComp(s) = CErr /\ ~HasNonAscii(s) /\ TextComp(s) = CErr      \* malformed ASCII
                        \* a component cut to the first octet of each character (or to its last) is told apart
                        /\ \E s \in Texts : s # <<>> /\ FromStrClauses(s, Ans(Comp(8, <<s[1]>>)), Ans(TextComp(s))) = {"comp_from_str"}
                        /\ \E s \in Texts : FromStrClauses(s, Ans(CErr), Ans(TextComp(s))) = {"comp_from_str_refused"}
                        /\ \E s \in Texts : FromStrClauses(s, Ans(Comp(50, <<3>>)), Ans(TextComp(s))) = {"comp_from_str_alone"}
    [] Mode = "pair" -> /\ \E a, b \in QNames : IsPrefix(a, b) /\ a # b /\ a # <<>>
                        /\ \E a, b \in QNames : Len(a) = 2 /\ Len(b) = 2 /\ a[1] = b[1] /\ a[2].t < b[2].t
                                                  /\ Len(a[2].v) > Len(b[2].v)            \* type decides before length
    [] Mode = "ord"  -> \E c, d \in OrdComps : c.t = d.t /\ Len(c.v) = 252 /\ Len(d.v) = 253
EmitB == IF Out = "" THEN TRUE
         ELSE CASE Mode = "pair" -> ndJsonSerialize(Out, <<PairRec>>)
                [] Mode = "ord"  -> ndJsonSerialize(Out, <<OrdRec>>)
                [] OTHER -> TRUE
PostOK == Witnesses /\ EmitB
=============================================================================
