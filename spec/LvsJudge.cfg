\* Judge of recorded results (C11/C12/C13 stages B, C): LVS_IN=<file.ndjson> ... -config LvsJudge.cfg LvsJudge
INIT JInit
NEXT JNext
CONSTANTS
  MaxNodes = 1
  MaxLen = 0
  Corrupt = "none"
  CountSteps = FALSE
  DevPrebound = FALSE
CHECK_DEADLOCK FALSE
