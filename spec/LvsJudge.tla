----------------------------- MODULE LvsJudge -----------------------------
(* Judge for C11 / C12 / C13 (stages B and C): every line of the ndjson file named by the environment
   variable LVS_IN is one record produced by the harness from the REAL library (compile_lvs, Checker);
   TLC evaluates the reference operators of Lvs.tla / LvsTree.tla on the record's inputs and prints one
   verdict per record:    <<"R", sid, kind, verdict>>
   kind "m" (C11)  rules, model, names, r1 (Checker.match directly), r2 (after save/load); optionally cks, hist
                   (several checkers with function tables of their own; enumerations consumed in different ways)
                   verdict = set of <<class, number of names, index of first name>>, {} = all three agree
   kind "c" (C12)  rules, model, names, pairs <<pkt index, key index, recorded answer>>
                   verdict = set of <<class, number of pairs, index of first pair>>
   kind "w" (C13)  rules, outcome of compile_lvs + Checker(...), model + loadok when accepted
                   verdict = <<class>>
   kind "s" (C13)  model (as parsed from the corrupted bytes), outcome of Checker.load
                   verdict = <<class>>
   Classes starting with "ok" are agreements (kept for the statistics). *)
EXTENDS LvsTree, Json, IOUtils

Recs == ndJsonDeserialize(IOEnv.LVS_IN)

DevT  == [temprep |-> TRUE,  prebound |-> FALSE]
DevP  == [temprep |-> FALSE, prebound |-> TRUE]
DevTP == [temprep |-> TRUE,  prebound |-> TRUE]

RecSet(r) == {<<r[j].rule, {<<r[j].ctx[q][1], r[j].ctx[q][2]>> : q \in 1..Len(r[j].ctx)}>> : j \in 1..Len(r)}
(* how a differs from the expected b *)
Cmp(a, b) == IF a \subseteq b THEN "missing" ELSE IF b \subseteq a THEN "extra" ELSE "differs"
MinOf(X) == CHOOSE i \in X : \A m \in X : i <= m
Tally(per) == LET classes == UNION {per[i] : i \in DOMAIN per}
              IN {<<c, Cardinality({i \in DOMAIN per : c \in per[i]}), MinOf({i \in DOMAIN per : c \in per[i]})>>
                  : c \in classes}

(* ---- C11 ---- *)
J11Name(S, CH, M, rec, ni) ==
  LET n    == rec.names[ni]
      src  == MatchWith(S, CH, n, NoDev)
      tree == TreeMatchRules(M, n)
      d    == RecSet(rec.r1[ni])
      l    == RecSet(rec.r2[ni])
  IN (IF src = tree THEN {}
      ELSE IF MatchWith(S, CH, n, DevT) = tree THEN {"compile/DEV_TempConsLostOnRepeatedReference/" \o Cmp(tree, src)}
      ELSE {"compile/unexplained/" \o Cmp(tree, src)})
     \cup (IF tree = d THEN {} ELSE {"checker/" \o Cmp(d, tree)})
     \cup (IF d = l THEN {} ELSE {"saveload/" \o Cmp(l, d)})
(* ---- C11: histories ----
   A record may carry the history of one process: rec.cks, the Checker objects it constructed over the model
   (each with the function table `tab` of its own dictionary of user functions; via = "direct" from the model
   object, "load" from its bytes), and rec.hist, the enumerations Checker.match(names[ni]) it ran on them, in
   the order they were started, each with the way the caller consumed it:
     mode "full"    exhausted at once (list(...))
          "take"    the caller stopped after k results (next / any / break); ny results were delivered
          "abort"   a user function raised at its k-th call of this enumeration (oc = "ok": never reached)
          "nested"  the caller took k results, ran other enumerations, then exhausted this one
   The property is history-independent: what an enumeration reports is decided by the model, the function
   table of ITS checker and the name - not by earlier, abandoned, failed or concurrent enumerations on the
   same object, nor by other checkers constructed before or after.  An enumeration that ran to its end reports
   exactly the expected set; one that was cut short reports a subset of it (which subset is not fixed).
   r1 / r2 above are the last enumerations of the history on checkers 1 and 2.
   (ev.conc: how many enumerations of the same checker were suspended, to be resumed, while this one ran.) *)
HasHist(rec) == "hist" \in DOMAIN rec
Whole(ev) == \/ ev.mode \in {"full", "nested"}
             \/ (ev.mode = "take" /\ ev.ny < ev.k)
             \/ (ev.mode = "abort" /\ ev.oc = "ok")
(* where the enumeration stands in the history of its checker and name (part of the class only) *)
HClass(rec, e) ==
  LET ev == rec.hist[e]
      prior == {q \in 1..(e - 1) : rec.hist[q].ck = ev.ck /\ rec.hist[q].ni = ev.ni}
  IN IF ev.conc > 0 THEN "concurrent"
     ELSE IF \E q \in prior : ~Whole(rec.hist[q]) THEN "after-partial"
     ELSE IF prior # {} THEN "repeated" ELSE "first"
JEvent(S, CHs, M, rec, e) ==
  LET ev   == rec.hist[e]
      n    == rec.names[ev.ni]
      tab  == rec.cks[ev.ck].tab
      exp  == TreeMatchRules(RetabTree(M, tab), n)
      got  == RecSet(ev.res)
      bad  == IF Whole(ev) THEN got # exp ELSE ~(got \subseteq exp)
  IN (IF bad THEN {"history/" \o ev.mode \o "/" \o HClass(rec, e) \o "/" \o Cmp(got, exp)} ELSE {})
     \cup  \* the source text read with the checker's table (Lvs!Retab) and the tree read with it agree
     (IF tab = rec.cks[1].tab \/ MatchWith(Retab(S, tab), CHs[ev.ck], n, NoDev) = exp THEN {}
      ELSE {"compile/function-table/" \o Cmp(exp, MatchWith(Retab(S, tab), CHs[ev.ck], n, NoDev))})
J11Hist(S, M, rec, ni) ==
  IF ~HasHist(rec) THEN {}
  ELSE LET CHs == [c \in 1..Len(rec.cks) |-> IF rec.cks[c].tab = rec.cks[1].tab THEN <<>>
                                               ELSE AllChains(Retab(S, rec.cks[c].tab))]
       IN UNION {JEvent(S, CHs, M, rec, e) : e \in {q \in 1..Len(rec.hist) : rec.hist[q].ni = ni}}
J11(rec) == LET S == [rules |-> rec.rules]  CH == AllChains(S)  M == rec.model
            IN Tally([ni \in 1..Len(rec.names) |-> J11Name(S, CH, M, rec, ni) \cup J11Hist(S, M, rec, ni)])

(* ---- C12 ----
   The packet side of a pair does not depend on the key: the ways the packet name satisfies the definitions of the
   source (PktMatches) and the nodes it reaches in the tree (TreeMatch) are computed once per packet name of the
   record (rows), the key side once per pair.  CheckRow / TreeCheckRow are Lvs!CheckWith / LvsTree!TreeCheck with the
   packet side handed in. *)
CheckRow(S, CH, pm, key, dev) == \E m \in pm : KeyOk(S, CH, m[1], m[2], StripDigest(key), dev)
TreeCheckRow(M, tm, key, dev) == \E r \in tm : \E k \in TreeMatch(M, key, r[2], dev) :
                                    k[1] \in SeqToSet(NodeAt(M, r[1]).sign)
J12Pair(S, CH, M, rec, j, rows) ==
  LET p == rec.names[rec.pairs[j][1]]
      k == rec.names[rec.pairs[j][2]]
      r == rec.pairs[j][3]
      row == rows[rec.pairs[j][1]]
      src == CheckRow(S, CH, row[1], k, NoDev)
      dir == IF r THEN "yes-for-no" ELSE "no-for-yes"
  IN IF src # r
     THEN LET expl == IF CheckWith(S, CH, p, k, DevP) = r THEN "DEV_PreboundSkipsConstraints"
                      ELSE IF CheckWith(S, CH, p, k, DevT) = r THEN "DEV_TempConsLostOnRepeatedReference"
                      ELSE IF CheckWith(S, CH, p, k, DevTP) = r THEN "DEV_TempConsLost+DEV_PreboundSkips"
                      ELSE "unexplained"
              nokey == IF r /\ ~MatchesSomeRule(S, CH, k) THEN "/key-matches-no-rule" ELSE ""
          IN {"verdict/" \o expl \o "/" \o dir \o nokey}
     ELSE IF TreeCheckRow(M, row[2], k, NoDev) # r THEN {"tree-vs-checker/" \o dir}
     ELSE {}
J12(rec) == LET S == [rules |-> rec.rules]  CH == AllChains(S)  M == rec.model
                \* (f @@ g of the TLC module builds the function explicitly: every row is evaluated exactly once)
                rows == [a \in {rec.pairs[j][1] : j \in 1..Len(rec.pairs)} |->
                           <<PktMatches(S, CH, StripDigest(rec.names[a]), NoDev), TreeMatch(M, rec.names[a], EmptyTCtx, NoDev)>>]
                        @@ EmptyCtx
            IN Tally([j \in 1..Len(rec.pairs) |-> J12Pair(S, CH, M, rec, j, rows)])

(* ---- C13 (i): source errors ---- *)
J13w(rec) ==
  LET S == [rules |-> rec.rules] IN
  IF ~WellFormed(S)
  THEN (IF rec.outcome = "SemanticError" THEN <<"ok/ill-formed-rejected/" \o WhyIllFormed(S)>>
        ELSE <<"ill-formed-not-rejected/" \o WhyIllFormed(S) \o "/" \o rec.outcome>>)
  ELSE IF ~NoSelfSigner(S, AllChains(S))
  THEN <<"ok/no-obligation-self-signer/" \o rec.outcome>>
  ELSE IF rec.outcome # "ok" THEN <<"well-formed-rejected/" \o rec.outcome>>
  ELSE IF ~Sane(rec.model) THEN <<"well-formed-model-insane/" \o WhyInsane(rec.model)>>
  ELSE IF ~rec.loadok THEN <<"well-formed-model-not-loadable">>
  ELSE <<"ok/well-formed-accepted">>

(* ---- C13 (ii): corrupted binary models ---- *)
J13s(rec) ==
  LET M == rec.model IN
  IF ~Sane(M) THEN (IF rec.outcome = "LvsModelError" THEN <<"ok/insane-rejected/" \o WhyInsane(M)>>
                    ELSE <<"insane-not-rejected/" \o WhyInsane(M) \o "/" \o rec.outcome>>)
  ELSE <<"ok/sane/" \o rec.outcome>>

Judge(rec) == IF rec.kind = "m" THEN J11(rec) ELSE IF rec.kind = "c" THEN J12(rec)
              ELSE IF rec.kind = "w" THEN J13w(rec) ELSE J13s(rec)

VARIABLE si
JInit == /\ si \in 1..Len(Recs)
         /\ \E rec \in {Recs[si]} : PrintT(<<"R", rec.sid, rec.kind, Judge(rec)>>)   \* bind once: a record is big
         /\ ti = 0 /\ nm = <<>> /\ c0 = <<>> /\ cur = 0 /\ ei = 0 /\ stack = <<>> /\ ctx = <<>> /\ mts = <<>>
         /\ out = {} /\ steps = 0
JNext == UNCHANGED <<si, wvars>>
=============================================================================
