----------------------------- MODULE LvsJudge -----------------------------
(* Judge for C11 / C12 / C13 (stages B and C): every line of the ndjson file named by the environment
   variable LVS_IN is one record produced by the harness from the REAL library (compile_lvs, Checker);
   TLC evaluates the reference operators of Lvs.tla / LvsTree.tla on the record's inputs and prints one
   verdict per record:    <<"R", sid, kind, verdict>>
   kind "m" (C11)  rules, model, names, r1 (Checker.match directly), r2 (after save/load)
                   verdict = set of <<class, number of names, index of first name>>, {} = all three agree
   kind "c" (C12)  rules, model, names, pairs <<pkt index, key index, recorded answer>>
                   verdict = set of <<class, number of pairs, index of first pair>>
   kind "w" (C13)  rules, outcome of compile_lvs + Checker(...), model + loadok when accepted
                   verdict = <<class>>
   kind "s" (C13)  model (as parsed from the corrupted bytes), outcome of Checker.load
                   verdict = <<class>>
   Classes starting with "ok" are agreements (kept for the statistics). *)
EXTENDS LvsTree, Json, IOUtils

Recs == ndJsonDeserialize(IOEnv.LVS_IN)

DevT  == [temprep |-> TRUE,  prebound |-> FALSE]
DevP  == [temprep |-> FALSE, prebound |-> TRUE]
DevTP == [temprep |-> TRUE,  prebound |-> TRUE]

RecSet(r) == {<<r[j].rule, {<<r[j].ctx[q][1], r[j].ctx[q][2]>> : q \in 1..Len(r[j].ctx)}>> : j \in 1..Len(r)}
(* how a differs from the expected b *)
Cmp(a, b) == IF a \subseteq b THEN "missing" ELSE IF b \subseteq a THEN "extra" ELSE "differs"
MinOf(X) == CHOOSE i \in X : \A m \in X : i <= m
Tally(per) == LET classes == UNION {per[i] : i \in DOMAIN per}
              IN {<<c, Cardinality({i \in DOMAIN per : c \in per[i]}), MinOf({i \in DOMAIN per : c \in per[i]})>>
                  : c \in classes}

(* ---- C11 ---- *)
J11Name(S, CH, M, rec, ni) ==
  LET n    == rec.names[ni]
      src  == MatchWith(S, CH, n, NoDev)
      tree == TreeMatchRules(M, n)
      d    == RecSet(rec.r1[ni])
      l    == RecSet(rec.r2[ni])
  IN (IF src = tree THEN {}
      ELSE IF MatchWith(S, CH, n, DevT) = tree THEN {"compile/DEV_TempConsLostOnRepeatedReference/" \o Cmp(tree, src)}
      ELSE {"compile/unexplained/" \o Cmp(tree, src)})
     \cup (IF tree = d THEN {} ELSE {"checker/" \o Cmp(d, tree)})
     \cup (IF d = l THEN {} ELSE {"saveload/" \o Cmp(l, d)})
J11(rec) == LET S == [rules |-> rec.rules]  CH == AllChains(S)  M == rec.model
            IN Tally([ni \in 1..Len(rec.names) |-> J11Name(S, CH, M, rec, ni)])

(* ---- C12 ---- *)
J12Pair(S, CH, M, rec, j) ==
  LET p == rec.names[rec.pairs[j][1]]
      k == rec.names[rec.pairs[j][2]]
      r == rec.pairs[j][3]
      src == CheckWith(S, CH, p, k, NoDev)
      dir == IF r THEN "yes-for-no" ELSE "no-for-yes"
  IN IF src # r
     THEN LET expl == IF CheckWith(S, CH, p, k, DevP) = r THEN "DEV_PreboundSkipsConstraints"
                      ELSE IF CheckWith(S, CH, p, k, DevT) = r THEN "DEV_TempConsLostOnRepeatedReference"
                      ELSE IF CheckWith(S, CH, p, k, DevTP) = r THEN "DEV_TempConsLost+DEV_PreboundSkips"
                      ELSE "unexplained"
              nokey == IF r /\ ~MatchesSomeRule(S, CH, k) THEN "/key-matches-no-rule" ELSE ""
          IN {"verdict/" \o expl \o "/" \o dir \o nokey}
     ELSE IF TreeCheck(M, p, k, NoDev) # r THEN {"tree-vs-checker/" \o dir}
     ELSE {}
J12(rec) == LET S == [rules |-> rec.rules]  CH == AllChains(S)  M == rec.model
            IN Tally([j \in 1..Len(rec.pairs) |-> J12Pair(S, CH, M, rec, j)])

(* ---- C13 (i): source errors ---- *)
J13w(rec) ==
  LET S == [rules |-> rec.rules] IN
  IF ~WellFormed(S)
  THEN (IF rec.outcome = "SemanticError" THEN <<"ok/ill-formed-rejected/" \o WhyIllFormed(S)>>
        ELSE <<"ill-formed-not-rejected/" \o WhyIllFormed(S) \o "/" \o rec.outcome>>)
  ELSE IF ~NoSelfSigner(S, AllChains(S))
  THEN <<"ok/no-obligation-self-signer/" \o rec.outcome>>
  ELSE IF rec.outcome # "ok" THEN <<"well-formed-rejected/" \o rec.outcome>>
  ELSE IF ~Sane(rec.model) THEN <<"well-formed-model-insane/" \o WhyInsane(rec.model)>>
  ELSE IF ~rec.loadok THEN <<"well-formed-model-not-loadable">>
  ELSE <<"ok/well-formed-accepted">>

(* ---- C13 (ii): corrupted binary models ---- *)
J13s(rec) ==
  LET M == rec.model IN
  IF ~Sane(M) THEN (IF rec.outcome = "LvsModelError" THEN <<"ok/insane-rejected/" \o WhyInsane(M)>>
                    ELSE <<"insane-not-rejected/" \o WhyInsane(M) \o "/" \o rec.outcome>>)
  ELSE <<"ok/sane/" \o rec.outcome>>

Judge(rec) == IF rec.kind = "m" THEN J11(rec) ELSE IF rec.kind = "c" THEN J12(rec)
              ELSE IF rec.kind = "w" THEN J13w(rec) ELSE J13s(rec)

VARIABLE si
JInit == /\ si \in 1..Len(Recs)
         /\ \E rec \in {Recs[si]} : PrintT(<<"R", rec.sid, rec.kind, Judge(rec)>>)   \* bind once: a record is big
         /\ ti = 0 /\ nm = <<>> /\ c0 = <<>> /\ cur = 0 /\ ei = 0 /\ stack = <<>> /\ ctx = <<>> /\ mts = <<>>
         /\ out = {} /\ steps = 0
JNext == UNCHANGED <<si, wvars>>
=============================================================================
