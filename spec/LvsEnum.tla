----------------------------- MODULE LvsEnum -----------------------------
(* Stage B (spec -> code) for C11 / C12 / C13: TLC enumerates small inputs and computes what the
   reference says about them; the harness feeds exactly these inputs to the real compile_lvs / Checker
   and compares.  One printed line per input.

   Mode "schemas"   well-formed two/three-rule schemas over a tiny vocabulary (every combination; #r1 may constrain
                    the pattern x that only a rule referring to it contains), and the four-to-six-rule schemas of
                    SharedEnd (a definition written like one chain of a rule that has two, signers of their own):
                    <<"E", index, rules, [name index |-> Match], {}>>
   Mode "checks"    the same family: <<"E", index, rules, <<>>, set of <<pkt index, key index>> with Check>>
   Mode "laws"      the same family, design check of the reference itself (stage A):
                    <<"L", index, set of violated laws, set of witnesses seen>>
   Mode "illformed" two-rule schemas that may refer to undefined / temporary / cyclic rules and signers
                    and to patterns that occur nowhere; three-rule schemas where the signer list that may be bad
                    belongs to a SECOND definition of #r1 (TwinBad):
                    <<"W", index, rules, WellFormed, why, NoSelfSigner>>
   Mode "trees"     the small trees of LvsTree (sane ones and every single parent-link corruption):
                    <<"T", index, tree, Sane, why, [name index |-> walk result], CompilerShaped,
                      [name index |-> walk result when the checker's table is EnumTab]>>
   Stride / Offset select every Stride-th input (quick tier); Stride = 1 is the whole family. *)
EXTENDS LvsTree

CONSTANTS Mode, Stride, Offset,
          FocusStride, FocusOffset      \* denser sampling of the family members with the shapes of Focus

ENames == SetToSeq(NamesUpTo(MaxLen))        \* names over {"a","b","c"}; schemas use the same alphabet
P(p) == [k |-> "p", p |-> p]
R(r) == [k |-> "r", r |-> r]
C1(p, opts) == [pat |-> p, opts |-> opts]
Rule(id, name, cons, sign) == [id |-> id, name |-> name, cons |-> cons, sign |-> sign]
Seqs12(I) == {<<i>> : i \in I} \cup {<<i, j>> : i \in I, j \in I}
FirstPat(name) == LET ps == {j \in 1..Len(name) : name[j].k = "p"} IN
                  IF ps = {} THEN {} ELSE {name[CHOOSE j \in ps : \A q \in ps : j <= q].p}

(* ---- well-formed family ---- *)
(* constraints of #r1: on the first pattern of its own name, and - inheritance as a dimension of its own - on the
   named pattern x when #r1's own name does NOT contain it ("foreign": the constraint has no effect on #r1 itself
   and is inherited by a rule that refers to #r1 and has x in its own part of the name).  Such a schema is
   well-formed only when x occurs in some name (WfFamily keeps the well-formed ones). *)
ForeignX(name) == IF \E j \in 1..Len(name) : name[j] = P("x") THEN {} ELSE {"x"}
ConsFor1(name) == {<<>>} \cup UNION {{ << <<C1(p, <<Lit("a")>>)>> >>,                                \* { p: "a" }
                                        << <<C1(p, <<Lit("a")>>)>>, <<C1(p, <<Lit("b")>>)>> >> }       \* { p: "a" } | { p: "b" }
                                      : p \in FirstPat(name) \cup ForeignX(name)}
Rule1s == UNION {{Rule("#r1", n, c, <<>>) : c \in ConsFor1(n)} : n \in Seqs12({Lit("a"), P("x"), P("_t")})}
HasX(r1, name) == \E j \in 1..Len(name) : (name[j].k = "p" /\ name[j].p = "x")
                                          \/ (name[j].k = "r" /\ \E q \in 1..Len(r1.name) : r1.name[q].k = "p" /\ r1.name[q].p = "x")
Cons2(r1, n) == {<<>>} \cup (IF HasX(r1, n) THEN {<< <<C1("x", <<Lit("b"), Lit("c")>>)>> >>} ELSE {})
Rule2New(r1) == UNION {{Rule("#r2", n, c, <<>>) : c \in Cons2(r1, n)} : n \in Seqs12({Lit("b"), P("x"), R("#r1")})}
Rule2Redef   == {Rule("#r1", n, <<>>, <<>>) : n \in Seqs12({Lit("b"), P("x")})}                \* redefinition
                \cup  \* a redefinition using the temporary identifier of the first definition, with a constraint of its own
                {Rule("#r1", n, << <<C1("_t", <<Lit("b")>>)>> >>, <<>>) : n \in {<<P("_t")>>, <<Lit("b"), P("_t")>>, <<P("_t"), Lit("b")>>}}
RefersR1(r)  == \E j \in 1..Len(r.name) : r.name[j] = R("#r1")
Rule3s(r2)   == {<<>>, <<Rule("#r3", <<R("#r1"), R("#r1")>>, <<>>, IF r2.id = "#r2" THEN <<"#r2">> ELSE <<>>)>>}
                \cup  \* "diamond": #r1 inlined into #r3 once through #r2 and once directly
                (IF r2.id = "#r2" /\ RefersR1(r2) THEN {<<Rule("#r3", <<R("#r2"), R("#r1")>>, <<>>, <<>>)>>} ELSE {})
(* signing between the first two rules: none, #r2 signed by #r1, #r1 signed by #r2 *)
Signed(r1, r2) == {<<r1, r2>>} \cup (IF r2.id = "#r2" THEN {<<r1, [r2 EXCEPT !.sign = <<"#r1">>]>>,
                                                              <<[r1 EXCEPT !.sign = <<"#r2">>], r2>>} ELSE {})
(* two definitions of #r1 with signers of their own (alternatives): either one signed by #r3 *)
RedefSigned(s) == IF Len(s) = 3 /\ s[2].id = "#r1" /\ s[1].sign = <<>>
                  THEN {s, <<[s[1] EXCEPT !.sign = <<"#r3">>], s[2], s[3]>>, <<s[1], [s[2] EXCEPT !.sign = <<"#r3">>], s[3]>>,
                        <<[s[1] EXCEPT !.sign = <<"#r3">>], [s[2] EXCEPT !.sign = <<"#r3">>], s[3]>>}    \* same signers, own bindings
                  ELSE {s}
(* ---- chains that share their end: a rule D1 with TWO chains (two alternative constraint sets, or a reference to
   a rule defined twice), and a second definition / another rule D2 that is written like ONE of these chains, so that
   it ends where that chain ends; D1 and D2 have signers of their own.  D2's identifier sorts before, with or after
   D1's, and it is written before or after D1.  (C12: "one of the rules listed as signers in THAT definition") *)
Alt(p, v) == <<C1(p, <<Lit(v)>>)>>
SEKeys  == << Rule("#k1", <<Lit("c"), Lit("a"), P("x")>>, <<>>, <<>>), Rule("#k2", <<Lit("c"), Lit("b"), P("x")>>, <<>>, <<>>) >>
SENames == {<<P("x")>>, <<Lit("c"), P("x")>>, <<P("x"), P("y")>>}
SEIds   == {"#r0", "#r1", "#r2"}
BothOrders(d1, d2, rest) == {<<d1, d2>> \o rest, <<d2, d1>> \o rest}
SharedEnd ==
  UNION {UNION {BothOrders(Rule("#r1", n, <<Alt("x", "a"), Alt("x", "b")>>, <<"#k1">>),
                           Rule(id2, n, <<Alt("x", v)>>, <<"#k2">>), SEKeys)
                : id2 \in SEIds, v \in {"a", "b"}} : n \in SENames}
  \cup
  UNION {BothOrders(Rule("#r1", <<R("#m"), P("x")>>, <<>>, <<"#k1">>), Rule(id2, <<Lit(v), P("x")>>, <<>>, <<"#k2">>),
                    << Rule("#m", <<Lit("a")>>, <<>>, <<>>), Rule("#m", <<Lit("b")>>, <<>>, <<>>) >> \o SEKeys)
         : id2 \in SEIds, v \in {"a", "b"}}

(* ---- reference towers (depth of inlining as a dimension): a rule #k with a constrained pattern is reached TWICE by
   one expanded name although no rule names it (or the rule between) twice itself - once through #ma and once directly
   (#top: #ma/#k, #k/#ma), through two different rules (#top: #ma/#mb), or through one level more (#mc: #ma,
   #top: #mc/#k); #top: #ma/#ma is the direct double reference of a rule that itself inlines #k.  Every copy of a
   temporary pattern is an occurrence of its own and keeps the constraints of its text (TVar: one variable per
   reference path); a named pattern is one variable, both copies must be equal.  #top is a packet rule (signed by #s)
   and a key rule (signer of #d, whose name binds x) at once. *)
TwrK(v, alt) == Rule("#k", <<P(v)>>, IF alt THEN <<Alt(v, "a"), Alt(v, "b")>> ELSE << <<C1(v, <<Lit("a"), Lit("b")>>)>> >>, <<>>)
(* the rules between: <<name, constraint sets>>; the last two have a constrained temporary pattern of their own after /
   before the inlined one (temporaries of different rules meet in one expanded name and stay apart) *)
TwrMid  == {<< <<R("#k")>>, <<>> >>, << <<R("#k"), Lit("c")>>, <<>> >>,
            << <<R("#k"), P("_m")>>, << <<C1("_m", <<Lit("c")>>)>> >> >>,
            << <<P("_m"), R("#k")>>, << <<C1("_m", <<Lit("c")>>)>> >> >>}
TwrTail(top) == << Rule("#top", top, <<>>, <<"#s">>), Rule("#s", <<Lit("c")>>, <<>>, <<>>),
                   Rule("#d", <<Lit("b"), P("x")>>, <<>>, <<"#top">>) >>
Towers ==
  UNION {UNION {
    LET base == <<k, Rule("#ma", a[1], a[2], <<>>)>> IN
    {base \o TwrTail(top) : top \in {<<R("#ma"), R("#k")>>, <<R("#k"), R("#ma")>>, <<R("#ma"), R("#ma")>>}}
    \cup {base \o <<Rule("#mc", <<R("#ma")>>, <<>>, <<>>)>> \o TwrTail(<<R("#mc"), R("#k")>>)}
    \cup {base \o <<Rule("#mb", b[1], b[2], <<>>)>> \o TwrTail(<<R("#ma"), R("#mb")>>) : b \in TwrMid}
    : a \in TwrMid} : k \in {TwrK("_t", FALSE), TwrK("_t", TRUE), TwrK("x", FALSE)}}

(* ---- wide schemas (scale as a dimension): 7, 10 or 13 rules, each with a named pattern of its own - 9 to 17 distinct
   named patterns and up to 8 temporary ones in one schema - that is repeated within the name (p/p), referred to by a
   constraint ({q: p}), shared with the rule it signs ("b"/p_i/p_(i-1): the key must repeat the packet's binding), or
   absent (temporaries only).  What a pattern means does not depend on how many others the schema has.
   #w1 <= #w2 <= ... <= #wn. *)
WId(i) == "#w" \o ToString(i)
WP(i)  == "p" \o ToString(i)
WQ(i)  == "q" \o ToString(i)
WRule(i, n, sh) ==
  LET nxt == IF i < n THEN <<WId(i + 1)>> ELSE <<>> IN
  CASE sh = 0 -> Rule(WId(i), <<P(WP(i)), P(WP(i))>>, <<>>, nxt)
    [] sh = 1 -> Rule(WId(i), <<P(WP(i)), Lit("c"), P(WQ(i))>>, << <<C1(WQ(i), <<P(WP(i))>>)>> >>, nxt)
    [] sh = 2 /\ i > 1 -> Rule(WId(i), <<Lit("b"), P(WP(i)), P(WP(i - 1))>>, <<>>, nxt)
    [] sh = 2 /\ i = 1 -> Rule(WId(i), <<Lit("b"), P(WP(i))>>, <<>>, nxt)
    [] OTHER -> Rule(WId(i), <<P("_t"), Lit("a"), P("_u")>>, << <<C1("_u", <<Lit("a"), Lit("b")>>)>> >>, nxt)
WideOf(n, o) == [i \in 1..n |-> WRule(i, n, (i + o) % 4)]
Wide == {WideOf(7, 0)} \cup {WideOf(n, o) : n \in {10, 13}, o \in 0..3}

(* ---- stacked constraints (number of constraints on ONE pattern of one expanded name as a dimension): the pattern
   y (or the temporary _t) of #r1: x/y gets two constraints - both in one set of #r1, or one in #r1 and one in
   #r2: #r1/"c" which inherits the first.  The constraints hold TOGETHER (ConsHold: every constraint about the
   variable, each by one of its options); their options mix literals with "equal to x" / $eq(x), so that two
   constraints whose literals exclude each other may still hold at once through the other alternative.  #r2 is a
   packet rule (signed by #s) and a key rule (signer of #d: "b"/x, which binds x beforehand). *)
FEq(a) == [k |-> "f", f |-> "$eq", args |-> <<a>>]
StkO1 == {<<Lit("a")>>, <<Lit("a"), Lit("b")>>, <<Lit("a"), P("x")>>, <<Lit("b"), FEq(P("x"))>>}
StkO2 == {<<Lit("c")>>, <<Lit("b"), Lit("c")>>, <<Lit("c"), P("x")>>, <<Lit("c"), FEq(P("x"))>>, <<P("x")>>}
StkTail(c2) == << Rule("#r2", <<R("#r1"), Lit("c")>>, c2, <<"#s">>), Rule("#s", <<Lit("c")>>, <<>>, <<>>),
                  Rule("#d", <<Lit("b"), P("x")>>, <<>>, <<"#r2">>) >>
Stacked ==
  UNION {{ <<Rule("#r1", <<P("x"), P("y")>>, << <<C1("y", o1)>> >>, <<>>)>> \o StkTail(<< <<C1("y", o2)>> >>),      \* inherited + own
           <<Rule("#r1", <<P("x"), P("y")>>, << <<C1("y", o2)>> >>, <<>>)>> \o StkTail(<< <<C1("y", o1)>> >>),
           <<Rule("#r1", <<P("x"), P("y")>>, << <<C1("y", o1), C1("y", o2)>> >>, <<>>)>> \o StkTail(<<>>),            \* one set
           <<Rule("#r1", <<P("x"), P("_t")>>, << <<C1("_t", o1), C1("_t", o2)>> >>, <<>>)>> \o StkTail(<<>>) }
         : o1 \in StkO1, o2 \in StkO2}

WfFamily == {s \in UNION {RedefSigned(s) : s \in
              UNION {UNION {UNION {{pr \o r3 : r3 \in Rule3s(r2)} : pr \in Signed(r1, r2)}
                            : r2 \in Rule2New(r1) \cup Rule2Redef} : r1 \in Rule1s}}
             : WellFormed([rules |-> s])}
            \cup SharedEnd \cup Towers \cup Stacked \cup Wide

(* ---- possibly ill-formed family ---- *)
BadNames == {<<i>> : i \in {Lit("a"), P("x"), R("#r1"), R("#r2"), R("#_k"), R("#zz")}}
            \cup {<<Lit("a"), i>> : i \in {Lit("a"), P("x"), R("#r1"), R("#r2"), R("#_k"), R("#zz")}}
BadCons == {<<>>, << <<C1("x", <<Lit("a")>>)>> >>, << <<C1("y", <<Lit("a")>>)>> >>, << <<C1("x", <<P("y")>>)>> >>,
            << <<C1("x", <<P("_t")>>)>> >>, << <<C1("_t", <<Lit("a")>>)>> >>,
            << <<C1("x", <<[k |-> "f", f |-> "$eq", args |-> <<P("y")>>]>>)>> >>}
BadSign == {<<>>, <<"#r1">>, <<"#r2">>, <<"#zz">>, <<"#_k">>}
BadRule2 == UNION {{Rule(id, n, <<>>, s) : n \in {<<Lit("b")>>, <<R("#r1")>>, <<P("y")>>}, s \in {<<>>, <<"#r1">>}}
                   : id \in {"#r2", "#_k"}}
(* the error in a SECOND definition of a rule: #r1 is written twice with the same name (both definitions end on one
   node of the tree unless the name has a temporary pattern), the first definition is unsigned or signed by #r2, the
   second has any of the signer lists - a cycle through it, an undefined signer, a temporary rule as signer *)
TwinNames == {<<Lit("a")>>, <<P("x")>>, <<Lit("a"), P("x")>>, <<Lit("a"), P("_t")>>}
TwinBad == {<<Rule("#r1", n, <<>>, s1), Rule("#r1", n, <<>>, s2), r2>>
            : n \in TwinNames, s1 \in {<<>>, <<"#r2">>}, s2 \in BadSign, r2 \in BadRule2}
BadFamily == {<<Rule("#r1", n, c, s), r2>> : n \in BadNames, c \in BadCons, s \in BadSign, r2 \in BadRule2}
             \cup TwinBad

Family == IF Mode \in {"schemas", "checks", "laws"} THEN SetToSeq(WfFamily) ELSE IF Mode = "illformed" THEN SetToSeq(BadFamily) ELSE <<>>
Count  == IF Mode = "trees" THEN Len(TreeList) ELSE Len(Family)
(* shapes where compiler passes interact: a rule defined twice and referred to twice (#r3: #r1/#r1), in particular
   both definitions constraining a temporary pattern of the same identifier *)
HasTemp(r) == \E j \in 1..Len(r.name) : r.name[j].k = "p" /\ IsTempPat(r.name[j].p)
Focus(s)   == Len(s) = 3 /\ s[2].id = "#r1" /\
              \/ (HasTemp(s[1]) /\ HasTemp(s[2]) /\ Len(s[1].cons) > 0 /\ Len(s[2].cons) > 0)
              \/ (s[1].sign # s[2].sign /\ s[1].name = s[2].name)
Focus2(s)  == Len(s) = 3 /\ s[2].id = "#r2" /\ s[3].name = <<R("#r2"), R("#r1")>> /\ HasTemp(s[1]) /\ Len(s[1].cons) > 0
(* a constraint of #r1 on a pattern its own name does not have, inherited by #r2 which refers to #r1 and has the pattern *)
HasItem(r, it) == \E j \in 1..Len(r.name) : r.name[j] = it
Focus3(s)  == Len(s) >= 2 /\ Len(s[1].cons) > 0 /\ s[1].cons[1][1].pat = "x" /\ ~HasItem(s[1], P("x"))
              /\ s[2].id = "#r2" /\ HasItem(s[2], R("#r1")) /\ HasItem(s[2], P("x"))
Focus4(s)  == Len(s) >= 4 /\ \E j \in 1..Len(s) : s[j].id = "#k1"      \* SharedEnd
Focus5(s)  == \E j \in 1..Len(s) : s[j].id = "#top"                     \* Towers
Focus6(s)  == \E j \in 1..Len(s) : s[j].id = "#d" /\ s[j].sign = <<"#r2">>   \* Stacked
Focus7(s)  == Len(s) >= 7                                               \* Wide
FocusBad(s) == Len(s) = 3                                  \* TwinBad
(* focus shapes are sampled every (FocusStride * weight)-th; weight 0: not a focus shape *)
FocusW(s)  == IF Mode \in {"schemas", "checks"}
              THEN (IF Focus(s) \/ Focus2(s) \/ Focus4(s) \/ Focus7(s) THEN 1
                    ELSE IF Focus5(s) THEN (IF Mode = "checks" THEN 2 ELSE 1)
                    ELSE IF Focus6(s) THEN 2
                    ELSE IF Focus3(s) THEN 4 ELSE 0)
              ELSE IF Mode = "illformed" THEN (IF FocusBad(s) THEN 1 ELSE 0)
              ELSE 0
Picked == {i \in 1..Count : i % Stride = Offset % Stride}
          \cup (IF Mode \in {"schemas", "checks", "illformed"}
                THEN {i \in 1..Count : LET w == FocusW(Family[i]) IN
                                       w > 0 /\ i % (FocusStride * w) = FocusOffset % (FocusStride * w)}
                ELSE {})

ExpSchema(i) == LET S == [rules |-> Family[i]]  CH == AllChains(S) IN
  <<"E", i, S.rules,
    IF Mode = "schemas" THEN [ni \in 1..Len(ENames) |-> MatchWith(S, CH, ENames[ni], NoDev)] ELSE <<>>,
    IF Mode = "checks" THEN CheckYes(S, CH, ENames, NoDev) ELSE {}>>
(* Laws of the reference (stage A). A law that fails is printed; witnesses show the laws are not vacuous. *)
DevT == [temprep |-> TRUE, prebound |-> FALSE]
DevP == [temprep |-> FALSE, prebound |-> TRUE]
RefsTwice(S) == \E i \in 1..NRules(S) : Cardinality({a \in 1..Len(S.rules[i].name) : S.rules[i].name[a].k = "r"}) >= 2
Laws(i) == LET S == [rules |-> Family[i]]  CH == AllChains(S)
               NI == 1..Len(ENames)
               MS == {<<ni, MatchWith(S, CH, ENames[ni], NoDev)>> : ni \in NI}       \* evaluated once
               Hit == {m[1] : m \in {x \in MS : x[2] # {}}}
               MST == {<<ni, MatchWith(S, CH, ENames[ni], DevT)>> : ni \in NI}
               DNames == [ni \in NI |-> Append(ENames[ni], DigestComp)]
               Y0 == CheckYes(S, CH, ENames, NoDev)
               YP == CheckYes(S, CH, ENames, DevP)
               NoCons == \A di \in 1..NRules(S) : Len(S.rules[di].cons) = 0
  IN <<"L", i,
       (IF \E pk \in Y0 : ~(pk[1] \in Hit /\ pk[2] \in Hit) THEN {"CheckImpliesBothMatch"} ELSE {})
       \cup (IF \E m \in MS : MatchWith(S, CH, DNames[m[1]], NoDev) # m[2] THEN {"DigestIgnored"} ELSE {})
       \cup (IF CheckYes(S, CH, DNames, NoDev) # Y0 THEN {"CheckDigestIgnored"} ELSE {})
       \cup (IF WellFormed(S) THEN {} ELSE {"FamilyWellFormed"})
       \cup (IF ~RefsTwice(S) /\ MST # MS THEN {"DevTOnlyOnRepeatedReference"} ELSE {})
       \cup (IF \E m \in MS : MatchWith(S, CH, ENames[m[1]], DevP) # m[2] THEN {"DevPOnlyWithCarriedBindings"} ELSE {})
       \cup (IF NoCons /\ YP # Y0 THEN {"DevPOnlyWithConstraints"} ELSE {})
       \cup (IF Y0 \subseteq YP THEN {} ELSE {"DevPOnlyAddsYes"}),
       (IF Y0 # {} THEN {"w-check-yes"} ELSE {})
       \cup (IF MST # MS THEN {"w-devT-differs"} ELSE {})
       \cup (IF YP # Y0 THEN {"w-devP-differs"} ELSE {})
       \cup (IF \E m \in MS : Cardinality(m[2]) >= 2 THEN {"w-two-rules-match"} ELSE {}) >>

ExpBad(i) == LET S == [rules |-> Family[i]] IN
  <<"W", i, S.rules, WellFormed(S), WhyIllFormed(S), IF WellFormed(S) THEN NoSelfSigner(S, AllChains(S)) ELSE FALSE>>
(* The compiler never puts constraints on an edge whose tag is already bound on the path to it (they sit
   on the first occurrence); only for such trees is Checker.match claimed to follow the documented walk
   when no bindings are carried in (C11).  Sane trees only. *)
RECURSIVE PathTags(_, _)
PathTags(M, i) == IF i = M.start THEN {}
                  ELSE LET par == NodeAt(M, i).parent  pp == NodeAt(M, par).p
                       IN PathTags(M, par) \cup {pp[j].tag : j \in {q \in 1..Len(pp) : pp[q].dest = i}}
CompilerShaped(M) == \A i \in Reach(M) : \A j \in 1..Len(NodeAt(M, i).p) :
                        NodeAt(M, i).p[j].tag \in PathTags(M, i) => Len(NodeAt(M, i).p[j].cons) = 0
(* the same tree read by a second checker whose dictionary gives the identifier $eq another function *)
EnumTab == ("$eq" :> "$ne")
ExpTree(i) == LET M == TreeList[i]  M2 == RetabTree(M, EnumTab) IN
  <<"T", i, M, Sane(M), WhyInsane(M),
    IF Sane(M) THEN [ni \in 1..Len(ENames) |-> Walk(M, ENames[ni], M.start, 0, EmptyTCtx, NoDev)] ELSE <<>>,
    IF Sane(M) THEN CompilerShaped(M) ELSE FALSE,
    IF Sane(M) /\ Corrupt = "none" THEN [ni \in 1..Len(ENames) |-> Walk(M2, ENames[ni], M2.start, 0, EmptyTCtx, NoDev)] ELSE <<>> >>

VARIABLE ix
EInit == /\ ix \in Picked
         /\ PrintT(IF Mode \in {"schemas", "checks"} THEN ExpSchema(ix) ELSE IF Mode = "laws" THEN Laws(ix) ELSE IF Mode = "illformed" THEN ExpBad(ix) ELSE ExpTree(ix))
         /\ ti = 0 /\ nm = <<>> /\ c0 = <<>> /\ cur = 0 /\ ei = 0 /\ stack = <<>> /\ ctx = <<>> /\ mts = <<>>
         /\ out = {} /\ steps = 0
ENext == UNCHANGED <<ix, wvars>>
(* the name list, printed once *)
ASSUME PrintT(<<"NAMES", ENames>>)
=============================================================================
