---------------------------- MODULE NdnPacketsCfg ----------------------------
(* The enumerated configuration space for C01/C02 stage A (laws) and stage B (one
   implementation test per configuration).  A union of slices, each a full product over
   a few dimensions with the others at a default:
     fields   every subset of the optional fields x parameters absent/empty/short x signer
     widths   forwarding hint 0..2 names, every NonNegativeInteger width, signed-Interest extras
     bound    every signer model x every payload length that puts the outer length (before or
              after the signature shrink) or the payload length itself on 252/253/254 or
              65535/65536/65537 - found by filtering a window on the computed sizes
     names    every name of 0..MaxLen components over the component alphabet (generic of
              several lengths, typed, 3-byte type number, implicit digest, pre-existing
              parameters digest) x unsigned/HMAC/ECDSA x payload absent/present
     longname names whose Name length itself is 252/253/254
     forms    the representation of every name-valued parameter (packet name, each ForwardingHint delegation,
              KeyLocator name) x every NonStrictName form x every count of components 0..2 (0..3) x 1..2 (1..3)
              delegations with the forms mixed among them; FinalBlockId / payload as bytes, bytearray, memoryview.
              Everywhere else the representation is left open (AnyForm: the executor rotates).
   Scale = 1 (quick) or 2 (thorough) selects the alphabets.                              *)
EXTENDS NdnPackets
CONSTANT Scale

Comp(t, l) == [t |-> t, l |-> l]
G0 == Comp(8, 0)   G1 == Comp(8, 1)   G3 == Comp(8, 3)
Seg == Comp(50, 1)                    \* typed (segment number)
Big == Comp(300, 2)                   \* type number needing the 3-byte form
Imp == Comp(1, 32)                    \* ImplicitSha256Digest
Pd == Comp(2, 32)                     \* ParametersSha256Digest supplied by the caller
KL == <<G1, G3, G1>>                  \* key locator /k/KEY/1

NoSg == [kind |-> "none", r |-> 0, a |-> 0, st |-> FALSE, haskl |-> FALSE, kl |-> <<>>,
         nonce |-> 0, time |-> 0, seq |-> 0]
Sg(kind, r, a, haskl) == [kind |-> kind, r |-> r, a |-> a, st |-> TRUE, haskl |-> haskl,
                          kl |-> IF haskl THEN KL ELSE <<>>, nonce |-> 0, time |-> 0, seq |-> 0]
SgDigest == Sg("digest", 32, 32, FALSE)
SgDigestI(nw) == [Sg("digestI", 32, 32, FALSE) EXCEPT !.nonce = nw, !.time = 8]
SgHmac == Sg("hmac", 32, 32, TRUE)
SgRsa == Sg("rsa", 256, 256, TRUE)
SgEd == Sg("ed25519", 64, 64, TRUE)
SgNull == Sg("null", 0, 0, FALSE)
SgEc(a) == Sg("ecdsa", 72, a, TRUE)
SgSyn(r, a) == Sg("syn", r, a, FALSE)              \* harness signer: reserves r, writes a
SgSynBare(r, a) == [SgSyn(r, a) EXCEPT !.st = FALSE]  \* ... and leaves SignatureInfo empty

NoMeta == [p |-> FALSE, ct |-> 0, fp |-> 0, fbi |-> -1]
Meta(ct, fp, fbi) == [p |-> TRUE, ct |-> ct, fp |-> fp, fbi |-> fbi]
DefRep == [name |-> AnyForm, fh |-> <<>>, kl |-> AnyForm, fbi |-> "any", pay |-> "any"]
Base(kind) == [kind |-> kind, name |-> <<G1>>, cbp |-> FALSE, mbf |-> FALSE, fh |-> <<>>, nonce |-> FALSE,
               life |-> 0, hop |-> FALSE, app |-> -1, meta |-> NoMeta, content |-> -1, sg |-> NoSg, vp |-> FALSE,
               rep |-> DefRep]
BaseI == Base("interest")
BaseD == [Base("data") EXCEPT !.meta = Meta(1, 0, -1)]
Kinds == {"interest", "data"}
BaseOf(k) == IF k = "interest" THEN BaseI ELSE BaseD
WithPayload(c, n) == IF IsInterest(c) THEN [c EXCEPT !.app = n] ELSE [c EXCEPT !.content = n]

Thorough == Scale >= 2
SgEcAll == { SgEc(a) : a \in 70..72 }
SynSmall(m) == { s \in { SgSyn(r, a) : r \in 0..m, a \in 0..m } : s.a <= s.r }
SynBig == { SgSyn(252, a) : a \in {0, 1, 251, 252} } \cup { SgSyn(253, a) : a \in {253, 252, 0} }
SgBound == IF Thorough
           THEN {NoSg, SgDigest, SgHmac, SgRsa, SgEd, SgNull, SgSynBare(8, 5)} \cup SgEcAll \cup SynSmall(8) \cup SynBig
           ELSE {NoSg, SgDigest, SgRsa, SgEd, SgNull, SgSynBare(8, 5)} \cup SgEcAll \cup SynSmall(3) \cup SynBig

\* ---- slice: optional fields
FieldsI ==
  LET apps == IF Thorough THEN {-1, 0, 5} ELSE {-1, 5}
      sgs == IF Thorough THEN {NoSg, SgDigest, SgEc(71)} ELSE {NoSg, SgEc(71)} IN
  { [BaseI EXCEPT !.name = <<G1, G1>>, !.cbp = b1, !.mbf = b2, !.fh = IF b3 THEN << <<G1>> >> ELSE <<>>,
                  !.nonce = b4, !.life = IF b5 THEN 2 ELSE 0, !.hop = b6, !.app = ap, !.sg = s] :
      b1 \in BOOLEAN, b2 \in BOOLEAN, b3 \in BOOLEAN, b4 \in BOOLEAN, b5 \in BOOLEAN, b6 \in BOOLEAN,
      ap \in apps, s \in sgs }
FieldsD ==
  LET metas == {NoMeta} \cup { Meta(ct, fp, fbi) : ct \in {0, 1}, fp \in {0, 2}, fbi \in {-1, 3} }
      sgs == IF Thorough THEN {NoSg, SgDigest, SgEc(71), SgRsa} ELSE {NoSg, SgEc(71)} IN
  { [BaseD EXCEPT !.name = <<G1, G1>>, !.meta = m, !.content = n, !.sg = s] :
      m \in metas, n \in {-1, 0, 5}, s \in sgs }

\* ---- slice: widths
WidthsI ==
  LET fhs == { <<>>, << <<G1>> >>, << <<G1, Seg>>, <<>> >>, << <<G1>>, <<G3, G1>> >> }
      lifes == IF Thorough THEN {1, 2, 4, 8} ELSE {1, 8}
      sgs == IF Thorough THEN {NoSg, SgHmac, SgDigestI(8), SgDigestI(4)} ELSE {NoSg, SgDigestI(8)} IN
  { [BaseI EXCEPT !.fh = f, !.life = w, !.app = ap, !.sg = s] : f \in fhs, w \in lifes, ap \in {-1, 5}, s \in sgs }
WidthsD ==
  LET cts == IF Thorough THEN {1, 2, 4, 8} ELSE {1, 8}
      fps == IF Thorough THEN {1, 2, 4, 8} ELSE {2, 8}
      fbis == IF Thorough THEN {-1, 0, 3} ELSE {-1, 3}
      sgs == IF Thorough THEN {NoSg, SgHmac} ELSE {NoSg} IN
  { [BaseD EXCEPT !.meta = Meta(ct, fp, fbi), !.content = 5, !.sg = s] : ct \in cts, fp \in fps, fbi \in fbis, s \in sgs }

\* ---- slice: length boundaries
Bnd == {252, 253, 254, 65535, 65536, 65537}
Win(x) == { n \in (x - 8)..(x + 8) : n >= 0 }
Cands(c) == Bnd \cup UNION { Win(b - (Reserved(WithPayload(c, b)).len - b)) \cup Win(b - (Final(WithPayload(c, b)).len - b)) : b \in Bnd }
Hits(c, n) == LET x == WithPayload(c, n) IN Reserved(x).len \in Bnd \/ Final(x).len \in Bnd \/ n \in Bnd
PayloadSet(c) == {0, 1} \cup { n \in Cands(c) : Hits(c, n) }
Bound == UNION { { WithPayload([BaseOf(k) EXCEPT !.sg = s], n) : n \in PayloadSet([BaseOf(k) EXCEPT !.sg = s]) } :
                 k \in Kinds, s \in SgBound }

\* ---- slice: names
Alphabet == IF Thorough THEN {G0, G1, G3, Seg, Big, Imp, Pd} ELSE {G1, Seg, Big, Imp, Pd}
MaxLen == IF Thorough THEN 3 ELSE 2
NameShapes == {<<>>} \cup { <<a>> : a \in Alphabet } \cup { <<a, b>> : a \in Alphabet, b \in Alphabet }
              \cup (IF MaxLen >= 3 THEN { <<a, b, c>> : a \in Alphabet, b \in Alphabet, c \in Alphabet } ELSE {})
Names == { [BaseOf(k) EXCEPT !.name = nm, !.sg = s, !.app = IF k = "interest" THEN n ELSE -1,
                             !.content = IF k = "data" THEN n ELSE -1] :
             k \in Kinds, nm \in NameShapes, s \in {NoSg, SgHmac, SgEc(71)}, n \in {-1, 3} }
LongShapes == { <<Comp(8, n)>> : n \in 205..254 } \cup { <<Comp(8, n), G1>> : n \in 205..254 }
LongName == { c \in { [BaseOf(k) EXCEPT !.name = nm, !.sg = s, !.app = IF k = "interest" THEN n ELSE -1,
                                         !.content = IF k = "data" THEN n ELSE -1] :
                        k \in Kinds, nm \in LongShapes, s \in {NoSg, SgHmac}, n \in {-1, 3} } :
              NameEl(FinalName(c)).len \in {252, 253, 254} }

\* digest placeholders of a wrong length (must be refused)
BadDigest == { [BaseI EXCEPT !.name = nm, !.app = 5, !.sg = s, !.nonce = TRUE, !.life = 2] :
                 nm \in { <<G1, Comp(2, 0)>>, <<G1, Comp(2, 33)>>, <<Comp(2, 31)>>, <<Comp(2, 0), G1>>, <<G1, Comp(2, 1), G1>> },
                 s \in {NoSg, SgHmac} }
\* ---- slice: representations of the name-valued (and octet-string) parameters
\* names of 0..2 (0..3) components - a tuple of exactly two looks like a (preference, name) pair of the 0.2 format;
\* the second delegation starts with other components than the first, so that no two delegations of a hint are equal
Counts == IF Thorough THEN 0..3 ELSE 0..2
NameOf(n) == SubSeq(<<G1, Seg, G3>>, 1, n)
NameOfAt(i, n) == IF i % 2 = 1 THEN NameOf(n) ELSE SubSeq(<<G3, G1, Seg>>, 1, n)
Fm(b, i) == [box |-> b, item |-> i]
FormsName == { [BaseOf(k) EXCEPT !.name = nm, !.rep.name = f, !.app = IF k = "interest" THEN n ELSE -1,
                                 !.content = IF k = "data" THEN n ELSE -1] :
                 k \in Kinds, f \in NameForms, nm \in { NameOf(i) : i \in Counts } \cup {<<G1, Pd>>, <<Pd, Seg>>}, n \in {-1, 3} }
Deleg == { [f |-> f, n |-> n] : f \in NameForms, n \in Counts }
DelegFew == { [f |-> Fm("list", "bytes"), n |-> 1], [f |-> Fm("tuple", "bytes"), n |-> 2], [f |-> Fm("tuple", "strs"), n |-> 2],
              [f |-> Fm("uri", "none"), n |-> 0], [f |-> Fm("wire", "none"), n |-> 2] }
HintLists == { <<d>> : d \in Deleg } \cup { <<d, e>> : d \in Deleg, e \in DelegFew } \cup { <<e, d>> : e \in DelegFew, d \in Deleg }
             \cup (IF Thorough THEN { <<d, e>> : d \in Deleg, e \in Deleg } \cup { <<e, d, e2>> : e \in DelegFew, d \in Deleg, e2 \in DelegFew }
                    ELSE {})
FormsHint == { [BaseI EXCEPT !.fh = [i \in 1..Len(h) |-> NameOfAt(i, h[i].n)], !.rep.fh = [i \in 1..Len(h) |-> h[i].f]] : h \in HintLists }
SgKl(s, kl) == [s EXCEPT !.haskl = TRUE, !.kl = kl]
\* (an EMPTY key name only with the synthetic signer: the library's *Checker validators refuse a KeyLocator whose Name has no
\* components - "which verifier matches a key without a name" is C02's subject, not a representation question)
KlSigners == {SgSyn(8, 5), SgHmac} \cup (IF Thorough THEN {SgEc(71), SgRsa, SgEd} ELSE {})
FormsKl == { c \in { [WithPayload(BaseOf(k), 3) EXCEPT !.sg = SgKl(s, NameOf(n)), !.rep.kl = f] :
                       k \in Kinds, f \in NameForms, n \in Counts, s \in KlSigners } :
               Len(c.sg.kl) > 0 \/ c.sg.kind = "syn" }
FormsBin == { [BaseD EXCEPT !.meta = Meta(1, 0, 3), !.content = 5, !.rep.fbi = x, !.rep.pay = y, !.sg = s] :
                x \in BinForms, y \in BinForms, s \in {NoSg, SgHmac} }
            \cup { [BaseI EXCEPT !.app = 5, !.rep.pay = y] : y \in BinForms }
Forms == FormsName \cup FormsHint \cup FormsKl \cup FormsBin

CfgSpace == Forms \cup BadDigest \cup FieldsI \cup FieldsD \cup WidthsI \cup WidthsD \cup Bound \cup Names \cup LongName
=============================================================================
