\* C07 stage A by hand (quick bounds); needs the environment variable C07_TAB=<file for the letter table>
\*   C07_TAB=/tmp/tab.json java ... tlc2.TLC -config TlvModelC07.cfg TlvModelC07
\* (add INVARIANT Emit to print every terminal state, as stage B does)
SPECIFICATION Spec
CONSTANTS
  MaxLen = 4
  Lvl = 0
  Pks = {"interest", "data", "cert", "lp", "name"}
CONSTANTS SchemaOfCase <- C07Schema IcOfCase <- C07Ic InputOfCase <- C07Input
INVARIANT AcceptIffWellFormed
INVARIANT ExtractEqual
INVARIANT RejectHasReason
INVARIANT AgreesWithRunScan
INVARIANT PosBound
PROPERTY OneElementPerStep
PROPERTY FposMonotone
CHECK_DEADLOCK FALSE
