------------------------ MODULE NdnPacketsCertHistTrace ------------------------
(* Histories recorded from real signer objects (every signer class, longer than the exhaustive
   bound, more locators) must be behaviours of NdnPacketsCertHist with DevCache = FALSE.
   record: [init, ev: <<[a |-> "SetLocator", l], [a |-> "SignData"], [a |-> "Issue", fn, kl, iss], [a |-> "Scribble", i]>>]
   kl = identifier of the locator found in the certificate (0 = none of the configured ones); iss = the issuer-id component
   found in its name ("ref" = what the reference says, "scribbled" = bytes the caller wrote into an earlier result or argument,
   "other"); Scribble: the caller overwrote every mutable object of its i-th result and of the arguments handed in for it;
   every event carries after = identifier of the locator configured in the signer object after the step.  *)
EXTENDS NdnPacketsCertHist, Json, IOUtils, TLCExt
Traces == ndJsonDeserialize(IOEnv.TRACE_FILE)
VARIABLES tid, l
tvars == <<vars, tid, l>>
Tr == Traces[tid].ev
Max2(a, b) == IF a > b THEN a ELSE b
TInit == tid \in 1..Len(Traces) /\ l = 1 /\ InitWith(Traces[tid].init) /\ TLCSet(tid, 1)
Ev(a) == l <= Len(Tr) /\ Tr[l].a = a /\ l' = l + 1 /\ UNCHANGED tid
After == loc' = Tr[l].after
TSet == Ev("SetLocator") /\ SetLocator(Tr[l].l) /\ After
TData == Ev("SignData") /\ SignData /\ After
TIssue == Ev("Issue") /\ Issue(Tr[l].fn) /\ issued'[Len(issued')].kl = Tr[l].kl /\ issued'[Len(issued')].iss = Tr[l].iss /\ After
TScribble == Ev("Scribble") /\ Scribble(Tr[l].i) /\ After
\* [a |-> "Recheck", same: <<BOOLEAN ...>>]: is each certificate issued so far (returned buffer, returned name, parse
\* results held since) still what it was when it was issued - except those the caller itself scribbled over (scr)
TRecheck == /\ l <= Len(Tr) /\ Tr[l].a = "Recheck" /\ l' = l + 1 /\ UNCHANGED <<tid, vars>>
            /\ Len(Tr[l].same) = Len(issued) /\ \A i \in 1..Len(issued) : i \in scr \/ Tr[l].same[i]
TNext == TSet \/ TData \/ TIssue \/ TScribble \/ TRecheck
TSpec == TInit /\ [][TNext]_tvars
Mark == TLCSet(tid, Max2(TLCGet(tid), l))
Post == \A i \in 1..Len(Traces) : TLCGet(i) = Len(Traces[i].ev) + 1 \/ PrintT(<<"REJECTED", i, TLCGet(i)>>)
=============================================================================
