---------------------------- MODULE TlvModelC07 ----------------------------
(* C07 stages A and B: the scan machine instantiated with the packet schemas, over every element
   sequence up to MaxLen over the packet alphabets of level Lvl (TlvModelPackets).  The machine
   (plus the mandatory-name / LP post-checks) is the algorithm; WellFormed / Extract are the
   definition:      Verdict = accept  <=>  WellFormed           accept => out = Extract
   The Name decoder is not a TlvModel: its law is an ASSUME over all component sequences.
   Stage B: every terminal state is emitted (Emit, a PrintT line <<"S", pk, w, verdict, why, taken>>)
   together with the letter table (IOEnv.C07_TAB: schema, letters, the value each letter parses
   to); harness/props/c07.py serialises each sequence with the strict writer and runs the real
   decoder on it.
   HISTORIES.  Init starts EVERY case from InitSt(schema): the machine has no variable that survives a
   packet, so the expectation emitted for a sequence holds whatever the decoder has been given before.
   The harness replays a sample of the emitted sequences in fresh interpreters in several orders
   (irregular sequences - Irregular below - first and the regular ones last; reversed; shuffled) and
   compares every answer with the same emitted expectation.                                   *)
EXTENDS TlvModelScan, TlvModelPackets, Json, IOUtils
CONSTANTS MaxLen, Lvl, Pks

\* zero-arity constant definitions: TLC evaluates them once
AllPks     == Packets \cup NestedPks
SchemaTab  == [pk \in AllPks |-> SchemaOfPk(pk)]
LettersTab == [pk \in AllPks \cup {"name"} |-> Letters(pk, Lvl)]
C07Schema(cc) == SchemaTab[cc.pk]
C07Ic(cc)     == IcOfPk(cc.pk)
C07Input(cc)  == [i \in 1 .. Len(cc.w) |-> LettersTab[cc.pk][cc.w[i]]]
Inp == C07Input(c)

Init == \E pk \in Pks \ {"name"} :
          \E w \in LetterSeqs(Len(AlphaOf(pk, Lvl)), Len(TailOf(pk, Lvl)), MaxLen) :
            /\ c = [pk |-> pk, w |-> w]
            /\ st = InitSt(SchemaTab[pk])
Spec == Init /\ [][Next]_vars

AcceptIffWellFormed == Terminal => ((Verdict(c.pk, st) = "accept") <=> WellFormed(c.pk, Inp))
ExtractEqual        == (Terminal /\ Verdict(c.pk, st) = "accept") => st.out = Extract(c.pk, Inp)
\* a rejection always carries a reason (used for the signatures of implementation mismatches)
RejectHasReason     == (Terminal /\ Verdict(c.pk, st) = "reject") => Why(c.pk, st) # ""
Emit == Terminal => PrintT(<<"S", c.pk, c.w, Verdict(c.pk, st), Why(c.pk, st), st.taken,
                             IF Verdict(c.pk, st) = "accept" THEN Ptrs(c.pk, Inp, st) ELSE Ptrs("none", Inp, st)>>)

\* a sequence the machine rejects, or in which it leaves an element untaken (unknown, repeated, out of order): what a
\* history puts FIRST (the harness derives the same from the emitted verdict and taken list)
Irregular == Terminal /\ (Verdict(c.pk, st) # "accept" \/ Len(st.taken) < Len(Inp))

\* Name.from_bytes: accept <=> every component lies inside the Name; the components are the kids
NameSeqs == LetterSeqs(Len(AlphaOf("name", Lvl)), Len(TailOf("name", Lvl)), MaxLen + 1)
NameKids(w) == [i \in 1 .. Len(w) |-> LettersTab["name"][w[i]]]
NameLaw == \A w \in NameSeqs :
             LET r == ParseValue(FName("name", N(7)), Node(N(7), NameKids(w)))
             IN /\ r.ok <=> WellFormedName(NameKids(w))
                /\ (r.ok => r.fv.comps = ExtractName(NameKids(w)))
ASSUME NameLaw
ASSUME \A pk \in AllPks : DistinctTypes(SchemaOfPk(pk))
\* the frames are well-formed packets of their parent, and the nested field is where FrameOf says
ASSUME \A pk \in NestedPks :
         LET f == FrameOf(pk)
             r == RunScan(SchemaOfPk(ParentOf(pk)), FALSE, f.pre \o <<Node(f.t, <<>>)>> \o f.post)
         IN r.status = "accept" /\ r.out[f.field].k = "model" /\ SchemaOfPk(ParentOf(pk))[f.field].t = f.t
            /\ SchemaOfPk(ParentOf(pk))[f.field].sub = SchemaOfPk(pk) /\ SchemaOfPk(ParentOf(pk))[f.field].ic = IcOfPk(pk)
ASSUME "name" \notin Pks \/ \A w \in NameSeqs :
          LET r == ParseValue(FName("name", N(7)), Node(N(7), NameKids(w)))
          IN PrintT(<<"S", "name", w, IF r.ok THEN "accept" ELSE "reject", r.why, <<>>, Ptrs("none", <<>>, <<>>)>>)

\* letter table for the executor
LetterValue(pk, e) ==
  IF pk = "name" THEN [ok |-> e.fits, fv |-> [k |-> "comp", t |-> e.t, runs |-> e.runs], why |-> ""]
  ELSE LET s == SchemaTab[pk]
           i == Idx(s, e.t)
       IN IF i = 0 \/ ~e.fits THEN Res(FALSE, None, "") ELSE ParseValue(ElemDesc(s[i]), e)
ASSUME JsonSerialize(IOEnv.C07_TAB,
         [pk \in Pks |-> [schema |-> IF pk = "name" THEN <<>> ELSE SchemaTab[pk],
                          outer |-> OuterType(IF pk \in NestedPks THEN ParentOf(pk) ELSE pk),
                          letters |-> LettersTab[pk],
                          values |-> [i \in 1 .. Len(LettersTab[pk]) |-> LetterValue(pk, LettersTab[pk][i])],
                          \* nested levels: the frame, the parent's schema and what the parent yields for the
                          \* frame with an empty container
                          frame |-> IF pk \in NestedPks
                                    THEN LET f == FrameOf(pk)
                                             ps == SchemaTab[ParentOf(pk)]
                                         IN [parent |-> ParentOf(pk), pre |-> f.pre, t |-> f.t, post |-> f.post, field |-> f.field,
                                             pschema |-> ps,
                                             pout |-> RunScan(ps, FALSE, f.pre \o <<Node(f.t, <<>>)>> \o f.post).out]
                                    ELSE [parent |-> ""]]])

\* ------------------------------------------------------------------ vacuity witnesses (must be VIOLATED)
W_AcceptFull      == ~(Terminal /\ Verdict(c.pk, st) = "accept" /\ Len(Inp) = MaxLen)
W_MissingName     == ~(Terminal /\ st.status = "accept" /\ Why(c.pk, st) = "missing-name")
W_LpFrag          == ~(Terminal /\ Why(c.pk, st) = "lp-fragmentation-unsupported")
W_NestedOverrun   == ~(Terminal /\ st.status = "reject" /\ st.why \in {"signature_info/overrun", "meta_info/overrun"})
W_IgnoredByFlagIn == ~(Terminal /\ Verdict(c.pk, st) = "accept" /\ c.pk = "data"
                       /\ \E p \in 1 .. Len(Inp) : Inp[p] = SigInfoUnkCrit(N(22)) /\ IsTaken(DataS, Inp, p))
W_OooNonCritical  == ~(Terminal /\ Verdict(c.pk, st) = "accept" /\ c.pk = "lp"
                       /\ \E p \in 1 .. Len(Inp) : Idx(LpS, Inp[p].t) # 0 /\ ~IsTaken(LpS, Inp, p))
=============================================================================
