---------------------------- MODULE TlvModelC07 ----------------------------
(* C07 stage A: the scan machine instantiated with the packet schemas, over every element
   sequence up to MaxLen over the packet alphabets (TlvModelPackets).  The machine (plus the
   mandatory-name / LP post-checks) is the algorithm; WellFormed / Extract are the definition:
       Verdict = accept  <=>  WellFormed           accept => out = Extract
   The Name decoder is not a TlvModel: its law is an ASSUME over all component sequences.    *)
EXTENDS TlvModelScan, TlvModelPackets
CONSTANTS MaxLen, Full, Pks

C07Schema(cc) == SchemaOfPk(cc.pk)
C07Ic(cc)     == IcOfPk(cc.pk)
C07Input(cc)  == LET L == Letters(cc.pk, Full) IN [i \in 1 .. Len(cc.w) |-> L[cc.w[i]]]
Inp == C07Input(c)

Init == \E pk \in Pks :
          \E w \in LetterSeqs(Len(AlphaOf(pk, Full)), Len(TailOf(pk)), MaxLen) :
            /\ c = [pk |-> pk, w |-> w]
            /\ st = InitSt(SchemaOfPk(pk))
Spec == Init /\ [][Next]_vars

AcceptIffWellFormed == Terminal => ((Verdict(c.pk, st) = "accept") <=> WellFormed(c.pk, Inp))
ExtractEqual        == (Terminal /\ Verdict(c.pk, st) = "accept") => st.out = Extract(c.pk, Inp)
\* a rejection always carries a reason (used for the signatures of implementation mismatches)
RejectHasReason     == (Terminal /\ Verdict(c.pk, st) = "reject") => Why(c.pk, st) # ""

\* Name.from_bytes: accept <=> every component lies inside the Name; the components are the kids
NameLaw == \A w \in LetterSeqs(Len(NameAlpha), Len(NameTail), MaxLen + 1) :
             LET kids == [i \in 1 .. Len(w) |-> Letters("name", TRUE)[w[i]]]
                 r == ParseValue(FName("name", N(7)), Node(N(7), kids))
             IN /\ r.ok <=> WellFormedName(kids)
                /\ (r.ok => r.fv.comps = ExtractName(kids))
ASSUME NameLaw
ASSUME \A pk \in Packets : DistinctTypes(SchemaOfPk(pk))

\* ------------------------------------------------------------------ vacuity witnesses (must be VIOLATED)
W_AcceptFull      == ~(Terminal /\ Verdict(c.pk, st) = "accept" /\ Len(Inp) = MaxLen)
W_MissingName     == ~(Terminal /\ st.status = "accept" /\ Why(c.pk, st) = "missing-name")
W_LpFrag          == ~(Terminal /\ Why(c.pk, st) = "lp-fragmentation-unsupported")
W_NestedOverrun   == ~(Terminal /\ st.status = "reject" /\ st.why = "overrun" /\ st.pos <= Len(Inp) /\ Inp[st.pos].fits)
W_IgnoredByFlagIn == ~(Terminal /\ Verdict(c.pk, st) = "accept" /\ c.pk = "data"
                       /\ \E p \in 1 .. Len(Inp) : Inp[p] = SigInfoUnkCrit(N(22)) /\ IsTaken(DataS, Inp, p))
W_OooNonCritical  == ~(Terminal /\ Verdict(c.pk, st) = "accept" /\ c.pk = "lp"
                       /\ \E p \in 1 .. Len(Inp) : Idx(LpS, Inp[p].t) # 0 /\ ~IsTaken(LpS, Inp, p))
=============================================================================
