-------------------------- MODULE SchemaTreeTrace --------------------------
(* Trace validation for X02: histories recorded from the real ndn.schema classes (harness/schemakit.py) must be
   behaviours of SchemaTree.  Every event is one call  <<action name, arguments...>>  (the value the
   specification keeps in `call`) and the projection of the implementation after it; the specification's action
   is taken with exactly these arguments and every projected variable must agree.  The invariants of SchemaTree
   are evaluated on every state of every trace as well (INames: a small fixed universe).
   Batch pattern of SegFetchTrace: tid picks the trace, TLC register tid remembers how far it was accepted.  *)
EXTENDS SchemaTree, Json, IOUtils, TLCExt

TraceReg == 1000000
ASSUME TLCSet(TraceReg, ndJsonDeserialize(IOEnv.TRACE_FILE))
Traces == TLCGet(TraceReg)
VARIABLES tid, l
tvars == <<vars, tid, l>>

Tr == Traces[tid].ev
Max2(a, b) == IF a > b THEN a ELSE b
TrNone == {}
TrDev == AllDevs
TrNames == LET S == {<<8, "a">>, <<8, "b">>, <<8, "c">>, <<32, "a">>} IN UNION {[1..k -> S] : k \in 0..2}

\* projection of a tree <-> the list of node records in the trace
NodeJ(x) == [path |-> x.path, lits |-> x.lits, pats |-> ToSet(x.pats), pol |-> x.pol, kind |-> x.kind,
             data |-> x.data, up |-> x.up]
TreeSet(t) == {[path |-> q, lits |-> t[q].lits, pats |-> t[q].pats, pol |-> t[q].pol, kind |-> t[q].kind,
                data |-> t[q].data, up |-> IF HasParent(t, q) THEN "ok" ELSE "none"] : q \in DOMAIN t}
TreeFromJson(js) ==
    [q \in {x.path : x \in ToSet(js)} |->
        LET x == CHOOSE y \in ToSet(js) : y.path = q IN
        [lits |-> x.lits, pats |-> ToSet(x.pats), pol |-> x.pol, kind |-> x.kind, data |-> x.data]]

TInit == /\ tid \in 1..Len(Traces)
         /\ l = 1
         /\ tree = TreeFromJson(Traces[tid].cfg.tree) /\ rprefix = Traces[tid].cfg.rprefix
         /\ phase = "build" /\ npol = 0 /\ aprefix = <<>> /\ regok = FALSE /\ reg = <<>> /\ filt = {}
         /\ caches = [c \in CacheIds |-> <<>>]
         /\ pend = <<>> /\ nops = 0 /\ sent = <<>> /\ ints = <<>> /\ res = [op |-> "init", k |-> "ok"]
         /\ call = <<"Init">>
         /\ TLCSet(tid, 1)

\* what of res can be observed: not `hit`; an Interest without effect is "nothing" whatever the reason; env is a dict
Norm(r) == [f \in DOMAIN r \ {"hit"} |->
               IF f = "env" THEN ToSet(r[f])
               ELSE IF f = "k" /\ r.op = "interest" /\ r[f] \notin {"hit", "proc"} THEN "nothing"
               ELSE r[f]]
Ents(es) == {<<es[i].n, es[i].p>> : i \in 1..Len(es)}

PostOk == LET p == Tr[l].post IN
    /\ TreeSet(tree') = {NodeJ(x) : x \in ToSet(p.tree)}
    /\ rprefix' = p.rprefix /\ phase' = p.phase /\ reg' = p.reg /\ filt' = ToSet(p.filt)
    /\ \A cid \in CacheIds : Ents(caches'[cid]) = Ents(p.caches[cid])
    /\ Len(pend') = p.npend
    /\ sent' = p.sent /\ ints' = p.ints
    /\ Norm(res') = Norm(p.res)
    /\ p.problems = <<>>

Act(c) ==
    CASE c[1] = "GetItem"        -> GetItem(c[2], c[3])
      [] c[1] = "SetItem"        -> SetItem(c[2], c[3], c[4])
      [] c[1] = "SetPolicy"      -> SetPolicy(c[2], c[3], c[4])
      [] c[1] = "SetPolicyWrong" -> SetPolicyWrong(c[2])
      [] c[1] = "SetPrefix"      -> SetPrefix(c[2])
      [] c[1] = "QMatch"         -> QMatch(c[2], c[3])
      [] c[1] = "QFinerMatch"    -> QFinerMatch(c[2], c[3])
      [] c[1] = "QExist"         -> QExist(c[2], c[3])
      [] c[1] = "QGetPolicy"     -> QGetPolicy(c[2], c[3])
      [] c[1] = "Attach"         -> Attach(c[2], c[3])
      [] c[1] = "Provide"        -> Provide(c[2], c[3], c[4])
      [] c[1] = "ProvideSeg"     -> ProvideSeg(c[2], c[3], c[4])
      [] c[1] = "Need"           -> Need(c[2], c[3], c[4])
      [] c[1] = "Deliver"        -> Deliver(c[2], c[3], c[4], c[5])
      [] c[1] = "Fail"           -> Fail(c[2])
      [] c[1] = "Interest"       -> Interest(c[2], c[3], c[4])

TNext == /\ l <= Len(Tr)
         /\ Act(Tr[l].call)
         /\ PostOk
         /\ l' = l + 1 /\ UNCHANGED tid
TSpec == TInit /\ [][TNext]_tvars

Mark == TLCSet(tid, Max2(TLCGet(tid), l))
Post == \A i \in 1..Len(Traces) :
          \/ TLCGet(i) = Len(Traces[i].ev) + 1
          \/ PrintT(<<"REJECTED", i, TLCGet(i)>>)
=============================================================================
