----------------------------- MODULE LvsTree -----------------------------
(* Light VerSec: the BINARY MODEL as a tree (docs/src/lvs/binary-format.rst), read from JSON.

   M : [hver, version, hstart, start, npc,
        nodes   : Seq([hid, id, hp, parent, rules : Seq(STRING),
                       v : Seq([hd, dest, hv, val]),
                       p : Seq([hd, dest, ht, tag, cons : Seq(Seq(opt))]),    \* CNF: AND of ORs
                       sign : Seq(Nat)]),
        symbols : Seq([tag, ident])]
   opt : [hv, v, ht, tag, hf, fn, args : Seq([hv, v, ht, tag])]
   An optional TLV element e of the format is the pair (he : BOOLEAN, e); node id i is M.nodes[i+1].

   Part 1  Sane(M): the documented sanity rules, one operator per rule.
   Part 2  Walk / TreeMatch / TreeCheck: what a model means, as a recursive walk.
   Part 3  The explicit backtracking state machine of Checker._match (one action per loop iteration of
           the code), whose termination on sane trees and agreement with Part 2 TLC checks on all small
           trees (configuration LvsTree_walk*.cfg).
   dev.prebound: see Lvs.tla (the machine and the walk both take the flag; FALSE = documented meaning). *)
EXTENDS Lvs, Integers, SequencesExt

MinVersion == 69632      \* 0x00011000
MaxVersion == 69632

NN(M)         == Len(M.nodes)
Exists(M, id) == id \in 0..(NN(M) - 1)
NodeAt(M, id) == M.nodes[id + 1]
VDests(nd)    == {nd.v[j].dest : j \in {q \in 1..Len(nd.v) : nd.v[q].hd}}
PDests(nd)    == {nd.p[j].dest : j \in {q \in 1..Len(nd.p) : nd.p[q].hd}}
DestsOf(nd)   == VDests(nd) \cup PDests(nd)

RECURSIVE Grow(_, _)
Grow(M, X) == LET Y == X \cup UNION {{d \in DestsOf(NodeAt(M, i)) : Exists(M, d)} : i \in X}
              IN IF Y = X THEN X ELSE Grow(M, Y)
(* The rules are read over the nodes reachable from the root (the documentation marks "no unreachable
   nodes" optional and says python-ndn does not check it; reading every rule over reachable nodes only
   is the reading with the fewest obligations). *)
(* Two things the documented list does NOT contain, and which therefore carry no obligation here (triage of
   observations on the unchanged library, round 8):
   - StartId.  A model without a StartId element, or with one that names no node, has no root: nothing is reachable,
     every rule below holds vacuously, Sane is TRUE and no outcome of the loader is prescribed (python-ndn raises
     LvsModelError for a StartId beyond the nodes and TypeError for a missing one).
   - Cycles in the signing relation between nodes.  "Every SignConstraint refers to an existing destination node ID"
     is all the format asks of signer ids; a corrupted id that stays in range and closes a cycle leaves the model
     Sane (python-ndn rejects it with the schema error SemanticError, the class it uses for cyclic signing
     relations of a source text - C13 prescribes LvsModelError only for a broken sanity rule). *)
Reach(M) == IF M.hstart /\ Exists(M, M.start) THEN Grow(M, {M.start}) ELSE {}

-----------------------------------------------------------------------------
(* Part 1: "Sanity Check" *)
VersionOk(M) == M.hver /\ M.version >= MinVersion /\ M.version <= MaxVersion
IdsOk(M)     == \A i \in Reach(M) : NodeAt(M, i).hid /\ NodeAt(M, i).id = i
DestsOk(M)   == \A i \in Reach(M) : LET nd == NodeAt(M, i) IN
                  /\ \A j \in 1..Len(nd.v) : nd.v[j].hd /\ Exists(M, nd.v[j].dest)
                  /\ \A j \in 1..Len(nd.p) : nd.p[j].hd /\ Exists(M, nd.p[j].dest)
SignersOk(M) == \A i \in Reach(M) : \A j \in 1..Len(NodeAt(M, i).sign) : Exists(M, NodeAt(M, i).sign[j])
Branches(o)  == (IF o.hv THEN 1 ELSE 0) + (IF o.ht THEN 1 ELSE 0) + (IF o.hf THEN 1 ELSE 0)
OptionsOk(M) == \A i \in Reach(M) : LET nd == NodeAt(M, i) IN
                  \A j \in 1..Len(nd.p) : \A a \in 1..Len(nd.p[j].cons) : \A b \in 1..Len(nd.p[j].cons[a]) :
                     Branches(nd.p[j].cons[a][b]) = 1
ParentsOk(M) == \A i \in Reach(M) : \A d \in DestsOf(NodeAt(M, i)) :
                  Exists(M, d) => (NodeAt(M, d).hp /\ NodeAt(M, d).parent = i)

Sane(M) == VersionOk(M) /\ IdsOk(M) /\ DestsOk(M) /\ SignersOk(M) /\ OptionsOk(M) /\ ParentsOk(M)
WhyInsane(M) == IF ~VersionOk(M) THEN "version" ELSE IF ~IdsOk(M) THEN "node-id"
                ELSE IF ~DestsOk(M) THEN "edge-destination" ELSE IF ~SignersOk(M) THEN "signer-id"
                ELSE IF ~OptionsOk(M) THEN "option-shape" ELSE IF ~ParentsOk(M) THEN "parent" ELSE "sane"

-----------------------------------------------------------------------------
(* Part 2: meaning of a model. ctx : pattern tag -> component. *)
EmptyTCtx == [x \in {} |-> ""]
TArgVal(a, ctx) == IF a.ht /\ a.tag \in DOMAIN ctx THEN ctx[a.tag] ELSE IF a.hv THEN a.v ELSE Unbound
TOptHolds(o, c, ctx) == IF o.hv THEN c = o.v
                        ELSE IF o.ht THEN o.tag \in DOMAIN ctx /\ ctx[o.tag] = c
                        ELSE Fn(o.fn, c, [j \in 1..Len(o.args) |-> TArgVal(o.args[j], ctx)])
TConsOk(e, c, ctx) == \A a \in 1..Len(e.cons) : \E b \in 1..Len(e.cons[a]) : TOptHolds(e.cons[a][b], c, ctx)
(* "A PatternEdge is satisfied if all of its constraints are satisfied"; a tag that already has a value
   must in addition repeat it. *)
EdgeOk(e, c, ctx, dev) == IF e.tag \in DOMAIN ctx THEN ctx[e.tag] = c /\ (dev.prebound \/ TConsOk(e, c, ctx))
                          ELSE TConsOk(e, c, ctx)
Bind(M, e, c, ctx) == IF e.tag <= M.npc THEN (e.tag :> c) @@ ctx ELSE ctx

RECURSIVE Walk(_, _, _, _, _, _)
Walk(M, name, id, d, ctx, dev) ==
  IF d = Len(name) THEN {<<id, ctx>>}
  ELSE LET nd == NodeAt(M, id)  c == name[d + 1] IN
       UNION {Walk(M, name, nd.v[j].dest, d + 1, ctx, dev) : j \in {q \in 1..Len(nd.v) : nd.v[q].val = c}}
       \cup
       UNION {Walk(M, name, nd.p[j].dest, d + 1, Bind(M, nd.p[j], c, ctx), dev)
              : j \in {q \in 1..Len(nd.p) : EdgeOk(nd.p[q], c, ctx, dev)}}

TreeMatch(M, name, ctx0, dev) == Walk(M, StripDigest(name), M.start, 0, ctx0, dev)

SymOf(M, t) == IF \E j \in 1..Len(M.symbols) : M.symbols[j].tag = t
               THEN M.symbols[CHOOSE j \in 1..Len(M.symbols) : M.symbols[j].tag = t].ident
               ELSE ToString(t)
NamedCtx(M, ctx) == {<<SymOf(M, t), ctx[t]>> : t \in DOMAIN ctx}
(* what Checker.match reports for rule nodes: <<rule name, bindings by identifier>> *)
TreeMatchRules(M, name) ==
  UNION {{<<NodeAt(M, r[1]).rules[j], NamedCtx(M, r[2])>> : j \in 1..Len(NodeAt(M, r[1]).rules)}
         : r \in TreeMatch(M, name, EmptyTCtx, NoDev)}
(* the model as read by a checker constructed with function table tab (Lvs!Retab on the tree) *)
RetabTOpt(o, tab) == IF o.hf THEN [o EXCEPT !.fn = TabName(tab, o.fn)] ELSE o
RetabTree(M, tab) ==
  [M EXCEPT !.nodes = [i \in 1..Len(M.nodes) |->
     [M.nodes[i] EXCEPT !.p = [j \in 1..Len(M.nodes[i].p) |->
        [M.nodes[i].p[j] EXCEPT !.cons = [a \in 1..Len(M.nodes[i].p[j].cons) |->
           [b \in 1..Len(M.nodes[i].p[j].cons[a]) |-> RetabTOpt(M.nodes[i].p[j].cons[a][b], tab)]]]]]]]
TreeCheck(M, pkt, key, dev) ==
  \E r \in TreeMatch(M, pkt, EmptyTCtx, dev) : \E k \in TreeMatch(M, key, r[2], dev) :
     k[1] \in SeqToSet(NodeAt(M, r[1]).sign)

-----------------------------------------------------------------------------
(* Part 3: Checker._match as a state machine, on small trees enumerated by TLC.
   One Step = one iteration of `while cur is not None`.  NoneId stands for Python's None. *)
CONSTANTS MaxNodes,      \* trees with 1..MaxNodes nodes
          MaxLen,        \* names of length 0..MaxLen
          Corrupt,       \* "none": sane trees only | "parent": additionally every single parent-link corruption
          CountSteps,    \* count loop iterations (off for the liveness witness so that a loop is a lasso)
          DevPrebound    \* machine follows DEV_PreboundSkipsConstraints
NoneId == 0 - 1

Alphabet == {"a", "b", "c"}
NamesUpTo(n) == UNION {[1..l -> Alphabet] : l \in 0..n}
Ctx0s == {EmptyTCtx, (1 :> "a"), (2 :> "b")}

OV(v) == [hv |-> TRUE, v |-> v, ht |-> FALSE, tag |-> 0, hf |-> FALSE, fn |-> "", args |-> <<>>]
OT(t) == [hv |-> FALSE, v |-> "", ht |-> TRUE, tag |-> t, hf |-> FALSE, fn |-> "", args |-> <<>>]
OF(f, t) == [hv |-> FALSE, v |-> "", ht |-> FALSE, tag |-> 0, hf |-> TRUE, fn |-> f,
             args |-> <<[hv |-> FALSE, v |-> "", ht |-> TRUE, tag |-> t]>>]
(* edge labels: value edges, and pattern edges <<tag, CNF>>; tags 1,2 named (npc = 2), tag 3 temporary *)
Labels == { [k |-> "v", val |-> "a"], [k |-> "v", val |-> "b"],
            [k |-> "p", tag |-> 1, cons |-> <<>>],
            [k |-> "p", tag |-> 1, cons |-> << <<OV("a")>> >>],
            [k |-> "p", tag |-> 2, cons |-> <<>>],
            [k |-> "p", tag |-> 2, cons |-> << <<OT(1)>> >>],
            [k |-> "p", tag |-> 2, cons |-> << <<OV("a"), OT(1)>> >>],
            [k |-> "p", tag |-> 3, cons |-> <<>>],
            [k |-> "p", tag |-> 3, cons |-> << <<OV("a"), OV("b")>>, <<OF("$eq", 1)>> >>] }

(* shape: par[i] < i is the parent of node i (1 <= i < n); lab[i] labels the edge into i *)
Shapes(n) == {f \in [1..(n - 1) -> 0..(n - 2)] : \A i \in 1..(n - 1) : f[i] < i}
Kids(n, par, i, kind, lab) == SelectSeq([j \in 1..(n - 1) |-> j], LAMBDA j : par[j] = i /\ lab[j].k = kind)
MkNode(n, par, lab, i) ==
  LET vk == Kids(n, par, i, "v", lab)  pk == Kids(n, par, i, "p", lab) IN
  [hid |-> TRUE, id |-> i, hp |-> i > 0, parent |-> IF i > 0 THEN par[i] ELSE 0, rules |-> <<>>,
   v |-> [j \in 1..Len(vk) |-> [hd |-> TRUE, dest |-> vk[j], hv |-> TRUE, val |-> lab[vk[j]].val]],
   p |-> [j \in 1..Len(pk) |-> [hd |-> TRUE, dest |-> pk[j], ht |-> TRUE, tag |-> lab[pk[j]].tag,
                                cons |-> lab[pk[j]].cons]],
   sign |-> <<>>]
MkTree(n, par, lab) ==
  [hver |-> TRUE, version |-> MaxVersion, hstart |-> TRUE, start |-> 0, npc |-> 2,
   nodes |-> [q \in 1..n |-> MkNode(n, par, lab, q - 1)], symbols |-> <<>>]
(* the compiler never emits two value edges with the same value under one node; Checker._match takes
   only the first of such a pair, the walk takes both - outside the claim. *)
DistinctValues(n, par, lab) ==
  \A i, j \in 1..(n - 1) : (i # j /\ par[i] = par[j] /\ lab[i].k = "v" /\ lab[j].k = "v") => lab[i].val # lab[j].val
TreesOfShape(n, par) == {MkTree(n, par, lab) : lab \in {l \in [1..(n - 1) -> Labels] : DistinctValues(n, par, l)}}
SaneTrees == UNION {UNION {TreesOfShape(n, par) : par \in Shapes(n)} : n \in 1..MaxNodes}
(* single parent-field corruptions: parent of node i set to any node id or removed; the root given a parent *)
WithParent(T, i, hp, pv) == [T EXCEPT !.nodes[i + 1].hp = hp, !.nodes[i + 1].parent = pv]
(* (guarded: TLC evaluates every constant definition at start-up, also the unused ones) *)
ParentCorrupted == IF Corrupt # "parent" THEN {} ELSE
                   UNION {UNION {{WithParent(T, i, TRUE, pv) : pv \in 0..(NN(T) - 1)} \cup {WithParent(T, i, FALSE, 0)}
                                 : i \in 0..(NN(T) - 1)} : T \in SaneTrees}
Trees == SaneTrees \cup ParentCorrupted
TreeList == SetToSeq(Trees)

VARIABLES ti,       \* index into TreeList          (inputs, constant along a behaviour)
          nm, c0,   \* name, initial context
          cur, ei, stack, ctx, mts, out, steps
wvars == <<ti, nm, c0, cur, ei, stack, ctx, mts, out, steps>>
T == TreeList[ti]

(* The tree is chosen by the initial state, the name and the carried context by the first step (so that
   TLC's workers share the exploration: initial states are generated by one thread only). *)
NotStarted == 0 - 2
WInit == /\ ti \in 1..Len(TreeList)
         /\ nm = <<>> /\ c0 = EmptyTCtx
         /\ cur = NotStarted /\ ei = NoneId /\ stack = <<>> /\ ctx = EmptyTCtx /\ mts = <<>> /\ out = {} /\ steps = 0
StepStart == /\ cur = NotStarted
             /\ nm' \in NamesUpTo(MaxLen) /\ c0' \in Ctx0s
             /\ cur' = T.start /\ ctx' = c0'
             /\ UNCHANGED <<ti, ei, stack, mts, out, steps>>

Depth == Len(stack)
Node  == NodeAt(T, cur)
Tick  == steps' = IF CountSteps THEN steps + 1 ELSE steps
Same  == UNCHANGED <<ti, nm, c0>>
(* the `if backtrack:` block, from the state (st, ms, cx, e) reached earlier in the same iteration *)
Backtrack(st, ms, cx, e) ==
  /\ stack' = IF Len(st) > 0 THEN SubSeq(st, 1, Len(st) - 1) ELSE st
  /\ ei' = IF Len(st) > 0 THEN st[Len(st)] ELSE e
  /\ mts' = IF Len(ms) > 0 THEN SubSeq(ms, 1, Len(ms) - 1) ELSE ms
  /\ ctx' = IF Len(ms) > 0 /\ ms[Len(ms)] >= 0
            THEN [t \in DOMAIN cx \ {ms[Len(ms)]} |-> cx[t]] ELSE cx
  /\ cur' = IF Node.hp THEN Node.parent ELSE NoneId

Running == cur # NoneId /\ cur # NotStarted
(* depth == len(name): yield, then backtrack *)
StepYield == /\ Running /\ Depth = Len(nm)
             /\ out' = out \cup {<<cur, ctx>>}
             /\ Backtrack(stack, mts, ctx, ei) /\ Tick /\ Same
(* edge_index < 0: value edges; the first one that matches is taken *)
FirstV == {j \in 1..Len(Node.v) : Node.v[j].val = nm[Depth + 1] /\ \A q \in 1..(j - 1) : Node.v[q].val # nm[Depth + 1]}
StepValueHit == /\ Running /\ Depth < Len(nm) /\ ei < 0
                /\ \E j \in FirstV : cur' = Node.v[j].dest
                /\ stack' = Append(stack, 0) /\ mts' = Append(mts, NoneId) /\ ei' = NoneId
                /\ UNCHANGED <<ctx, out>> /\ Tick /\ Same
StepValueMiss == /\ Running /\ Depth < Len(nm) /\ ei < 0 /\ FirstV = {}
                 /\ ei' = 0 /\ UNCHANGED <<cur, stack, ctx, mts, out>> /\ Tick /\ Same
(* 0 <= edge_index < len(p_edges): one pattern edge *)
PE == Node.p[ei + 1]
Bound == PE.tag \in DOMAIN ctx
Passes == IF Bound THEN ctx[PE.tag] = nm[Depth + 1] /\ (DevPrebound \/ TConsOk(PE, nm[Depth + 1], ctx))
          ELSE TConsOk(PE, nm[Depth + 1], ctx)
StepPatternSkip == /\ Running /\ Depth < Len(nm) /\ ei >= 0 /\ ei < Len(Node.p) /\ ~Passes
                   /\ ei' = ei + 1 /\ UNCHANGED <<cur, stack, ctx, mts, out>> /\ Tick /\ Same
StepPatternTake == /\ Running /\ Depth < Len(nm) /\ ei >= 0 /\ ei < Len(Node.p) /\ Passes
                   /\ ctx' = IF ~Bound /\ PE.tag <= T.npc THEN (PE.tag :> nm[Depth + 1]) @@ ctx ELSE ctx
                   /\ mts' = Append(mts, IF ~Bound /\ PE.tag <= T.npc THEN PE.tag ELSE NoneId)
                   /\ stack' = Append(stack, ei + 1) /\ cur' = PE.dest /\ ei' = NoneId
                   /\ UNCHANGED out /\ Tick /\ Same
(* all edges tried *)
StepExhausted == /\ Running /\ Depth < Len(nm) /\ ei >= Len(Node.p)
                 /\ Backtrack(stack, mts, ctx, ei) /\ UNCHANGED out /\ Tick /\ Same

WNext == StepStart \/ StepYield \/ StepValueHit \/ StepValueMiss \/ StepPatternSkip \/ StepPatternTake \/ StepExhausted
WSpec == WInit /\ [][WNext]_wvars /\ WF_wvars(WNext)

Done == cur = NoneId
Dev0 == [temprep |-> FALSE, prebound |-> DevPrebound]
(* properties of the machine on sane trees *)
WalkEqualsRec == Done => out = Walk(T, nm, T.start, 0, c0, Dev0)
YieldsSound   == out \subseteq Walk(T, nm, T.start, 0, c0, Dev0)
YieldsSoundA  == [][out' # out => out' \subseteq Walk(T, nm, T.start, 0, c0, Dev0)]_wvars   \* same, checked at yields only
WalkEqualsDocumented == Done => out = Walk(T, nm, T.start, 0, c0, NoDev)    \* violated when DevPrebound (witness)
ContextRestored == Done => ctx = c0                 \* bindings made by the walk are undone
CarriedKept   == \A t \in DOMAIN c0 : t \in DOMAIN ctx /\ ctx[t] = c0[t]   \* carried bindings are never dropped or changed
StackShape    == Len(mts) = Len(stack) /\ Len(stack) <= Len(nm)
(* iterations are bounded: every node is entered at most once per way of reaching it, and an entry costs
   one value iteration, one iteration per pattern edge and one backtrack *)
StepBudget(M, L) == LET F[i \in 0..NN(M)] == IF i = 0 THEN 0 ELSE F[i - 1] + Len(M.nodes[i].p) + 3 IN F[NN(M)]
StepsBounded  == CountSteps => steps <= StepBudget(T, Len(nm))
NoStall       == Done \/ ENABLED WNext              \* the loop never gets stuck before `cur is None`
Terminates    == <>Done
(* On corrupted trees.  TLC shows that the documented rules alone do NOT make the walk terminate: a root
   that carries a Parent element (nothing in the format or the sanity list forbids it) sends the backtracking
   step `cur = node.parent` back into the tree (W_SaneIsEnough is violated by a one-node tree whose root
   names itself as parent).  With the extra condition "the root has no parent" they do. *)
RootHasNoParent(M) == Exists(M, M.start) => ~NodeAt(M, M.start).hp
TerminatesIfSane == (Sane(T) /\ RootHasNoParent(T)) => <>Done
W_SaneIsEnough   == Sane(T) => <>Done                \* witness: must be VIOLATED
(* witness: the parent rule cannot be waived for the children of node 0 *)
SaneButRootChildren(M) ==
  /\ VersionOk(M) /\ IdsOk(M) /\ DestsOk(M) /\ SignersOk(M) /\ OptionsOk(M)
  /\ \A i \in Reach(M) \ {0} : \A d \in DestsOf(NodeAt(M, i)) :
        Exists(M, d) => (NodeAt(M, d).hp /\ NodeAt(M, d).parent = i)
W_RootChildrenWaived == (SaneButRootChildren(T) /\ RootHasNoParent(T)) => <>Done     \* witness: must be VIOLATED
(* vacuity witnesses (must be VIOLATED) *)
W_Backtracked  == ~(Done /\ Cardinality(out) >= 2)
W_PreboundUsed == ~(Done /\ c0 # EmptyTCtx /\ out # {})
W_DeepYield    == ~(Done /\ \E r \in out : DOMAIN r[2] # DOMAIN c0)

-----------------------------------------------------------------------------
(* Part 4 (C13): the signing relation between NAME PATTERNS (what becomes a node of the tree), as opposed to
   the relation between rule identifiers (Lvs!SignAcyclic).

   Several rules - with different identifiers, or several definitions of one identifier - may expand to the very same
   name pattern: `#root: "net"/s/"KEY"/k` next to `#cert: #site/"KEY"/k` with `#site: "net"/s`.  Packets named like
   that are then packets of all these rules at once, whatever the rule is called, so a loop of "is signed by" can close
   through such a pattern although no rule IDENTIFIER is on a loop (#a: "x"/p <= #c, #b: "x"/p, #c: "y"/r <= #b).
   C13: "... raises the documented schema error whenever the text has ... cyclic signing relations" and "... in which no
   name pattern is, directly or transitively, its own signer".

   Interpretation (least obligation).  Lvs!NoSelfSigner is the COARSE reading (a schema with a coarse loop carries no
   obligation to be accepted).  For the obligation to be REFUSED the reading is the narrowest one: two expanded names
   are the same name pattern only when that is beyond doubt -
     - the same items at every position: equal literals, named patterns with equal identifiers, a temporary pattern
       only the SAME occurrence (same definition, same position, same reference path: in practice two alternatives of
       one definition); and
     - every pattern carries the same constraints, option for option, and no pattern carries more than one constraint
       (with two constraints on one pattern the two texts may list them in different orders; they mean the same, but
       nothing is demanded of them here).
   An expanded name in which some pattern carries several constraints is a pattern of its own (PatKey: tagged with
   its definition di) - triage round 11: `#r3: #r2/"y" & {a: "x"}` with `#r2: "y"/a & {a: $in("u")}` next to
   `#zs: "y"/a/"y" & {a: $in("u"), a: "x"}`, #r3 <= #zs: the library lays the two out as different nodes (it compares the
   constraint lists in the order in which ITS expansion collects them) and accepts; not demanded otherwise here. *)
ConsOfItem(ch, j) == IF ch.items[j].k = "x" THEN SelectSeq(ch.cons, LAMBDA c : c.var = ch.items[j].var) ELSE <<>>
PlainCons(ch)  == \A j \in 1..Len(ch.items) : Len(ConsOfItem(ch, j)) <= 1
PatKey(di, ch) == IF PlainCons(ch)
                  THEN <<"p", ch.items, [j \in 1..Len(ch.items) |-> [q \in 1..Len(ConsOfItem(ch, j)) |-> ConsOfItem(ch, j)[q].opts]]>>
                  ELSE <<"u", di, ch>>
PatSignEdges(S, CH) ==
  UNION {UNION {UNION {{<<PatKey(i, a), PatKey(dk, b)>> : a \in CH[i], b \in CH[dk]} : dk \in DefsOf(S, S.rules[i].sign[j])}
                : j \in 1..Len(S.rules[i].sign)} : i \in 1..NRules(S)}
(* some name pattern is, directly or transitively, its own signer - beyond doubt.  Only called on schemas with
   WellFormed (CH = AllChains(S)).  PatternIsOwnSigner => ~NoSelfSigner (Shape is a function of PatKey's items). *)
PatternIsOwnSigner(S, CH) == LET E == PatSignEdges(S, CH) IN HasCycle(E, {e[1] : e \in E} \cup {e[2] : e \in E})

(* The same question asked of a MODEL the library produced: the signing relation between its nodes.  A model that
   compile_lvs + Checker hand out for a source text is the library's own statement of which name patterns the text
   has and who signs whom; if that relation loops, the text had a cyclic signing relation and was not refused.
   (Not a sanity rule of the binary format - see Reach above; used for models compiled from text only.) *)
NodeSignEdges(M) == UNION {{<<i, NodeAt(M, i).sign[j]>> : j \in 1..Len(NodeAt(M, i).sign)} : i \in Reach(M)}
NodeSignCycle(M) == LET E == NodeSignEdges(M) IN HasCycle(E, {e[1] : e \in E} \cup {e[2] : e \in E})
=============================================================================
