SPECIFICATION TSpec
CONSTANTS PZones = {} PYears = {} Wide = FALSE Lifetimes = {} MaxSteps = 100000 Dev = "none"
CONSTRAINT Mark
INVARIANT Inv
POSTCONDITION Post
CHECK_DEADLOCK FALSE
