-------------------------- MODULE TrustChainTrace --------------------------
(* Trace validation for C14: what the harness did to the validator instances of one world
   (NewValidator with a key storage / Validate / FetchReply as the world says / Heal / Forget) and, after the loop went quiescent,
   what it observed: constructor outcome per instance, certificate Interests per instance, verdicts
   in order of completion. The internal steps (CheckSchema, UseAnchor, UseCache, Fetch, VerifySig,
   Verdict) are not observed: TLC looks for them. The world is part of the trace. *)
EXTENDS TrustChain, Json, IOUtils, TLCExt

Traces == ndJsonDeserialize(IOEnv.TRACE_FILE)
VARIABLES tid, l, ph
tvars == <<vars, tid, l, ph>>

Tr == Traces[tid].ev
Max2(a, b) == IF a > b THEN a ELSE b
RangeOf(s) == {s[i] : i \in 1..Len(s)}
\* JSON arrays -> sets
WorldOf(j) == [schema |-> {<<x[1], x[2]>> : x \in RangeOf(j.schema)},
               roots |-> RangeOf(j.roots), covers |-> [sh \in DOMAIN j.covers |-> RangeOf(j.covers[sh])], shape |-> j.shape, certs |-> j.certs, pkts |-> j.pkts,
               alg |-> j.alg, sch |-> j.sch, epoch |-> 0,      \* alg: JSON object key -> algorithm (never empty)
               alias |-> j.alias, fp |-> j.fp]                  \* (never empty: the harness adds an entry for a name no element uses)

TInit == /\ tid \in 1..Len(Traces)
         /\ l = 1 /\ ph = "env"
         /\ InitWith(WorldOf(Traces[tid].world))
         /\ TLCSet(tid, 1)

PostOk(p) ==
  /\ \A a \in Apps : /\ Len(wire[a]) = Len(p.wire[a])
                     /\ \A i \in 1..Len(wire[a]) : wire[a][i] = p.wire[a][i]
  /\ \A v \in Inst : inst[v].k = p.inst[v]
  /\ Len(out) = Len(p.out)
  /\ \A i \in 1..Len(out) : out[i].v = p.out[i].v /\ out[i].p = p.out[i].p /\ out[i].r = p.out[i].r

Stim(e) ==
  CASE e.a = "NewValidator" -> NewValidator(e.v, e.x, e.st)
    [] e.a = "Validate" -> Validate(e.s, e.p)
    [] e.a = "FetchReply" -> FetchReply(e.app, e.n, e.kind)
    [] e.a = "Heal" -> Heal(e.x)
    [] e.a = "Forget" -> Forget(e.v)
    [] OTHER -> FALSE

TEnv == /\ ph = "env" /\ l <= Len(Tr)
        /\ Stim(Tr[l])
        /\ ph' = "run" /\ UNCHANGED <<tid, l>>
TInt == /\ ph = "run"
        /\ Internal
        /\ UNCHANGED <<tid, l, ph>>
TObs == /\ ph = "run" /\ Quiescent
        /\ PostOk(Tr[l].post)
        /\ l' = l + 1 /\ ph' = "env"
        /\ UNCHANGED <<vars, tid>>

TNext == TEnv \/ TInt \/ TObs
TSpec == TInit /\ [][TNext]_tvars

Mark == /\ TLCSet(tid, Max2(TLCGet(tid), l))
        /\ (l = Len(Tr) + 1 => PrintT(<<"END", tid, dev, bad>>))
Post == \A i \in 1..Len(Traces) :
          \/ TLCGet(i) = Len(Traces[i].ev) + 1
          \/ PrintT(<<"REJECTED", i, TLCGet(i)>>)
AnyAnchor(v) == DOMAIN W.certs
AnyStore(v) == StoreKinds
=============================================================================
