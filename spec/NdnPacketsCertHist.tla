--------------------------- MODULE NdnPacketsCertHist ---------------------------
(* C16, clause "names the key locator configured in the issuing signer": a signer object is
   long-lived.  The usual CA bootstrap creates it with locator = key name, self-signs, points
   the locator at the new certificate and goes on issuing with the same object.  So the property
   is about histories on ONE signer, not about single requests:

     SetLocator(l)   the application assigns signer.key_locator_name
     SignData        the signer signs an ordinary Data packet (any first use of the object)
     Issue(fn)       self_sign / sign_req / derive_cert / new_cert with this signer.  Issuing must not
                     reconfigure the signer it is given: loc is unchanged by it (the harness reads the
                     configuration back after every step and the trace module compares it with loc)

   loc      the locator configured in the signer (an identifier; the executor maps identifiers to
            concrete names of different shapes, so a wrong locator also shows in the layout)
   handed   what write_signature_info puts into SignatureInfo.  The reference builds it from `loc`
            at every use.  DevCache = TRUE models the deviation "build the KeyLocator at the first
            use and hand the same object out afterwards"; TLC must then refute LocatorAtIssue
            (checked by the harness as a sensitivity witness of this module).
   issued   the certificates so far: [fn, kl, iss] with kl = locator found in the certificate, iss = the issuer-id
            component found in its name: "ref" (what the reference says: self / cert-request / the caller's) or "scribbled"

   Clause "named key-name / issuer-id / version" over histories: what an issuing call RETURNS (the certificate name, a list
   of components, and the wire) and what it was HANDED (key name, issuer id, key bits) belongs to the caller, who may edit
   those objects in place afterwards:
     Scribble(i)     the application overwrites every mutable object of the i-th result (the components of the returned name,
                     the list itself, the returned buffer) and of the arguments it handed in for it.  In the reference this
                     changes nothing the library does later and nothing another result shows (dirty stays empty).
   scr      the results scribbled over so far (indices into issued): their holder no longer expects them to be what they were
   dirty    only under DevShare = TRUE, the deviation "the fixed issuer-id words (self, cert-request) are library-owned
            mutable objects and the returned name contains THOSE objects": scribbling over a result of fn makes every later
            certificate of fn carry the scribbled word.  TLC must then refute NamedAtIssue (sensitivity witness).          *)
EXTENDS Integers, Sequences, TLC
CONSTANTS NLoc, MaxSteps, DevCache, DevShare, Fns      \* Fns: the issuing functions enumerated, a subset of AllFns

VARIABLES loc, cache, issued, steps, dirty, scr
vars == <<loc, cache, issued, steps, dirty, scr>>
AllFns == {"self_sign", "sign_req", "derive", "new_cert"}
ASSUME Fns \subseteq AllFns
NoCache == 0

InitWith(l) == loc = l /\ cache = NoCache /\ issued = <<>> /\ steps = 0 /\ dirty = {} /\ scr = {}
Init == \E l \in 1..NLoc : InitWith(l)

\* the locator written into the packet being signed now
Handed == IF DevCache /\ cache # NoCache THEN cache ELSE loc
Use == cache' = IF cache = NoCache THEN loc ELSE cache      \* (only observable under DevCache)

SetLocator(l) == /\ steps < MaxSteps /\ l \in 1..NLoc /\ l # loc
                 /\ loc' = l /\ steps' = steps + 1 /\ UNCHANGED <<cache, issued, dirty, scr>>
SignData == /\ steps < MaxSteps /\ Use /\ steps' = steps + 1 /\ UNCHANGED <<loc, issued, dirty, scr>>
FixedWord == {"self_sign", "sign_req"}        \* the issuer id is a word of the library's, not the caller's component
Issue(fn) == /\ steps < MaxSteps /\ fn \in Fns
             /\ issued' = Append(issued, [fn |-> fn, kl |-> Handed, iss |-> IF DevShare /\ fn \in dirty THEN "scribbled" ELSE "ref"])
             /\ Use /\ steps' = steps + 1 /\ UNCHANGED <<loc, dirty, scr>>
Scribble(i) == /\ steps < MaxSteps /\ i \in 1..Len(issued) /\ i \notin scr /\ scr' = scr \cup {i}
               /\ dirty' = IF DevShare /\ issued[i].fn \in FixedWord THEN dirty \cup {issued[i].fn} ELSE dirty
               /\ steps' = steps + 1 /\ UNCHANGED <<loc, cache, issued>>

\* the application re-reads the certificates it was handed earlier (it kept the returned buffers and names):
\* they are what they were (nothing the signer or the library does later may change them)
Recheck == UNCHANGED vars
Next == (\E l \in 1..NLoc : SetLocator(l)) \/ SignData \/ (\E fn \in Fns : Issue(fn)) \/ (\E i \in 1..MaxSteps : Scribble(i))
Spec == Init /\ [][Next]_vars

TypeOK == loc \in 1..NLoc /\ cache \in 0..NLoc /\ steps \in 0..MaxSteps /\ dirty \subseteq FixedWord /\ scr \subseteq 1..Len(issued)
\* every certificate names the locator configured at the moment it is issued ...
LocatorAtIssue == [][Len(issued') > Len(issued) => issued'[Len(issued')].kl = loc]_vars
\* every certificate carries the issuer id the reference says, whatever the caller did to earlier results and arguments ...
NamedAtIssue == [][Len(issued') > Len(issued) => issued'[Len(issued')].iss = "ref"]_vars
\* ... and nothing done to the signer later changes a certificate already issued
IssuedStable == [][Len(issued') >= Len(issued) /\ SubSeq(issued', 1, Len(issued)) = issued]_vars
\* vacuity witnesses (must be violated)
W_ChangedBetween == ~(Len(issued) >= 2 /\ issued[1].kl # issued[2].kl)
W_IssuedAfterScribble == ~(\E i \in scr : \E j \in (i + 1)..Len(issued) : issued[j].fn = issued[i].fn /\ issued[i].fn \in FixedWord /\ issued[j].iss = "ref")
W_ChangedBeforeFirstUse == ~(Len(issued) = 1 /\ steps = 2 /\ cache = issued[1].kl /\ DevCache = FALSE)
=============================================================================
