--------------------------- MODULE NdnPacketsCertHist ---------------------------
(* C16, clause "names the key locator configured in the issuing signer": a signer object is
   long-lived.  The usual CA bootstrap creates it with locator = key name, self-signs, points
   the locator at the new certificate and goes on issuing with the same object.  So the property
   is about histories on ONE signer, not about single requests:

     SetLocator(l)   the application assigns signer.key_locator_name
     SignData        the signer signs an ordinary Data packet (any first use of the object)
     Issue(fn)       self_sign / sign_req / derive_cert / new_cert with this signer.  Issuing must not
                     reconfigure the signer it is given: loc is unchanged by it (the harness reads the
                     configuration back after every step and the trace module compares it with loc)

   loc      the locator configured in the signer (an identifier; the executor maps identifiers to
            concrete names of different shapes, so a wrong locator also shows in the layout)
   handed   what write_signature_info puts into SignatureInfo.  The reference builds it from `loc`
            at every use.  DevCache = TRUE models the deviation "build the KeyLocator at the first
            use and hand the same object out afterwards"; TLC must then refute LocatorAtIssue
            (checked by the harness as a sensitivity witness of this module).
   issued   the certificates so far: [fn, kl] with kl = locator found in the certificate       *)
EXTENDS Integers, Sequences, TLC
CONSTANTS NLoc, MaxSteps, DevCache, Fns      \* Fns: the issuing functions enumerated, a subset of AllFns

VARIABLES loc, cache, issued, steps
vars == <<loc, cache, issued, steps>>
AllFns == {"self_sign", "sign_req", "derive", "new_cert"}
ASSUME Fns \subseteq AllFns
NoCache == 0

InitWith(l) == loc = l /\ cache = NoCache /\ issued = <<>> /\ steps = 0
Init == \E l \in 1..NLoc : InitWith(l)

\* the locator written into the packet being signed now
Handed == IF DevCache /\ cache # NoCache THEN cache ELSE loc
Use == cache' = IF cache = NoCache THEN loc ELSE cache      \* (only observable under DevCache)

SetLocator(l) == /\ steps < MaxSteps /\ l \in 1..NLoc /\ l # loc
                 /\ loc' = l /\ steps' = steps + 1 /\ UNCHANGED <<cache, issued>>
SignData == /\ steps < MaxSteps /\ Use /\ steps' = steps + 1 /\ UNCHANGED <<loc, issued>>
Issue(fn) == /\ steps < MaxSteps /\ fn \in Fns
             /\ issued' = Append(issued, [fn |-> fn, kl |-> Handed])
             /\ Use /\ steps' = steps + 1 /\ UNCHANGED loc

\* the application re-reads the certificates it was handed earlier (it kept the returned buffers and names):
\* they are what they were (nothing the signer or the library does later may change them)
Recheck == UNCHANGED vars
Next == (\E l \in 1..NLoc : SetLocator(l)) \/ SignData \/ (\E fn \in Fns : Issue(fn))
Spec == Init /\ [][Next]_vars

TypeOK == loc \in 1..NLoc /\ cache \in 0..NLoc /\ steps \in 0..MaxSteps
\* every certificate names the locator configured at the moment it is issued ...
LocatorAtIssue == [][Len(issued') > Len(issued) => issued'[Len(issued')].kl = loc]_vars
\* ... and nothing done to the signer later changes a certificate already issued
IssuedStable == [][Len(issued') >= Len(issued) /\ SubSeq(issued', 1, Len(issued)) = issued]_vars
\* vacuity witnesses (must be violated)
W_ChangedBetween == ~(Len(issued) >= 2 /\ issued[1].kl # issued[2].kl)
W_ChangedBeforeFirstUse == ~(Len(issued) = 1 /\ steps = 2 /\ cache = issued[1].kl /\ DevCache = FALSE)
=============================================================================
