SPECIFICATION TSpec
CONSTANTS MaxN = 64 MaxRetry = 16 MaxFaults = 1000000 Givens = {"prefix", "metaver", "dataver"}
INVARIANT InOrder
INVARIANT DoneExact
INVARIANT FailExhausted
INVARIANT ErrIffFail
INVARIANT RetryBound
INVARIANT NoOverfetch
INVARIANT AnswersOk
INVARIANT SentBound
CONSTRAINT Mark
POSTCONDITION Post
CHECK_DEADLOCK FALSE
