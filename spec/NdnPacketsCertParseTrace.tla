------------------------ MODULE NdnPacketsCertParseTrace ------------------------
(* Parse/edit histories recorded from the real parse_certificate / parse_data (more certificates, more
   results held, longer than the exhaustive bound, every buffer kind) must be behaviours of
   NdnPacketsCertParse with Dev = "none".
   record: [ev: << [a |-> "Parse", c, buf, via, views], [a |-> "Edit", h, f, op, views] >>]
   views = what every holder reads after the step, oldest handle first: field -> 0 (the value in the issued
   wire, read by the strict reader), k (the value the edit of step k produced), -1 (anything else).        *)
EXTENDS NdnPacketsCertParse, Json, IOUtils, TLCExt
Traces == ndJsonDeserialize(IOEnv.TRACE_FILE)
VARIABLES tid, l
tvars == <<vars, tid, l>>
Tr == Traces[tid].ev
Max2(a, b) == IF a > b THEN a ELSE b
TInit == tid \in 1..Len(Traces) /\ l = 1 /\ Init /\ TLCSet(tid, 1)
Ev(a) == l <= Len(Tr) /\ Tr[l].a = a /\ l' = l + 1 /\ UNCHANGED tid
Obs == /\ Len(Tr[l].views) = Len(handles')
       /\ \A h \in 1..Len(handles') : \A f \in DOMAIN ViewN(h) : Tr[l].views[h][f] = ViewN(h)[f]
TParse == Ev("Parse") /\ Parse(Tr[l].c, Tr[l].buf, Tr[l].via) /\ Obs
TEdit == Ev("Edit") /\ Edit(Tr[l].h, Tr[l].f, Tr[l].op) /\ Obs
TNext == TParse \/ TEdit
TSpec == TInit /\ [][TNext]_tvars
Mark == TLCSet(tid, Max2(TLCGet(tid), l))
Post == \A i \in 1..Len(Traces) : TLCGet(i) = Len(Traces[i].ev) + 1 \/ PrintT(<<"REJECTED", i, TLCGet(i)>>)
=============================================================================
