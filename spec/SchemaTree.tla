----------------------------- MODULE SchemaTree -----------------------------
(* X02 (extra check, not one of the listed properties) - the ndn.schema package (Name Tree Schema):
     schema_tree.py   Node (static tree, match, policies, attach/on_register), MatchedNode (pipelines)
     policy.py        policy types
     simple_cache.py  MemoryCache / MemoryCachePolicy
     simple_node.py   LocalResource, SegmentedNode (kinds "local" / "seg" of this model)
   on top of the legacy front-end ndn.app.NDNApp.

   One action = one call of the public API (or one packet handed to the application by the face) plus
   everything the library does until it is quiescent again.  The variables sent / ints / res describe what
   the LAST action put on the face, which process_int calls it caused and what it returned or raised; the
   other variables are the lasting state (tree, root prefix, prefix table, caches, the pending need()).

   Abstractions
     component      <<type, value>>            type = TLV type (8 generic, 32 keyword, 50 segment, 2 params digest)
     name           sequence of components
     edge           <<"l", type, value>>  literal child   (Node.children[component])
                    <<"p", type, "">>     pattern child   (Node.matches[(0, type)] = (variable, node))
     key            what the user writes in root['/a/<x>/<32:k>']: a literal edge or <<"p", type, variable>>
     node           identified by its path (sequence of edges) from the root; tree = [path -> node record]
                    node.lits = literal children in creation order (dict order drives on_register),
                    node.pats = {<<type, variable>>}, node.pol = [policy type -> value | "none"]
     policy value   Cache: id of the MemoryCache behind the MemoryCachePolicy; DataEnc / IntEnc: key;
                    DataSign / IntSign: signer id; DataVal / IntVal: "acc" | "rej" (verdict of the policy's
                    validator); Register / LocalOnly: "on"
     content        [k |-> "none"] or [k |-> "c", e |-> encryption key or "", v |-> plaintext]
                    (an Encryption policy wraps / unwraps one layer; unwrapping with the wrong key gives None)
     Data packet    [n, c, s, ok, fbi]: name, content, who signed ("kc" = the application's keychain, "net" =
                    made by the other side), ok = the DigestSha256 value is right (sha256_digest_checker),
                    fbi = FinalBlockId component or NoComp
     Interest       [n, ap, s, cbp]: s = "none" | "digest" | signer id

   Where doc-strings and code disagree the model follows the code:
     * MatchedNode doc: "pos ... Generally, it equals the length of name": match() stops silently at the first
       component without edge, every pipeline then works on that inner node with the full name.
     * Node.match is greedy (exact child first, never backtracks), see W_GreedyNotLongest.
     * MemoryCache.search ignores the Interest parameters (documented: "Not used in current implementation"):
       a Data under a longer name answers an Interest without CanBePrefix, MustBeFresh is not looked at.
     * put_data saves into the cache also under a LocalOnly policy (only on_data skips the cache then).
   Named deviations (Dev): behaviour of the present code that a maintainer would call a defect; the model
   describes the code as it is when the name is in Dev and the documented behaviour when it is not:
     "AttachNoPrefix"   Node.attach(app, prefix) registers under `prefix` but never stores it in root.prefix, so
                        match() (also for incoming Interests) walks the tree from the first component of the
                        full name: with a non-empty prefix every name stops at the root (pos 0).
     "EmptySearch"      MemoryCache.search([]) on an EMPTY cache: pygtrie yields nothing for the root, next()
                        raises StopIteration inside the coroutine -> RuntimeError instead of a cache miss.
     "SegNoParent"      SegmentedNode.__init__ creates its <seg:seg_no> child with Node() instead of Node(self):
                        the child has no parent link (get_policy from it sees no ancestor, match() may be called
                        on it as if it were a root).
   Outside the model (the actions are not enabled there; observed on the code, reported with X02):
     * SegmentedNode.provide with a name that stops short of / goes past the node (match.pos < len(name)) recurses
       until RecursionError (need() raises ValueError there); SegmentedNode.provide(b'') raises struct.error
       (FinalBlockId = segment -1) and stores nothing.
     * policy.Signing.get_signer is declared `async def`, put_data / express call it without await.
     * root['/'] = node raises IndexError; an Interest / a need() for the empty name is refused by NDNApp
       (IndexError in express_interest, modelled in Express).
   Not modelled: RDRNode (versions are wall-clock timestamps, metadata packets) and simple_trust.SignedBy.      *)
EXTENDS Naturals, Sequences, FiniteSets, TLC

CONSTANTS Keys,            \* keys usable in __getitem__ / __setitem__ paths
          MaxKeyLen,       \* longest key path of one call
          MaxDepth,        \* deepest node
          MaxNodes,        \* nodes besides the root
          Kinds,           \* node classes __setitem__ may place: "node" | "seg" | "local"
          PolChoices,      \* {<<policy type, value>>} usable in set_policy
          MaxPol,          \* number of set_policy calls
          RootPrefixes,    \* values the user may assign to root.prefix
          AttachPrefixes,  \* prefixes attach() may be called with
          QNames,          \* names used by queries and by the pipelines
          QFiner,          \* {<<name, longer name>>} for finer_match
          QueryOn,         \* query actions enabled (they only change res; switched off where the state graph is dumped)
          Contents,        \* plaintext contents for provide()
          AppParams,       \* plaintext ApplicationParameters
          NetContents,     \* contents of Data made by the other side
          ExtComps,        \* components by which such a Data name may extend the Interest name
          MaxOps,          \* pipeline operations after attach
          SegContents,     \* contents for provide() on a SegmentedNode, already cut into segments
          SegRetry,        \* SegmentedNode.retry_times
          MaxSegs,         \* the other side ends a segmented object after at most this many segments
          InitTrees,       \* initial trees: {[tree |-> ..., rprefix |-> ...]}
          Dev              \* named deviations modelled as coded

VARIABLES tree,      \* [path -> node]
          rprefix,   \* root.prefix
          phase,     \* "build" | "run" (attached)
          npol,      \* set_policy calls so far
          aprefix,   \* the prefix given to attach()
          regok,     \* what attach() returned
          reg,       \* prefixes for which a register command was sent, in order
          filt,      \* prefixes with an Interest filter in the application's prefix table
          caches,    \* [cache id -> sequence of [n |-> name, p |-> Data]] (unique names, first-insertion order)
          pend,      \* the pending need(): <<>> or <<[m, fname, cbp, val, ...]>>
          nops,      \* pipeline operations so far
          sent,      \* packets the last action put on the face
          ints,      \* process_int calls of the last action: [path, pos, ap]
          res,       \* what the last action returned / raised
          call       \* the last action and its arguments (TLC cannot label transitions whose parameters range over
                     \* a state-dependent set; the harness reads the label from here)

vars == <<tree, rprefix, phase, npol, aprefix, regok, reg, filt, caches, pend, nops, sent, ints, res, call>>
\* VIEW for runs that check only invariants over the lasting state (what the last action returned is left out)
Lasting == <<tree, rprefix, phase, npol, aprefix, regok, reg, filt, caches, pend, nops>>

PTypes == {"Cache", "Register", "LocalOnly", "DataEnc", "IntEnc", "DataSign", "IntSign", "DataVal", "IntVal"}
AllDevs == {"AttachNoPrefix", "EmptySearch", "SegNoParent"}
CacheIds == {"m1", "m2"}
NoPol == [t \in PTypes |-> "none"]
NoComp == <<0, "">>
DigestType == 2                    \* ParametersSha256DigestComponent: DigestOf(parameters, signature) below
SegType == 50
SegComp(i) == <<SegType, ToString(i)>>
NoContent == [k |-> "none", e |-> "", v |-> ""]
Plain(v) == [k |-> "c", e |-> "", v |-> v]

Front(s) == SubSeq(s, 1, Len(s) - 1)
Last(s) == s[Len(s)]
ToSet(s) == {s[i] : i \in 1..Len(s)}
IsPrefix(a, b) == Len(a) <= Len(b) /\ SubSeq(b, 1, Len(a)) = a
Min2(a, b) == IF a < b THEN a ELSE b

----------------------------------------------------------------------------
(* the static tree *)
IsLit(k) == k[1] = "l"
EdgeOf(k) == IF IsLit(k) THEN k ELSE <<"p", k[2], "">>
Lit(c) == <<"l", c[1], c[2]>>
Pat(ty) == <<"p", ty, "">>
CompOf(e) == <<e[2], e[3]>>
NewNode(kind) == [lits |-> <<>>, pats |-> {}, pol |-> NoPol, kind |-> kind, data |-> NoContent]
EmptyTree == [p \in {<<>>} |-> NewNode("node")]

\* _set(key, node) on a free slot of the node at cur
AddChild(t, cur, k, nd) ==
    LET c == Append(cur, EdgeOf(k)) IN
    [x \in DOMAIN t \cup {c} |->
        IF x = c THEN nd
        ELSE IF x = cur THEN (IF IsLit(k) THEN [t[cur] EXCEPT !.lits = Append(@, CompOf(k))]
                                          ELSE [t[cur] EXCEPT !.pats = @ \cup {<<k[2], k[3]>>}])
        ELSE t[x]]

\* the object __setitem__ places: a SegmentedNode comes with its <seg:seg_no> child
Place(t, cur, k, kind) ==
    LET t1 == AddChild(t, cur, k, NewNode(kind)) IN
    IF kind = "seg" THEN AddChild(t1, Append(cur, EdgeOf(k)), <<"p", SegType, "seg_no">>, NewNode("segchild"))
    ELSE t1
PlaceSize(kind) == IF kind = "seg" THEN 2 ELSE 1

\* the loop of __getitem__ / __setitem__: follow the keys, creating plain nodes where a slot is free
\* (a pattern slot is identified by its type alone: an existing <x> is reused for <y>, keeping the name x)
RECURSIVE Walk(_, _, _)
Walk(t, cur, ks) ==
    IF ks = <<>> THEN [t |-> t, at |-> cur]
    ELSE LET c == Append(cur, EdgeOf(Head(ks))) IN
         IF c \in DOMAIN t THEN Walk(t, c, Tail(ks))
         ELSE Walk(AddChild(t, cur, Head(ks), NewNode("node")), c, Tail(ks))

\* parent link of the node at p: the Front of its path, except for the deviation SegNoParent
HasParent(t, p) == p # <<>> /\ ~("SegNoParent" \in Dev /\ t[p].kind = "segchild")

\* Node.get_policy: this node, then its ancestors along the parent links
RECURSIVE GetPol(_, _, _)
GetPol(t, p, ty) ==
    IF t[p].pol[ty] # "none" THEN t[p].pol[ty]
    ELSE IF HasParent(t, p) THEN GetPol(t, Front(p), ty) ELSE "none"

Merge(pol, np) == [ty \in PTypes |-> IF np[ty] # "none" THEN np[ty] ELSE pol[ty]]
VarAt(t, cur, ty) == (CHOOSE pr \in t[cur].pats : pr[1] = ty)[2]
\* env is a dict: a variable bound twice keeps its position and takes the later value
Bind(env, var, val) ==
    IF \E i \in 1..Len(env) : env[i][1] = var
    THEN [i \in 1..Len(env) |-> IF env[i][1] = var THEN <<var, val>> ELSE env[i]]
    ELSE Append(env, <<var, val>>)

\* _match_step + the loops of match / finer_match: node cur has consumed name[1..i]
RECURSIVE Descend(_, _, _, _, _, _)
Descend(t, cur, name, i, env, pol) ==
    LET pol1 == Merge(pol, t[cur].pol) IN
    IF i >= Len(name) THEN [path |-> cur, name |-> name, pos |-> Len(name), env |-> env, pol |-> pol1]
    ELSE LET c == name[i + 1] IN
         IF Append(cur, Lit(c)) \in DOMAIN t
         THEN Descend(t, Append(cur, Lit(c)), name, i + 1, env, pol1)
         ELSE IF Append(cur, Pat(c[1])) \in DOMAIN t
              THEN Descend(t, Append(cur, Pat(c[1])), name, i + 1, Bind(env, VarAt(t, cur, c[1]), c[2]), pol1)
              ELSE [path |-> cur, name |-> name, pos |-> i, env |-> env, pol |-> pol1]

\* Node.match on the root (the caller checks IsPrefix(rp, name): otherwise ValueError)
Match(t, rp, name) == Descend(t, <<>>, name, Len(rp), <<>>, NoPol)
\* MatchedNode.finer_match
Finer(t, m, new) ==
    IF m.pos < Len(m.name) THEN [m EXCEPT !.name = new]
    ELSE Descend(t, m.path, new, Len(m.name), m.env, m.pol)

----------------------------------------------------------------------------
(* prefix registration: the register() calls of attach() if every one succeeds, in order *)
RECURSIVE RegList(_, _, _, _)
RECURSIVE RegKids(_, _, _, _, _)
RegList(t, p, prefix, cached) ==
    IF t[p].kind = "local" \/ t[p].pol.Register # "none" THEN <<prefix>>
    ELSE LET c == cached \/ t[p].pol.Cache # "none" IN
         IF c /\ (t[p].pats # {} \/ t[p].lits = <<>>) THEN <<prefix>>
         ELSE RegKids(t, p, prefix, c, t[p].lits)
RegKids(t, p, prefix, c, ls) ==
    IF ls = <<>> THEN <<>>
    ELSE RegList(t, Append(p, Lit(Head(ls))), Append(prefix, Head(ls)), c) \o RegKids(t, p, prefix, c, Tail(ls))

----------------------------------------------------------------------------
(* MemoryCache: a trie; search = first value in a pre-order walk below the name, children in creation order,
   not descending below a value (pygtrie itervalues(prefix, shallow=True)) *)
Has(es, n) == \E i \in 1..Len(es) : es[i].n = n
At(es, n) == es[CHOOSE i \in 1..Len(es) : es[i].n = n].p
Under(es, n) == SelectSeq(es, LAMBDA e : IsPrefix(n, e.n))
Miss == [k |-> "miss", p |-> NoContent]
RECURSIVE Search(_, _)
Search(es, n) ==
    IF Has(es, n) THEN [k |-> "hit", p |-> At(es, n)]
    ELSE LET u == Under(es, n) IN
         IF u = <<>> THEN (IF n = <<>> /\ "EmptySearch" \in Dev THEN [k |-> "raise", p |-> NoContent] ELSE Miss)
         ELSE Search(es, SubSeq(u[1].n, 1, Len(n) + 1))     \* the child edge that was created first
Save(es, n, p) ==
    IF Has(es, n) THEN [i \in 1..Len(es) |-> IF es[i].n = n THEN [n |-> n, p |-> p] ELSE es[i]]
    ELSE Append(es, [n |-> n, p |-> p])

Str(c) == IF c.e = "" THEN c.v ELSE "E" \o c.e \o ":" \o c.v       \* the bytes of a content (see schemakit)
\* the digest component of an Interest is a function of its parameters and of who signed it (and of the name
\* in front of it, which is there anyway)
DigestOf(ap, s) == <<DigestType, "#" \o Str(ap) \o "/" \o s>>
Enc(key, c) == IF c.k = "none" THEN c ELSE [k |-> "c", e |-> key, v |-> c.v]       \* c is plaintext
Dec(key, c) == IF c.k = "c" /\ c.e = key THEN Plain(c.v) ELSE NoContent

----------------------------------------------------------------------------
(* pipelines of MatchedNode as functions of (tree, caches, ...) -> effects *)

\* MatchedNode.on_data -> [cs, c, m, fbi]
OnData(cs, m, pkt) ==
    LET cs1 == IF m.pol.LocalOnly = "none" /\ m.pol.Cache # "none"
               THEN [cs EXCEPT ![m.pol.Cache] = Save(@, m.name, pkt)] ELSE cs
        c1 == IF pkt.c.k # "none" /\ m.pol.DataEnc # "none" THEN Dec(m.pol.DataEnc, pkt.c) ELSE pkt.c
    IN [cs |-> cs1, c |-> c1, m |-> m, fbi |-> pkt.fbi]

\* MatchedNode.put_data -> [cs, pkt]
PutData(cs, m, c, fbi) ==
    LET c1 == IF c.k # "none" /\ m.pol.DataEnc # "none" THEN Enc(m.pol.DataEnc, c) ELSE c
        pkt == [n |-> m.name, c |-> c1, s |-> IF m.pol.DataSign # "none" THEN m.pol.DataSign ELSE "kc",
                ok |-> TRUE, fbi |-> fbi]
    IN [cs |-> IF m.pol.Cache # "none" THEN [cs EXCEPT ![m.pol.Cache] = Save(@, m.name, pkt)] ELSE cs, pkt |-> pkt]

\* MatchedNode.express up to the point where it returns, raises or waits for the network:
\*   [k |-> "raise", err] | [k |-> "data", cs, c, m, fbi] (cache hit) | [k |-> "sent", int, wait]
Express(t, cs, m, ap, cbp) ==
    LET sr == IF m.pol.Cache # "none" THEN Search(cs[m.pol.Cache], m.name) ELSE Miss IN
    IF sr.k = "raise" THEN [k |-> "raise", err |-> "RuntimeError"]
    ELSE IF sr.k = "hit" THEN [k |-> "data"] @@ OnData(cs, Finer(t, m, sr.p.n), sr.p)
    ELSE IF m.pol.LocalOnly # "none" THEN [k |-> "raise", err |-> "LocalResourceNotExistError"]
    ELSE LET ap1 == IF ap.k # "none" /\ m.pol.IntEnc # "none" THEN Enc(m.pol.IntEnc, ap) ELSE ap
             sg == IF m.pol.IntSign # "none" THEN m.pol.IntSign ELSE IF ap1.k # "none" THEN "digest" ELSE "none"
             fname == IF ap1.k # "none" \/ sg # "none" THEN Append(m.name, DigestOf(ap1, sg)) ELSE m.name
         IN IF fname = <<>> THEN [k |-> "raise", err |-> "IndexError"]    \* NDNApp.express_interest cannot take the empty name
            ELSE
            [k |-> "sent", int |-> [t |-> "I", n |-> fname, ap |-> ap1, s |-> sg, cbp |-> cbp],
             wait |-> [m |-> m, fname |-> fname, cbp |-> cbp,
                       val |-> IF m.pol.DataVal # "none" THEN m.pol.DataVal ELSE "default"]]

Verdict(val, pkt) == IF val = "default" THEN pkt.ok ELSE val = "acc"
DataRes(op, hit, c, m, fbi, blocks) ==
    [op |-> op, k |-> "data", hit |-> hit, c |-> c, env |-> m.env, path |-> m.path, fbi |-> fbi, blocks |-> blocks]
Raise(op, err) == [op |-> op, k |-> "raise", err |-> err]
Ok(op) == [op |-> op, k |-> "ok"]
Pending(op) == [op |-> op, k |-> "pending"]
NoSeg == [on |-> FALSE]

\* SegmentedNode.need: segment after segment through the <seg:seg_no> child's need() (= express), until a
\* segment whose FinalBlockId is its own number; st = [on, m0, cur, got, tries]
\*   -> [k |-> "raise", err, cs] | [k |-> "done", cs, got] | [k |-> "sent", cs, int, wait]
RECURSIVE JoinStr(_)
JoinStr(cs) == IF cs = <<>> THEN "" ELSE Str(Head(cs)) \o JoinStr(Tail(cs))
RECURSIVE SegLoop(_, _)
SegLoop(cs, st) ==
    LET sm == Finer(tree, st.m0, Append(st.m0.name, SegComp(st.cur)))
        ex == Express(tree, cs, sm, NoContent, FALSE) IN
    IF ex.k = "raise" THEN [k |-> "raise", err |-> ex.err, cs |-> cs]
    ELSE IF ex.k = "sent" THEN [k |-> "sent", cs |-> cs, int |-> ex.int, wait |-> ex.wait @@ [seg |-> st]]
    ELSE IF ex.fbi = SegComp(st.cur) THEN [k |-> "done", cs |-> ex.cs, got |-> Append(st.got, ex.c), n |-> st.cur + 1, lastm |-> ex.m]
    ELSE SegLoop(ex.cs, [st EXCEPT !.cur = @ + 1, !.got = Append(@, ex.c), !.tries = 0])
\* what need() returns once the last segment is there (env of the object's match; path = the node that processed
\* the last segment); b''.join fails on a segment that could not be decrypted
SegRes(op, hit, st, r) ==
    IF \E i \in 1..Len(r.got) : r.got[i].k = "none" THEN Raise(op, "TypeError")
    ELSE [op |-> op, k |-> "data", hit |-> hit, c |-> Plain(JoinStr(r.got)), env |-> st.m0.env, path |-> r.lastm.path,
          fbi |-> NoComp, blocks |-> r.n]

----------------------------------------------------------------------------
Init ==
    /\ \E it \in InitTrees : tree = it.tree /\ rprefix = it.rprefix
    /\ phase = "build" /\ npol = 0 /\ aprefix = <<>> /\ regok = FALSE /\ reg = <<>> /\ filt = {}
    /\ caches = [c \in CacheIds |-> <<>>]
    /\ pend = <<>> /\ nops = 0 /\ sent = <<>> /\ ints = <<>> /\ res = [op |-> "init", k |-> "ok"]
    /\ call = <<"Init">>

Quiet == sent' = <<>> /\ ints' = <<>>
BuildFrame == UNCHANGED <<phase, aprefix, regok, reg, filt, caches, pend, nops>> /\ Quiet

Size(t) == Cardinality(DOMAIN t) - 1

\* node[keys]
GetItem(base, ks) ==
    /\ phase = "build" /\ base \in DOMAIN tree /\ ks # <<>> /\ Len(base) + Len(ks) <= MaxDepth
    /\ LET w == Walk(tree, base, ks) IN
         /\ Size(w.t) <= MaxNodes
         /\ tree' = w.t /\ res' = [op |-> "getitem", k |-> "ok", at |-> w.at]
    /\ call' = <<"GetItem", base, ks>>
    /\ UNCHANGED <<rprefix, npol>> /\ BuildFrame

\* node[keys] = Node() / SegmentedNode() / LocalResource(): intermediate nodes are created before the check
SetItem(base, ks, kind) ==
    /\ phase = "build" /\ base \in DOMAIN tree /\ ks # <<>> /\ Len(base) + Len(ks) <= MaxDepth
    /\ LET w == Walk(tree, base, Front(ks))
           c == Append(w.at, EdgeOf(Last(ks))) IN
         IF c \in DOMAIN w.t
         THEN /\ Size(w.t) <= MaxNodes
              /\ tree' = w.t /\ res' = Raise("setitem", "NodeExistsError")
         ELSE /\ Size(w.t) + PlaceSize(kind) <= MaxNodes
              /\ (kind = "seg" => Len(base) + Len(ks) < MaxDepth)
              /\ tree' = Place(w.t, w.at, Last(ks), kind) /\ res' = [op |-> "setitem", k |-> "ok", at |-> c]
    /\ call' = <<"SetItem", base, ks, kind>>
    /\ UNCHANGED <<rprefix, npol>> /\ BuildFrame

SetPolicy(p, ty, v) ==
    /\ phase = "build" /\ p \in DOMAIN tree /\ npol < MaxPol
    /\ tree' = [tree EXCEPT ![p].pol[ty] = v] /\ npol' = npol + 1
    /\ res' = Ok("setpolicy") /\ call' = <<"SetPolicy", p, ty, v>>
    /\ UNCHANGED rprefix /\ BuildFrame

\* set_policy(policy.Cache, <an object that is not a Cache policy>)
SetPolicyWrong(p) ==
    /\ phase = "build" /\ p \in DOMAIN tree /\ npol < MaxPol
    /\ res' = Raise("setpolicy", "TypeError") /\ npol' = npol + 1 /\ call' = <<"SetPolicyWrong", p>>
    /\ UNCHANGED <<tree, rprefix>> /\ BuildFrame

\* root.prefix = name (documented attribute of the root)
SetPrefix(rp) ==
    /\ phase = "build" /\ rprefix' = rp /\ res' = Ok("setprefix") /\ call' = <<"SetPrefix", rp>>
    /\ UNCHANGED <<tree, npol>> /\ BuildFrame

----------------------------------------------------------------------------
(* queries: nothing changes but res *)
QueryFrame == UNCHANGED <<tree, rprefix, phase, npol, aprefix, regok, reg, filt, caches, pend, nops>> /\ Quiet

MatchResult(op, m) == [op |-> op, k |-> "match", path |-> m.path, name |-> m.name, pos |-> m.pos, env |-> m.env, pol |-> m.pol]

\* node.match(name); only the root may be asked (a node without parent link passes for a root)
QMatch(p, name) ==
    /\ p \in DOMAIN tree
    /\ res' = IF HasParent(tree, p) THEN Raise("match", "ValueError")
              ELSE IF p = <<>> /\ ~IsPrefix(rprefix, name) THEN Raise("match", "ValueError")
              ELSE MatchResult("match", Descend(tree, p, name, IF p = <<>> THEN Len(rprefix) ELSE 0, <<>>, NoPol))
    /\ call' = <<"QMatch", p, name>>
    /\ QueryFrame

QFinerMatch(name, new) ==
    /\ IsPrefix(rprefix, name)
    /\ res' = MatchResult("finer", Finer(tree, Match(tree, rprefix, name), new))
    /\ call' = <<"QFinerMatch", name, new>>
    /\ QueryFrame

QExist(p, k) ==
    /\ p \in DOMAIN tree
    /\ res' = [op |-> "exist", k |-> "val", v |-> Append(p, EdgeOf(k)) \in DOMAIN tree]
    /\ call' = <<"QExist", p, k>>
    /\ QueryFrame

QGetPolicy(p, ty) ==
    /\ p \in DOMAIN tree
    /\ res' = [op |-> "getpolicy", k |-> "str", v |-> GetPol(tree, p, ty)]
    /\ call' = <<"QGetPolicy", p, ty>>
    /\ QueryFrame

----------------------------------------------------------------------------
(* attach: the forwarder accepts the first failAt - 1 register commands and refuses the next (0: accepts all) *)
Attach(prefix, failAt) ==
    /\ phase = "build" /\ (rprefix = <<>> \/ rprefix = prefix)
    /\ LET l == RegList(tree, <<>>, prefix, FALSE)
           n == IF failAt = 0 THEN Len(l) ELSE failAt IN
         /\ failAt <= Len(l)
         /\ reg' = SubSeq(l, 1, n) /\ filt' = ToSet(SubSeq(l, 1, n))
         /\ res' = [op |-> "attach", k |-> "val", v |-> failAt = 0] /\ regok' = (failAt = 0)
    /\ aprefix' = prefix
    /\ rprefix' = IF "AttachNoPrefix" \in Dev THEN rprefix ELSE prefix
    /\ phase' = "run" /\ call' = <<"Attach", prefix, failAt>>
    /\ UNCHANGED <<tree, npol, caches, pend, nops>> /\ Quiet

RunFrame == UNCHANGED <<rprefix, phase, npol, aprefix, regok, reg, filt>>
Op == phase = "run" /\ nops < MaxOps /\ nops' = nops + 1
PlainKinds == {"node", "segchild"}

----------------------------------------------------------------------------
\* root.match(name).provide(content, send_packet=send) on a plain node (one Data) or a LocalResource (kept as is)
Provide(name, c, send) ==
    /\ Op /\ IsPrefix(rprefix, name)
    /\ LET m == Match(tree, rprefix, name)
           kind == tree[m.path].kind IN
         IF kind = "local"
         THEN tree' = [tree EXCEPT ![m.path].data = c] /\ sent' = <<>> /\ UNCHANGED caches
         ELSE /\ kind \in PlainKinds
              /\ LET pd == PutData(caches, m, c, NoComp) IN
                   caches' = pd.cs /\ sent' = IF send THEN <<[t |-> "D"] @@ pd.pkt>> ELSE <<>>
              /\ UNCHANGED tree
    /\ res' = Ok("provide") /\ call' = <<"Provide", name, c, send>>
    /\ ints' = <<>> /\ UNCHANGED pend /\ RunFrame

\* the same on a SegmentedNode: chunks = the content cut into pieces of segment_size
RECURSIVE PutSegs(_, _, _, _)
PutSegs(cs, m0, chunks, i) ==      \* -> [cs, pkts]
    IF i >= Len(chunks) THEN [cs |-> cs, pkts |-> <<>>]
    ELSE LET pd == PutData(cs, Finer(tree, m0, Append(m0.name, SegComp(i))), Plain(chunks[i + 1]), SegComp(Len(chunks) - 1))
             rest == PutSegs(pd.cs, m0, chunks, i + 1)
         IN [cs |-> rest.cs, pkts |-> <<[t |-> "D"] @@ pd.pkt>> \o rest.pkts]
ProvideSeg(name, chunks, send) ==
    /\ Op /\ IsPrefix(rprefix, name) /\ chunks # <<>>
    /\ LET m == Match(tree, rprefix, name) IN
         /\ tree[m.path].kind = "seg" /\ m.pos = Len(name)
         /\ LET ps == PutSegs(caches, m, chunks, 0) IN
              caches' = ps.cs /\ sent' = IF send THEN ps.pkts ELSE <<>>
    /\ res' = Ok("provide") /\ call' = <<"ProvideSeg", name, chunks, send>>
    /\ ints' = <<>> /\ UNCHANGED <<tree, pend>> /\ RunFrame

\* root.match(name).need(app_param=ap, can_be_prefix=cbp)
Need(name, ap, cbp) ==
    /\ Op /\ pend = <<>>
    /\ IF ~IsPrefix(rprefix, name)
       THEN res' = Raise("need", "ValueError") /\ sent' = <<>> /\ UNCHANGED <<caches, pend>>
       ELSE LET m == Match(tree, rprefix, name)
                kind == tree[m.path].kind IN
            IF kind = "local"
            THEN res' = [op |-> "need", k |-> "local", c |-> tree[m.path].data] /\ sent' = <<>> /\ UNCHANGED <<caches, pend>>
            ELSE IF kind = "seg"
            THEN (IF m.pos < Len(name)
                  THEN res' = Raise("need", "ValueError") /\ sent' = <<>> /\ UNCHANGED <<caches, pend>>
                  ELSE LET st == [on |-> TRUE, m0 |-> m, cur |-> 0, got |-> <<>>, tries |-> 0]
                           r == SegLoop(caches, st) IN
                       CASE r.k = "raise" -> res' = Raise("need", r.err) /\ sent' = <<>> /\ caches' = r.cs /\ UNCHANGED pend
                         [] r.k = "done"  -> res' = SegRes("need", TRUE, st, r) /\ sent' = <<>> /\ caches' = r.cs /\ UNCHANGED pend
                         [] r.k = "sent"  -> res' = Pending("need") /\ sent' = <<r.int>> /\ caches' = r.cs /\ pend' = <<r.wait>>)
            ELSE LET ex == Express(tree, caches, m, ap, cbp) IN
                 CASE ex.k = "raise" -> res' = Raise("need", ex.err) /\ sent' = <<>> /\ UNCHANGED <<caches, pend>>
                   [] ex.k = "data"  -> res' = DataRes("need", TRUE, ex.c, ex.m, ex.fbi, 0) /\ sent' = <<>> /\ caches' = ex.cs
                                        /\ UNCHANGED pend
                   [] ex.k = "sent"  -> res' = Pending("need") /\ sent' = <<ex.int>> /\ pend' = <<ex.wait @@ [seg |-> NoSeg]>>
                                        /\ UNCHANGED caches
    /\ call' = <<"Need", name, ap, cbp>>
    /\ ints' = <<>> /\ UNCHANGED tree /\ RunFrame

\* the face hands a Data to the application while a need() waits: its name is the Interest's name extended by
\* ext (possible only with CanBePrefix), fin = its FinalBlockId is its own last component
Deliver(ext, c, ok, fin) ==
    /\ phase = "run" /\ pend # <<>>
    /\ LET e == pend[1]
           dn == e.fname \o ext
           pkt == [n |-> dn, c |-> c, s |-> "net", ok |-> ok, fbi |-> IF fin THEN Last(dn) ELSE NoComp] IN
         /\ (ext = <<>> \/ e.cbp) /\ dn # <<>>
         /\ (e.seg.on /\ ~fin => e.seg.cur + 1 < MaxSegs)
         /\ IF ~Verdict(e.val, pkt)
            THEN res' = Raise("deliver", "ValidationFailure") /\ pend' = <<>> /\ sent' = <<>> /\ UNCHANGED caches
            ELSE LET od == OnData(caches, Finer(tree, e.m, dn), pkt) IN
                 IF ~e.seg.on
                 THEN res' = DataRes("deliver", FALSE, od.c, od.m, od.fbi, 0) /\ caches' = od.cs /\ pend' = <<>> /\ sent' = <<>>
                 ELSE LET st == e.seg IN
                      IF od.fbi = SegComp(st.cur)
                      THEN /\ res' = SegRes("deliver", FALSE, st, [got |-> Append(st.got, od.c), n |-> st.cur + 1, lastm |-> od.m])
                           /\ caches' = od.cs /\ pend' = <<>> /\ sent' = <<>>
                      ELSE LET r == SegLoop(od.cs, [st EXCEPT !.cur = @ + 1, !.got = Append(@, od.c), !.tries = 0]) IN
                           CASE r.k = "raise" -> res' = Raise("deliver", r.err) /\ sent' = <<>> /\ caches' = r.cs /\ pend' = <<>>
                             [] r.k = "done"  -> res' = SegRes("deliver", FALSE, st, r) /\ sent' = <<>> /\ caches' = r.cs /\ pend' = <<>>
                             [] r.k = "sent"  -> res' = Pending("deliver") /\ sent' = <<r.int>> /\ caches' = r.cs /\ pend' = <<r.wait>>
    /\ call' = <<"Deliver", ext, c, ok, fin>>
    /\ ints' = <<>> /\ UNCHANGED <<tree, nops>> /\ RunFrame

\* the pending Interest is answered by a Nack / not answered within its lifetime (SegmentedNode tries again
\* retry_times - 1 times after a timeout)
Fail(kind) ==
    /\ phase = "run" /\ pend # <<>>
    /\ LET e == pend[1] IN
       IF e.seg.on /\ kind = "timeout" /\ e.seg.tries + 1 < SegRetry
       THEN LET r == SegLoop(caches, [e.seg EXCEPT !.tries = @ + 1]) IN
            CASE r.k = "raise" -> res' = Raise("fail", r.err) /\ sent' = <<>> /\ caches' = r.cs /\ pend' = <<>>
              [] r.k = "done"  -> res' = SegRes("fail", TRUE, e.seg, r) /\ sent' = <<>> /\ caches' = r.cs /\ pend' = <<>>
              [] r.k = "sent"  -> res' = Pending("fail") /\ sent' = <<r.int>> /\ caches' = r.cs /\ pend' = <<r.wait>>
       ELSE /\ res' = Raise("fail", IF kind = "nack" THEN "InterestNack" ELSE "InterestTimeout")
            /\ pend' = <<>> /\ sent' = <<>> /\ UNCHANGED caches
    /\ call' = <<"Fail", kind>>
    /\ ints' = <<>> /\ UNCHANGED <<tree, nops>> /\ RunFrame

\* the face hands an Interest to the application: name, ApplicationParameters, signature ("none" | "good" | "bad")
IntRec(m, ap) == [path |-> m.path, pos |-> m.pos, ap |-> ap]
Interest(name, ap, sg) ==
    /\ Op /\ (sg # "none" => ap.k # "none") /\ name # <<>>      \* (an Interest carries at least one name component)
    /\ LET fname == IF ap.k # "none" THEN Append(name, DigestOf(ap, IF sg = "good" THEN "digest" ELSE sg)) ELSE name IN
       IF ~\E f \in filt : IsPrefix(f, fname)
       THEN res' = [op |-> "interest", k |-> "noroute", n |-> fname] /\ Quiet
       ELSE /\ IsPrefix(rprefix, fname)
            /\ LET m == Match(tree, rprefix, fname)
                   valid == sg = "none" \/ (IF m.pol.IntVal # "none" THEN m.pol.IntVal = "acc" ELSE sg = "good")
                   sr == IF m.pol.Cache # "none" THEN Search(caches[m.pol.Cache], fname) ELSE Miss
                   ap1 == IF ap.k # "none" /\ m.pol.IntEnc # "none" THEN Dec(m.pol.IntEnc, ap) ELSE ap IN
               IF ~valid THEN res' = [op |-> "interest", k |-> "dropped", n |-> fname] /\ Quiet
               ELSE IF sr.k = "hit"
               THEN res' = [op |-> "interest", k |-> "hit", n |-> fname] /\ sent' = <<[t |-> "D"] @@ sr.p>> /\ ints' = <<>>
               ELSE IF tree[m.path].kind = "seg" /\ m.pos = Len(fname)
               THEN \* SegmentedNode.process_int: the Interest for the object is treated as one for segment 0
                    LET sub == Finer(tree, m, Append(fname, SegComp(0)))
                        sr2 == IF sub.pol.Cache # "none" THEN Search(caches[sub.pol.Cache], sub.name) ELSE Miss IN
                    IF sr2.k = "hit"
                    THEN res' = [op |-> "interest", k |-> "hit", n |-> fname] /\ sent' = <<[t |-> "D"] @@ sr2.p>>
                         /\ ints' = <<IntRec(m, ap1)>>
                    ELSE res' = [op |-> "interest", k |-> "proc", n |-> fname] /\ sent' = <<>>
                         /\ ints' = <<IntRec(m, ap1), IntRec(sub, NoContent)>>
               ELSE res' = [op |-> "interest", k |-> "proc", n |-> fname] /\ sent' = <<>> /\ ints' = <<IntRec(m, ap1)>>
    /\ call' = <<"Interest", name, ap, sg>>
    /\ UNCHANGED <<tree, caches, pend>> /\ RunFrame

----------------------------------------------------------------------------
KeySeqs == UNION {[1..n -> Keys] : n \in 1..MaxKeyLen}
OptAp == {NoContent} \cup {Plain(v) : v \in AppParams}
Exts == {<<>>} \cup {<<x>> : x \in ExtComps}

N_GetItem == \E b \in DOMAIN tree, ks \in KeySeqs : GetItem(b, ks)
N_SetItem == \E b \in DOMAIN tree, ks \in KeySeqs, kd \in Kinds : SetItem(b, ks, kd)
N_SetPolicy == \E p \in DOMAIN tree, pc \in PolChoices : SetPolicy(p, pc[1], pc[2])
N_SetPolicyWrong == \E p \in DOMAIN tree : SetPolicyWrong(p)
N_SetPrefix == \E rp \in RootPrefixes : SetPrefix(rp)
N_QMatch == QueryOn /\ \E p \in DOMAIN tree, n \in QNames : QMatch(p, n)
N_QFinerMatch == QueryOn /\ \E pr \in QFiner : QFinerMatch(pr[1], pr[2])
N_QExist == QueryOn /\ \E p \in DOMAIN tree, k \in Keys : QExist(p, k)
N_QGetPolicy == QueryOn /\ \E p \in DOMAIN tree, ty \in {pc[1] : pc \in PolChoices} : QGetPolicy(p, ty)
N_Attach == \E ap \in AttachPrefixes, f \in 0..4 : Attach(ap, f)
N_Provide == \E n \in QNames, c \in Contents, s \in BOOLEAN : Provide(n, IF c = "" THEN NoContent ELSE Plain(c), s)
N_ProvideSeg == \E n \in QNames, ch \in SegContents, s \in BOOLEAN : ProvideSeg(n, ch, s)
N_Need == \E n \in QNames, ap \in OptAp, cbp \in BOOLEAN : Need(n, ap, cbp)
N_Deliver == \E x \in Exts, c \in NetContents, ok \in BOOLEAN, fin \in BOOLEAN : Deliver(x, c, ok, fin)
N_Fail == \E kd \in {"nack", "timeout"} : Fail(kd)
\* the parameters of an incoming Interest may be encrypted with a key some InterestEncryption policy of the tree uses
IntKeys == {tree[p].pol.IntEnc : p \in DOMAIN tree} \ {"none"}
N_Interest == \E n \in QNames, ap \in OptAp \cup {Enc(ke, Plain(v)) : ke \in IntKeys, v \in AppParams},
                 sg \in {"none", "good", "bad"} : Interest(n, ap, sg)

Next == \/ N_GetItem \/ N_SetItem \/ N_SetPolicy \/ N_SetPolicyWrong \/ N_SetPrefix
        \/ N_QMatch \/ N_QFinerMatch \/ N_QExist \/ N_QGetPolicy
        \/ N_Attach \/ N_Provide \/ N_ProvideSeg \/ N_Need \/ N_Deliver \/ N_Fail \/ N_Interest
ActionNames == {"GetItem", "SetItem", "SetPolicy", "SetPolicyWrong", "SetPrefix", "QMatch", "QFinerMatch", "QExist",
                "QGetPolicy", "Attach", "Provide", "ProvideSeg", "Need", "Deliver", "Fail", "Interest"}

Spec == Init /\ [][Next]_vars
----------------------------------------------------------------------------
(* Invariants.  INames (a definition overridden by the MC module) is the set of names they quantify over. *)
INames == QNames
Max(S) == CHOOSE x \in S : \A y \in S : y <= x
NoDup(s) == \A i, j \in 1..Len(s) : i # j => s[i] # s[j]
Pre(p, i) == SubSeq(p, 1, i)

TypeOK ==
    /\ phase \in {"build", "run"} /\ npol \in 0..MaxPol /\ nops \in 0..MaxOps /\ regok \in BOOLEAN
    /\ Len(pend) <= 1 /\ DOMAIN caches = CacheIds
    /\ \A p \in DOMAIN tree : Len(p) <= MaxDepth /\ DOMAIN tree[p].pol = PTypes
    /\ Size(tree) <= MaxNodes

\* the tree is prefix closed and the children lists of a node are exactly its children, each once
TreeWF == \A p \in DOMAIN tree :
    /\ (p # <<>> => Front(p) \in DOMAIN tree)
    /\ NoDup(tree[p].lits)
    /\ \A pr1, pr2 \in tree[p].pats : pr1[1] = pr2[1] => pr1 = pr2
    /\ \A q \in DOMAIN tree : (q # <<>> /\ Front(q) = p) =>
          (IF IsLit(Last(q)) THEN CompOf(Last(q)) \in ToSet(tree[p].lits)
                             ELSE \E pr \in tree[p].pats : pr[1] = Last(q)[2])
    /\ \A c \in ToSet(tree[p].lits) : Append(p, Lit(c)) \in DOMAIN tree
    /\ \A pr \in tree[p].pats : Append(p, Pat(pr[1])) \in DOMAIN tree

Matchable(n) == IsPrefix(rprefix, n)
M(n) == Match(tree, rprefix, n)

\* match: the path taken is the greedy one (exact child where there is one, otherwise the pattern edge of the
\* component's type), it ends at the first component that has neither, pos counts the root prefix
MatchGreedy == \A n \in INames : Matchable(n) =>
    LET m == M(n)
        k == Len(rprefix) IN
    /\ m.path \in DOMAIN tree /\ m.name = n /\ m.pos = k + Len(m.path) /\ m.pos <= Len(n)
    /\ \A i \in 1..Len(m.path) :
          LET c == n[k + i]
              e == m.path[i] IN
          /\ (e = Lit(c) \/ e = Pat(c[1]))
          /\ (e = Pat(c[1]) => Append(Pre(m.path, i - 1), Lit(c)) \notin DOMAIN tree)
    /\ (m.pos < Len(n) => LET c == n[m.pos + 1] IN
                            /\ Append(m.path, Lit(c)) \notin DOMAIN tree
                            /\ Append(m.path, Pat(c[1])) \notin DOMAIN tree)

\* the policies collected: for every policy type the one attached to the nearest node on the path
Nearest(p, ty) ==
    LET S == {i \in 0..Len(p) : tree[Pre(p, i)].pol[ty] # "none"} IN
    IF S = {} THEN "none" ELSE tree[Pre(p, Max(S))].pol[ty]
MatchPolNearest == \A n \in INames : Matchable(n) => LET m == M(n) IN \A ty \in PTypes : m.pol[ty] = Nearest(m.path, ty)

\* env: every variable once; its value is the component consumed by the last pattern edge with that variable
MatchEnv == \A n \in INames : Matchable(n) =>
    LET m == M(n)
        k == Len(rprefix)
        PatAt == {i \in 1..Len(m.path) : ~IsLit(m.path[i])}
        VarOf(i) == VarAt(tree, Pre(m.path, i - 1), m.path[i][2]) IN
    /\ \A a, b \in 1..Len(m.env) : a # b => m.env[a][1] # m.env[b][1]
    /\ {m.env[a][1] : a \in 1..Len(m.env)} = {VarOf(i) : i \in PatAt}
    /\ \A a \in 1..Len(m.env) :
          LET I == {i \in PatAt : VarOf(i) = m.env[a][1]} IN m.env[a][2] = n[k + Max(I)][2]

\* get_policy walks the parent links: nearest node on the node's own path (as long as the links are there)
LinksUp(p) == \A i \in 1..Len(p) : HasParent(tree, Pre(p, i))
GetPolicyNearest == \A p \in DOMAIN tree : LinksUp(p) => \A ty \in PTypes : GetPol(tree, p, ty) = Nearest(p, ty)

\* finer_match from a complete match is the match of the longer name; from an incomplete one it changes the name only
FinerIsMatch == \A b \in INames : Matchable(b) => LET mb == M(b) IN \A i \in Len(rprefix)..Len(b) :
    LET a == Pre(b, i)
        ma == M(a)
        f == Finer(tree, ma, b) IN
    IF ma.pos = Len(a) THEN f = mb
    ELSE f = [ma EXCEPT !.name = b] /\ mb.path = ma.path /\ mb.pos = ma.pos

\* registration: exactly the prefixes of the literal-only paths that end at the first "terminal" node (Register
\* policy, LocalResource, or below / at a Cache policy with a pattern child or no literal child); one command
\* each, in tree order; nothing after the first refusal; no registered prefix covers another one
LitPaths == {p \in DOMAIN tree : \A i \in 1..Len(p) : IsLit(p[i])}
NameOfPath(p) == [i \in 1..Len(p) |-> CompOf(p[i])]
CachedAt(p) == \E i \in 0..Len(p) : tree[Pre(p, i)].pol.Cache # "none"
Terminal(p) == \/ tree[p].kind = "local" \/ tree[p].pol.Register # "none"
               \/ (CachedAt(p) /\ (tree[p].pats # {} \/ tree[p].lits = <<>>))
RegSet(prefix) == {prefix \o NameOfPath(p) :
                      p \in {q \in LitPaths : Terminal(q) /\ \A i \in 0..(Len(q) - 1) : ~Terminal(Pre(q, i))}}
RegExact == phase = "run" =>
    /\ NoDup(reg) /\ filt = ToSet(reg)
    /\ ToSet(reg) \subseteq RegSet(aprefix)
    /\ (regok => ToSet(reg) = RegSet(aprefix))
    /\ (~regok => reg # <<>>)
    /\ \A a, b \in ToSet(reg) : a # b => ~IsPrefix(a, b)
NotAttachedNoRoutes == phase = "build" => (reg = <<>> /\ filt = {} /\ pend = <<>> /\ nops = 0)

\* caches: names unique, every Data under its own name and in the cache that governs that name
CacheWF == \A cid \in CacheIds : LET es == caches[cid] IN
    /\ \A i, j \in 1..Len(es) : i # j => es[i].n # es[j].n
    /\ \A i \in 1..Len(es) : es[i].p.n = es[i].n /\ Matchable(es[i].n) /\ M(es[i].n).pol.Cache = cid
\* nothing is evicted or reordered
CacheMonotone == [][\A cid \in CacheIds : /\ Len(caches'[cid]) >= Len(caches[cid])
                                          /\ \A i \in 1..Len(caches[cid]) : caches'[cid][i].n = caches[cid][i].n]_vars

\* a need() answered from the cache sends nothing; an Interest answered from the cache causes one Data, no process_int
NoSendOnHit == (res.op = "need" /\ res.k = "data") => (res.hit /\ sent = <<>> /\ pend = <<>>)
InterestHit == (res.op = "interest" /\ res.k = "hit") =>
    /\ (ints = <<>> \/ (Len(ints) = 1 /\ tree[ints[1].path].kind = "seg"))
    /\ Len(sent) = 1 /\ sent[1].t = "D" /\ IsPrefix(res.n, sent[1].n)
    /\ \E cid \in CacheIds : Has(caches[cid], sent[1].n) /\ [t |-> "D"] @@ At(caches[cid], sent[1].n) = sent[1]
InterestMiss == (res.op = "interest" /\ res.k # "hit") => sent = <<>>
\* an Interest leaves only through need(), never for a name governed by LocalOnly, and then one is pending
StripDigest(n) == IF n # <<>> /\ Last(n)[1] = DigestType THEN Front(n) ELSE n
LocalOnlyNeverSends == \A i \in 1..Len(sent) : sent[i].t = "I" =>
    /\ res.op \in {"need", "deliver", "fail"} /\ res.k = "pending" /\ Len(pend) = 1 /\ pend[1].fname = sent[i].n
    /\ M(StripDigest(sent[i].n)).pol.LocalOnly = "none"
\* what is provided under a Cache policy can be needed back unchanged (through a DataEncryption policy too),
\* without anything being sent, and is what the cache holds under that name
RoundTrip == phase = "run" => \A n \in QNames, v \in Contents : (Matchable(n) /\ v # "") =>
    LET m == M(n) IN
    (tree[m.path].kind \in {"node", "segchild"} /\ m.pol.Cache # "none") =>
        LET pd == PutData(caches, m, Plain(v), NoComp)
            ex == Express(tree, pd.cs, m, NoContent, FALSE) IN
        /\ Search(pd.cs[m.pol.Cache], n) = [k |-> "hit", p |-> pd.pkt]
        /\ ex.k = "data" /\ ex.c = Plain(v) /\ ex.m.path = m.path /\ ex.m.name = n
        /\ (m.pol.DataEnc # "none" => pd.pkt.c.e = m.pol.DataEnc)

----------------------------------------------------------------------------
(* witnesses: each must be VIOLATED (the situation exists in the bounded model) *)
W_PatternTaken == ~(res.op = "match" /\ res.k = "match" /\ \E i \in 1..Len(res.path) : ~IsLit(res.path[i]))
W_ExactOverPattern == ~(res.op = "match" /\ res.k = "match" /\ \E i \in 1..Len(res.path) :
                          IsLit(res.path[i]) /\ Append(Pre(res.path, i - 1), Pat(res.path[i][2])) \in DOMAIN tree)
\* greedy is not longest: a name that stops early although another route through the tree consumes more of it
RECURSIVE Reach(_, _, _)
Reach(p, n, i) == IF i >= Len(n) THEN i
                  ELSE LET a == IF Append(p, Lit(n[i + 1])) \in DOMAIN tree THEN Reach(Append(p, Lit(n[i + 1])), n, i + 1) ELSE i
                           b == IF Append(p, Pat(n[i + 1][1])) \in DOMAIN tree THEN Reach(Append(p, Pat(n[i + 1][1])), n, i + 1) ELSE i
                       IN IF a > b THEN a ELSE b
W_GreedyNotLongest == ~(res.op = "match" /\ res.k = "match" /\ rprefix = <<>> /\ res.pos < Reach(<<>>, res.name, 0))
W_MatchStopsEarly == ~(res.op = "match" /\ res.k = "match" /\ res.pos < Len(res.name) /\ res.pos > 0)
W_RootPrefixError == ~(res.op = "match" /\ res.k = "raise" /\ rprefix # <<>>)
W_NodeExists == ~(res.op = "setitem" /\ res.k = "raise")
W_VarRenamed == ~(\E p \in DOMAIN tree : Cardinality(tree[p].pats) = 2)
W_PolicyShadowed == ~(res.op = "match" /\ res.k = "match" /\ Len(res.path) >= 1 /\ tree[<<>>].pol.Cache # "none"
                      /\ res.pol.Cache # tree[<<>>].pol.Cache)
W_FinerPartial == ~(res.op = "finer" /\ res.pos < Len(res.name) /\ res.pos > 0)
W_RegStopsAtRefusal == ~(phase = "run" /\ ~regok /\ Len(reg) >= 2)
W_RegCachePattern == ~(phase = "run" /\ regok /\ \E p \in LitPaths :
                          /\ aprefix \o NameOfPath(p) \in ToSet(reg) /\ tree[p].pol.Register = "none" /\ tree[p].pats # {}
                          /\ tree[p].lits # <<>>)
W_RegNothing == ~(phase = "run" /\ regok /\ reg = <<>> /\ Size(tree) >= 1)
W_NeedHit == ~(res.op = "need" /\ res.k = "data" /\ res.c.k = "c")
W_NeedHitLonger == ~(res.op = "need" /\ res.k = "data" /\ Len(res.path) >= 1 /\ pend = <<>> /\
                     \E cid \in CacheIds : \E i \in 1..Len(caches[cid]) : Len(caches[cid][i].n) >= 3)
W_LocalOnlyRaise == ~(res.op = "need" /\ res.k = "raise" /\ res.err = "LocalResourceNotExistError")
W_EmptySearchRaise == ~(res.op = "need" /\ res.k = "raise" /\ res.err = "RuntimeError")
W_Decrypted == ~(res.op \in {"need", "deliver"} /\ res.k = "data" /\ res.c.k = "c" /\
                 \E cid \in CacheIds : \E i \in 1..Len(caches[cid]) : caches[cid][i].p.c.e # "")
W_WrongKey == ~(res.op = "deliver" /\ res.k = "data" /\ res.c.k = "none")
W_ValidationFailure == ~(res.op = "deliver" /\ res.k = "raise")
W_PolicyValidatorAcceptsBad == ~(res.op = "deliver" /\ res.k = "data" /\
                                 \E cid \in CacheIds : \E i \in 1..Len(caches[cid]) : ~caches[cid][i].p.ok)
W_InterestHit == ~(res.op = "interest" /\ res.k = "hit")
W_InterestDropped == ~(res.op = "interest" /\ res.k = "dropped")
W_InterestDecrypted == ~(res.op = "interest" /\ res.k = "proc" /\ ints[1].ap.k = "c" /\ ints[1].ap.e = "" /\
                         M(res.n).pol.IntEnc # "none")
W_SignedInterestSent == ~(\E i \in 1..Len(sent) : sent[i].t = "I" /\ sent[i].s \notin {"none", "digest"})
W_TwoCaches == ~(caches["m1"] # <<>> /\ caches["m2"] # <<>>)
W_LocalOnlyCached == ~(res.op = "provide" /\ \E cid \in CacheIds : \E i \in 1..Len(caches[cid]) :
                          M(caches[cid][i].n).pol.LocalOnly # "none")
W_SegReassembled == ~(res.op = "deliver" /\ res.k = "data" /\ res.blocks >= 2)
W_SegFromCache == ~(res.op = "need" /\ res.k = "data" /\ res.blocks >= 2)
W_SegRetry == ~(res.op = "fail" /\ res.k = "pending")
W_SegTimeout == ~(res.op = "fail" /\ res.k = "raise" /\ res.err = "InterestTimeout" /\ call = <<"Fail", "timeout">>)
W_SegInterestZero == ~(res.op = "interest" /\ Len(ints) = 2)
W_LocalNeed == ~(res.op = "need" /\ res.k = "local" /\ res.c.k = "c")
W_LocalOnlyNotSaved == ~(res.op = "deliver" /\ res.k = "data" /\ Nearest(res.path, "LocalOnly") # "none"
                         /\ Nearest(res.path, "Cache") # "none")
W_AttachPrefixLost == ~(phase = "run" /\ aprefix # <<>> /\ rprefix = <<>> /\ res.op = "interest" /\ res.k = "proc"
                        /\ ints[1].pos = 0)
\* all witnesses in one run: WCollect (an invariant that always holds) notes in TLC registers which witness
\* situations and which actions were seen, the POSTCONDITION WPost prints the ones that were not (workers = 1)
WNames == <<"W_PatternTaken", "W_ExactOverPattern", "W_GreedyNotLongest", "W_MatchStopsEarly", "W_RootPrefixError", "W_NodeExists", "W_VarRenamed", "W_PolicyShadowed", "W_FinerPartial", "W_RegStopsAtRefusal", "W_RegCachePattern", "W_RegNothing", "W_NeedHit", "W_NeedHitLonger", "W_LocalOnlyRaise", "W_EmptySearchRaise", "W_Decrypted", "W_WrongKey", "W_ValidationFailure", "W_PolicyValidatorAcceptsBad", "W_InterestHit", "W_InterestDropped", "W_InterestDecrypted", "W_SignedInterestSent", "W_TwoCaches", "W_LocalOnlyCached", "W_SegReassembled", "W_SegFromCache", "W_SegRetry", "W_SegTimeout", "W_SegInterestZero", "W_LocalNeed", "W_LocalOnlyNotSaved", "W_AttachPrefixLost">>
WVals == <<W_PatternTaken, W_ExactOverPattern, W_GreedyNotLongest, W_MatchStopsEarly, W_RootPrefixError, W_NodeExists, W_VarRenamed, W_PolicyShadowed, W_FinerPartial, W_RegStopsAtRefusal, W_RegCachePattern, W_RegNothing, W_NeedHit, W_NeedHitLonger, W_LocalOnlyRaise, W_EmptySearchRaise, W_Decrypted, W_WrongKey, W_ValidationFailure, W_PolicyValidatorAcceptsBad, W_InterestHit, W_InterestDropped, W_InterestDecrypted, W_SignedInterestSent, W_TwoCaches, W_LocalOnlyCached, W_SegReassembled, W_SegFromCache, W_SegRetry, W_SegTimeout, W_SegInterestZero, W_LocalNeed, W_LocalOnlyNotSaved, W_AttachPrefixLost>>
ActSeq == <<"GetItem", "SetItem", "SetPolicy", "SetPolicyWrong", "SetPrefix", "QMatch", "QFinerMatch", "QExist",
            "QGetPolicy", "Attach", "Provide", "ProvideSeg", "Need", "Deliver", "Fail", "Interest">>
WBase == 2000000
ABase == 2001000
ASSUME \A i \in 1..Len(WNames) : TLCSet(WBase + i, FALSE)
ASSUME \A i \in 1..Len(ActSeq) : TLCSet(ABase + i, FALSE)
WCollect == LET w == WVals IN
            /\ \A i \in 1..Len(WNames) : w[i] \/ TLCSet(WBase + i, TRUE)
            /\ \A j \in 1..Len(ActSeq) : call[1] # ActSeq[j] \/ TLCSet(ABase + j, TRUE)
WPost == /\ \A i \in 1..Len(WNames) : TLCGet(WBase + i) \/ PrintT(<<"UNREACHED", WNames[i]>>)
         /\ \A j \in 1..Len(ActSeq) : TLCGet(ABase + j) \/ PrintT(<<"UNTAKEN", ActSeq[j]>>)
=============================================================================
