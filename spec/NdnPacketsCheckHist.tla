--------------------------- MODULE NdnPacketsCheckHist ---------------------------
(* C02, clauses "the matching verifier accepts it" / "no packet that differs ... is accepted by that
   verifier" for a process that holds SEVERAL verifier objects (key roll-over, two trust configurations,
   checkers for different keys published under one name ...).  The verdict of a verifier may depend only
   on ITS key (and, for the *Checker classes, its key name) and on the packet - not on what other
   verifier objects were built or asked before.

     insts    the verifier objects: [n, k, named]  key name, key bits, named = a *Checker made by
              from_key (it also requires the packet's KeyLocator to lie under its key name);
              named = FALSE is a plain verify_* call with key k
     Check(i, pn, pk)   verifier i is asked about a genuine packet signed with key pk whose KeyLocator is pn
     log      the verdicts given so far

   DevNameCache = TRUE models the deviation "imported keys memoised per class under the KeyLocator name":
   TLC must then refute OwnKeyOnly (sensitivity witness of this module).                              *)
EXTENDS Integers, Sequences, TLC
CONSTANTS NKey, NName, NInst, MaxChecks, DevNameCache, Plain    \* Plain: also enumerate plain verify_* calls
VARIABLES insts, cache, log
vars == <<insts, cache, log>>

InstSpace == [n : 1..NName, k : 1..NKey, named : IF Plain THEN BOOLEAN ELSE {TRUE}]
InitWith(is) == insts = is /\ cache = [x \in 1..NName |-> 0] /\ log = <<>>
\* without loss of generality the first verifier has name 1 and key 1
Init == \E is \in [1..NInst -> InstSpace] : is[1].n = 1 /\ is[1].k = 1 /\ InitWith(is)

Right(v, pn, pk) == v.k = pk /\ (v.named => v.n = pn)
Verdict(i, pn, pk) ==
  LET v == insts[i] IN
  IF DevNameCache /\ v.named
  THEN (v.n = pn) /\ (IF cache[pn] # 0 THEN cache[pn] ELSE v.k) = pk
  ELSE Right(v, pn, pk)
Check(i, pn, pk) ==
  /\ Len(log) < MaxChecks /\ i \in 1..Len(insts) /\ pn \in 1..NName /\ pk \in 1..NKey
  /\ log' = Append(log, [i |-> i, pn |-> pn, pk |-> pk, acc |-> Verdict(i, pn, pk)])
  /\ cache' = IF insts[i].named /\ insts[i].n = pn /\ cache[pn] = 0 THEN [cache EXCEPT ![pn] = insts[i].k] ELSE cache
  /\ UNCHANGED insts
Next == \E i \in 1..NInst, pn \in 1..NName, pk \in 1..NKey : Check(i, pn, pk)
Spec == Init /\ [][Next]_vars

OwnKeyOnly == \A j \in 1..Len(log) : log[j].acc = Right(insts[log[j].i], log[j].pn, log[j].pk)
W_SameNameOtherKey == ~(\E a, b \in 1..Len(log) : a < b /\ log[a].pn = log[b].pn /\ insts[log[a].i].named /\ insts[log[b].i].named
                           /\ insts[log[a].i].n = insts[log[b].i].n /\ insts[log[a].i].k # insts[log[b].i].k /\ log[a].acc /\ log[b].acc)
=============================================================================
