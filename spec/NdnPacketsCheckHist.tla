--------------------------- MODULE NdnPacketsCheckHist ---------------------------
(* C02, clauses "the matching verifier accepts it" / "no packet that differs ... is accepted by that
   verifier" for a process that holds SEVERAL verifier objects (key roll-over, two trust configurations,
   checkers for different keys published under one name ...).  The verdict of a verifier may depend only
   on ITS key (and, for the *Checker classes, its key name) and on the packet - not on what other
   verifier objects were built or asked before.

     insts    the verifier objects: [n, k, named]  key name, key bits, named = a *Checker made by
              from_key (it also requires the packet's KeyLocator to lie under its key name);
              named = FALSE is a plain verify_* call with key k
     Check(i, pn, pk, tam)   verifier i is asked about a packet signed with key pk whose KeyLocator lies under key
              name pn; tam = the packet was altered in its signed portion afterwards (same signature value as the
              genuine one, which this or another verifier may have seen before).  Tampered packets are
              enumerated for the verifier's own key and name only (a foreign one is rejected on two grounds)
     log      the verdicts given so far

   DevNameCache = TRUE models the deviation "imported keys memoised per class under the KeyLocator name",
   DevVerdictCache = TRUE "a checker remembers the signature values it has accepted and skips the public-key
   operation when it sees one again": TLC must refute OwnKeyOnly under each (sensitivity witnesses).     *)
EXTENDS Integers, Sequences, TLC
CONSTANTS NKey, NName, NInst, MaxChecks, DevNameCache, DevVerdictCache, Plain    \* Plain: also enumerate plain verify_* calls
VARIABLES insts, cache, seen, log
vars == <<insts, cache, seen, log>>

InstSpace == [n : 1..NName, k : 1..NKey, named : IF Plain THEN BOOLEAN ELSE {TRUE}]
InitWith(is) == insts = is /\ cache = [x \in 1..NName |-> 0] /\ seen = [x \in 1..Len(is) |-> {}] /\ log = <<>>
\* without loss of generality the first verifier has name 1 and key 1
Init == \E is \in [1..NInst -> InstSpace] : is[1].n = 1 /\ is[1].k = 1 /\ InitWith(is)

Right(v, pn, pk, tam) == ~tam /\ v.k = pk /\ (v.named => v.n = pn)
Verdict(i, pn, pk, tam) ==
  LET v == insts[i] IN
  IF DevVerdictCache /\ v.named /\ v.n = pn /\ <<pn, pk>> \in seen[i] THEN TRUE
  ELSE IF DevNameCache /\ v.named
  THEN ~tam /\ (v.n = pn) /\ (IF cache[pn] # 0 THEN cache[pn] ELSE v.k) = pk
  ELSE Right(v, pn, pk, tam)
Check(i, pn, pk, tam) ==
  /\ Len(log) < MaxChecks /\ i \in 1..Len(insts) /\ pn \in 1..NName /\ pk \in 1..NKey /\ tam \in BOOLEAN
  /\ (tam => insts[i].n = pn /\ insts[i].k = pk)
  /\ log' = Append(log, [i |-> i, pn |-> pn, pk |-> pk, tam |-> tam, acc |-> Verdict(i, pn, pk, tam)])
  /\ cache' = IF insts[i].named /\ insts[i].n = pn /\ cache[pn] = 0 THEN [cache EXCEPT ![pn] = insts[i].k] ELSE cache
  /\ seen' = IF Verdict(i, pn, pk, tam) THEN [seen EXCEPT ![i] = @ \cup {<<pn, pk>>}] ELSE seen
  /\ UNCHANGED insts
Next == \E i \in 1..NInst, pn \in 1..NName, pk \in 1..NKey, tam \in BOOLEAN : Check(i, pn, pk, tam)
Spec == Init /\ [][Next]_vars

OwnKeyOnly == \A j \in 1..Len(log) : log[j].acc = Right(insts[log[j].i], log[j].pn, log[j].pk, log[j].tam)
W_SameNameOtherKey == ~(\E a, b \in 1..Len(log) : a < b /\ log[a].pn = log[b].pn /\ insts[log[a].i].named /\ insts[log[b].i].named
                           /\ insts[log[a].i].n = insts[log[b].i].n /\ insts[log[a].i].k # insts[log[b].i].k /\ log[a].acc /\ log[b].acc)
=============================================================================
