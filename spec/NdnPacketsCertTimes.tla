-------------------------- MODULE NdnPacketsCertTimes --------------------------
(* C16, clause "whose validity period encodes exactly the requested instants": an issuing process (a CA) issues MANY
   certificates, and the datetimes it hands over are related to one another - the same wall-clock reading in the two
   passes of a repeated hour, the same instant written on another clock, the same reading without a zone.  The clause is
   about every certificate of such a history, not about a single call: whatever was issued before, a certificate carries
   the instants of ITS OWN request.

   argument a (a datetime as the caller writes it):
     [k |-> "naive", w]                       no zone: the reading w is UTC by the library's convention
     [k |-> "fixed", off, w]                  reading w on a clock off minutes east of UTC (off = 0: UTC)
     [k |-> "zone", zone, w, fold]            reading w on the clock of an IANA zone with daylight-saving time, PEP 495 fold
   (all carry the fields k, zone, off, w, fold).  InstOfArg(a) is the instant it denotes (CertTimeZone!InstOf).

     NewCert(a, b)    new_cert(..., start_time = a, end_time = b)
     Derive(a, n)     derive_cert(..., start_time = a, expire_sec = n): the library converts an aware start to UTC,
                      adds the lifetime as elapsed seconds and calls new_cert with the two results

   certs   the certificates issued so far: [fn, a, b, n, nb, na] with nb / na = the validity text in the certificate
   memo    only under Dev = "memo": the deviation "remember the text of an instant by the datetime it was given as"
           - Python compares and hashes two datetimes of one tzinfo by their wall-clock fields, fold ignored, so the
           two passes of a repeated hour are ONE key.  TLC must then refute EncodesRequested (checked by the harness as a
           sensitivity witness of this module).                                                                       *)
EXTENDS CertTimeZone, Sequences, FiniteSets, TLC
CONSTANTS PZones, PYears, Wide, Lifetimes, MaxSteps, Dev

Nv(w) == [k |-> "naive", zone |-> "", off |-> 0, w |-> w, fold |-> 0]
Fx(off, w) == [k |-> "fixed", zone |-> "", off |-> off, w |-> w, fold |-> 0]
Zn(zone, w, fold) == [k |-> "zone", zone |-> zone, off |-> 0, w |-> w, fold |-> fold]
InstOfArg(a) == IF a.k = "naive" THEN a.w ELSE IF a.k = "fixed" THEN Shift(a.w, 0 - a.off * 60)
                ELSE InstOf(ZoneOf(a.zone), a.w, a.fold)
ArgOk(a) == /\ a.k \in {"naive", "fixed", "zone"} /\ a.fold \in {0, 1} /\ a.w.s \in 0..86399
            /\ (a.k = "zone" => KnownAt(a.zone, a.w)) /\ (a.k = "fixed" => a.off \in -1439..1439)

\* the arguments enumerated around the changes of a zone's clock in one year: both passes of the middle of the repeated
\* interval, the same instant written in UTC, the same reading without a zone and on the fixed clock of the zone's winter
\* time; (Wide) both folds of a reading inside the gap and an ordinary reading a week later
PoolOf(name, yy) ==
  LET z == ZoneOf(name)  t == Transitions(z, yy)
      back == IF t[1].after < t[1].before THEN t[1] ELSE t[2]
      fwd == IF t[1].after < t[1].before THEN t[2] ELSE t[1]
      half(x) == ((IF x.before > x.after THEN x.before - x.after ELSE x.after - x.before) * 60) \div 2
      wa == Shift(back.at, back.after * 60 + half(back))
      wg == Shift(fwd.at, fwd.before * 60 + half(fwd)) IN
  {Zn(name, wa, 0), Zn(name, wa, 1), Fx(0, InstOf(z, wa, 0)), Nv(wa)}
  \cup (IF Wide THEN {Fx(back.after, wa), Zn(name, wg, 0), Zn(name, wg, 1), Zn(name, Inst(wa.d + 7, wa.s), 0)} ELSE {})
Pool == UNION { PoolOf(name, yy) : name \in PZones, yy \in PYears }

VARIABLES certs, memo
vars == <<certs, memo>>
NoMemo == <<>>
InitT == certs = <<>> /\ memo = NoMemo

\* Python's key of a datetime (== and hash): tzinfo and wall-clock fields; fold takes no part
DevKey(a) == <<a.k, a.zone, a.off, a.w>>
Txt(a, m) == IF Dev = "memo" /\ DevKey(a) \in DOMAIN m THEN m[DevKey(a)] ELSE Render(InstOfArg(a))
Remember(a, m) == IF Dev = "memo" /\ DevKey(a) \notin DOMAIN m THEN (DevKey(a) :> Render(InstOfArg(a))) @@ m ELSE m

Written(fn, a, b, n, x, y) ==
  /\ Len(certs) < MaxSteps
  /\ certs' = Append(certs, [fn |-> fn, a |-> a, b |-> b, n |-> n, nb |-> Txt(x, memo), na |-> Txt(y, Remember(x, memo))])
  /\ memo' = Remember(y, Remember(x, memo))
NewCert(a, b) == Written("new_cert", a, b, 0, a, b)
\* what derive_cert hands to new_cert: a naive start stays naive, an aware one becomes UTC; the end is start + n seconds
Conv(a) == IF a.k = "naive" THEN a ELSE Fx(0, InstOfArg(a))
Later(a, n) == [Conv(a) EXCEPT !.w = AddSec(Conv(a).w, n)]
Derive(a, n) == Written("derive", a, a, n, Conv(a), Later(a, n))

\* (enumerated: the end is not before the start - the statement says nothing about a period that ends before it begins, and an
\* implementation may refuse one)
Ordered(a, b) == InstLeq(InstOfArg(a), InstOfArg(b)) /\ NewCert(a, b)
Next == (\E a, b \in Pool : Ordered(a, b)) \/ (\E a \in Pool, n \in Lifetimes : Derive(a, n))
Spec == InitT /\ [][Next]_vars

\* the instants a certificate was requested for
ReqNb(c) == InstOfArg(c.a)
ReqNa(c) == IF c.fn = "derive" THEN AddSec(InstOfArg(c.a), c.n) ELSE InstOfArg(c.b)
Encodes(c) == c.nb = Render(ReqNb(c)) /\ c.na = Render(ReqNa(c))
TypeOK == \A i \in 1..Len(certs) : ArgOk(certs[i].a) /\ ArgOk(certs[i].b) /\ certs[i].n >= 0 /\ Len(certs[i].nb) = 15 /\ Len(certs[i].na) = 15
\* every certificate of the history encodes exactly the instants of its own request ...
EncodesRequested == \A i \in 1..Len(certs) : Encodes(certs[i])
\* ... and a later call changes nothing about an earlier certificate
IssuedStable == [][SubSeq(certs', 1, Len(certs)) = certs]_vars
\* vacuity: situations that must be reached - the two passes of one reading in one call / in two calls, the same instant on two
\* clocks, a reading inside a gap.  Flags set while exploring (CONSTRAINT Reach, one worker), read when the run ends (POSTCONDITION Reached)
SamePasses(a, b) == a.k = "zone" /\ b.k = "zone" /\ a.zone = b.zone /\ a.w = b.w /\ a.fold # b.fold /\ Ambiguous(ZoneOf(a.zone), a.w)
R_OneCall == Len(certs) >= 1 /\ certs[1].fn = "new_cert" /\ SamePasses(certs[1].a, certs[1].b) /\ certs[1].nb # certs[1].na
R_TwoCalls == Len(certs) >= 2 /\ SamePasses(certs[1].a, certs[2].a) /\ certs[1].nb # certs[2].nb
R_OtherClock == Len(certs) >= 2 /\ certs[1].a.k = "zone" /\ certs[2].fn = "derive" /\ certs[2].a.k = "fixed" /\ certs[1].nb = certs[2].nb
R_Gap == Len(certs) >= 1 /\ certs[1].a.k = "zone" /\ InGap(ZoneOf(certs[1].a.zone), certs[1].a.w) /\ certs[1].a.fold = 1
InitW == InitT /\ TLCSet(71, FALSE) /\ TLCSet(72, FALSE) /\ TLCSet(73, FALSE) /\ TLCSet(74, FALSE)
SpecW == InitW /\ [][Next]_vars
Reach == /\ (R_OneCall => TLCSet(71, TRUE)) /\ (R_TwoCalls => TLCSet(72, TRUE))
         /\ (R_OtherClock => TLCSet(73, TRUE)) /\ (R_Gap => TLCSet(74, TRUE))
Reached == PrintT(<<"REACHED", TLCGet(71), TLCGet(72), TLCGet(73), TLCGet(74)>>)
=============================================================================
