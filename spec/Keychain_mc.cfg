SPECIFICATION SpecA
CONSTANTS
  Ids = {A, B}
  MaxKeys = 2
  CertN = 2
  Depth = 6
  MaxLevel = 0
  MaxFaults = 1
  DevScope = FALSE
  DevCacheLoc = FALSE
  DevDelKey = FALSE
  DevKeyId = FALSE
  DevDelCertView = FALSE
  DevCertObj = FALSE
  DevEmptyObj = FALSE
SYMMETRY Perms
INVARIANT MappingViews
INVARIANT Containment
INVARIANT AtMostOneDefault
INVARIANT DefaultWhenPopulated
INVARIANT SignerMatchesKey
INVARIANT NoSignerForDeletedKey
INVARIANT DeleteCascades
INVARIANT RetryAfterFailureOk
CHECK_DEADLOCK FALSE
