--------------------------- MODULE KcRegisterTrace ---------------------------
(* X03 stage C for the keychain register: schedules driven at random against the real KeychainSqlite3 + appv2
   NDNApp (larger universe than the exhaustive one: three identities, two keys each, three certificates per key)
   must be behaviours of KcRegister; after every Ask the Data packets the application put on the face, mapped back
   to certificate slots, must be allowed by `reply`. *)
EXTENDS KcRegister, Json, IOUtils, TLCExt, TLC

TraceReg == 1000000
ASSUME TLCSet(TraceReg, ndJsonDeserialize(IOEnv.TRACE_FILE))
Traces == TLCGet(TraceReg)
VARIABLES tid, l
tvars == <<vars, tid, l>>
Tr == Traces[tid].ev
Max2(a, b) == IF a > b THEN a ELSE b

TInit == tid \in 1..Len(Traces) /\ l = 1 /\ Init /\ TLCSet(tid, 1)
Ev(a) == l <= Len(Tr) /\ Tr[l].a = a /\ l' = l + 1 /\ UNCHANGED tid
E == Tr[l]
\* obs = sequence of <<i, k, c>> (certificates recognised on the face) ; "x" in a slot = not a stored certificate
ObsOk == \/ reply' = {} /\ Len(E.obs) = 0
         \/ reply' # {} /\ Len(E.obs) = 1 /\ E.obs[1] \in reply'
TNext == \/ Ev("NewIdentity") /\ NewIdentity(E.i)
         \/ Ev("NewKey") /\ NewKey(E.i, E.k)
         \/ Ev("DelKey") /\ DelKey(E.i, E.k)
         \/ Ev("ImportCert") /\ ImportCert(E.i, E.k, E.c)
         \/ Ev("DelCert") /\ DelCert(E.i, E.k, E.c)
         \/ Ev("Attach") /\ Attach
         \/ Ev("Ask") /\ AskAny(E.x) /\ ObsOk
         \/ Ev("Clear") /\ Clear
TSpec == TInit /\ [][TNext]_tvars
Mark == TLCSet(tid, Max2(TLCGet(tid), l))
Post == \A i \in 1..Len(Traces) : TLCGet(i) = Len(Traces[i].ev) + 1 \/ PrintT(<<"REJECTED", i, TLCGet(i)>>)
=============================================================================
