\* stage C: recorded executions of a 5-node SvsInst, Mode "open", deviations off (pass 1).
\* TRACE_FILE=<ndjson> in the environment. harness/props/c18.py generates this (and the
\* deviations-on variant, Dev = {"aggLocal","noSeq","postponed"}) into build/; for the executions of large groups
\* NodeOrder <- Nodes25 / Nodes21 / Nodes41 / Nodes101 and MaxSeq = HiSeq + HiSpan (scaled classes).
SPECIFICATION TSpec
CONSTANTS
  NodeOrder <- Nodes5
  MaxSeq = 24
  InitSeqs = {0}
  Packets = {}
  PrePackets = {}
  Mode = "open"
  Dev = {}
  SupBase = 1
  SyncBase = 9
  Jitter = {0,1}
  MaxT = 64
  MaxBurst = 3
  MaxReact = 2
  MaxPre = 3
  MaxEv = 0
  TickEnds = FALSE
  UseHint = TRUE
  Remember = TRUE
INVARIANT OwnEntry
INVARIANT SteadyForgets
PROPERTY Monotone
PROPERTY OverclaimIgnored
PROPERTY PublishEmitsFullVector
PROPERTY EmitsOnlyLocal
PROPERTY CallbackPublishEmits
PROPERTY OutdatedStartsSuppression
PROPERTY HeardIsMerge
PROPERTY PublishThenRecvAnnounces
CONSTRAINT Mark
POSTCONDITION Post
VIEW TView
CHECK_DEADLOCK FALSE
