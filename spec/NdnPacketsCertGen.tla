---------------------------- MODULE NdnPacketsCertGen ----------------------------
(* Stage B generator for C16: one line per request with the expected certificate (IOEnv.OUT). *)
EXTENDS NdnPacketsCertCfg, Json, IOUtils, SequencesExt
ASSUME ndJsonSerialize(IOEnv.OUT, SetToSeq({ [q |-> r, exp |-> CertExpect(r)] : r \in ReqSpace }))
Wit(Q(_)) == \E r \in ReqSpace : Q(r)
W1(r) == r.sg.a < r.sg.r
W2(r) == r.fn = "self_sign" /\ ~HasSameDay(Now(r), 20)
W3(r) == MsWidth(r.clock) = 4
W4(r) == r.fn = "derive" /\ CivilFromDays(r.start.d).y < CivilFromDays(AddSec(r.start, r.dur).d).y
W5(r) == NumSize(Reserved(CertCfg(r)).len) = 3 /\ NumSize(Final(CertCfg(r)).len) = 1
W5b(r) == NumSize(Reserved(CertCfg(r)).len) = 5 /\ NumSize(Final(CertCfg(r)).len) = 3
W15(r) == r.host # "UTC" /\ r.tz = -1000
W16(r) == r.zone # ""
W17(r) == CivilFromDays(r.start.d).y < 1000
W6(r) == r.fn = "derive" /\ r.tz # -1000 /\ r.tz # 0
W12(r) == r.fn = "self_sign" /\ HasSameDay(Now(r), 20) /\ CivilFromDays(Now(r).d).m = 2 /\ CivilFromDays(Now(r).d).d = 29
W13(r) == \E i \in 1..(Len(r.lit) - 3) : r.lit[i] = "KEY" /\ i = Len(r.lit) - 3
W14(r) == \E i \in 1..(Len(r.lit) - 2) : r.lit[i] \in {"self", "cert-request"}
W7(r) == r.fn = "new_cert" /\ r.tz = -1000 /\ r.tz2 \notin {-1000, 0}
W8(r) == r.fn = "new_cert" /\ r.tz \notin {-1000, 0} /\ r.tz2 = -1000
W9(r) == r.fn = "derive" /\ r.idform = "typed" /\ r.issuer.t # 8
W10(r) == r.fn = "derive" /\ r.idform = "escaped" /\ r.issuer.t = 8
W11(r) == r.fn = "derive" /\ r.idform = "short"
W18(r) == r.enc # "spki" /\ Readable(r) /\ r.fn \in {"self_sign", "sign_req"} /\ ContentExpect(r).carried
W19(r) == ~Readable(r) /\ r.enc # "opaque"
W20(r) == r.enc = "opaque" /\ r.publen = 0
W21(r) == r.pubbuf \in {"bytearray", "memoryview-slice"} /\ r.enc # "spki"
W22(r) == r.fn = "new_cert" /\ r.zone # "" /\ r.zone = r.zone2 /\ r.sw = r.ew /\ r.sf = 0 /\ r.ef = 1
W23(r) == r.zone # "" /\ InGap(ZoneOf(r.zone), r.sw) /\ r.sf = 1
W24(r) == r.fn = "derive" /\ r.zone # "" /\ r.sf = 1 /\ Ambiguous(ZoneOf(r.zone), r.sw)
W25(r) == r.fn = "new_cert" /\ r.zone = "" /\ r.zone2 # "" /\ r.ef = 1
ASSUME PrintT(<<"WITNESSES", [BothPassesOfOneReadingInOneCall |-> Wit(W22), ReadingInsideTheGap |-> Wit(W23), StartInSecondPass |-> Wit(W24),
                               OnlyTheEndInADstZone |-> Wit(W25), OuterNarrows5to3 |-> Wit(W5b), NaiveOnNonUtcHost |-> Wit(W15), DstZone |-> Wit(W16), YearBelow1000 |-> Wit(W17),
                               LeapDayWithSameDay |-> Wit(W12), KeyInsideIdentity |-> Wit(W13), ReservedWordInIdentity |-> Wit(W14),
                               NaiveStartAwareEnd |-> Wit(W7), AwareStartNaiveEnd |-> Wit(W8), TypedTextId |-> Wit(W9),
                               EscapedTextId |-> Wit(W10), NonCanonicalKeyOwnSigned |-> Wit(W18), KeyEncodingImportersDoNotRead |-> Wit(W19),
                               EmptyKeyBits |-> Wit(W20), NonCanonicalKeyInWritableBuffer |-> Wit(W21), ShorthandTextId |-> Wit(W11), Shrink |-> Wit(W1), LeapDayNoSameDay |-> Wit(W2), Version4 |-> Wit(W3),
                               YearBoundary |-> Wit(W4), LongOuter |-> Wit(W5), NonUtcZone |-> Wit(W6)],
                "COUNT", Cardinality(ReqSpace)>>)
=============================================================================
