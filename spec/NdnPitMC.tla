----------------------------- MODULE NdnPitMC -----------------------------
(* Bounded configurations of NdnPit (DESIGN 5.1): each is exhaustive in one dimension. *)
EXTENDS NdnPit

A == <<"a">>
AB == <<"a", "b">>
ABC == <<"a", "b", "c">>
AC == <<"a", "c">>
B == <<"b">>
T(n, c, g, l) == [name |-> n, cbp |-> c, dig |-> g, life |-> l]
D(n, i) == [name |-> n, id |-> i]

\* timing: one name, exact and CanBePrefix, lifetimes 1 and 2
T_timing == {T(A, FALSE, 0, 1), T(A, TRUE, 0, 2)}
D_timing == {D(A, 1)}
\* matching: same / nested / sibling names, CanBePrefix, implicit digest
\* (CanBePrefix together with an implicit digest still names the one packet with that hash)
T_match == {T(A, FALSE, 0, 2), T(A, TRUE, 0, 2), T(AB, FALSE, 0, 2), T(AB, FALSE, 2, 2), T(AB, TRUE, 2, 2), T(AC, TRUE, 0, 2)}
D_match == {D(A, 1), D(AB, 2), D(AB, 3), D(ABC, 4)}
\* small graph for the transition cover
T_small == {T(A, FALSE, 0, 1), T(A, TRUE, 0, 2), T(AB, FALSE, 0, 1)}
\* ... and an Interest whose lifetime is 0 (legacy: times out in the instant it is expressed)
T_small0 == T_small \cup {T(A, TRUE, 0, 0)}
D_small == {D(A, 1), D(AB, 2)}
D_small0 == D_small
T_dig == {T(AB, FALSE, 2, 2), T(AB, TRUE, 3, 2), T(AB, FALSE, 0, 1), T(A, TRUE, 0, 2)}
D_dig == {D(AB, 2), D(AB, 3), D(ABC, 4)}

\* NONE / FALSEV: a validator that answers None / False instead of a ValidResult (one written for the legacy front-end): not accepting
V_v2all == {"PASS", "FAIL", "TIMEOUT", "SILENCE", "BYPASS", "RAISE", "NONE", "FALSEV"}
V_v2two == {"PASS", "FAIL"}
V_v2one == {"PASS"}
V_legacy == {"T", "F"}
V_legacyone == {"T"}
E_all == {"bare", "lp", "lph", "lpo"}
E_one == {"bare"}
Race_no == {{}}
Race_one == {{}} \cup {{e} : e \in Entry}
Def_no == {FALSE}
Def_both == BOOLEAN
NoDev == {}
DevLegacy == {"legacySlowValidator"}
J_one == {"junk"}
J_none == {}
R_two == {1, 2}
R_one == {1}
=============================================================================
