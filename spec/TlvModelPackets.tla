-------------------------- MODULE TlvModelPackets --------------------------
(* C07: the Interest, Data, LpPacket, Certificate (and Name) formats as TlvModel schemas - a
   strict reading of NDN packet format 0.3 / NDNLPv2 / certificate format 2.0, written from the
   format documents, NOT introspected from the code - with
     * WellFormed / Extract: declarative definitions of "well-formed" and "the fields a strict
       reading gives" (no scan position, no field cursor);
     * Verdict: what a decoder built on the scan machine answers;
     * the element alphabets TLC enumerates sequences over.
   INTERPRETATION (statement of C07, least alarming reading)
   * "legal width": a NonNegativeInteger of 1, 2, 4 or 8 bytes; fields the format fixes to one
     width (Nonce 4, HopLimit 1, SignatureType 1) are accepted in any legal width.
   * Type and length numbers need not be in shortest form to be accepted (not in the statement).
   * LpPacket: NDNLPv2 fields are all non-critical by the low-bit rule and the decoder is run with
     ignore_critical, so unknown or repeated elements are ignored; a packet carrying FragIndex /
     FragCount is rejected ("fragmentation not implemented" is a documented DecodeError):
     LpUnsupported.  Data/Certificate SignatureInfo is read with ignore_critical (v0.2
     compatibility), as the format documents for SignatureType-specific elements.
   * Name.from_bytes decodes the Name element at the head of the buffer; bytes after it are not
     judged (Name.decode is documented to return the consumed size).                           *)
EXTENDS TlvModel

N(i) == NumOfInt(i)
R(v, r) == [v |-> v, r |-> r]

KeyLocatorS == <<FName("name", N(7)), FBytes("key_digest", N(29))>>
SigInfoS    == <<FUintFix("signature_type", N(27), 1), FModel("key_locator", N(28), KeyLocatorS, FALSE),
                 FUint("signature_nonce", N(38)), FUint("signature_time", N(40)), FUint("signature_seq_num", N(42))>>
LinksS      == <<FRep("names", FName("names", N(7)))>>
InterestS   == <<FIName("name", N(7)), FBool("can_be_prefix", N(33)), FBool("must_be_fresh", N(18)),
                 FModel("forwarding_hint", N(30), LinksS, FALSE), FUintFix("nonce", N(10), 4),
                 FUint("lifetime", N(12)), FUintFix("hop_limit", N(34), 1),
                 FBytes("application_parameters", N(36)), FModel("signature_info", N(44), SigInfoS, FALSE),
                 FBytes("signature_value", N(46))>>
MetaInfoS   == <<FUint("content_type", N(24)), FUint("freshness_period", N(25)), FBytes("final_block_id", N(26))>>
DataS       == <<FName("name", N(7)), FModel("meta_info", N(20), MetaInfoS, FALSE), FBytes("content", N(21)),
                 FModel("signature_info", N(22), SigInfoS, TRUE), FBytes("signature_value", N(23))>>
ValidityS   == <<FBytes("not_before", N(254)), FBytes("not_after", N(255))>>
DescEntryS  == <<FBytes("description_key", N(513)), FBytes("description_value", N(514))>>
AddDescS    == <<FRep("description_entry", FModel("description_entry", N(512), DescEntryS, FALSE))>>
CertSigInfoS == SigInfoS \o <<FModel("validity_period", N(253), ValidityS, FALSE),
                              FModel("additional_description", N(258), AddDescS, FALSE)>>
CertS       == [DataS EXCEPT ![4] = FModel("signature_info", N(22), CertSigInfoS, TRUE)]
NackS       == <<FUint("nack_reason", N(801))>>
CachePolicyS == <<FUint("cache_policy_type", N(821))>>
\* NDNLPv2: header fields in increasing order of their type numbers (Ack 836 before TxSequence 840), the Fragment last
LpS         == <<FUint("frag_index", N(82)), FUint("frag_count", N(83)), FBytes("pit_token", N(98)),
                 FModel("nack", N(800), NackS, FALSE), FUint("incoming_face_id", N(812)),
                 FUint("next_hop_face_id", N(816)), FModel("cache_policy", N(820), CachePolicyS, FALSE),
                 FUint("congestion_mark", N(832)), FBytes("ack", N(836)), FBytes("tx_sequence", N(840)),
                 FBool("non_discovery", N(844)), FBytes("prefix_announcement", N(848)), FBytes("fragment", N(80))>>

\* NDN packet format 0.3 before 2019 (module ndn_format_0_3_2017): ForwardingHint carries Delegations
Delegation2017S == <<FUint("preference", N(30)), FName("delegation", N(7))>>
Links2017S      == <<FRep("delegations", FModel("delegations", N(31), Delegation2017S, FALSE))>>
Interest2017S   == [InterestS EXCEPT ![4] = FModel("forwarding_hint", N(30), Links2017S, FALSE)]
(* Other public decoders of the same formats, judged in stage C and (the two lp ones) on every enumerated LP sequence:
     "lp.legacy"  parse_lp_packet     = parse_lp_packet_v2 projected on (NackReason, Fragment)
     "lp.nack"    parse_network_nack  the same machine without the fragmentation post-check (a fragmented LpPacket
                  is well-formed; rejecting it is parse_lp_packet_v2's documented "not implemented"), projected on
                  (NackReason, Fragment), both none when there is no Nack header
     "interest2017", "data2017"  ndn.encoding.ndn_format_0_3_2017.parse_interest / parse_data                   *)
ExtraPks == {"lp.legacy", "lp.nack", "interest2017", "data2017"}
Packets == {"interest", "data", "cert", "lp"}
(* Nested levels enumerated on their own: the element sequences INSIDE the SignatureInfo of an Interest / Data /
   certificate and inside MetaInfo, each sequence wrapped into a fixed well-formed frame of the parent packet
   (FrameOf) and given to the parent's decoder.  ignore_critical as the format documents it: strict for the
   Interest's SignatureInfo and for MetaInfo, lenient for the Data / certificate SignatureInfo. *)
NestedPks == {"interest.si", "data.si", "cert.si", "data.meta"}
SchemaOfPk(pk) == CASE pk = "interest" -> InterestS [] pk \in {"data", "data2017"} -> DataS [] pk = "cert" -> CertS
                    [] pk \in {"lp", "lp.legacy", "lp.nack"} -> LpS [] pk = "interest2017" -> Interest2017S
                    [] pk \in {"interest.si", "data.si"} -> SigInfoS [] pk = "cert.si" -> CertSigInfoS
                    [] pk = "data.meta" -> MetaInfoS
IcOfPk(pk)     == pk \in {"lp", "lp.legacy", "lp.nack", "data.si", "cert.si"}
ParentOf(pk)   == CASE pk = "interest.si" -> "interest" [] pk \in {"data.si", "data.meta"} -> "data" [] pk = "cert.si" -> "cert"
NestedPrefix(pk) == CASE pk = "interest.si" -> "signature_info/" [] pk \in {"data.si", "cert.si"} -> "signature_info/"
                      [] pk = "data.meta" -> "meta_info/" [] OTHER -> ""
OuterType(pk)  == CASE pk \in {"interest", "interest2017"} -> N(5) [] pk \in {"data", "cert", "data2017"} -> N(6)
                    [] pk \in {"lp", "lp.legacy", "lp.nack"} -> N(100) [] pk = "name" -> N(7)

\* ------------------------------------------------------------------ what the decoder answers (machine + post-checks)
NamePresent(out) == out[1].k = "name"
LpUnsupported(out) == out[1].k # "none" \/ out[2].k # "none"
Verdict(pk, st) == IF st.status # "accept" THEN "reject"
                   ELSE IF pk \in NestedPks THEN "accept"
                   ELSE IF pk \in {"interest", "data", "cert", "interest2017", "data2017"} /\ ~NamePresent(st.out) THEN "reject"
                   ELSE IF pk \in {"lp", "lp.legacy"} /\ LpUnsupported(st.out) THEN "reject"
                   ELSE "accept"
Why(pk, st) == IF st.status # "accept" THEN NestedPrefix(pk) \o st.why
               ELSE IF pk \in NestedPks THEN ""
               ELSE IF pk \in {"interest", "data", "cert", "interest2017", "data2017"} /\ ~NamePresent(st.out) THEN "missing-name"
               ELSE IF pk \in {"lp", "lp.legacy"} /\ LpUnsupported(st.out) THEN "lp-fragmentation-unsupported"
               ELSE ""

\* (NackReason, Fragment) as parse_lp_packet / parse_network_nack return them; a Nack header without NackReason means reason 0
NackReasonOf(out) == IF out[4].k = "none" THEN None
                     ELSE IF out[4].v[1].k = "none" THEN [k |-> "uint", n |-> <<>>] ELSE out[4].v[1]
LpLegacyOut(out)  == <<NackReasonOf(out), out[13]>>
NetNackOut(out)   == IF out[4].k = "none" THEN <<None, None>> ELSE <<NackReasonOf(out), out[13]>>

\* ------------------------------------------------------------------ derived pointers (SignaturePtrs of parse_interest / parse_data)
(* What a strict reading of the format gives for the pointers the decoders return next to the fields:
     dvb  digest_value_buf: the value of THE ParametersSha256DigestComponent (type 2) of the Name, wherever it
          stands in the Name; none when there is no such component; unspecified when there are several
     scn  the Name part of signature_covered_part: the components of the Name except the digest component(s)
          (specified when a signature value is present)
     scr  the element range of signature_covered_part: from the first element belonging to ApplicationParameters /
          SignatureInfo (Interest), resp. from the first recognised element (Data), up to the signature value
     dcr  the element range of digest_covered_part: from ApplicationParameters to the end of the Interest
          (specified when ApplicationParameters is present)
   Ranges are pairs <<first position, position after the last>> of top-level elements; <<>> = unspecified
   (the format does not define the pointer in that situation, any answer is accepted).                       *)
Unspec == [k |-> "unspecified"]
PosOfField(tk, f) == LET C == {i \in 1 .. Len(tk) : tk[i][1] = f} IN IF C = {} THEN 0 ELSE tk[MinOf(C)][2]
Ptrs(pk, input, st) ==
  IF pk \in {"interest", "interest2017"} THEN
    LET comps == st.out[1].comps
        dig   == SelectSeq(comps, LAMBDA x : x.t = N(2))
        pSv   == PosOfField(st.taken, 10)
        pApp  == PosOfField(st.taken, 8)
        late  == {st.taken[i][2] : i \in {j \in 1 .. Len(st.taken) : st.taken[j][1] >= 8}}
    IN [dvb |-> IF Len(dig) = 1 THEN [k |-> "bytes", runs |-> dig[1].runs] ELSE IF Len(dig) = 0 THEN None ELSE Unspec,
        scn |-> IF pSv # 0 THEN [k |-> "list", items |-> SelectSeq(comps, LAMBDA x : x.t # N(2))] ELSE Unspec,
        scr |-> IF pSv # 0 THEN <<MinOf(late), pSv>> ELSE <<>>,
        dcr |-> IF pApp # 0 THEN <<pApp, Len(input) + 1>> ELSE <<>>]
  ELSE IF pk \in {"data", "data2017"} THEN
    LET pSv == PosOfField(st.taken, 5) IN
    [dvb |-> Unspec, scn |-> Unspec,
     scr |-> IF pSv # 0 THEN <<MinOf({st.taken[i][2] : i \in 1 .. Len(st.taken)}), pSv>> ELSE <<>>, dcr |-> <<>>]
  ELSE [dvb |-> Unspec, scn |-> Unspec, scr |-> <<>>, dcr |-> <<>>]
\* observed range codes: <<>> no buffer, <<0, 0>> an empty buffer, <<a, b>> aligned on elements a .. b-1, <<9999, 9999>> misaligned
PtrsOk(e, g) == /\ (e.dvb = Unspec \/ e.dvb = g.dvb)
                /\ (e.scn = Unspec \/ e.scn = g.scn)
                /\ (e.scr = <<>> \/ e.scr = g.scr \/ (e.scr[1] = e.scr[2] /\ g.scr = <<0, 0>>))
                /\ (e.dcr = <<>> \/ e.dcr = g.dcr)

\* ------------------------------------------------------------------ declarative well-formedness and extraction
\* (schemas with pairwise distinct types and no map fields)
Idx(s, t) == IF \E i \in 1 .. Len(s) : s[i].t = t THEN CHOOSE i \in 1 .. Len(s) : s[i].t = t ELSE 0
(* element p is *taken* iff it is recognised and no element taken before it belongs to a later
   field, or to the same field unless that field is repeated *)
RECURSIVE IsTaken(_, _, _)
IsTaken(s, input, p) ==
  LET i == Idx(s, input[p].t) IN
  /\ i # 0
  /\ \A q \in 1 .. p - 1 : IsTaken(s, input, q) =>
        LET j == Idx(s, input[q].t) IN j < i \/ (j = i /\ s[i].kind = "repeated")
RECURSIVE WellFormedLevel(_, _, _), ValueOK(_, _), ExtractLevel(_, _), ValueOf(_, _)
ValueOK(d, e) ==
  CASE d.kind = "uint"  -> e.leaf /\ LegalWidth(e.n)
    [] d.kind = "name"  -> (\A i \in 1 .. Len(e.kids) : e.kids[i].fits) /\ OneDigest(d, e)
    [] d.kind = "model" -> WellFormedLevel(d.sub, d.ic, e.kids)
    [] OTHER -> TRUE
ElemDesc(d) == IF d.kind = "repeated" THEN d.elem[1] ELSE d
WellFormedLevel(s, ic, input) ==
  /\ \A p \in 1 .. Len(input) : input[p].fits                                   \* every element inside its parent
  /\ \A p \in 1 .. Len(input) :
        IF IsTaken(s, input, p) THEN ValueOK(ElemDesc(s[Idx(s, input[p].t)]), input[p])   \* legal widths, nested
        ELSE ~IsOdd(input[p].t) \/ ic              \* critical: recognised, once, in order
ValueOf(d, e) ==
  CASE d.kind = "uint"  -> [k |-> "uint", n |-> NumOfBytes(RunsToBytes(e.runs))]
    [] d.kind = "bool"  -> [k |-> "bool"]
    [] d.kind = "bytes" -> [k |-> "bytes", runs |-> e.runs]
    [] d.kind = "text"  -> [k |-> "text", runs |-> e.runs]
    [] d.kind = "name"  -> [k |-> "name", comps |-> [i \in 1 .. Len(e.kids) |-> [t |-> e.kids[i].t, runs |-> e.kids[i].runs]]]
    [] d.kind = "model" -> [k |-> "model", v |-> ExtractLevel(d.sub, e.kids)]
ExtractLevel(s, input) ==
  [i \in 1 .. Len(s) |->
     LET P == {p \in 1 .. Len(input) : IsTaken(s, input, p) /\ Idx(s, input[p].t) = i} IN
     IF s[i].kind = "repeated"
     THEN [k |-> "list", items |-> LET ps == SelectSeq([p \in 1 .. Len(input) |-> p], LAMBDA p : p \in P)
                                   IN [j \in 1 .. Len(ps) |-> ValueOf(s[i].elem[1], input[ps[j]])]]
     ELSE IF P = {} THEN None ELSE ValueOf(s[i], input[CHOOSE p \in P : TRUE])]

WellFormed(pk, input) ==
  LET s == SchemaOfPk(pk) IN
  /\ WellFormedLevel(s, IcOfPk(pk), input)
  /\ (pk \in {"interest", "data", "cert"} => \E p \in 1 .. Len(input) : IsTaken(s, input, p) /\ input[p].t = N(7))
  /\ (pk = "lp" => ~\E p \in 1 .. Len(input) : IsTaken(s, input, p) /\ input[p].t \in {N(82), N(83)})
Extract(pk, input) == ExtractLevel(SchemaOfPk(pk), input)
WellFormedName(kids) == \A i \in 1 .. Len(kids) : kids[i].fits
ExtractName(kids) == [i \in 1 .. Len(kids) |-> [t |-> kids[i].t, runs |-> kids[i].runs]]

\* ------------------------------------------------------------------ alphabets
B(v)      == <<R(v, 1)>>
Bad(e)    == [e EXCEPT !.fits = FALSE]
\* cut headers (TlvModel.Cut): a lone 0xFD; a complete 1-byte Type followed by a 3-byte Length with one byte
\* missing; a 3-byte Type with its last byte missing; a 5-byte Length cut; a complete 3-byte Type (Nack) whose
\* Length number is cut
Trunc       == Cut(<<253>>)
CutLen(t)   == Cut(<<t, 253, 0>>)
CutType     == Cut(<<253, 3>>)
CutLen5(t)  == Cut(<<t, 254, 0, 0>>)
CutNackLen  == Cut(<<253, 3, 32, 253, 0>>)
CompA     == Leaf(N(8), 1, B(97))
DigComp   == Leaf(N(2), 32, <<R(170, 32)>>)
NameOk    == Node(N(7), <<CompA>>)
NameEmpty == Node(N(7), <<>>)
NameTwo   == Node(N(7), <<CompA, Leaf(N(54), 2, <<R(1, 1), R(0, 1)>>)>>)
NameBadComp == Node(N(7), <<CompA, Bad(Leaf(N(8), 1, B(98)))>>)
UnkCrit   == Leaf(N(127), 1, B(1))
UnkNonCrit == Leaf(N(128), 1, B(2))
SigInfoOk(t)  == Node(t, <<Leaf(N(27), 1, B(0))>>)
SigInfoKl(t)  == Node(t, <<Leaf(N(27), 1, B(3)), Node(N(28), <<NameOk>>)>>)
SigInfoOverrun(t) == Node(t, <<Leaf(N(27), 1, B(0)), Bad(Leaf(N(40), 1, B(9)))>>)
SigInfoUnkCrit(t) == Node(t, <<Leaf(N(27), 1, B(0)), UnkCrit>>)
SigInfoBadWidth(t) == Node(t, <<Leaf(N(27), 3, <<R(0, 3)>>)>>)
\* sequences INSIDE a nested container: repeated critical, critical out of order (SignatureType after KeyLocator)
SigInfoDup(t) == Node(t, <<Leaf(N(27), 1, B(0)), Leaf(N(27), 1, B(1))>>)
SigInfoOoo(t) == Node(t, <<Node(N(28), <<NameOk>>), Leaf(N(27), 1, B(3))>>)
SigInfoNcIn(t) == Node(t, <<UnkNonCrit, Leaf(N(27), 1, B(0)), UnkNonCrit, Leaf(N(40), 1, B(1))>>)

\* Letters that may stand anywhere (body) / letters only possible as the last element of the level
\* (tail: an element that overruns the level, or a cut header, has nothing after it).
\* Three nested alphabet levels: 0 = mini (first MiniN letters), 1 = reduced (first RedN), 2 = full.
InterestBody ==
  <<NameOk, NameBadComp, Leaf(N(10), 4, <<R(1, 4)>>), Leaf(N(10), 3, <<R(1, 3)>>), SigInfoOk(N(44)), SigInfoOverrun(N(44)),
    Leaf(N(36), 2, <<R(7, 2)>>), UnkCrit, UnkNonCrit,
    NameEmpty, Leaf(N(33), 0, <<>>), Leaf(N(18), 0, <<>>), Node(N(30), <<NameOk>>), Leaf(N(12), 2, <<R(15, 1), R(160, 1)>>),
    Leaf(N(46), 4, <<R(5, 4)>>),
    NameTwo, Node(N(30), <<UnkCrit>>), Node(N(30), <<NameOk, NameBadComp>>), Leaf(N(34), 1, B(64)), Leaf(N(12), 0, <<>>),
    SigInfoKl(N(44)), SigInfoUnkCrit(N(44)), Leaf(N(33), 1, B(1)),
    SigInfoDup(N(44)), SigInfoOoo(N(44)), SigInfoNcIn(N(44)), Node(N(30), <<NameOk, UnkNonCrit, NameTwo>>),
    \* position of the ParametersSha256DigestComponent in the Name: last / middle / first / twice
    Node(N(7), <<CompA, DigComp>>), Node(N(7), <<CompA, DigComp, CompA>>), Node(N(7), <<DigComp, CompA>>),
    Node(N(7), <<DigComp, CompA, Leaf(N(2), 32, <<R(187, 32)>>)>>),
    \* fixed-width fields in another legal width are accepted (fixed_len is an encoding rule only)
    Leaf(N(10), 8, <<R(0, 7), R(5, 1)>>), Leaf(N(10), 1, B(5)), Leaf(N(34), 2, <<R(0, 1), R(7, 1)>>)>>
InterestTail == <<Bad(Leaf(N(36), 2, <<R(7, 2)>>)), Trunc, Bad(NameOk), Bad(Leaf(N(12), 2, <<R(1, 2)>>)), Bad(SigInfoOk(N(44))),
                  CutLen(36), CutType, Node(N(44), <<Leaf(N(27), 1, B(0)), CutLen(40)>>), Node(N(7), <<CompA, CutLen(8)>>)>>

MetaOk  == Node(N(20), <<Leaf(N(24), 1, B(0)), Leaf(N(25), 2, <<R(3, 1), R(232, 1)>>)>>)
MetaFbi == Node(N(20), <<Leaf(N(25), 1, B(10)), Leaf(N(26), 3, <<R(50, 1), R(1, 1), R(9, 1)>>)>>)
MetaBadWidth == Node(N(20), <<Leaf(N(24), 1, B(0)), Leaf(N(25), 5, <<R(0, 5)>>)>>)
MetaOverrun == Node(N(20), <<Bad(Leaf(N(24), 1, B(0)))>>)
MetaOoo == Node(N(20), <<Leaf(N(25), 1, B(1)), Leaf(N(24), 1, B(2))>>)
DataBody ==
  <<NameOk, NameBadComp, MetaOk, MetaBadWidth, MetaOverrun, Leaf(N(21), 3, <<R(65, 3)>>), SigInfoUnkCrit(N(22)), UnkCrit, UnkNonCrit,
    NameEmpty, Leaf(N(21), 0, <<>>), SigInfoOk(N(22)), SigInfoOverrun(N(22)), Leaf(N(23), 4, <<R(5, 4)>>),
    NameTwo, MetaFbi, MetaOoo, Node(N(20), <<>>), SigInfoKl(N(22)), SigInfoBadWidth(N(22)), Leaf(N(23), 0, <<>>),
    SigInfoDup(N(22)), SigInfoOoo(N(22)), Node(N(20), <<Leaf(N(24), 1, B(0)), Leaf(N(24), 1, B(2))>>),
    Node(N(20), <<Leaf(N(24), 1, B(0)), UnkCrit>>)>>
DataTail == <<Bad(Leaf(N(21), 3, <<R(65, 3)>>)), Trunc, Bad(NameOk), Bad(MetaOk), Bad(Leaf(N(23), 4, <<R(5, 4)>>)),
              CutLen(21), CutLen5(23), Node(N(20), <<Leaf(N(24), 1, B(0)), CutLen(25)>>), Node(N(22), <<Leaf(N(27), 1, B(0)), CutType>>)>>

Validity == Node(N(253), <<Leaf(N(254), 15, <<R(49, 15)>>), Leaf(N(255), 15, <<R(50, 15)>>)>>)
CertSigOk == Node(N(22), <<Leaf(N(27), 1, B(3)), Node(N(28), <<NameOk>>), Validity>>)
CertSigDesc == Node(N(22), <<Leaf(N(27), 1, B(3)), Validity,
                             Node(N(258), <<Node(N(512), <<Leaf(N(513), 1, B(107)), Leaf(N(514), 1, B(118))>>)>>)>>)
CertSigValOverrun == Node(N(22), <<Leaf(N(27), 1, B(3)), Node(N(253), <<Leaf(N(254), 15, <<R(49, 15)>>), Bad(Leaf(N(255), 2, <<R(50, 2)>>))>>)>>)
CertSigValCrit == Node(N(22), <<Leaf(N(27), 1, B(3)), Node(N(253), <<Leaf(N(254), 15, <<R(49, 15)>>), UnkCrit>>)>>)
CertBody ==
  <<NameOk, NameBadComp, MetaOk, Leaf(N(21), 3, <<R(48, 3)>>), CertSigOk, CertSigValOverrun, CertSigValCrit, UnkCrit, UnkNonCrit,
    MetaBadWidth, CertSigDesc, Leaf(N(23), 4, <<R(5, 4)>>),
    NameEmpty, MetaOverrun, SigInfoOk(N(22)), SigInfoUnkCrit(N(22)), SigInfoBadWidth(N(22)),
    SigInfoDup(N(22)), SigInfoOoo(N(22)),
    Node(N(22), <<Leaf(N(27), 1, B(3)), Node(N(253), <<Leaf(N(255), 15, <<R(50, 15)>>), Leaf(N(254), 15, <<R(49, 15)>>)>>)>>)>>
CertTail == <<Bad(Leaf(N(21), 3, <<R(48, 3)>>)), Trunc, Bad(CertSigOk), CutLen(21),
              Node(N(22), <<Leaf(N(27), 1, B(3)), Node(N(253), <<Leaf(N(254), 15, <<R(49, 15)>>), CutLen(255)>>)>>)>>

NackOk == Node(N(800), <<Leaf(N(801), 1, B(150))>>)
LpBody ==
  <<Leaf(N(80), 5, <<R(5, 1), R(3, 1), R(7, 1), R(1, 1), R(0, 1)>>), NackOk, Node(N(800), <<Leaf(N(801), 3, <<R(1, 3)>>)>>),
    Node(N(800), <<UnkCrit>>), Leaf(N(98), 4, <<R(222, 4)>>), Leaf(N(812), 3, <<R(1, 3)>>), Leaf(N(82), 1, B(0)), UnkCrit, UnkNonCrit,
    Node(N(800), <<>>), Leaf(N(812), 2, <<R(1, 1), R(4, 1)>>), Leaf(N(832), 1, B(1)), Leaf(N(840), 8, <<R(0, 7), R(1, 1)>>),
    Leaf(N(836), 8, <<R(0, 7), R(2, 1)>>),
    Leaf(N(83), 1, B(1)), Node(N(800), <<Bad(Leaf(N(801), 1, B(150)))>>), Node(N(820), <<Leaf(N(821), 1, B(1))>>),
    Leaf(N(844), 0, <<>>), Leaf(N(848), 2, <<R(6, 1), R(0, 1)>>), Leaf(N(81), 8, <<R(0, 8)>>), Leaf(N(816), 1, B(9)),
    Leaf(N(80), 0, <<>>),
    \* ill-formed children of CachePolicy (820, a strict model): overrun, unknown critical, duplicate, width, cut number
    Node(N(820), <<Bad(Leaf(N(821), 1, B(1)))>>), Node(N(820), <<Leaf(N(821), 1, B(1)), UnkCrit>>),
    Node(N(820), <<Leaf(N(821), 1, B(1)), Leaf(N(821), 1, B(2))>>), Node(N(820), <<Leaf(N(821), 3, <<R(0, 3)>>)>>),
    Node(N(820), <<Cut(<<253, 3>>)>>), Node(N(800), <<Leaf(N(801), 1, B(50)), Leaf(N(801), 1, B(51))>>)>>
LpTail == <<Bad(Leaf(N(80), 5, <<R(5, 5)>>)), Trunc, Bad(NackOk), Bad(Leaf(N(812), 2, <<R(1, 2)>>)),
            CutLen(80), CutNackLen, CutType, CutLen5(98), Node(N(800), <<CutLen(80)>>), Node(N(800), <<Cut(<<253, 3, 33, 253, 0>>)>>),
            Node(N(800), <<Leaf(N(801), 1, B(150)), CutType>>)>>

NameBody == <<CompA, Leaf(N(8), 0, <<>>), Leaf(N(54), 2, <<R(1, 1), R(0, 1)>>), Leaf(N(1), 32, <<R(170, 32)>>),
              Leaf(N(65535), 1, B(1)), Leaf(N(0), 1, B(1)), Leaf(N(8), 253, <<R(120, 253)>>)>>
NameTail == <<Bad(Leaf(N(8), 1, B(98))), Trunc, Bad(Leaf(N(8), 0, <<>>)), CutLen(8), CutType>>

\* nested levels: children of SignatureInfo (every optional field present / absent, any order, duplicated) ...
AddDescOk == Node(N(258), <<Node(N(512), <<Leaf(N(513), 1, B(107)), Leaf(N(514), 1, B(118))>>)>>)
SigBody == <<Leaf(N(27), 1, B(3)), Node(N(28), <<NameOk>>), Validity, AddDescOk, UnkCrit, UnkNonCrit,
             Leaf(N(40), 2, <<R(1, 1), R(2, 1)>>), Leaf(N(38), 4, <<R(9, 4)>>), Leaf(N(42), 1, B(7)),
             Leaf(N(27), 3, <<R(0, 3)>>), Node(N(28), <<Leaf(N(29), 2, <<R(5, 2)>>)>>), Node(N(28), <<NameBadComp>>),
             Leaf(N(27), 2, <<R(0, 1), R(3, 1)>>), Leaf(N(40), 8, <<R(0, 7), R(9, 1)>>)>>
\* ill-formed / unusual children of AdditionalDescription (258) and DescriptionEntry (512): both are strict models
DEntry(k, v) == Node(N(512), <<Leaf(N(513), 1, B(k)), Leaf(N(514), 1, B(v))>>)
SigBodyCert == SigBody \o
  <<Node(N(258), <<DEntry(107, 118), DEntry(108, 119)>>),
    Node(N(258), <<Node(N(512), <<Leaf(N(513), 1, B(107)), Bad(Leaf(N(514), 1, B(118)))>>)>>),
    Node(N(258), <<DEntry(107, 118), Bad(DEntry(108, 119))>>),
    Node(N(258), <<Node(N(512), <<Leaf(N(513), 1, B(107)), Leaf(N(514), 1, B(118)), UnkCrit>>)>>),
    Node(N(258), <<DEntry(107, 118), UnkCrit>>),
    Node(N(258), <<Node(N(512), <<Leaf(N(513), 1, B(107)), Leaf(N(513), 1, B(108))>>)>>),
    Node(N(258), <<Node(N(512), <<Leaf(N(513), 1, B(107)), Cut(<<253, 2, 2, 253>>)>>)>>),
    Node(N(258), <<Node(N(512), <<>>), Node(N(512), <<Leaf(N(514), 0, <<>>)>>)>>)>>
\* in an Interest / Data SignatureInfo the two certificate elements are unrecognised (opaque): 253 critical, 258 not
SigBodyPlain == [SigBody EXCEPT ![3] = Leaf(N(253), 3, <<R(1, 3)>>), ![4] = Leaf(N(258), 2, <<R(2, 2)>>)]
SigTail == <<Bad(Leaf(N(40), 1, B(9))), CutLen(40)>>
\* ... and of MetaInfo
MetaBody == <<Leaf(N(24), 1, B(2)), Leaf(N(25), 2, <<R(3, 1), R(232, 1)>>), Leaf(N(26), 3, <<R(50, 1), R(1, 1), R(9, 1)>>),
              UnkCrit, UnkNonCrit, Leaf(N(24), 3, <<R(0, 3)>>), Leaf(N(25), 8, <<R(0, 7), R(1, 1)>>)>>
MetaTail == <<Bad(Leaf(N(26), 1, B(9))), CutLen(25)>>
\* the fixed frame around a nested sequence: elements before / type of the container / elements after
FrameOf(pk) ==
  CASE pk = "interest.si" -> [pre |-> <<NameTwo, Leaf(N(10), 4, <<R(1, 4)>>), Leaf(N(36), 2, <<R(7, 2)>>)>>, t |-> N(44),
                              post |-> <<Leaf(N(46), 4, <<R(5, 4)>>)>>, field |-> 9]
    [] pk = "data.si"     -> [pre |-> <<NameOk, MetaOk, Leaf(N(21), 3, <<R(65, 3)>>)>>, t |-> N(22),
                              post |-> <<Leaf(N(23), 4, <<R(5, 4)>>)>>, field |-> 4]
    [] pk = "cert.si"     -> [pre |-> <<NameTwo, MetaOk, Leaf(N(21), 3, <<R(48, 3)>>)>>, t |-> N(22),
                              post |-> <<Leaf(N(23), 4, <<R(5, 4)>>)>>, field |-> 4]
    [] pk = "data.meta"   -> [pre |-> <<NameOk>>, t |-> N(20),
                              post |-> <<Leaf(N(21), 3, <<R(65, 3)>>), SigInfoOk(N(22)), Leaf(N(23), 4, <<R(5, 4)>>)>>, field |-> 2]

BodyOf(pk) == CASE pk = "interest" -> InterestBody [] pk = "data" -> DataBody [] pk = "cert" -> CertBody
                [] pk = "lp" -> LpBody [] pk = "name" -> NameBody
                [] pk \in {"interest.si", "data.si"} -> SigBodyPlain [] pk = "cert.si" -> SigBodyCert [] pk = "data.meta" -> MetaBody
TailAll(pk) == CASE pk = "interest" -> InterestTail [] pk = "data" -> DataTail [] pk = "cert" -> CertTail
                 [] pk = "lp" -> LpTail [] pk = "name" -> NameTail
                 [] pk \in {"interest.si", "data.si", "cert.si"} -> SigTail [] pk = "data.meta" -> MetaTail
MiniN == 9
RedN(pk) == CASE pk = "interest" -> 15 [] pk = "data" -> 14 [] pk = "cert" -> 12 [] pk = "lp" -> 14 [] pk = "name" -> 7
              [] OTHER -> 9
\* nested levels: mini = the first 6 letters (both optional certificate fields, unknown critical / non-critical)
AlphaOf(pk, lvl) == LET A == BodyOf(pk) IN
                    IF lvl >= 2 \/ pk = "name" THEN A
                    ELSE IF pk \in NestedPks THEN LET n == IF lvl = 1 THEN 9 ELSE IF pk = "data.meta" THEN 5 ELSE 6
                                                   IN SubSeq(A, 1, IF n > Len(A) THEN Len(A) ELSE n)     \* (data.meta has fewer than 9 letters)
                    ELSE SubSeq(A, 1, IF lvl = 1 THEN RedN(pk) ELSE MiniN)
TailOf(pk, lvl) == IF lvl = 0 THEN SubSeq(TailAll(pk), 1, 2) ELSE TailAll(pk)

\* all index sequences: body letters 1..na at any position, tail letters na+1..na+nt only last
RECURSIVE BodySeqs(_, _)
BodySeqs(na, n) == IF n = 0 THEN {<<>>}
                   ELSE LET S == BodySeqs(na, n - 1) IN
                        S \cup {Append(x, a) : x \in {y \in S : Len(y) = n - 1}, a \in 1 .. na}
LetterSeqs(na, nt, n) == LET Bd == BodySeqs(na, n) IN
                         Bd \cup {Append(x, na + j) : x \in {y \in Bd : Len(y) < n}, j \in 1 .. nt}
Letters(pk, lvl) == AlphaOf(pk, lvl) \o TailOf(pk, lvl)
=============================================================================
