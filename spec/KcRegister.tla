------------------------------ MODULE KcRegister ------------------------------
(* X03 (extra check): ndn/app_support/keychain_register.py - attach_keychain_register(keychain, app) serves the
   certificates of a keychain through NDNApp (appv2) routes.  Written from the code:

     attach   for every identity the keychain holds AT THAT MOMENT:  app.route(<identity>/KEY)(handler), no
              validator.  Identities created later have no route; keys and certificates created or deleted later
              under an attached identity are seen (the handler asks the keychain at every Interest).
     Interest (through the application's receive pipeline; longest-prefix match on the route table)
              - carrying ApplicationParameters / a signature: dropped by NDNApp (route without validator)
              - CanBePrefix, name = <identity>/KEY/<key-id>  (2 components behind the identity):
                    some certificate of that key (the first the keychain iterates), nothing if the key has none
              - not CanBePrefix, name = <identity>/KEY/<key-id>/<issuer>/<version> (4 components):
                    exactly that certificate, nothing if the key does not hold it
              - every other length / CanBePrefix combination: nothing ("Invalid key fetching Interest")

   Names: identity slot i -> IdName(i), a sequence of strings; the executor maps slots to real names
   ("b" is nested under "a": /x03/a and /x03/a/b, so that longest-prefix matching matters).
   A question (Interest) is described relative to slots:  i, cls (how many components behind the identity name
   and which), k (key slot or "ghost" = a key id that never exists), c (certificate slot or "ghost"),
   cbp (CanBePrefix), par (carries ApplicationParameters).

   Named deviation  DevShapesOnly:  a producer that holds a Data packet would answer every Interest the packet
   satisfies; the register answers only the two shapes above.  In particular an Interest for the FULL certificate
   name with CanBePrefix set (what ndn-cxx's certificate fetcher sends when a KeyLocator carries a certificate
   name) gets no answer although the certificate is there.  Intended(q) = all stored certificates that satisfy q;
   the invariants say the register never answers with something that does not satisfy the Interest and answers
   exactly Intended for the two documented shapes. *)
EXTENDS Naturals, Sequences, FiniteSets, TLC
CONSTANTS Ids, KeyIds, CertIds

VARIABLES ids,       \* identities in the keychain
          kc,        \* kc[i][k] = [has |-> BOOLEAN, certs |-> SUBSET CertIds]
          attached,  \* attach_keychain_register was called
          routes,    \* identities that got a route
          q,         \* the question being answered: NoQ or a record
          reply      \* set of <<i, k, c>> the register may answer q with ({} = no Data)
vars == <<ids, kc, attached, routes, q, reply>>

NoQ == [i |-> "-", cls |-> "-", k |-> "-", c |-> "-", cbp |-> FALSE, par |-> FALSE]
Classes == {"id", "KEY", "key", "issuer", "cert", "certx"}
NoKey == [has |-> FALSE, certs |-> {}]

Init == /\ ids = {} /\ kc = [i \in Ids |-> [k \in KeyIds |-> NoKey]]
        /\ attached = FALSE /\ routes = {} /\ q = NoQ /\ reply = {}

Mut == q = NoQ /\ UNCHANGED <<attached, routes, q, reply>>
NewIdentity(i) == /\ Mut /\ i \notin ids /\ ids' = ids \cup {i} /\ UNCHANGED kc
\* KeychainSqlite3.new_key: key + self-signed certificate
NewKey(i, k) == /\ Mut /\ i \in ids /\ ~kc[i][k].has
                /\ kc' = [kc EXCEPT ![i][k] = [has |-> TRUE, certs |-> {"self"}]] /\ UNCHANGED ids
ImportCert(i, k, c) == /\ Mut /\ i \in ids /\ kc[i][k].has /\ c \notin kc[i][k].certs /\ c # "self"
                       /\ kc' = [kc EXCEPT ![i][k].certs = @ \cup {c}] /\ UNCHANGED ids
DelCert(i, k, c) == /\ Mut /\ i \in ids /\ kc[i][k].has /\ c \in kc[i][k].certs
                    /\ kc' = [kc EXCEPT ![i][k].certs = @ \ {c}] /\ UNCHANGED ids
DelKey(i, k) == /\ Mut /\ i \in ids /\ kc[i][k].has
                /\ kc' = [kc EXCEPT ![i][k] = NoKey] /\ UNCHANGED ids
Attach == /\ q = NoQ /\ ~attached /\ attached' = TRUE /\ routes' = ids
          /\ UNCHANGED <<ids, kc, q, reply>>

\* ---- what is stored, and which stored certificates satisfy a question (NDN matching: prefix / equality)
Stored == {<<i, k, c>> \in Ids \X KeyIds \X CertIds : i \in ids /\ kc[i][k].has /\ c \in kc[i][k].certs}
\* does certificate <<i,k,c>> (name = Id(i)/KEY/k/c/version) satisfy question x ?
Satisfies(s, x) ==
  /\ s[1] = x.i /\ ~x.par
  /\ \/ x.cbp /\ x.cls = "KEY"          \* ("id": the name is not under the served prefix <identity>/KEY at all)
     \/ x.cbp /\ x.cls = "key" /\ s[2] = x.k
     \/ x.cbp /\ x.cls \in {"issuer", "cert"} /\ s[2] = x.k /\ s[3] = x.c
     \/ ~x.cbp /\ x.cls = "cert" /\ s[2] = x.k /\ s[3] = x.c
Intended(x) == {s \in Stored : Satisfies(s, x) /\ s[1] \in routes}

\* as coded
Coded(x) ==
  IF x.i \notin routes \/ x.par \/ x.cls \in {"id"} THEN {}          \* no route / dropped by NDNApp / not under <id>/KEY
  ELSE IF x.cbp /\ x.cls = "key" THEN {s \in Stored : s[1] = x.i /\ s[2] = x.k}
  ELSE IF ~x.cbp /\ x.cls = "cert" THEN {s \in Stored : s[1] = x.i /\ s[2] = x.k /\ s[3] = x.c}
  ELSE {}

Questions ==
  {[i |-> i, cls |-> cl, k |-> k, c |-> c, cbp |-> b, par |-> p] :
     i \in Ids, cl \in Classes, k \in KeyIds \cup {"ghost"}, c \in CertIds \cup {"ghost"}, b \in BOOLEAN, p \in BOOLEAN}
\* fields a class does not use are fixed (fewer equivalent questions)
Canonical(x) == /\ x.cls \in {"id", "KEY"} => x.k = "ghost" /\ x.c = "ghost"
                /\ x.cls = "key" => x.c = "ghost"
                \* parameters only matter on the shapes that are served otherwise
                /\ x.par => x.cls \in {"key", "cert"} /\ x.k # "ghost" /\ (x.cls = "cert" => x.c # "ghost")
AskAny(x) == /\ q = NoQ /\ x \in Questions
             /\ q' = x /\ reply' = Coded(x)
             /\ UNCHANGED <<ids, kc, attached, routes>>
Ask(x) == Canonical(x) /\ AskAny(x)
Clear == /\ q # NoQ /\ q' = NoQ /\ reply' = {} /\ UNCHANGED <<ids, kc, attached, routes>>

Next == \/ \E i \in Ids : NewIdentity(i)
        \/ \E i \in Ids, k \in KeyIds : NewKey(i, k) \/ DelKey(i, k)
        \/ \E i \in Ids, k \in KeyIds, c \in CertIds : ImportCert(i, k, c) \/ DelCert(i, k, c)
        \/ Attach
        \/ \E x \in Questions : Ask(x)
        \/ Clear
Spec == Init /\ [][Next]_vars

\* ---------------------------------------------------------------- design-level statements
TypeOK == /\ ids \subseteq Ids /\ routes \subseteq Ids /\ attached \in BOOLEAN
          /\ \A i \in Ids, k \in KeyIds : kc[i][k].certs \subseteq CertIds /\ (~kc[i][k].has => kc[i][k].certs = {})
\* whatever is served is stored now, belongs to an identity with a route, and satisfies the Interest
ServesOnlySatisfying == q # NoQ => reply \subseteq Intended(q)
\* the two documented shapes are served completely
DocumentedShapes == q # NoQ /\ ((q.cbp /\ q.cls = "key") \/ (~q.cbp /\ q.cls = "cert")) => reply = Intended(q)
\* without CanBePrefix at most one certificate can be the answer
ExactIsUnique == q # NoQ /\ ~q.cbp => Cardinality(reply) <= 1
NothingBeforeAttach == ~attached => reply = {}
\* DevShapesOnly is the only difference to the intention
DevBounded == q # NoQ /\ reply # Intended(q) =>
                /\ reply = {} /\ q.cbp /\ q.cls \in {"KEY", "issuer", "cert"}

\* vacuity witnesses (must be violated)
W_ServeKey   == ~(q # NoQ /\ q.cls = "key" /\ Cardinality(reply) = 2)
W_ServeCert  == ~(q # NoQ /\ q.cls = "cert" /\ reply # {} /\ q.c # "self")
W_LateId     == ~(q # NoQ /\ q.i \in ids \ routes /\ attached /\ q.cbp /\ q.cls = "key" /\ q.k \in KeyIds /\ kc[q.i][q.k].has /\ reply = {})
W_Deviation  == ~(q # NoQ /\ reply # Intended(q))
W_NoCerts    == ~(q # NoQ /\ q.cbp /\ q.cls = "key" /\ q.i \in routes /\ q.k \in KeyIds /\ kc[q.i][q.k].has /\ reply = {})
\* one run: a state CONSTRAINT notes which witnesses were seen, the POSTCONDITION wants all of them (1 worker)
WitnessSeq == <<W_ServeKey, W_ServeCert, W_LateId, W_Deviation, W_NoCerts>>
ASSUME \A n \in 1..5 : TLCSet(n, FALSE)
MarkW == \A n \in 1..5 : WitnessSeq[n] \/ TLCSet(n, TRUE)
PostW == \A n \in 1..5 : TLCGet(n) \/ PrintT(<<"VACUOUS", n>>)
=============================================================================
