\* stage A, thorough: Mode "open", every packet over 3 nodes / sequence numbers 0..2, events unbounded
\* (harness/props/c18.py generates this and its variants into build/)
SPECIFICATION Spec
CONSTANTS
  NodeOrder <- Nodes3
  MaxSeq = 2
  InitSeqs = {0}
  Packets <- PacketsFull
  PrePackets <- PacketsFull
  Mode = "open"
  Dev = {}
  SupBase = 1
  SyncBase = 9
  Jitter = {0,1}
  MaxT = 1
  MaxBurst = 2
  MaxReact = 2
  MaxPre = 2
  MaxEv = 0
  TickEnds = FALSE
  UseHint = FALSE
  Remember = FALSE
INVARIANT TypeOK
INVARIANT OwnEntry
INVARIANT SteadyForgets
PROPERTY Monotone
PROPERTY EntrywiseMax
PROPERTY OverclaimIgnored
PROPERTY MissingIffRaised
PROPERTY PublishEmitsFullVector
PROPERTY HeardIsMerge
PROPERTY SuppressionDecision
PROPERTY EmitsOnlyLocal
PROPERTY CallbackPublishEmits
PROPERTY OutdatedStartsSuppression
PROPERTY PublishThenRecvMerges
PROPERTY PublishThenRecvAnnounces
PROPERTY Witnesses
VIEW View
CHECK_DEADLOCK FALSE
