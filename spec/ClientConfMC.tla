---------------------------- MODULE ClientConfMC ----------------------------
(* C20 stages A and B: the full product of configuration sources as initial states, one state per
   configuration, `out` = what the reference resolves.  The invariants are the clauses of the
   statement; stage B materialises every state on disk / in os.environ and compares.

   Mode "conf":  per existence pattern of the 4 candidate files (none / only the k-th / two of them)
                 x every key state of the first existing file (3^3) x every content class those keys allow
                 (plain / 0 bytes / whitespace-and-comments only) x a second existing file that
                 has all keys or none x every subset of the environment variables (2^3)
                 x (location class, default-location existence) applied to both stores;
                 plus, for a reduced set of sources, every combination of location classes and
                 default-location existence of the two stores.
   Mode "face":  transport URIs over all supported and some unsupported schemes, hosts, ports. *)
EXTENDS ClientConf
CONSTANTS Mode, Thorough
VARIABLES kind, x, out

MaxOf(S) == CHOOSE a \in S : \A b \in S : a >= b
Patterns == IF Thorough THEN {E \in SUBSET (1..4) : Cardinality(E) <= 2}
            ELSE {{}, {1}, {3}, {2, 4}}
DefLists == IF Thorough THEN {<<TRUE>>, <<FALSE>>, <<FALSE, TRUE>>} ELSE {<<TRUE>>, <<FALSE>>}
All(v) == [s \in Settings |-> v]
KeyFns(E) ==
  IF E = {} THEN {[i \in 1..4 |-> All("absent")]}
  ELSE LET f1 == MinOf(E)  f2 == MaxOf(E) IN
       {[i \in 1..4 |-> IF i = f1 THEN k1 ELSE IF i = f2 THEN k2 ELSE All("absent")] :
          k1 \in [Settings -> KeyStates],
          k2 \in (IF f1 = f2 THEN {All("absent")} ELSE {All("absent"), All("present")})}
\* content class of every existing file (see ClientConf: "plain" | "empty" = 0 bytes | "blank" = only
\* whitespace and comment lines); the first existing file takes every class its keys allow
BodyFns(E, k) ==
  IF E = {} THEN {[i \in 1..4 |-> "plain"]}
  ELSE LET f1 == MinOf(E) IN
       {[i \in 1..4 |-> IF i = f1 THEN b ELSE "plain"] : b \in BodiesAllowed(k[f1])}
CfgV(E, k, b, e, l, d, v) == [n |-> 4, exist |-> E, key |-> k, body |-> b, env |-> e, loc |-> l, defx |-> d, val |-> v]
CfgB(E, k, b, e, l, d) == CfgV(E, k, b, e, l, d, "plain")
\* (the product is enumerated by TLC through the quantifiers of Init; building it as one set value first
\*  made TLC spend minutes normalising a set of 7*10^4 large records)
InitDiagonal == \E E \in Patterns : \E k \in KeyFns(E) : \E b \in BodyFns(E, k) : \E e \in [Settings -> BOOLEAN] :
                  \E lc \in LocClasses : \E dx \in DefLists :
                    x = CfgB(E, k, b, e, [s \in Stores |-> lc], [s \in Stores |-> dx])
InitCross == \E E \in {{}, {2}} : \E ks \in KeyStates : \E b \in BOOLEAN :
               \E l \in [Stores -> LocClasses] : \E d \in [Stores -> DefLists] :
                 x = CfgB(E, [i \in 1..4 |-> IF i \in E THEN All(ks) ELSE All("absent")], [i \in 1..4 |-> "plain"], All(b), l, d)

\* value alphabets other than plain, on a reduced product of sources
InitVal == \E E \in {{1}, {2, 3}} : \E k \in {q \in KeyFns(E) : q[MinOf(E)] \in {All("present"), All("absent")}} :
             \E e \in {All(TRUE), All(FALSE), [s \in Settings |-> s = "pib"]} :
               \E lc \in {"none", "absE", "relE", "absM"} : \E dx \in DefLists : \E v \in ValClasses \ {"plain"} :
                 x = CfgV(E, k, [i \in 1..4 |-> "plain"], e, [s \in Stores |-> lc], [s \in Stores |-> dx], v)
Plats == [new : BOOLEAN, old : BOOLEAN, sys : {"linux", "freebsd"}]

\* supported, unsupported, and near misses of the supported ones
Schemes == {"unix", "tcp", "tcp4", "tcp6", "udp", "udp4", "udp6", "ws", "foo", "http", "file", "",
            "tcp46", "tcp64", "tcp44", "udp46", "udp66", "tcp5", "udpx", "tcps", "xtcp", "unixx"}
Uris == {Uri(sc, a, p, "") : sc \in Schemes \ {"unix", ""}, a \in {"h", "127.0.0.1", "::1", "example.org"}, p \in {0, 1, 6363, 65535}}
        \cup {Uri("unix", "", 0, p) : p \in {"/p", "/run/nfd/nfd.sock"}}
        \cup {Uri("", "", 0, "")}

\* Mode = "conf" | "face" | "both" (one TLC run for the two domains)
Init == \/ Mode \in {"conf", "both"} /\ kind = "conf" /\ (InitDiagonal \/ InitCross \/ InitVal) /\ out = Resolve(x)
        \/ Mode \in {"conf", "both"} /\ kind = "plat" /\ x \in Plats /\ out = PlatOf(x)
        \/ Mode \in {"face", "both"} /\ kind = "face" /\ x \in Uris /\ out = FaceOf(x)
Next == UNCHANGED <<kind, x, out>>
Spec == Init /\ [][Next]_<<kind, x, out>>

I_Precedence  == kind = "conf" => P_EnvOverFileOverDefault(x, out)
I_FirstFile   == kind = "conf" => P_OnlyFirstExistingFile(x, out)
I_AsGiven     == kind = "conf" => P_ExistingUsedAsGiven(x, out)
I_NextToFile  == kind = "conf" => P_RelativeNextToFile(x, out)
I_FallBack    == kind = "conf" => P_MissingFallsBackToDefault(x, out)
I_Determined  == kind = "conf" => \A s \in Stores : out[s].where # {}
I_Content     == kind = "conf" => P_ContentClassIrrelevant(x, out)
I_Values      == kind = "conf" => (P_ValueAlphabetIrrelevant(x, out) /\ P_ForeignTpmRefused(x, out))
I_Plat        == kind = "plat" => /\ (x.sys = "linux" => out.cls = "Linux")
                                  /\ (x.sys = "freebsd" => out.cls = "err")
                                  /\ (out.cls = "Linux" => out.transport = IF x.old /\ ~x.new THEN "unix:///run/nfd.sock"
                                                                           ELSE "unix:///run/nfd/nfd.sock")
I_Face        == kind = "face" => P_Face(x, out)

\* vacuity: the situations the clauses talk about are in the product
Witnesses ==
  /\ TLCGet("distinct") > 0          \* (a POSTCONDITION may not be a constant-level formula)
  /\ (Mode \in {"conf", "both"}) =>
          \* environment and file both give a value; first file comments a key out that the second one has;
          \* relative location with a configuration file; missing location and missing default
          /\ \E E \in Patterns : \E k \in KeyFns(E) : E # {} /\ k[MinOf(E)]["pib"] = "present"
          /\ \E E \in Patterns : \E k \in KeyFns(E) : Cardinality(E) = 2 /\ k[MinOf(E)]["transport"] = "commented"
                                                         /\ k[MaxOf(E)]["transport"] = "present"
          \* the first existing file is empty (0 bytes) while a later existing file sets the keys
          /\ \E E \in Patterns : \E k \in KeyFns(E) : \E b \in BodyFns(E, k) :
                Cardinality(E) = 2 /\ b[MinOf(E)] = "empty" /\ k[MaxOf(E)]["transport"] = "present"
          /\ \E E \in Patterns : \E k \in KeyFns(E) : \E b \in BodyFns(E, k) : E # {} /\ b[MinOf(E)] = "blank"
          /\ "relE" \in LocClasses /\ "absM" \in LocClasses /\ <<FALSE>> \in DefLists /\ <<TRUE>> \in DefLists
  /\ (Mode \in {"face", "both"}) =>
          /\ \E u \in Uris : u.port = 0 /\ FaceOf(u).k = "udp"
          /\ \E u \in Uris : FaceOf(u).k = "err"
=============================================================================
