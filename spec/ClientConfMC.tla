---------------------------- MODULE ClientConfMC ----------------------------
(* C20 stages A and B: the full product of configuration sources as initial states, one state per
   configuration, `out` = what the reference resolves.  The invariants are the clauses of the
   statement; stage B materialises every state on disk / in os.environ and compares.

   Mode "conf":  per existence pattern of the 4 candidate files (none / only the k-th / two of them)
                 x every key state of the first existing file (3^3) x every content class those keys allow
                 (plain / 0 bytes / whitespace-and-comments only) x a second existing file that
                 has all keys or none x every subset of the environment variables (2^3)
                 x (location class, default-location existence) applied to both stores;
                 plus, for a reduced set of sources, every combination of location classes and
                 default-location existence of the two stores.
                 plus (InitEmpty) PRESENT-BUT-EMPTY sources: every assignment unset / set / empty of the three
                 variables x uniform key states of the first existing file (incl. "key=" with no value), and uniform
                 variable states x every present / empty-valued / absent assignment of its keys;
                 plus (InitKind) candidates that EXIST BUT ARE NOT READABLE FILES (directories): every file / directory
                 assignment of the existing candidates (1, 2 or 3 of them) with at least one directory.
   Mode "face":  transport URIs over all supported and some unsupported schemes, hosts, ports. *)
EXTENDS ClientConf
CONSTANTS Mode, Thorough
VARIABLES kind, x, out

MaxOf(S) == CHOOSE a \in S : \A b \in S : a >= b
Patterns == IF Thorough THEN {E \in SUBSET (1..4) : Cardinality(E) <= 2}
            ELSE {{}, {1}, {3}, {2, 4}}
DefLists == IF Thorough THEN {<<TRUE>>, <<FALSE>>, <<FALSE, TRUE>>} ELSE {<<TRUE>>, <<FALSE>>}
All(v) == [s \in Settings |-> v]
KeyFns(E) ==
  IF E = {} THEN {[i \in 1..4 |-> All("absent")]}
  ELSE LET f1 == MinOf(E)  f2 == MaxOf(E) IN
       {[i \in 1..4 |-> IF i = f1 THEN k1 ELSE IF i = f2 THEN k2 ELSE All("absent")] :
          k1 \in [Settings -> KeyStates \ {"emptyval"}],
          k2 \in (IF f1 = f2 THEN {All("absent")} ELSE {All("absent"), All("present")})}
\* content class of every existing file (see ClientConf: "plain" | "empty" = 0 bytes | "blank" = only
\* whitespace and comment lines); the first existing file takes every class its keys allow
BodyFns(E, k) ==
  IF E = {} THEN {[i \in 1..4 |-> "plain"]}
  ELSE LET f1 == MinOf(E) IN
       {[i \in 1..4 |-> IF i = f1 THEN b ELSE "plain"] : b \in BodiesAllowed(k[f1])}
AllFiles == [i \in 1..4 |-> "file"]
CfgK(E, kd, k, b, e, l, d, v) == [n |-> 4, exist |-> E, kind |-> kd, key |-> k, body |-> b, env |-> e, loc |-> l, defx |-> d, val |-> v]
CfgV(E, k, b, e, l, d, v) == CfgK(E, AllFiles, k, b, e, l, d, v)
CfgB(E, k, b, e, l, d) == CfgV(E, k, b, e, l, d, "plain")
\* (the product is enumerated by TLC through the quantifiers of Init; building it as one set value first
\*  made TLC spend minutes normalising a set of 7*10^4 large records)
InitDiagonal == \E E \in Patterns : \E k \in KeyFns(E) : \E b \in BodyFns(E, k) : \E e \in [Settings -> {"unset", "set"}] :
                  \E lc \in LocClasses : \E dx \in DefLists :
                    x = CfgB(E, k, b, e, [s \in Stores |-> lc], [s \in Stores |-> dx])
InitCross == \E E \in {{}, {2}} : \E ks \in KeyStates \ {"emptyval"} : \E b \in BOOLEAN :
               \E l \in [Stores -> LocClasses] : \E d \in [Stores -> DefLists] :
                 x = CfgB(E, [i \in 1..4 |-> IF i \in E THEN All(ks) ELSE All("absent")], [i \in 1..4 |-> "plain"],
                          All(IF b THEN "set" ELSE "unset"), l, d)

\* value alphabets other than plain, on a reduced product of sources
InitVal == \E E \in {{1}, {2, 3}} : \E k \in {q \in KeyFns(E) : q[MinOf(E)] \in {All("present"), All("absent")}} :
             \E e \in {All("set"), All("unset"), [s \in Settings |-> IF s = "pib" THEN "set" ELSE "unset"]} :
               \E lc \in {"none", "absE", "relE", "absM"} : \E dx \in DefLists : \E v \in ValClasses \ {"plain"} :
                 x = CfgV(E, k, [i \in 1..4 |-> "plain"], e, [s \in Stores |-> lc], [s \in Stores |-> dx], v)
\* present-but-empty sources (environment variable set to "", key written "key=")
EmptyPairs == {p \in ([Settings -> EnvStates] \X {All(kv) : kv \in KeyStates})
                      \cup ({All(ev) : ev \in EnvStates} \X [Settings -> {"present", "emptyval", "absent"}]) :
                 \E s \in Settings : p[1][s] = "empty" \/ p[2][s] = "emptyval"}
EmptyLocs == {"none", "absE", "relE", "absM"}
InitEmpty == \E E \in Patterns : \E p \in EmptyPairs : \E k2 \in {All("absent"), All("present")} :
               \E lc \in EmptyLocs : \E dx \in DefLists :
                 /\ (Cardinality(E) < 2 => k2 = All("absent"))
                 /\ (E = {} => p[2] = All("absent"))
                 /\ x = CfgB(E, [i \in 1..4 |-> IF E # {} /\ i = MinOf(E) THEN p[2]
                                                ELSE IF E # {} /\ i = MaxOf(E) THEN k2 ELSE All("absent")],
                          [i \in 1..4 |-> "plain"], p[1], [s \in Stores |-> lc], [s \in Stores |-> dx])

\* candidates that exist but are not readable files; the keys of a directory are meaningless (absent); a later regular
\* file sets every key (so that using it instead shows)
PatternsK == (Patterns \ {{}}) \cup {{1, 2}, {1, 2, 3}} \cup (IF Thorough THEN {{2, 3, 4}, {1, 3, 4}} ELSE {})
KindEnvs == {All("set"), All("unset"), All("empty"), [s \in Settings |-> IF s = "pib" THEN "set" ELSE "unset"]}
InitKind == \E E \in PatternsK : \E kd \in [E -> CandKinds] : \E k1 \in {"present", "absent", "commented"} :
              \E e \in KindEnvs : \E lc \in EmptyLocs : \E dx \in DefLists :
                /\ \E i \in E : kd[i] = "dir"
                /\ (kd[MinOf(E)] = "dir" => k1 = "absent")
                /\ x = CfgK(E, [i \in 1..4 |-> IF i \in E THEN kd[i] ELSE "file"],
                          [i \in 1..4 |-> IF i \in E /\ kd[i] = "file" THEN (IF i = MinOf(E) THEN All(k1) ELSE All("present"))
                                          ELSE All("absent")],
                          [i \in 1..4 |-> "plain"], e, [s \in Stores |-> lc], [s \in Stores |-> dx], "plain")
Plats == [new : BOOLEAN, old : BOOLEAN, sys : {"linux", "freebsd"}]

\* supported, unsupported, and near misses of the supported ones
Schemes == {"unix", "tcp", "tcp4", "tcp6", "udp", "udp4", "udp6", "ws", "foo", "http", "file", "",
            "tcp46", "tcp64", "tcp44", "udp46", "udp66", "tcp5", "udpx", "tcps", "xtcp", "unixx"}
Uris == {Uri(sc, a, p, "") : sc \in Schemes \ {"unix", ""}, a \in {"h", "127.0.0.1", "::1", "example.org"}, p \in {0, 1, 6363, 65535}}
        \cup {Uri("unix", "", 0, p) : p \in {"/p", "/run/nfd/nfd.sock"}}
        \cup {Uri("", "", 0, "")}

\* Mode = "conf" | "face" | "both" (one TLC run for the two domains)
Init == \/ Mode \in {"conf", "both"} /\ kind = "conf" /\ (InitDiagonal \/ InitCross \/ InitVal \/ InitEmpty \/ InitKind) /\ out = Resolve(x)
        \/ Mode \in {"conf", "both"} /\ kind = "plat" /\ x \in Plats /\ out = PlatOf(x)
        \/ Mode \in {"face", "both"} /\ kind = "face" /\ x \in Uris /\ out = FaceOf(x)
Next == UNCHANGED <<kind, x, out>>
Spec == Init /\ [][Next]_<<kind, x, out>>

Ok == kind = "conf" /\ out.err = "none"        \* a result was resolved (not refused)
I_Precedence  == Ok => P_EnvOverFileOverDefault(x, out)
I_FirstFile   == Ok => P_OnlyFirstExistingFile(x, out)
I_AsGiven     == Ok => P_ExistingUsedAsGiven(x, out)
I_NextToFile  == Ok => P_RelativeNextToFile(x, out)
I_FallBack    == Ok => P_MissingFallsBackToDefault(x, out)
I_Determined  == Ok => \A s \in Stores : out[s].where # {}
I_Content     == Ok => P_ContentClassIrrelevant(x, out)
I_Values      == Ok => (P_ValueAlphabetIrrelevant(x, out) /\ P_ForeignTpmRefused(x, out))
I_Empty       == Ok => P_EmptyRefusedNotReplaced(x, out)
I_Unreadable  == kind = "conf" => P_UnreadableRefused(x, out)
I_Plat        == kind = "plat" => /\ (x.sys = "linux" => out.cls = "Linux")
                                  /\ (x.sys = "freebsd" => out.cls = "err")
                                  /\ (out.cls = "Linux" => out.transport = IF x.old /\ ~x.new THEN "unix:///run/nfd.sock"
                                                                           ELSE "unix:///run/nfd/nfd.sock")
I_Face        == kind = "face" => P_Face(x, out)

\* vacuity: the situations the clauses talk about are in the product
Witnesses ==
  /\ TLCGet("distinct") > 0          \* (a POSTCONDITION may not be a constant-level formula)
  /\ (Mode \in {"conf", "both"}) =>
          \* environment and file both give a value; first file comments a key out that the second one has;
          \* relative location with a configuration file; missing location and missing default
          /\ \E E \in Patterns : \E k \in KeyFns(E) : E # {} /\ k[MinOf(E)]["pib"] = "present"
          /\ \E E \in Patterns : \E k \in KeyFns(E) : Cardinality(E) = 2 /\ k[MinOf(E)]["transport"] = "commented"
                                                         /\ k[MaxOf(E)]["transport"] = "present"
          \* the first existing file is empty (0 bytes) while a later existing file sets the keys
          /\ \E E \in Patterns : \E k \in KeyFns(E) : \E b \in BodyFns(E, k) :
                Cardinality(E) = 2 /\ b[MinOf(E)] = "empty" /\ k[MaxOf(E)]["transport"] = "present"
          /\ \E E \in Patterns : \E k \in KeyFns(E) : \E b \in BodyFns(E, k) : E # {} /\ b[MinOf(E)] = "blank"
          \* an empty override above a file value; an empty file value above nothing; both
          /\ \E p \in EmptyPairs : p[1]["transport"] = "empty" /\ p[2]["transport"] = "present"
          /\ \E p \in EmptyPairs : p[1]["pib"] = "unset" /\ p[2]["pib"] = "emptyval"
          /\ \E p \in EmptyPairs : p[1]["tpm"] = "empty" /\ p[2]["tpm"] = "emptyval"
          \* a directory first with a regular file after it; a regular file first with a directory after it
          /\ \E E \in PatternsK : Cardinality(E) >= 2
          /\ "relE" \in LocClasses /\ "absM" \in LocClasses /\ <<FALSE>> \in DefLists /\ <<TRUE>> \in DefLists
  /\ (Mode \in {"face", "both"}) =>
          /\ \E u \in Uris : u.port = 0 /\ FaceOf(u).k = "udp"
          /\ \E u \in Uris : FaceOf(u).k = "err"
=============================================================================
