---------------------------- MODULE ClientConfMC ----------------------------
(* C20 stages A and B: the full product of configuration sources as initial states, one state per
   configuration, `out` = what the reference resolves.  The invariants are the clauses of the
   statement; stage B materialises every state on disk / in os.environ and compares.

   Mode "conf":  per existence pattern of the 4 candidate files (none / only the k-th / two of them)
                 x every key state of the first existing file (3^3) x every content class those keys allow
                 (plain / 0 bytes / whitespace-and-comments only) x a second existing file that
                 has all keys or none x every subset of the environment variables (2^3)
                 x (location class, default-location existence) applied to both stores;
                 plus, for a reduced set of sources, every combination of location classes and
                 default-location existence of the two stores.
                 plus (InitEmpty) PRESENT-BUT-EMPTY sources: every assignment unset / set / empty of the three
                 variables x uniform key states of the first existing file (incl. "key=" with no value), and uniform
                 variable states x every present / empty-valued / absent assignment of its keys;
                 plus (InitKind) candidates that EXIST BUT ARE NOT READABLE FILES (directories): every file / directory
                 assignment of the existing candidates (1, 2 or 3 of them) with at least one directory.
                 plus (InitLinks / InitUnreadable / InitStoreObj) WHAT KIND OF FILE-SYSTEM OBJECT stands at each path: the first
                 existing candidate a regular file or a symbolic link to a file kept in another directory, its directory
                 real or reached through a link, a dangling link / a link loop at an earlier candidate path, x a relative
                 location that exists next to the candidate, next to the link's target, next to both, nowhere, next to
                 another candidate, in the working directory x every spelling ("./", "../", nested) - and absolute ones;
                 candidates that are links to directories / sockets; store locations (given and default) that are
                 directories, links to directories, regular files, and missing ones that are dangling links; the
                 working directory entered through a link.
   Mode "face":  transport URIs over all supported and some unsupported schemes, hosts, ports. *)
EXTENDS ClientConf
CONSTANTS Mode, Thorough
VARIABLES kind, x, out

MaxOf(S) == CHOOSE a \in S : \A b \in S : a >= b
Patterns == IF Thorough THEN {E \in SUBSET (1..4) : Cardinality(E) <= 2}
            ELSE {{}, {1}, {3}, {2, 4}}
DefLists == IF Thorough THEN {<<TRUE>>, <<FALSE>>, <<FALSE, TRUE>>} ELSE {<<TRUE>>, <<FALSE>>}
All(v) == [s \in Settings |-> v]
KeyFns(E) ==
  IF E = {} THEN {[i \in 1..4 |-> All("absent")]}
  ELSE LET f1 == MinOf(E)  f2 == MaxOf(E) IN
       {[i \in 1..4 |-> IF i = f1 THEN k1 ELSE IF i = f2 THEN k2 ELSE All("absent")] :
          k1 \in [Settings -> KeyStates \ {"emptyval"}],
          k2 \in (IF f1 = f2 THEN {All("absent")} ELSE {All("absent"), All("present")})}
\* content class of every existing file (see ClientConf: "plain" | "empty" = 0 bytes | "blank" = only
\* whitespace and comment lines); the first existing file takes every class its keys allow
BodyFns(E, k) ==
  IF E = {} THEN {[i \in 1..4 |-> "plain"]}
  ELSE LET f1 == MinOf(E) IN
       {[i \in 1..4 |-> IF i = f1 THEN b ELSE "plain"] : b \in BodiesAllowed(k[f1])}
AllFiles == [i \in 1..4 |-> "file"]
\* fso = the file-system-object fields (see ClientConf); PlainFso = every object the ordinary one
Fso(g, cd, w, so, sm, rl) == [ghost |-> g, cdir |-> cd, cwd |-> w, sobj |-> so, smiss |-> sm, rel |-> rl]
PlainFso == Fso([i \in 1..4 |-> "none"], [i \in 1..4 |-> "plain"], "plain", [s \in Stores |-> "dir"], [s \in Stores |-> "absent"],
                [s \in Stores |-> "std"])
CfgF(E, kd, k, b, e, l, d, v, o) == [n |-> 4, exist |-> E, kind |-> kd, key |-> k, body |-> b, env |-> e, loc |-> l, defx |-> d, val |-> v,
                                     ghost |-> o.ghost, cdir |-> o.cdir, cwd |-> o.cwd, sobj |-> o.sobj, smiss |-> o.smiss, rel |-> o.rel]
CfgK(E, kd, k, b, e, l, d, v) == CfgF(E, kd, k, b, e, l, d, v, PlainFso)
LocClassesBase == LocClasses \ {"relT", "relB"}      \* with regular files only, relT is relM and relB is relE
CfgV(E, k, b, e, l, d, v) == CfgK(E, AllFiles, k, b, e, l, d, v)
CfgB(E, k, b, e, l, d) == CfgV(E, k, b, e, l, d, "plain")
\* (the product is enumerated by TLC through the quantifiers of Init; building it as one set value first
\*  made TLC spend minutes normalising a set of 7*10^4 large records)
InitDiagonal == \E E \in Patterns : \E k \in KeyFns(E) : \E b \in BodyFns(E, k) : \E e \in [Settings -> {"unset", "set"}] :
                  \E lc \in LocClassesBase : \E dx \in DefLists :
                    x = CfgB(E, k, b, e, [s \in Stores |-> lc], [s \in Stores |-> dx])
InitCross == \E E \in {{}, {2}} : \E ks \in KeyStates \ {"emptyval"} : \E b \in BOOLEAN :
               \E l \in [Stores -> LocClassesBase] : \E d \in [Stores -> DefLists] :
                 x = CfgB(E, [i \in 1..4 |-> IF i \in E THEN All(ks) ELSE All("absent")], [i \in 1..4 |-> "plain"],
                          All(IF b THEN "set" ELSE "unset"), l, d)

\* value alphabets other than plain, on a reduced product of sources
InitVal == \E E \in {{1}, {2, 3}} : \E k \in {q \in KeyFns(E) : q[MinOf(E)] \in {All("present"), All("absent")}} :
             \E e \in {All("set"), All("unset"), [s \in Settings |-> IF s = "pib" THEN "set" ELSE "unset"]} :
               \E lc \in {"none", "absE", "relE", "absM"} : \E dx \in DefLists : \E v \in ValClasses \ {"plain"} :
                 x = CfgV(E, k, [i \in 1..4 |-> "plain"], e, [s \in Stores |-> lc], [s \in Stores |-> dx], v)
\* present-but-empty sources (environment variable set to "", key written "key=")
EmptyPairs == {p \in ([Settings -> EnvStates] \X {All(kv) : kv \in KeyStates})
                      \cup ({All(ev) : ev \in EnvStates} \X [Settings -> {"present", "emptyval", "absent"}]) :
                 \E s \in Settings : p[1][s] = "empty" \/ p[2][s] = "emptyval"}
EmptyLocs == {"none", "absE", "relE", "absM"}
InitEmpty == \E E \in Patterns : \E p \in EmptyPairs : \E k2 \in {All("absent"), All("present")} :
               \E lc \in EmptyLocs : \E dx \in DefLists :
                 /\ (Cardinality(E) < 2 => k2 = All("absent"))
                 /\ (E = {} => p[2] = All("absent"))
                 /\ x = CfgB(E, [i \in 1..4 |-> IF E # {} /\ i = MinOf(E) THEN p[2]
                                                ELSE IF E # {} /\ i = MaxOf(E) THEN k2 ELSE All("absent")],
                          [i \in 1..4 |-> "plain"], p[1], [s \in Stores |-> lc], [s \in Stores |-> dx])

\* candidates that exist but are not readable files; the keys of a directory are meaningless (absent); a later regular
\* file sets every key (so that using it instead shows)
PatternsK == (Patterns \ {{}}) \cup {{1, 2}, {1, 2, 3}} \cup (IF Thorough THEN {{2, 3, 4}, {1, 3, 4}} ELSE {})
KindEnvs == {All("set"), All("unset"), All("empty"), [s \in Settings |-> IF s = "pib" THEN "set" ELSE "unset"]}
InitKind == \E E \in PatternsK : \E kd \in [E -> {"file", "dir"}] : \E k1 \in {"present", "absent", "commented"} :
              \E e \in KindEnvs : \E lc \in EmptyLocs : \E dx \in DefLists :
                /\ \E i \in E : kd[i] = "dir"
                /\ (kd[MinOf(E)] = "dir" => k1 = "absent")
                /\ x = CfgK(E, [i \in 1..4 |-> IF i \in E THEN kd[i] ELSE "file"],
                          [i \in 1..4 |-> IF i \in E /\ kd[i] = "file" THEN (IF i = MinOf(E) THEN All(k1) ELSE All("present"))
                                          ELSE All("absent")],
                          [i \in 1..4 |-> "plain"], e, [s \in Stores |-> lc], [s \in Stores |-> dx], "plain")
\* ---- what kind of file-system object stands at each path
\* who gives the store values: the first existing file, the environment (file silent), the environment over the file
FsoSources == {<<All("present"), All("unset")>>, <<All("absent"), All("set")>>} \cup
              (IF Thorough THEN {<<All("present"), All("set")>>, <<All("present"), [s \in Settings |-> IF s = "pib" THEN "set" ELSE "unset"]>>} ELSE {})
\* (first existing candidate f, existing set, ghost of the candidates before f)
FsoPatterns == {<<{1}, "none">>, <<{2, 4}, "none">>, <<{2, 4}, "dangling">>, <<{2, 4}, "loop">>}
               \cup (IF Thorough THEN {<<{3}, "dangling">>, <<{3}, "loop">>, <<{2, 3}, "dangling">>} ELSE {})
\* location class x spelling: the spelling only exists for relative locations
LocShapes == {<<lc, "std">> : lc \in {"none", "absE", "absM"}} \cup (RelClasses \X RelShapes)
KeysF(E, k1) == [i \in 1..4 |-> IF i = MinOf(E) THEN k1 ELSE IF i \in E THEN All("present") ELSE All("absent")]
GhostF(E, g) == [i \in 1..4 |-> IF i < MinOf(E) THEN g ELSE "none"]
InitLinks == \E p \in FsoPatterns : \E k1 \in {"file", "link"} : \E k2 \in (IF Thorough THEN {"file", "link"} ELSE {"file"}) :
             \E cd \in {"plain", "link"} : \E src \in FsoSources : \E ls \in LocShapes : \E dx \in DefLists :
               LET E == p[1]  f == MinOf(E) IN
               x = CfgF(E, [i \in 1..4 |-> IF i = f THEN k1 ELSE k2], KeysF(E, src[1]), [i \in 1..4 |-> "plain"], src[2],
                        [s \in Stores |-> ls[1]], [s \in Stores |-> dx], "plain",
                        Fso(GhostF(E, p[2]), [i \in 1..4 |-> IF i = f THEN cd ELSE "plain"], "plain",
                            [s \in Stores |-> "dir"], [s \in Stores |-> "absent"], [s \in Stores |-> ls[2]]))
\* every object that exists and cannot be read, directly or behind a ghost, whatever comes after it
InitUnreadable == \E p \in FsoPatterns : \E k1 \in CandKinds \ ReadableKinds : \E k2 \in {"file", "link"} : \E cd \in {"plain", "link"} :
                  \E e \in {All("unset"), All("set")} : \E lc \in {"absE", "relE"} : \E dx \in DefLists :
                    LET E == p[1]  f == MinOf(E) IN
                    x = CfgF(E, [i \in 1..4 |-> IF i = f THEN k1 ELSE k2], KeysF(E, All("absent")), [i \in 1..4 |-> "plain"], e,
                             [s \in Stores |-> lc], [s \in Stores |-> dx], "plain",
                             Fso(GhostF(E, p[2]), [i \in 1..4 |-> IF i = f THEN cd ELSE "plain"], "plain",
                                 [s \in Stores |-> "dir"], [s \in Stores |-> "absent"], [s \in Stores |-> "std"]))
\* what the store locations are (given ones and default ones), and how the working directory was entered
StoreObjLocs == {"none", "absE", "absM", "relE", "relM", "relCwd", "relB", "relT"}
InitStoreObj == \E E \in {{}, {1}} : \E k1 \in {"file", "link"} : \E src \in FsoSources : \E lc \in StoreObjLocs :
                \E so \in (IF Thorough THEN [Stores -> StoreObjs] ELSE {[s \in Stores |-> o] : o \in StoreObjs}) :
                \E sm \in (IF Thorough THEN [Stores -> {"absent", "dangling"}] ELSE {[s \in Stores |-> m] : m \in {"absent", "dangling"}}) :
                \E dx \in DefLists : \E w \in {"plain", "link"} : \E rl \in {"std", "dotdot"} :
                  /\ (E = {} => (k1 = "file" /\ src[1] = All("absent")))
                  /\ (lc \notin RelClasses => rl = "std")
                  /\ (so = [s \in Stores |-> "dir"] /\ sm = [s \in Stores |-> "absent"] => w = "link")      \* (the rest is in InitLinks)
                  /\ x = CfgF(E, [i \in 1..4 |-> IF i \in E THEN k1 ELSE "file"],
                             [i \in 1..4 |-> IF i \in E THEN src[1] ELSE All("absent")], [i \in 1..4 |-> "plain"], src[2],
                             [s \in Stores |-> lc], [s \in Stores |-> dx], "plain",
                             Fso([i \in 1..4 |-> "none"], [i \in 1..4 |-> "plain"], w, so, sm, [s \in Stores |-> rl]))
InitFso == InitLinks \/ InitUnreadable \/ InitStoreObj
Plats == [new : BOOLEAN, old : BOOLEAN, sys : {"linux", "freebsd"}]

\* supported, unsupported, and near misses of the supported ones
Schemes == {"unix", "tcp", "tcp4", "tcp6", "udp", "udp4", "udp6", "ws", "foo", "http", "file", "",
            "tcp46", "tcp64", "tcp44", "udp46", "udp66", "tcp5", "udpx", "tcps", "xtcp", "unixx"}
Uris == {Uri(sc, a, p, "") : sc \in Schemes \ {"unix", ""}, a \in {"h", "127.0.0.1", "::1", "example.org"}, p \in {0, 1, 6363, 65535}}
        \cup {Uri("unix", "", 0, p) : p \in {"/p", "/run/nfd/nfd.sock"}}
        \cup {Uri("", "", 0, "")}

\* Mode = "conf" | "face" | "both" (one TLC run for the two domains)
Init == \/ Mode \in {"conf", "both"} /\ kind = "conf" /\ (InitDiagonal \/ InitCross \/ InitVal \/ InitEmpty \/ InitKind \/ InitFso) /\ out = Resolve(x)
        \/ Mode \in {"conf", "both"} /\ kind = "plat" /\ x \in Plats /\ out = PlatOf(x)
        \/ Mode \in {"face", "both"} /\ kind = "face" /\ x \in Uris /\ out = FaceOf(x)
Next == UNCHANGED <<kind, x, out>>
Spec == Init /\ [][Next]_<<kind, x, out>>

Ok == kind = "conf" /\ out.err = "none"        \* a result was resolved (not refused)
I_Precedence  == Ok => P_EnvOverFileOverDefault(x, out)
I_FirstFile   == Ok => P_OnlyFirstExistingFile(x, out)
I_AsGiven     == Ok => P_ExistingUsedAsGiven(x, out)
I_NextToFile  == Ok => P_RelativeNextToFile(x, out)
I_FallBack    == Ok => P_MissingFallsBackToDefault(x, out)
I_Determined  == Ok => \A s \in Stores : out[s].where # {}
I_Content     == Ok => P_ContentClassIrrelevant(x, out)
I_Values      == Ok => (P_ValueAlphabetIrrelevant(x, out) /\ P_ForeignTpmRefused(x, out))
I_Empty       == Ok => P_EmptyRefusedNotReplaced(x, out)
I_Unreadable  == kind = "conf" => P_UnreadableRefused(x, out)
I_Objects     == kind = "conf" => P_ObjectKindIrrelevant(x, out)
I_Plat        == kind = "plat" => /\ (x.sys = "linux" => out.cls = "Linux")
                                  /\ (x.sys = "freebsd" => out.cls = "err")
                                  /\ (out.cls = "Linux" => out.transport = IF x.old /\ ~x.new THEN "unix:///run/nfd.sock"
                                                                           ELSE "unix:///run/nfd/nfd.sock")
I_Face        == kind = "face" => P_Face(x, out)

\* vacuity: the situations the clauses talk about are in the product
Witnesses ==
  /\ TLCGet("distinct") > 0          \* (a POSTCONDITION may not be a constant-level formula)
  /\ (Mode \in {"conf", "both"}) =>
          \* environment and file both give a value; first file comments a key out that the second one has;
          \* relative location with a configuration file; missing location and missing default
          /\ \E E \in Patterns : \E k \in KeyFns(E) : E # {} /\ k[MinOf(E)]["pib"] = "present"
          /\ \E E \in Patterns : \E k \in KeyFns(E) : Cardinality(E) = 2 /\ k[MinOf(E)]["transport"] = "commented"
                                                         /\ k[MaxOf(E)]["transport"] = "present"
          \* the first existing file is empty (0 bytes) while a later existing file sets the keys
          /\ \E E \in Patterns : \E k \in KeyFns(E) : \E b \in BodyFns(E, k) :
                Cardinality(E) = 2 /\ b[MinOf(E)] = "empty" /\ k[MaxOf(E)]["transport"] = "present"
          /\ \E E \in Patterns : \E k \in KeyFns(E) : \E b \in BodyFns(E, k) : E # {} /\ b[MinOf(E)] = "blank"
          \* an empty override above a file value; an empty file value above nothing; both
          /\ \E p \in EmptyPairs : p[1]["transport"] = "empty" /\ p[2]["transport"] = "present"
          /\ \E p \in EmptyPairs : p[1]["pib"] = "unset" /\ p[2]["pib"] = "emptyval"
          /\ \E p \in EmptyPairs : p[1]["tpm"] = "empty" /\ p[2]["tpm"] = "emptyval"
          \* a directory first with a regular file after it; a regular file first with a directory after it
          /\ \E E \in PatternsK : Cardinality(E) >= 2
          \* the first existing candidate is a link to a file elsewhere and a relative location exists next to the link only /
          \* next to the target only / next to both; the same behind a dangling candidate; a candidate directory behind a link
          /\ \A lc \in {"relE", "relT", "relB"} : \E ls \in LocShapes : ls[1] = lc /\ ls[2] = "dotdot"
          /\ \E p \in FsoPatterns : p[2] = "dangling" /\ Cardinality(p[1]) = 2
          /\ \E src \in FsoSources : src[1] = All("absent") /\ src[2] = All("set")
          /\ {"link", "file"} \subseteq StoreObjs /\ {"linkdir", "sock"} \subseteq CandKinds \ ReadableKinds
          /\ "relE" \in LocClasses /\ "absM" \in LocClasses /\ <<FALSE>> \in DefLists /\ <<TRUE>> \in DefLists
  /\ (Mode \in {"face", "both"}) =>
          /\ \E u \in Uris : u.port = 0 /\ FaceOf(u).k = "udp"
          /\ \E u \in Uris : FaceOf(u).k = "err"
=============================================================================
