--------------------------- MODULE NdnPacketsCertParse ---------------------------
(* C16, clause "Parsing the certificate returns those same fields": a parse result is a VALUE handed to
   the caller, and callers edit what they are handed (del cert.name[-2:] to get the key name in place,
   cert.name.append(digest), new NotAfter / key locator / content while preparing a renewal).  The wire is
   not touched by that, so the next parse of the same, unchanged wire - through any buffer that holds those
   bytes, by the same or another caller - must again return the fields as issued, and a result somebody
   holds must change only by what its holder does to it.  So the clause is about HISTORIES of parses and
   edits over a few certificates, not about one parse:

     Parse(c, buf, via)  certificate c's wire, presented as buffer kind buf, is parsed with function via
                         (parse_certificate, parse_data); the caller keeps the result as handle #Len(handles)
     Edit(h, f, op)      the holder of result h edits its field f in place (op: list operation on a name,
                         assignment to a nested field, dropping an optional sub-object)

   A field's value is abstract: Issued (= 0, what the issuing function put into the wire) or the serial
   number of the step whose edit produced it (the executor keeps serial -> concrete bytes).
   objs     the result objects the parser has produced: [c, via, at (step of creation), val: field -> value]
   handles  what the callers hold: handle -> object.  The reference makes one object per parse.
            Dev = "memo" models the deviation "remember the result per wire and hand the same object to every
            caller"; TLC must then refute ParseReturnsIssued and Independent (checked by the harness as the
            sensitivity witness of this module).
   last     the step just taken (for the action properties)                                            *)
EXTENDS Integers, Sequences, FiniteSets, TLC
CONSTANTS NCert, MaxSteps, MaxHandles, Bufs, Dev

VARIABLES objs, handles, steps, last
vars == <<objs, handles, steps, last>>

Parsers == {"parse_certificate", "parse_data"}
AllBufs == {"returned",      \* the very buffer the issuing function returned
            "bytes",         \* one bytes object, the same one at every parse
            "copy",          \* a new bytes object with the same content at every parse
            "bytearray",     \* a new bytearray
            "memoryview"}    \* a memoryview of the one bytes object
ASSUME Bufs \subseteq AllBufs /\ Dev \in {"none", "memo"}

\* what the statement names, as far as the function's result carries it (parse_data returns
\* (name, meta_info, content, signature pointers); its content is a read-only view, not a field one assigns)
CertFields == {"name", "content", "ctype", "nb", "na", "kl", "sig"}
DataFields == {"name", "ctype", "kl", "sig"}
FieldsOf(via) == IF via = "parse_certificate" THEN CertFields ELSE DataFields
OpsOf(via, f) ==
  CASE f = "name"  -> {"truncate", "append", "replace"} \cup (IF via = "parse_certificate" THEN {"assign"} ELSE {})
    [] f = "kl"    -> {"truncate", "append", "assign", "drop"}
    [] f = "ctype" -> {"assign"} \cup (IF via = "parse_certificate" THEN {"drop"} ELSE {})
    [] OTHER       -> {"assign"}

Issued == 0
Fresh(c, via) == [c |-> c, via |-> via, at |-> steps + 1, val |-> [f \in FieldsOf(via) |-> Issued]]
Init == objs = <<>> /\ handles = <<>> /\ steps = 0 /\ last = [a |-> "none", h |-> 0]

Earlier(c, via) == {o \in 1..Len(objs) : objs[o].c = c /\ objs[o].via = via}

Parse(c, buf, via) ==
  /\ steps < MaxSteps /\ Len(handles) < MaxHandles
  /\ c \in 1..NCert /\ buf \in Bufs /\ via \in Parsers
  /\ (IF Dev = "memo" /\ Earlier(c, via) # {}
      THEN objs' = objs /\ handles' = Append(handles, CHOOSE o \in Earlier(c, via) : TRUE)
      ELSE objs' = Append(objs, Fresh(c, via)) /\ handles' = Append(handles, Len(objs) + 1))
  /\ steps' = steps + 1 /\ last' = [a |-> "Parse", h |-> Len(handles) + 1]

Edit(h, f, op) ==
  /\ steps < MaxSteps /\ h \in 1..Len(handles)
  /\ f \in FieldsOf(objs[handles[h]].via) /\ op \in OpsOf(objs[handles[h]].via, f)
  /\ objs' = [objs EXCEPT ![handles[h]].val[f] = steps + 1]
  /\ steps' = steps + 1 /\ last' = [a |-> "Edit", h |-> h] /\ UNCHANGED handles

Next == (\E c \in 1..NCert, buf \in Bufs, via \in Parsers : Parse(c, buf, via))
        \/ (\E h \in 1..MaxHandles, f \in CertFields, op \in {"truncate", "append", "replace", "assign", "drop"} : Edit(h, f, op))
Spec == Init /\ [][Next]_vars

\* what the holder of h reads now / after the step
View(h)  == objs[handles[h]].val
ViewN(h) == objs'[handles'[h]].val

TypeOK == /\ steps \in 0..MaxSteps /\ Len(handles) <= MaxHandles /\ Len(objs) <= Len(handles)
          /\ \A h \in 1..Len(handles) : handles[h] \in 1..Len(objs)
          /\ \A o \in 1..Len(objs) : objs[o].c \in 1..NCert /\ \A f \in DOMAIN objs[o].val : objs[o].val[f] \in 0..MaxSteps
\* every parse returns the fields as issued, whatever was done to earlier results ...
ParseReturnsIssued == [][last'.a = "Parse" /\ steps' = steps + 1 => \A f \in DOMAIN ViewN(last'.h) : ViewN(last'.h)[f] = Issued]_vars
\* ... and a result somebody holds changes only by what its holder does to it
Independent == [][\A h \in 1..Len(handles) : ViewN(h) # View(h) => last'.a = "Edit" /\ last'.h = h]_vars
\* vacuity witnesses (must be violated): a wire is parsed again after a result of it was edited; two results of one
\* wire are held while one of them is edited; results of two certificates are held at once
W_ReparseAfterEdit == ~(\E a, b \in 1..Len(objs) : a # b /\ objs[a].c = objs[b].c /\ objs[a].via = objs[b].via
                          /\ \E f \in DOMAIN objs[a].val : objs[a].val[f] # Issued /\ objs[a].val[f] < objs[b].at)
W_EditWhileTwoHeld == ~(\E a, b \in 1..Len(objs) : a # b /\ objs[a].c = objs[b].c /\ objs[a].via = objs[b].via
                          /\ \E f \in DOMAIN objs[a].val : objs[a].val[f] > objs[b].at)
W_TwoCerts == ~(\E a, b \in 1..Len(objs) : objs[a].c # objs[b].c)
\* (one behaviour that passes through all three situations: 5 steps, 3 results held)
W_All == W_ReparseAfterEdit \/ W_EditWhileTwoHeld \/ W_TwoCerts
=============================================================================
