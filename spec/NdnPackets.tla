------------------------------ MODULE NdnPackets ------------------------------
(* Layout algebra of NDN Interest / Data / Certificate packets (packet format 0.3) as an
   executable reference for C01, C02 and C16.

   Bytes are NOT modelled: a packet is an element tree with exact sizes.  Content equality,
   SHA-256 and signatures are compared by the harness on the byte ranges this module computes.

   cfg (abstract packet configuration, also the JSON shape used by the harness; no nulls):
     kind    "interest" | "data" | "cert"
     name    <<[t, l], ...>>          components as given by the caller: type number, value length
     cbp mbf nonce hop  BOOLEAN       CanBePrefix, MustBeFresh, Nonce (4 bytes), HopLimit (1 byte)
     life    0 | 1 | 2 | 4 | 8        InterestLifetime absent / width of its NonNegativeInteger
     fh      <<name, ...>>            ForwardingHint names (absent when empty)
     app     -1 | n                   ApplicationParameters absent / value length
     meta    [p, ct, fp, fbi]         MetaInfo present?, ContentType / FreshnessPeriod widths (0 absent),
                                      FinalBlockId value length (-1 absent)
     content -1 | n                   Content absent / value length
     sg      [kind, r, a, st, haskl, kl, nonce, time, seq]
                                      signer model: kind ("none" = unsigned), r = bytes reserved by
                                      get_signature_value_size, a = bytes actually written,
                                      st = SignatureType present, KeyLocator name, widths of
                                      SignatureNonce / SignatureTime / SignatureSeqNum (0 absent)
     vp      BOOLEAN                  certificate ValidityPeriod (two 15-byte instants) present
     rep     [name, fh, kl, fbi, pay] (C01/C02 configurations only) the Python representation in which the caller
                                      hands over each name-valued / octet-string parameter: see "representations"

   element  [t, len, leaf, kids]      len = exact value length; Size = |T| + |L| + len
   layout   Flat(tree): pre-order list of [d, t, off, hdr, len] with absolute byte offsets - the
            projection the harness computes from a wire with its strict TLV reader.            *)
EXTENDS Integers, Sequences, FiniteSets, TLC

\* ---------------------------------------------------------------- TLV numbers
\* 1 / 3 / 5 / 9 bytes.  The 9-byte form starts at 2^32, beyond TLC's 32-bit integers and
\* beyond any packet in scope (<= 70 000 byte payloads), so it is stated but never taken.
Max32 == 2147483647
NumSize(n) == IF n <= 252 THEN 1 ELSE IF n <= 65535 THEN 3 ELSE IF n <= Max32 THEN 5 ELSE 9

\* type numbers
TInterest == 5   TData == 6   TName == 7
TCanBePrefix == 33   TMustBeFresh == 18   TFwdHint == 30   TNonce == 10   TLifetime == 12
THopLimit == 34   TAppParams == 36   TISigInfo == 44   TISigValue == 46
TMetaInfo == 20   TContent == 21   TSigInfo == 22   TSigValue == 23
TContentType == 24   TFreshness == 25   TFinalBlock == 26
TSigType == 27   TKeyLocator == 28   TSigNonce == 38   TSigTime == 40   TSigSeq == 42
TValidity == 253   TNotBefore == 254   TNotAfter == 255
TParamsDigest == 2   TImplicitDigest == 1
InterestOrder == <<7, 33, 18, 30, 10, 12, 34, 36, 44, 46>>
DataOrder == <<7, 20, 21, 22, 23>>

\* ---------------------------------------------------------------- elements
Leaf(t, n) == [t |-> t, len |-> n, leaf |-> TRUE, kids |-> <<>>]
Hdr(e) == NumSize(e.t) + NumSize(e.len)
Size(e) == Hdr(e) + e.len
RECURSIVE SumSize(_)
SumSize(ks) == IF Len(ks) = 0 THEN 0 ELSE Size(Head(ks)) + SumSize(Tail(ks))
Node(t, ks) == [t |-> t, len |-> SumSize(ks), leaf |-> FALSE, kids |-> ks]
Opt(b, e) == IF b THEN <<e>> ELSE <<>>

RECURSIVE MapComp(_)
MapComp(cs) == IF Len(cs) = 0 THEN <<>> ELSE <<Leaf(Head(cs).t, Head(cs).l)>> \o MapComp(Tail(cs))
NameEl(cs) == Node(TName, MapComp(cs))
RECURSIVE MapName(_)
MapName(ns) == IF Len(ns) = 0 THEN <<>> ELSE <<NameEl(Head(ns))>> \o MapName(Tail(ns))

\* pre-order layout with absolute offsets
RECURSIVE FlatE(_, _, _), FlatK(_, _, _)
FlatE(e, off, d) == <<[d |-> d, t |-> e.t, off |-> off, hdr |-> Hdr(e), len |-> e.len]>>
                    \o (IF e.leaf THEN <<>> ELSE FlatK(e.kids, off + Hdr(e), d + 1))
FlatK(ks, off, d) == IF Len(ks) = 0 THEN <<>>
                     ELSE FlatE(Head(ks), off, d) \o FlatK(Tail(ks), off + Size(Head(ks)), d)
Flat(e) == FlatE(e, 0, 0)

\* offsets of a sequence of sibling elements starting at base
RECURSIVE Offs(_, _)
Offs(ks, base) == IF Len(ks) = 0 THEN <<>> ELSE <<base>> \o Offs(Tail(ks), base + Size(Head(ks)))
KidOffs(e, at) == Offs(e.kids, at + Hdr(e))

\* ---------------------------------------------------------------- configuration predicates
Signed(c) == c.sg.kind # "none"
IsInterest(c) == c.kind = "interest"
PdIdx(cs) == { i \in 1..Len(cs) : cs[i].t = TParamsDigest }
NeedDigest(c) == IsInterest(c) /\ (c.app >= 0 \/ Signed(c))
\* make_interest appends a ParametersSha256Digest component unless the caller's name already has one
FinalName(c) == IF NeedDigest(c) /\ PdIdx(c.name) = {} THEN Append(c.name, [t |-> TParamsDigest, l |-> 32])
                ELSE c.name
\* a signed Interest without parameters gets empty ApplicationParameters
AppLen(c) == IF c.app >= 0 THEN c.app ELSE 0

\* documented refusals (an exception instead of a packet):
\*  - a params-digest component in the name of an Interest that has no parameters, or two of them
\*    (InterestNameField: ValueError "unnecessary ParametersSha256DigestComponent")
\*  - a signature shorter than the reserved space when the reserved length needs a 3-byte L
\*    (SignatureValueField.calculate_signature: ValueError "Long signature with flexible length")
\*  - a caller-supplied params-digest placeholder whose value is not 32 bytes: no Interest with that name can be
\*    well-formed with a correct digest, so the only acceptable outcome is a refusal
BadPd(c) == \E i \in PdIdx(c.name) : c.name[i].l # 32
RefusesName(c) == IsInterest(c) /\ ((~NeedDigest(c) /\ PdIdx(c.name) # {}) \/ Cardinality(PdIdx(c.name)) > 1 \/ BadPd(c))
RefusesShrink(c) == Signed(c) /\ c.sg.a < c.sg.r /\ c.sg.r >= 253
Refuses(c) == RefusesName(c) \/ RefusesShrink(c)

\* ---------------------------------------------------------------- representations of the parameters
(* Every NAME-VALUED parameter of make_interest / make_data - the packet name, each ForwardingHint delegation, the
   KeyLocator name a signer was constructed with - is a NonStrictName (Name.normalize, tlv_model.NameField):
     box "uri"                         one URI string
     box "wire" "wirebuf" "wireview"   the encoded Name element as bytes / bytearray / memoryview
     box "list" "tuple" "iter"         a list / a tuple / a one-shot iterator of components, each component given as
                                       item "bytes" (encoded), "views" (memoryview of a bytearray), "strs" (the URI text of
                                       the component) or "mixed" (odd positions text, even positions encoded)
   and denotes the same sequence of components in every one of them, WHATEVER THE NUMBER OF COMPONENTS: the type of the
   container and the count of its items carry no meaning.  In particular a tuple of exactly two components is a name of two
   components - not a (preference, name) delegation of the 0.2 packet format - and an empty tuple is the empty name.
   The octet-string parameters (FinalBlockId, Content, ApplicationParameters) are BinaryStr: bytes / bytearray / memoryview.
     cfg.rep = [name |-> form, fh |-> <<form, ...>>, kl |-> form, fbi |-> bin, pay |-> bin]
     form    = [box, item] (item "none" for the boxes without items);  AnyForm / "any": not fixed by the configuration - the
               executor rotates through every form, so that each configuration is sooner or later built from each
     delegation i is given in form rep.fh[i]; AnyForm beyond Len(rep.fh)
   Arg(form, comps) is the argument value as far as the library can tell representations apart (Python type of the container
   and of every item); Denotes is the reference for Name.normalize on it.  Bytes are not modelled: that the URI text / the wire
   encoding of a component reads back as that component is C09's / C08's subject.                                       *)
AnyForm == [box |-> "any", item |-> "any"]
SeqBoxes == {"list", "tuple", "iter"}
FlatBoxes == {"uri", "wire", "wirebuf", "wireview"}
ItemKinds == {"bytes", "views", "strs", "mixed"}
NameForms == { [box |-> b, item |-> i] : b \in SeqBoxes, i \in ItemKinds } \cup { [box |-> b, item |-> "none"] : b \in FlatBoxes }
BinForms == {"bytes", "bytearray", "memoryview"}
Pinned(f) == f # AnyForm
FormAt(fs, i) == IF i <= Len(fs) THEN fs[i] ELSE AnyForm

ItemPy(item, i) == IF item = "bytes" THEN "bytes" ELSE IF item = "views" THEN "memoryview" ELSE IF item = "strs" THEN "str"
                   ELSE IF i % 2 = 1 THEN "str" ELSE "bytes"
FlatPy(box) == IF box = "uri" THEN "str" ELSE IF box = "wire" THEN "bytes" ELSE IF box = "wirebuf" THEN "bytearray" ELSE "memoryview"
Arg(f, cs) == IF f.box \in SeqBoxes
              THEN [py |-> f.box, items |-> [i \in 1..Len(cs) |-> [py |-> ItemPy(f.item, i), c |-> cs[i]]], whole |-> <<>>]
              ELSE [py |-> FlatPy(f.box), items |-> <<>>, whole |-> cs]
\* Name.normalize: a str is parsed as a URI, a binary string is decoded as a Name element, anything else is iterated and every
\* item taken as one component (a str item parsed as the URI text of a component, a binary item as its encoding)
Denotes(a) == IF a.py \in {"str", "bytes", "bytearray", "memoryview"} THEN a.whole
              ELSE [i \in 1..Len(a.items) |-> a.items[i].c]
Given(f, cs) == IF Pinned(f) THEN Denotes(Arg(f, cs)) ELSE cs
RepOK(c) ==
  /\ c.rep.name \in NameForms \cup {AnyForm} /\ c.rep.kl \in NameForms \cup {AnyForm}
  /\ Len(c.rep.fh) <= Len(c.fh) /\ \A i \in 1..Len(c.rep.fh) : c.rep.fh[i] \in NameForms \cup {AnyForm}
  /\ c.rep.fbi \in BinForms \cup {"any"} /\ c.rep.pay \in BinForms \cup {"any"}

\* ---------------------------------------------------------------- expected trees
SigInfoKids(c) ==
  LET s == c.sg IN
     Opt(s.st, Leaf(TSigType, 1))
  \o Opt(s.haskl, Node(TKeyLocator, <<NameEl(s.kl)>>))
  \o Opt(s.nonce > 0, Leaf(TSigNonce, s.nonce))
  \o Opt(s.time > 0, Leaf(TSigTime, s.time))
  \o Opt(s.seq > 0, Leaf(TSigSeq, s.seq))
  \o Opt(c.vp, Node(TValidity, <<Leaf(TNotBefore, 15), Leaf(TNotAfter, 15)>>))

P(role, e) == [role |-> role, e |-> e]
OptP(b, role, e) == IF b THEN <<P(role, e)>> ELSE <<>>

\* s = length of the SignatureValue (the reserved length in pass one, the actual one in the end)
InterestParts(c, s) ==
     <<P("name", NameEl(FinalName(c)))>>
  \o OptP(c.cbp, "pre", Leaf(TCanBePrefix, 0))
  \o OptP(c.mbf, "pre", Leaf(TMustBeFresh, 0))
  \o OptP(Len(c.fh) > 0, "pre", Node(TFwdHint, MapName(c.fh)))
  \o OptP(c.nonce, "pre", Leaf(TNonce, 4))
  \o OptP(c.life > 0, "pre", Leaf(TLifetime, c.life))
  \o OptP(c.hop, "pre", Leaf(THopLimit, 1))
  \o OptP(NeedDigest(c), "app", Leaf(TAppParams, AppLen(c)))
  \o OptP(Signed(c), "sigInfo", Node(TISigInfo, SigInfoKids(c)))
  \o OptP(Signed(c), "sigValue", Leaf(TISigValue, s))

MetaKids(m) == Opt(m.ct > 0, Leaf(TContentType, m.ct)) \o Opt(m.fp > 0, Leaf(TFreshness, m.fp))
               \o Opt(m.fbi >= 0, Leaf(TFinalBlock, m.fbi))

DataParts(c, s) ==
     <<P("name", NameEl(c.name))>>
  \o OptP(c.meta.p, "cov", Node(TMetaInfo, MetaKids(c.meta)))
  \o OptP(c.content >= 0, "cov", Leaf(TContent, c.content))
  \o OptP(Signed(c), "sigInfo", Node(TSigInfo, SigInfoKids(c)))
  \o OptP(Signed(c), "sigValue", Leaf(TSigValue, s))

Parts(c, s) == IF IsInterest(c) THEN InterestParts(c, s) ELSE DataParts(c, s)
RECURSIVE Els(_), Rls(_)
Els(ps) == IF Len(ps) = 0 THEN <<>> ELSE <<Head(ps).e>> \o Els(Tail(ps))
Rls(ps) == IF Len(ps) = 0 THEN <<>> ELSE <<Head(ps).role>> \o Rls(Tail(ps))
OuterT(c) == IF IsInterest(c) THEN TInterest ELSE TData
Tree(c, s) == Node(OuterT(c), Els(Parts(c, s)))
Roles(c) == Rls(Parts(c, 0))

Reserved(c) == Tree(c, c.sg.r)      \* the buffer after the two encoding passes, before signing
Final(c) == Tree(c, c.sg.a)         \* what must be emitted: every declared length exact

\* What the implementation does after signing (tlv_model.calculate_signature, tlv_var.shrink_length,
\* security_v2.new_cert): overwrite the one-byte L of SignatureValue in place, subtract the unused
\* bytes from the outer length, rewrite the outer L (possibly narrower, then the packet starts
\* `start` bytes later) and cut the tail.
OpShrink(c) ==
  LET R == Reserved(c)
      k == Len(R.kids)
      d == c.sg.r - c.sg.a
      newLen == R.len - d
  IN [ tree  |-> [R EXCEPT !.len = newLen, !.kids[k].len = c.sg.a],
       svLsz |-> NumSize(c.sg.r),
       start |-> NumSize(R.len) - NumSize(newLen),
       stop  |-> Size(R) - d ]

\* ---------------------------------------------------------------- ranges (offsets in the final wire)
Iv(lo, hi) == [lo |-> lo, hi |-> hi]
IdxOf(R, r) == CHOOSE i \in 1..Len(R) : R[i] = r
HasRole(R, r) == \E i \in 1..Len(R) : R[i] = r

RECURSIVE CompIvs(_, _, _)
CompIvs(ks, offs, i) ==
  IF i > Len(ks) THEN <<>>
  ELSE (IF ks[i].t = TParamsDigest THEN <<>> ELSE <<Iv(offs[i], offs[i] + Size(ks[i]))>>)
       \o CompIvs(ks, offs, i + 1)

\* NDN packet format: Data - from Name up to and including SignatureInfo;
\* Interest - every name component except ParametersSha256Digest, then from ApplicationParameters
\* up to but excluding InterestSignatureValue.
SignedRange(c) ==
  LET F == Final(c)  R == Roles(c)  O == KidOffs(F, 0)  sv == IdxOf(R, "sigValue") IN
  IF IsInterest(c)
  THEN LET nm == F.kids[1] IN CompIvs(nm.kids, KidOffs(nm, O[1]), 1) \o <<Iv(O[IdxOf(R, "app")], O[sv])>>
  ELSE <<Iv(O[1], O[sv])>>

\* ParametersSha256Digest covers ApplicationParameters to the end of the Interest
DigestRange(c) == LET F == Final(c) IN Iv(KidOffs(F, 0)[IdxOf(Roles(c), "app")], Size(F))

SigValueRange(c) ==
  LET F == Final(c)  sv == IdxOf(Roles(c), "sigValue")  o == KidOffs(F, 0)[sv] IN
  Iv(o + Hdr(F.kids[sv]), o + Size(F.kids[sv]))

DigestValueRange(c) ==
  LET F == Final(c)  nm == F.kids[1]  CO == KidOffs(nm, KidOffs(F, 0)[1])
      i == CHOOSE j \in 1..Len(nm.kids) : nm.kids[j].t = TParamsDigest IN
  Iv(CO[i] + 2, CO[i] + 34)

RECURSIVE Merge(_)
Merge(ivs) == IF Len(ivs) <= 1 THEN ivs
              ELSE LET rest == Merge(Tail(ivs)) IN
                   IF Head(ivs).hi = Head(rest).lo THEN <<Iv(Head(ivs).lo, Head(rest).hi)>> \o Tail(rest)
                   ELSE <<Head(ivs)>> \o rest
RECURSIVE IvTotal(_)
IvTotal(ivs) == IF Len(ivs) = 0 THEN 0 ELSE Head(ivs).hi - Head(ivs).lo + IvTotal(Tail(ivs))

\* ---------------------------------------------------------------- regions and verdict classes
\* sig verdict for a change confined to the region:  "reject" = no matching verifier may accept the
\* changed packet (decode error counts as not accepted), "either" = the property does not say,
\* "na" = unsigned.  dig verdict: "fail" = the parameters-digest check must not accept,
\* "same" = it must still agree with a recomputation, "na" = no digest.
\* Interpretation (least likely to alarm on correct code): the T and L of the SignatureValue element are
\* neither "signed portion" nor "signature value".  Changing T removes the signature value (reject);
\* changing L to a larger number leaves the value bytes as they are and only makes the element overrun
\* the packet - whether a decoder tolerates that is C07's concern, so the L byte is "either".
CoveredRegs == {"comp", "coveredField", "sigInfo", "sigValueT", "sigValue"}
SigV(c, reg) == IF ~Signed(c) THEN "na"
                ELSE IF reg \in CoveredRegs \/ (reg = "nameTL" /\ ~IsInterest(c)) THEN "reject" ELSE "either"
DigV(c, reg) == IF ~NeedDigest(c) THEN "na"
                ELSE IF reg \in {"digestComp", "coveredField", "sigInfo", "sigValueT", "sigValueL", "sigValue"} THEN "fail"
                ELSE "same"
Rg(c, lo, hi, reg) == [lo |-> lo, hi |-> hi, reg |-> reg, sig |-> SigV(c, reg), dig |-> DigV(c, reg)]
RegOfRole(r) == IF r = "pre" THEN "preCoverField" ELSE IF r \in {"app", "cov"} THEN "coveredField" ELSE r

RECURSIVE CompRegs(_, _, _, _), KidRegs(_, _, _, _, _)
CompRegs(c, ks, offs, i) ==
  IF i > Len(ks) THEN <<>>
  ELSE <<Rg(c, offs[i], offs[i] + Size(ks[i]),
            IF IsInterest(c) /\ ks[i].t = TParamsDigest THEN "digestComp" ELSE "comp")>>
       \o CompRegs(c, ks, offs, i + 1)
KidRegs(c, ks, R, O, i) ==
  IF i > Len(ks) THEN <<>>
  ELSE (IF R[i] = "sigValue"
        THEN <<Rg(c, O[i], O[i] + 1, "sigValueT"), Rg(c, O[i] + 1, O[i] + Hdr(ks[i]), "sigValueL"),
               Rg(c, O[i] + Hdr(ks[i]), O[i] + Size(ks[i]), "sigValue")>>
        ELSE <<Rg(c, O[i], O[i] + Size(ks[i]), RegOfRole(R[i]))>>)
       \o KidRegs(c, ks, R, O, i + 1)

Regions(c) ==
  LET F == Final(c)  R == Roles(c)  O == KidOffs(F, 0)  nm == F.kids[1] IN
     <<Rg(c, 0, Hdr(F), "outerTL"), Rg(c, O[1], O[1] + Hdr(nm), "nameTL")>>
  \o CompRegs(c, nm.kids, KidOffs(nm, O[1]), 1)
  \o KidRegs(c, F.kids, R, O, 2)

RegionAt(c, pos) == LET rs == Regions(c) IN rs[CHOOSE i \in 1..Len(rs) : rs[i].lo <= pos /\ pos < rs[i].hi]

\* ---------------------------------------------------------------- TLV-level edits of the final tree
\* lvl "top": i indexes the elements inside the packet; lvl "name": i indexes the name components.
\* op: del(i) dup(i) swap(i,i+1) lenp(i: declared length + 1) ins(i: an unknown non-critical element
\* before element i; i = n+1 appends) insc (same, critical type); svext1 / svext4 (1 resp. 4 octets appended to
\* the signature VALUE) and svcut1 (its last octet dropped) - a forger's edit: the L of SignatureValue, every
\* enclosing length and, for an Interest, the parameters digest are recomputed, so the packet is well-formed,
\* its signed portion is untouched and only the signature value differs.  The Interest's Name element itself
\* is not edited at top level (which name the signature then covers is not defined by the statement).
\* Value-preserving re-encodings of the signature VALUE (forger's edits like svext / svcut: the signed portion is
\* untouched, every length and the parameters digest are fixed up, the packet stays well-formed).  A verifier that
\* reads the value leniently - as a big-endian number, left- or right-justified to the expected size, cut to the
\* expected size, through a BER instead of a DER decoder - accepts octets that are not the ones the signer produced;
\* each of these wires "differs from the signed packet in its signature value": must-reject.
\*   svpad1 / svpad3    1 / 3 zero octets put in front of the value
\*   svlzcut            the first octet of the value removed; offered for a value whose first octet is 0x00
\*   svtzcut            the last octet of the value removed; offered for a value whose last octet is 0x00
\*   ECDSA (DER SEQUENCE of the INTEGERs r, s) - the same pair (r, s) in other octets:
\*   svder-seql             the length of the SEQUENCE in the next longer, non-minimal form (LL -> 81 LL -> 82 00 LL)
\*   svder-rl / svder-sl    the length of r / s in that form
\*   svder-rz / svder-sz    r / s with one more leading zero octet (non-minimal INTEGER)
\* `need` is the VALUE CLASS of the genuine signature value that the edit is defined on: "any", "lz" (first octet
\* zero) or "tz" (last octet zero).  Bytes are not modelled; the executor realises a class by re-signing varied
\* content until the signer returns a value of that class (about 1 in 256 for every algorithm).  The classes are
\* offered for the algorithms of the library whose value is an octet string of a fixed length (SvRaw) and, for the
\* tail, for DER (SvDer); (r, n - s) is a different pair and stays outside (svneg below).
SvRawKinds == {"rsa", "hmac", "ed25519", "digest", "digestI"}
SvRaw(c) == c.sg.kind \in SvRawKinds /\ c.sg.a >= 2
SvDer(c) == c.sg.kind = "ecdsa" /\ c.sg.a >= 8
SvPadOps == {"svpad1", "svpad3"}
SvDerOps == {"svder-seql", "svder-rl", "svder-sl", "svder-rz", "svder-sz"}
SvClassOps == {"svlzcut", "svtzcut"}
SvNeed(op) == IF op = "svlzcut" THEN "lz" ELSE IF op = "svtzcut" THEN "tz" ELSE "any"
SvOps == {"svext1", "svext4", "svcut1"} \cup SvPadOps \cup SvDerOps \cup SvClassOps
Ed(lvl, op, i, sig, dig) == [lvl |-> lvl, op |-> op, i |-> i, sig |-> sig, dig |-> dig, need |-> SvNeed(op)]
TopEdits(c) ==
  LET R == Roles(c)  k == Len(R)
      sv == IF Signed(c) THEN IdxOf(R, "sigValue") ELSE 0
      si == IF Signed(c) THEN IdxOf(R, "sigInfo") ELSE 0
      ap == IF NeedDigest(c) THEN IdxOf(R, "app") ELSE 0
      cov == { i \in 1..k : R[i] \in {"app", "cov", "sigInfo", "sigValue"} \/ (R[i] = "name" /\ ~IsInterest(c)) }
      lo == IF IsInterest(c) THEN 2 ELSE 1
      s1(i) == IF ~Signed(c) THEN "na" ELSE IF i \in cov THEN "reject" ELSE "either"
      \* a second SignatureValue after the first, or a SignatureValue announcing one byte more than there
      \* is, changes neither the signed portion nor the signature value
      s1b(i) == IF i = sv THEN "either" ELSE s1(i)
      s2(i) == IF ~Signed(c) THEN "na" ELSE IF {i, i + 1} \cap cov # {} THEN "reject" ELSE "either"
      sI(j) == IF ~Signed(c) THEN "na"
               ELSE IF IsInterest(c) THEN (IF ap < j /\ j <= sv THEN "reject" ELSE "either")
               ELSE (IF 2 <= j /\ j <= si THEN "reject" ELSE "either")
      d1(i) == IF ~NeedDigest(c) THEN "na" ELSE IF i >= ap THEN "fail" ELSE "same"
      d2(i) == IF ~NeedDigest(c) THEN "na" ELSE IF i + 1 >= ap THEN "fail" ELSE "same"
      dI(j) == IF ~NeedDigest(c) THEN "na" ELSE IF j > ap THEN "fail" ELSE "same"
      one(op) == { Ed("top", op, i, IF op = "del" THEN s1(i) ELSE s1b(i), d1(i)) : i \in lo..k }
  IN one("del") \cup one("dup") \cup one("lenp")
     \cup { Ed("top", "swap", i, s2(i), d2(i)) : i \in lo..(k - 1) }
     \cup { Ed("top", op, j, sI(j), dI(j)) : op \in {"ins", "insc"}, j \in 1..(k + 1) }
     \* the digest is recomputed by the forger, so the digest check must still agree with a recomputation ("same")
     \* Named deviation (assumption, not a verdict): an ECDSA signature (r, s) has the twin (r, n - s), which verifies
     \* over the same bytes.  The statement's "differs in its signature value => not accepted" cannot hold for a
     \* verifier of plain ECDSA (no low-s rule in the NDN packet format); the twin is enumerated so that the evidence
     \* shows what the verifier does, with verdict "either".
     \cup (IF Signed(c) /\ c.sg.kind = "ecdsa" THEN { Ed("top", "svneg", sv, "either", IF NeedDigest(c) THEN "same" ELSE "na") } ELSE {})
     \cup (IF Signed(c) THEN { Ed("top", op, sv, "reject", IF NeedDigest(c) THEN "same" ELSE "na") :
                                 op \in {"svext1", "svext4"} \cup (IF c.sg.a > 0 THEN {"svcut1"} ELSE {})
                                         \cup SvPadOps
                                         \cup (IF SvRaw(c) THEN SvClassOps ELSE {})
                                         \cup (IF SvDer(c) THEN SvDerOps \cup {"svtzcut"} ELSE {}) }
           ELSE {})

NameEdits(c) ==
  LET cs == FinalName(c)  n == Len(cs)
      pd(i) == IsInterest(c) /\ cs[i].t = TParamsDigest
      sg(b) == IF ~Signed(c) THEN "na" ELSE IF b THEN "reject" ELSE "either"
      dg(b) == IF ~NeedDigest(c) THEN "na" ELSE IF b THEN "fail" ELSE "same"
      \* one more component of the parameters-digest TYPE (insd: 32 fresh octets, insds: 4 octets, before component i,
      \* i = n + 1 appends; dup of the digest component itself).  "All name components except the parameters digest"
      \* exempts one component - the edited name has a component the signed name has not, so the packet differs from the
      \* signed one in its signed portion: must-reject (by the decoder or by the verifier).  Which of two components
      \* "its digest component" is, is not defined: the digest check may go either way ("na").
      twin == IF IsInterest(c) /\ Signed(c) /\ NeedDigest(c) THEN {"insd", "insds"} ELSE {}
  IN { Ed("name", "del", i, sg(~pd(i)), dg(pd(i))) : i \in 1..n }
     \cup { Ed("name", "dup", i, sg(TRUE), dg(FALSE)) : i \in { j \in 1..n : ~pd(j) } }
     \cup { Ed("name", "dup", i, sg(TRUE), "na") : i \in { j \in 1..n : pd(j) /\ Signed(c) } }
     \cup { Ed("name", op, i, "reject", "na") : op \in twin, i \in 1..(n + 1) }
     \cup { Ed("name", "swap", i, sg(~pd(i) /\ ~pd(i + 1)), dg(FALSE)) : i \in 1..(n - 1) }

Edits(c) == TopEdits(c) \cup NameEdits(c)

\* ---------------------------------------------------------------- laws (checked by TLC on every configuration)
End(x) == x.off + x.hdr + x.len
RECURSIVE Scan(_, _, _)
Scan(fl, d, j) == IF j > Len(fl) THEN j ELSE IF fl[j].d <= d THEN j ELSE Scan(fl, d, j + 1)
NextSib(fl, i) == Scan(fl, fl[i].d, i + 1)     \* index of the next element that is not a descendant of i
\* a layout is one well-formed element: shortest-form headers, every container exactly tiled by its children
WellTiled(fl) ==
  /\ Len(fl) >= 1 /\ fl[1].off = 0 /\ fl[1].d = 0
  /\ \A i \in 2..Len(fl) : fl[i].d >= 1 /\ fl[i].d <= fl[i - 1].d + 1
  /\ \A i \in 1..Len(fl) :
       LET n == NextSib(fl, i) IN
       /\ fl[i].hdr = NumSize(fl[i].t) + NumSize(fl[i].len)
       /\ (n > i + 1 => fl[i + 1].off = fl[i].off + fl[i].hdr)
       /\ \A j \in (i + 1)..(n - 1) : fl[j].d = fl[i].d + 1 =>
             (LET m == NextSib(fl, j) IN IF m < n THEN fl[m].off = End(fl[j]) ELSE End(fl[j]) = End(fl[i]))

LawOneElement(c) == LET F == Final(c)  fl == Flat(F) IN WellTiled(fl) /\ End(fl[1]) = Size(F)

\* the imperative shrink yields exactly the declaratively well-formed packet
LawShrink(c) == Signed(c) =>
  LET o == OpShrink(c) IN
  /\ o.tree = Final(c)
  /\ o.svLsz = NumSize(c.sg.a)           \* the L written in pass one is still the shortest form
  /\ o.start >= 0 /\ o.stop - o.start = Size(Final(c))

\* critical elements once and in the order of the packet format; a parser reading the reference
\* tree finds the caller's fields
RECURSIVE IsSubseq(_, _)
IsSubseq(a, b) == IF Len(a) = 0 THEN TRUE ELSE IF Len(b) = 0 THEN FALSE
                  ELSE IF Head(a) = Head(b) THEN IsSubseq(Tail(a), Tail(b)) ELSE IsSubseq(a, Tail(b))
KidTypes(e) == [i \in 1..Len(e.kids) |-> e.kids[i].t]
CompsOf(nm) == [i \in 1..Len(nm.kids) |-> [t |-> nm.kids[i].t, l |-> nm.kids[i].len]]
FindT(e, t) == { i \in 1..Len(e.kids) : e.kids[i].t = t }
LawParseBack(c) ==
  LET F == Final(c) IN
  /\ IsSubseq(KidTypes(F), IF IsInterest(c) THEN InterestOrder ELSE DataOrder)
  /\ F.kids[1].t = TName /\ CompsOf(F.kids[1]) = FinalName(c)
  /\ (IsInterest(c) =>
        /\ Len(FinalName(c)) = Len(c.name) + (IF NeedDigest(c) /\ PdIdx(c.name) = {} THEN 1 ELSE 0)
        /\ (NeedDigest(c) <=> Cardinality(PdIdx(FinalName(c))) = 1)
        /\ (FindT(F, TAppParams) # {} <=> NeedDigest(c))
        /\ \A i \in FindT(F, TAppParams) : F.kids[i].len = AppLen(c))
  /\ (~IsInterest(c) =>
        /\ (FindT(F, TContent) # {} <=> c.content >= 0)
        /\ \A i \in FindT(F, TContent) : F.kids[i].len = c.content)
  /\ (Signed(c) <=> FindT(F, IF IsInterest(c) THEN TISigValue ELSE TSigValue) # {})
  /\ (Signed(c) => F.kids[Len(F.kids)].len = c.sg.a)

\* every name position of the emitted tree carries exactly the components its argument denotes, in whatever
\* representation and with whatever number of components and of delegations the argument came
LawForms(c) ==
  LET F == Final(c)
      nm == Given(c.rep.name, c.name)
      sit == IF IsInterest(c) THEN TISigInfo ELSE TSigInfo IN
  /\ RepOK(c)
  /\ CompsOf(F.kids[1]) = (IF NeedDigest(c) /\ PdIdx(nm) = {} THEN Append(nm, [t |-> TParamsDigest, l |-> 32]) ELSE nm)
  /\ (IsInterest(c) =>
        /\ (FindT(F, TFwdHint) # {} <=> Len(c.fh) > 0)
        /\ \A k \in FindT(F, TFwdHint) :
             /\ Len(F.kids[k].kids) = Len(c.fh)
             /\ \A i \in 1..Len(c.fh) : /\ F.kids[k].kids[i].t = TName
                                        /\ CompsOf(F.kids[k].kids[i]) = Given(FormAt(c.rep.fh, i), c.fh[i]))
  /\ (Signed(c) /\ c.sg.haskl =>
        /\ FindT(F, sit) # {}
        /\ \A k \in FindT(F, sit) :
             /\ Cardinality(FindT(F.kids[k], TKeyLocator)) = 1
             /\ \A j \in FindT(F.kids[k], TKeyLocator) :
                  /\ Len(F.kids[k].kids[j].kids) = 1 /\ F.kids[k].kids[j].kids[1].t = TName
                  /\ CompsOf(F.kids[k].kids[j].kids[1]) = Given(c.rep.kl, c.sg.kl))

Inside(a, b) == b.lo <= a.lo /\ a.hi <= b.hi
Overlap(a, b) == a.lo < b.hi /\ b.lo < a.hi
LawRanges(c) ==
  LET F == Final(c)  whole == Iv(Hdr(F), Size(F)) IN
  /\ (Signed(c) =>
       LET s == SignedRange(c)  v == SigValueRange(c) IN
       /\ \A i \in 1..Len(s) : s[i].lo < s[i].hi /\ Inside(s[i], whole)
       /\ \A i \in 1..(Len(s) - 1) : s[i].hi <= s[i + 1].lo
       /\ s[Len(s)].hi + Hdr(F.kids[Len(F.kids)]) = v.lo        \* ends where the SignatureValue element begins
       /\ v.hi = Size(F) /\ v.hi - v.lo = c.sg.a                 \* the signature value is the last thing in the packet
       /\ (~IsInterest(c) => Len(s) = 1 /\ s[1].lo = Hdr(F)))    \* Data: starts with the Name element
  /\ (NeedDigest(c) =>
       LET g == DigestRange(c)  dv == DigestValueRange(c) IN
       /\ Inside(g, whole) /\ g.hi = Size(F) /\ ~Overlap(dv, g) /\ dv.hi - dv.lo = 32
       /\ (Signed(c) => /\ Inside(SignedRange(c)[Len(SignedRange(c))], g) /\ Inside(SigValueRange(c), g)
                        /\ \A i \in 1..Len(SignedRange(c)) : ~Overlap(dv, SignedRange(c)[i])))

\* the digest range computed by the implementation's offset markers (pass-one coordinates, then
\* corrected by the shrink) is the declarative one
LawDigestOp(c) == NeedDigest(c) =>
  LET R == Reserved(c)  o == OpShrink(c)
      a == KidOffs(R, 0)[IdxOf(Roles(c), "app")]
      d == c.sg.r - c.sg.a IN
  Iv(a - o.start, Size(R) - d - o.start) = DigestRange(c)

LawRegions(c) ==
  LET rs == Regions(c)  F == Final(c) IN
  /\ rs[1].lo = 0 /\ rs[Len(rs)].hi = Size(F)
  /\ \A i \in 1..(Len(rs) - 1) : rs[i].hi = rs[i + 1].lo /\ rs[i].lo <= rs[i].hi
  \* tamper-in-covered-region => must-reject; regions never straddle a covered range
  /\ (Signed(c) => \A i \in 1..Len(rs) :
        LET cov == Merge(SignedRange(c)) \o <<SigValueRange(c)>> IN
        /\ \A j \in 1..Len(cov) : Overlap(rs[i], cov[j]) => Inside(rs[i], cov[j]) /\ rs[i].sig = "reject"
        /\ (rs[i].sig = "either" => \A j \in 1..Len(cov) : ~Overlap(rs[i], cov[j])))
  /\ (NeedDigest(c) => \A i \in 1..Len(rs) :
        LET g == DigestRange(c)  dv == DigestValueRange(c) IN
        /\ ((Overlap(rs[i], g) \/ Overlap(rs[i], dv)) => rs[i].dig = "fail")
        /\ (Overlap(rs[i], g) => Inside(rs[i], g)))

\* an edit of an element that lies in a covered range (or an insertion strictly inside one) must be rejected
LawEdits(c) ==
  LET F == Final(c)  R == Roles(c)  O == KidOffs(F, 0) IN
  \A e \in Edits(c) :
    /\ (e.lvl = "top" /\ e.op \in {"del", "dup", "lenp"} /\ Signed(c) =>
          LET ext == Iv(O[e.i], O[e.i] + Size(F.kids[e.i]))
              sr == Merge(SignedRange(c))
              inSigned == \E j \in 1..Len(sr) : Overlap(ext, sr[j]) IN
          (e.sig = "reject" <=> (inSigned \/ (R[e.i] = "sigValue" /\ e.op = "del"))))
    /\ (e.lvl = "top" /\ e.op \in {"ins", "insc"} /\ Signed(c) =>
          \* Interest: "ApplicationParameters up to but excluding the signature value" - an element put
          \* right before InterestSignatureValue is inside; Data: "Name through SignatureInfo" - one
          \* put after SignatureInfo is not
          LET at == IF e.i <= Len(R) THEN O[e.i] ELSE Size(F)
              top == SignedRange(c)[Len(SignedRange(c))] IN
          (e.sig = "reject" <=> IF IsInterest(c) THEN top.lo < at /\ at <= top.hi
                                ELSE top.lo < at /\ at < top.hi))
    \* every edit of the signature value alone - appended / dropped octets and the value-preserving re-encodings -
    \* is must-reject, whatever value class it is defined on; with the digest recomputed the digest check still holds
    /\ (e.op \in SvOps => /\ Signed(c) /\ R[e.i] = "sigValue" /\ e.sig = "reject" /\ e.dig \in {"same", "na"}
                           /\ e.need = SvNeed(e.op)
                           /\ (e.need # "any" => c.sg.a >= 2))       \* something is left of the value
    /\ (e.op \notin SvOps => e.need = "any")
    /\ (e.lvl = "top" /\ NeedDigest(c) /\ e.op \in {"del", "dup", "lenp"} =>
          (e.dig = "fail" <=> Overlap(Iv(O[e.i], O[e.i] + Size(F.kids[e.i])), DigestRange(c))
                              \/ O[e.i] >= DigestRange(c).lo))
    /\ (e.lvl = "top" /\ NeedDigest(c) /\ e.op \in {"ins", "insc"} =>
          LET at == IF e.i <= Len(R) THEN O[e.i] ELSE Size(F) IN (e.dig = "fail" <=> at > DigestRange(c).lo))

\* a signed packet always offers the forger's signature-value edits
\* ... and, for the library's own algorithms, the re-encodings on every value class
OffersOp(c, op) == \E e \in Edits(c) : e.op = op /\ e.sig = "reject"
LawSvEdits(c) == Signed(c) =>
  /\ OffersOp(c, "svext1") /\ \A op \in SvPadOps : OffersOp(c, op)
  /\ (c.sg.kind \in SvRawKinds /\ c.sg.a >= 2 => \A op \in SvClassOps : OffersOp(c, op))
  /\ (c.sg.kind = "ecdsa" /\ c.sg.a >= 8 => \A op \in SvDerOps \cup {"svtzcut"} : OffersOp(c, op))
Laws(c) == LawSvEdits(c) /\ LawOneElement(c) /\ LawShrink(c) /\ LawParseBack(c) /\ LawRanges(c) /\ LawDigestOp(c)
           /\ LawRegions(c) /\ LawEdits(c)

\* ---------------------------------------------------------------- what the harness gets per configuration
None == <<>>
Expect(c) ==
  IF Refuses(c)
  THEN [refuse |-> TRUE, lay |-> None, signed |-> None, digest |-> None, sv |-> None, dv |-> None,
        regions |-> None, edits |-> {}]
  ELSE [refuse |-> FALSE,
        lay |-> Flat(Final(c)),
        signed |-> IF Signed(c) THEN Merge(SignedRange(c)) ELSE None,
        digest |-> IF NeedDigest(c) THEN <<DigestRange(c)>> ELSE None,
        sv |-> IF Signed(c) THEN <<SigValueRange(c)>> ELSE None,
        dv |-> IF NeedDigest(c) THEN <<DigestValueRange(c)>> ELSE None,
        regions |-> Regions(c),
        edits |-> Edits(c)]
=============================================================================
