---------------------------- MODULE TlvModelC08 ----------------------------
(* C08 stage A: the laws of the TLV model algebra, checked by TLC on the scan machine.
   Initial states: for every class of the family and every enumerated legal assignment v,
   the case "decode Encode(v)" and, for the assignments of EditAssign, one case per edit of
   Encode(v) (TlvModelFamily).                                                            *)
EXTENDS TlvModelScan, TlvModelFamily

Case(f, s, v, kind, expect, depth, input) ==
  [f |-> f, s |-> s, ic |-> FALSE, v |-> v, kind |-> kind, expect |-> expect, depth |-> depth, input |-> input]

Init == \E f \in 1 .. Len(Family) :
          LET s == SchemaOf(f) IN
          /\ \/ \E v \in Assign(s) : c = Case(f, s, v, "plain", "same", 0, Encode(s, v))
             \/ \E v \in EditAssign(s) :
                  LET L == Encode(s, v) IN
                  \E e \in AllEdits(s, FALSE, L) : c = Case(f, s, v, e.kind, e.expect, Len(e.path), Apply(L, e))
          /\ st = InitSt(s)
Spec == Init /\ [][Next]_vars
C08Schema(cc) == cc.s
C08Ic(cc)     == cc.ic
C08Input(cc)  == cc.input

\* ------------------------------------------------------------------ laws
ValuesLegal  == LegalModel(c.s, c.v)
\* Size(Encode(v)) = AnnouncedLength(v)
SizeLaw      == c.kind = "plain" => SeqSize(c.input) = AnnouncedLength(c.s, c.v)
\* Parse(Encode(v)) = v
RoundTrip    == (Terminal /\ c.kind = "plain") => (st.status = "accept" /\ st.out = c.v)
\* elements come in declared field order and every element belongs to a field
RECURSIVE NonDecr(_)
NonDecr(tk) == Len(tk) <= 1 \/ (tk[1][1] <= tk[2][1] /\ NonDecr(Tail(tk)))
DeclaredOrder == (Terminal /\ c.kind = "plain") =>
                    /\ Len(st.taken) = Len(c.input) /\ NonDecr(st.taken)
                    /\ \A i \in 1 .. Len(st.taken) : st.taken[i][2] = i
\* unknown non-critical ignored wherever inserted; unknown / repeated / out-of-order critical rejected
EditLaw      == (Terminal /\ c.kind # "plain") =>
                    /\ (c.expect = "same" => st.status = "accept" /\ st.out = c.v)
                    /\ (c.expect = "reject" => st.status = "reject")
\* integers in the smallest legal width, numbers in shortest form: Encode uses UintWidth / NumSize,
\* whose minimality is NumLaws; here: every uint leaf of a non-fixed field has the width of its value
RECURSIVE UintMinimal(_, _)
UintMinimal(s, L) ==
  LET tk == RunScan(s, FALSE, L).taken IN
  \A j \in 1 .. Len(tk) :
     LET d0 == s[tk[j][1]]
         e == L[tk[j][2]]
         d == IF d0.kind = "repeated" THEN d0.elem[1]
              ELSE IF d0.kind = "map" THEN (IF e.t = d0.elem[1].t THEN d0.elem[1] ELSE d0.elem[2])
              ELSE d0
     IN /\ (d.kind = "uint" /\ d.fixed = 0 =>
              e.n = UintWidth(NumOfBytes(RunsToBytes(e.runs))))
        /\ (d.kind = "uint" /\ d.fixed # 0 => e.n = d.fixed)
        /\ (d.kind = "model" => UintMinimal(d.sub, e.kids))
Minimal == c.kind = "plain" => UintMinimal(c.s, c.input)

\* IncludeBase: diamond and override-in-place
Names(s) == [i \in 1 .. Len(s) |-> s[i].name]
ASSUME Names(SchemaOf(11)) = <<"a1", "a2", "b", "c", "d">>
ASSUME Names(SchemaOf(12)) = <<"a1", "a2", "e">> /\ SchemaOf(12)[1].kind = "bytes" /\ SchemaOf(12)[1].t = N(137)
ASSUME NumLaws
\* the life of an instance (TlvModelLife): every change of the enumerated lives is admissible, and the size law holds
\* for every value the instance goes through
LifeLaw == \A f \in 1 .. Len(Family) : LET s == SchemaOf(f) IN \A v \in EditAssign(s) :
             LET ms == LifeOf(s, v) IN
             /\ LifeOk(s, v, ms)
             /\ \A j \in 1 .. Len(ms) : LET vj == Lives(s, v, ms)[j] IN SeqSize(Encode(s, vj)) = AnnouncedLength(s, vj)
ASSUME LifeLaw
ASSUME \A f \in 1 .. Len(Family) : DistinctTypes(SchemaOf(f))

\* ------------------------------------------------------------------ vacuity witnesses (each must be VIOLATED)
W_OooReject   == ~(Terminal /\ c.kind = "ooo" /\ st.status = "reject")
W_RepNested   == ~(Terminal /\ c.kind = "rep" /\ c.depth >= 1 /\ st.status = "reject")
W_Depth2      == ~(Terminal /\ c.kind = "nc" /\ c.depth >= 2 /\ st.status = "accept")
W_IcSame      == ~(Terminal /\ c.kind = "uc" /\ c.expect = "same" /\ st.status = "accept")
W_NcInMap     == ~(c.kind = "nc" /\ st.status = "run" /\ st.want # 0 /\ st.pos <= Len(c.input)
                   /\ c.input[st.pos].t \notin TypesOf(c.s))
W_Big         == ~(c.kind = "plain" /\ SeqSize(c.input) > 65536 + 65536)
=============================================================================
