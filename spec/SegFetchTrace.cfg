SPECIFICATION TSpec
CONSTANTS MaxN = 3 MaxRetry = 3
INVARIANT InOrderOnce
INVARIANT DoneComplete
INVARIANT RetryBound
INVARIANT FailsIffExhausted
INVARIANT NoSkip
INVARIANT DiscoveryShape
CONSTRAINT Mark
POSTCONDITION Post
CHECK_DEADLOCK FALSE
