\* Enumeration of small inputs with expected results (stage B). Mode: "schemas" | "checks" | "laws" | "illformed" | "trees"
INIT EInit
NEXT ENext
CONSTANTS
  MaxNodes = 3
  MaxLen = 3
  Corrupt = "none"
  CountSteps = FALSE
  DevPrebound = FALSE
  Mode = "schemas"
  Stride = 17
  Offset = 0
  FocusStride = 3
  FocusOffset = 0
CHECK_DEADLOCK FALSE
