------------------------------- MODULE Svs -------------------------------
(* C18 - State Vector Sync, one instance (ndn.app_support.svs.sync.SvsInst).

   One action per critical section of sync.py (the code never awaits inside one):
     RecvSV     sync_handler  - a sync Interest reached the handler; parameter r = what the
                application does INSIDE the missing-data callback (re-entrancy): r calls of
                new_data(). The callback is the last thing the handler does, so the publication
                applies after the handler's own state update and must be announced at once
     Publish    new_data (n calls in one loop turn) + the immediate wake-up of on_timer
     TimerFire  the TimeoutError branch of on_timer
     Tick       virtual time passes (no code runs)
     PublishThenRecv   two critical sections with no run of the timer task between them: new_data (n calls)
                and then sync_handler - the application publishes from a callback of the very loop iteration
                in which a sync Interest reaches the handler (the wake-up of on_timer is only queued by then).
                The handler works on the published state; the announcement of the publication is part of the step
   The bodies of RecvSV / TimerFire follow the code (two loops over the entries, need_notif,
   aggregate, the `necessary` loop); the properties further down are written declaratively
   (entry-wise maximum, "heard" = merge of the accepted vectors of the suppression period) and
   TLC checks the former against the latter.

   What C18 does NOT fix is left open when Mode = "open" (stage A, trace validation):
     * when suppression is entered            (en \in BOOLEAN, in the trace read from `state`),
       except that a vector which is *explicitly outdated* - it carries an entry (sequence number
       0 included: a peer that has just restarted) below the local one - must start a suppression
       period when heard in Steady: "announces exactly when needed" (OutdatedStartsSuppression;
       a SeqNo element with value 0 is an ordinary entry, unlike an entry without SeqNo)
     * how long any timer runs                (timer' \in 0..MaxT)
     * whether a steady-state expiry emits    (choice "skip")
     * how many sync Interests a burst of n same-instant publications produces (1..n, the last
       one carrying the final vector)         - DESIGN 9, interpretation decision for C18
     * whether a vector with a damaged entry (no node id / no sequence number) is taken with
       the damaged entries dropped or ignored as a whole (choice "reject"); the same for a vector in an
       encoding that is not the canonical one (kind "svl": also open in Mode "impl" - the library's decoder
       takes some of them and not others)
   Mode = "impl" resolves the first four the way sync.py does (need_notif; SupBase+j / SyncBase+j
   ticks with j the patched secrets.randbits sample; always emit; one Interest per burst) so that
   stage B can replay the graph deterministically.

   Interpretation decisions (least likely to alarm on correct code):
     * absent entry == sequence number 0 (local_sv.get(id, 0) in the code, and the property's
       "newer in some entry" cannot distinguish them)
     * "heard during that period" = accepted vectors (not malformed, not over-claiming) received
       while the public state is Suppress, the one that started the period included
     * a suppression period ends at the timer expiry (decision clause) or at a publication
       (publish clause: emits anyway); RecvSV never ends it
     * every sync Interest emitted at an expiry carries the full local vector
     * a packet and an expiry at the same instant: both orders are behaviours (RecvSV is enabled at
       timer = 0, before TimerFire; and TimerFire first)
     * a publication and a packet inside one loop iteration (PublishThenRecv; the other order is RecvSV with
       r = 0 followed by Publish: nothing is pending between them). "Publishing ... promptly emits a sync
       Interest carrying the full vector" holds whatever is heard before the timer task gets to run: the
       outcome is that of Publish followed by RecvSV on the published state (an over-claim is judged against
       the published sequence number), and the announcement is made within the step. Left open (Mode "open"):
       whether the Interest(s) go out before the packet is handled (choice "early": they carry the vector as
       published; the rest is RecvSV, suppression included) or after it (choice "late": they carry the merged
       vector; a suppression period the packet started may end with that announcement - "ends at a
       publication" - or go on). Mode "impl": "late", one Interest, Steady (on_timer's expiry branch)

   Vectors that name one node more than once (nothing in the wire format excludes them; a correct peer
   never sends one). What such a vector denotes is fixed only as far as the statement of C18 fixes it:
     * it "claims more data for this node than it has produced" if ANY of its entries for this node
       exceeds self_seq (Overclaims quantifies over all entries): then it is ignored entirely
     * otherwise C18 does not say which of the contradicting entries counts: a READING of the vector
       keeps one entry per node (d in RecvSV: d[n] = which of n's entries counts; first, last, largest
       and smallest are all readings), and the step must be the merge of SOME reading (the same one for
       local_sv and for "heard"); or the vector is ignored as damaged (HasDup is a kind of Damaged:
       choice "reject"). Mode "impl": the last entry of a node counts (rsv_dict[...] = ... in a loop)
     * whether the vector is "explicitly outdated" (OutdatedStartsSuppression) is judged on the reading
   The same vector again. The acceptance clauses of EntrywiseMax / OverclaimIgnored speak about the state
   at the time a vector ARRIVES: a vector that over-claimed when it was first heard and is repeated
   byte for byte (peers repeat their vector every sync interval) after the node has published enough is
   an ordinary vector then. History variable mem (Remember = TRUE) remembers the decodable packet most
   recently ignored / accepted, so that such histories are witnessed (AgainAccepted, AgainOutdated) in the
   model and counted in the recorded executions; no action reads it.

   Scale (what the exhaustive alphabets of SvsMC cannot reach; recorded executions - SvsTrace - carry it):
     * the size of the group / of a vector: NodeOrder <- Nodes20 .. Nodes101 (Grp(k): "self", "n1" .. "n<k-1>";
       one more node "a" for the loop-back peer). Nothing in the actions or properties depends on the number of
       nodes (AllReadings enumerates the readings of the nodes that ARE named twice, not functions over all nodes).
       With the executor's node names a vector of ManyEs entries is longer than 252 octets on the wire (its
       Length number then takes three octets), one of a few entries is not (witnesses ManyEntries,
       ManyEntriesOutdated; the executor counts the octets)
     * the magnitude of sequence numbers. TLC's integers have 32 bits, sequence numbers are NonNegativeIntegers
       of up to 8 octets. The model uses sequence numbers only through =, <, max and "+ n" on the own one, so a
       history is a behaviour iff its image under a strictly monotone map that fixes 0 and commutes with the
       "+ n" that occur is one. Recorded executions are judged in such an image, SCALED CLASSES: a number below
       HiSeq stands for itself, HiSeq + k stands for B + k, where B (>= HiSeq; per execution, cfg.hi, not read
       here) is a number of the executor's choice on either side of 2^31, 2^32, 2^53, 2^63 or just below 2^64; a
       number the instance shows that is in neither class (k beyond HiSpan) is recorded as BadSeq and equals no
       model value. The own sequence number starts in the high class and stays there; peers' entries are in both
       (witnesses HighSeqPublish, HighSeqMerged, HighSeqSupEmit)

   Named deviations (known findings; Dev = {} in stage A, all of them in B / C so that a path or trace
   that needs one is reported and the rest of it is still checked):
     "aggLocal"  aggregate() merges the received vector with local_sv instead of agg_sv
                 (variable agg follows the code; TimerFire choice "devAgg" decides with it)
     "noSeq"     an entry without sequence number raises TypeError in the middle of the merge
                 loop: entries before it are merged, no callback, nothing else happens
                 (RecvSV choice "devNoSeq")
     "postponed" sync_handler, run between new_data() and the wake-up of the timer task, overwrites the
                 next_sync_timing = 0 that new_data() left (both of its timer branches): the publication is
                 not announced in the step but at the expiry the handler scheduled - a whole sync interval
                 or a suppression period later (PublishThenRecv choice "devPostponed")                *)
EXTENDS Integers, Sequences, FiniteSets, TLC

CONSTANTS NodeOrder,   \* sequence of node ids (strings); NodeOrder[1] is this node
          MaxSeq,      \* largest sequence number in the model
          InitSeqs,    \* possible last_used_seq_num values
          Packets,     \* received packets quantified over by Next
          PrePackets,  \* ... by Next for PublishThenRecv (the replay graph takes a smaller alphabet there)
          Mode,        \* "open" | "impl"
          Dev,         \* subset of {"aggLocal", "noSeq", "postponed"}
          SupBase, SyncBase, Jitter,   \* impl mode: timers are SupBase+j / SyncBase+j ticks, j \in Jitter
          MaxT,        \* open mode: timers range over 0..MaxT
          MaxBurst,    \* same-instant publications per Publish
          MaxReact,    \* publications the application may make inside one missing-data callback
          MaxPre,      \* publications made just before a packet is handled, in the same loop iteration (0: no PublishThenRecv)
          MaxEv,       \* bound on the number of events (0 = unbounded)
          TickEnds,    \* TRUE: time only advances to the expiry or to one tick before it (replay graph)
          UseHint,     \* TRUE only in SvsTrace: see `hint`
          Remember     \* TRUE: history variable mem is kept (multiplies the state space by the packets)

VARIABLES local,     \* [Nodes -> Nat]   public local_sv (absent = 0)
          selfSeq,   \* public self_seq
          state,     \* "Steady" | "Suppress"   public state
          heard,     \* history: merge of the vectors accepted in the current suppression period
          agg,       \* the code's agg_sv (differs from heard only under deviation "aggLocal")
          timer,     \* ticks until next_sync_timing
          out,       \* vectors of the sync Interests emitted by the last step
          missed,    \* on_missing_data calls made by the last step
          last,      \* history: what the last step was (for the properties only)
          nev,
          mem,       \* history: [rej, acc] the decodable packet most recently ignored / accepted (Remember)
          hint       \* not part of the model: lets SvsTrace name the observed timer' / state' *before*
                     \* the open choices are enumerated (65 x 2 fewer branches per recorded event);
                     \* always NoHint here
vars == <<local, selfSeq, state, heard, agg, timer, out, missed, last, nev, mem, hint>>
\* `last` is a pure history variable (no action reads it): TLC identifies states up to View, and
\* still evaluates every action property on every transition with the real last'
View == <<local, selfSeq, state, heard, agg, timer, out, missed, nev, mem>>
\* out and missed are outputs of a step too: no action reads them, and every property speaks about out' / missed'
\* only (TLC evaluates action properties on every transition, new successor or not). Exhaustive runs identify
\* states up to ViewA; the replay graph (whose states are compared with the instance) keeps View
ViewA == <<local, selfSeq, state, heard, agg, timer, nev, mem>>

\* values for NodeOrder (cfg: NodeOrder <- Nodes3)
Nodes2 == <<"self", "n1">>
Nodes3 == <<"self", "n1", "n2">>
Nodes5 == <<"self", "n1", "n2", "n3", "n4">>
\* a peer of the instance under test (loop-back check): it knows that instance as node "a"
Nodes4 == <<"self", "n1", "n2", "a">>
Nodes6 == <<"self", "n1", "n2", "n3", "n4", "a">>
\* larger groups (scale: recorded executions only), and each of them with the loop-back peer's name for the instance
Grp(k) == [i \in 1..k |-> IF i = 1 THEN "self" ELSE "n" \o ToString(i - 1)]
Nodes20 == Grp(20)
Nodes21 == Grp(20) \o <<"a">>
Nodes24 == Grp(24)
Nodes25 == Grp(24) \o <<"a">>
Nodes40 == Grp(40)
Nodes41 == Grp(40) \o <<"a">>
Nodes100 == Grp(100)
Nodes101 == Grp(100) \o <<"a">>
\* scaled classes of sequence numbers (see the header)
HiSeq == 1048576
HiSpan == 1024
BadSeq == -2
ManyEs == 16

Nodes == { NodeOrder[i] : i \in 1..Len(NodeOrder) }
Self == NodeOrder[1]
NoId == "none"               \* entry without a Name element
RootId == "root"             \* entry whose node id is the name of zero components: the code tests
                             \* `if not rsv.node_id` and cannot tell it from a missing id; same class
NoSeq == -1
Zero == [n \in Nodes |-> 0]
MaxI(a, b) == IF a >= b THEN a ELSE b
MaxV(f, g) == [n \in Nodes |-> MaxI(f[n], g[n])]
Newer(f, g) == \E n \in Nodes : f[n] > g[n]          \* f is newer than g in some entry

-----------------------------------------------------------------------------
(* Packets. p = [k |-> kind, es |-> <<[id |-> node | NoId | RootId, seq |-> Nat | NoSeq], ...>>]
   Nodes are abstract here; the executor gives them unusual but decodable names (component types 0,
   65535, 65536, 2^32, empty values, non-UTF-8 bytes): C18 holds for them like for any node.
   kind "svl" is a well-formed vector in an encoding only a lenient reader gets (numbers in a non-minimal
   3 / 5 / 9-octet form, stray octets or unknown elements after or between the known ones): C18 does not say
   how strict a reader has to be, so it is a damaged vector - taken as what it says, or ignored as a whole.
   The other kinds are sync Interests whose vector cannot be obtained at all; among them "cut": the encoding
   of a vector cut at some octet - inside an entry, a name, a sequence number, a multi-octet Type or Length
   number (the executor takes the members of both classes in turn). They must be ignored entirely, and quietly.
   The finite packet alphabets the model checker quantifies over are in SvsMC.tla (kept out of this
   module because TLC evaluates every constant definition at start-up, and SvsTrace instantiates
   this module with 5 nodes and sequence numbers up to 24).                                   *)
\* ---- what a packet denotes (declarative; used by the properties)
HasId(e) == e.id \notin {NoId, RootId}
HasSeq(e) == e.seq # NoSeq
Good(e) == HasId(e) /\ HasSeq(e)
Lenient(p) == p.k = "svl"
Decodable(p) == p.k \in {"sv", "svl"} /\ Len(p.es) > 0
\* the well-formed entries of p, and how many of them name node n
GoodEs(p) == SelectSeq(p.es, Good)
Occ(es, n) == { i \in 1..Len(es) : es[i].id = n }
HasDupEs(es) == \E i \in 1..Len(es) : \E j \in (i+1)..Len(es) : es[i].id = es[j].id
HasDup(p) == HasDupEs(GoodEs(p))
Damaged(p) == (\E i \in 1..Len(p.es) : ~Good(p.es[i])) \/ HasDup(p) \/ Lenient(p)
\* what p says about node n: the sequence numbers of all its well-formed entries for n
SaysEs(es) == [n \in Nodes |-> { es[i].seq : i \in Occ(es, n) }]
Says(p) == SaysEs(GoodEs(p))
Overclaims(p, s) == \E i \in 1..Len(p.es) : Good(p.es[i]) /\ p.es[i].id = Self /\ p.es[i].seq > s
\* sequence numbers of the entries of es (a reading of a vector) that are below the local entry of their node
OlderEntries(es, l) == { es[i].seq : i \in { j \in 1..Len(es) : l[es[j].id] > es[j].seq } }
Vec(p) == [n \in Nodes |->
             LET S == { p.es[i].seq : i \in { j \in 1..Len(p.es) : Good(p.es[j]) /\ p.es[j].id = n } }
             IN  IF S = {} THEN 0 ELSE CHOOSE x \in S : \A y \in S : x >= y]

\* Readings of a vector that names a node more than once. d \in [Nodes -> 1..k]: of the entries for node n
\* the d[n]-th counts. Node ids are distinct in a reading, so the order of its entries is immaterial
\* (Resolve gives it in NodeOrder).
Max1(x) == IF x > 1 THEN x ELSE 1
Rank(es, i) == Cardinality({ j \in 1..i : es[j].id = es[i].id })
LastReading(es) == [n \in Nodes |-> Max1(Cardinality(Occ(es, n)))]
\* (enumerated over the nodes that are named more than once: [Nodes -> 1..k] has k^|Nodes| members)
AllReadings(es) ==
  LET dn == { n \in Nodes : Cardinality(Occ(es, n)) > 1 }
      k == Max1(CHOOSE x \in { Cardinality(Occ(es, n)) : n \in Nodes } :
                  \A y \in { Cardinality(Occ(es, n)) : n \in Nodes } : x >= y)
  IN  { [n \in Nodes |-> IF n \in dn THEN f[n] ELSE 1] :
          f \in { g \in [dn -> 1..k] : \A n \in dn : g[n] <= Cardinality(Occ(es, n)) } }
Resolve(es, d) ==
  LET ns == SelectSeq(NodeOrder, LAMBDA n : Occ(es, n) # {})
  IN  [x \in 1..Len(ns) |-> es[CHOOSE i \in Occ(es, ns[x]) : Rank(es, i) = d[ns[x]]]]

-----------------------------------------------------------------------------
(* sync_handler, following the code *)
\* `if not rsv.node_id: continue`
WithId(es) == SelectSeq(es, HasId)
\* first loop: `if rsv_id == self.self_node_id and rsv_seq > self.self_seq: return`
OverclaimIn(es, s) == \E i \in 1..Len(es) : es[i].id = Self /\ es[i].seq > s
\* second loop: `if lsv_seq < rsv_seq: self.local_sv[rsv_id] = rsv_seq`
RECURSIVE Merge(_, _)
Merge(l, es) == IF es = <<>> THEN l
                ELSE LET e == Head(es)
                     IN  Merge(IF l[e.id] < e.seq THEN [l EXCEPT ![e.id] = e.seq] ELSE l, Tail(es))
\* need_notif: a key local_sv does not have, or an entry where local is ahead
\* the least every implementation must react to: an explicit entry below the local one
Outdated(l, es) == \E i \in 1..Len(es) : l[es[i].id] > es[i].seq
NeedNotif(l, es) == \E i \in 1..Len(es) :
                      \/ (es[i].id # Self /\ l[es[i].id] = 0)
                      \/ l[es[i].id] > es[i].seq
\* rsv_dict as a total function (es is a reading: node ids are distinct; sequence numbers >= 0)
DictOf(es) == Merge(Zero, es)
IdsOf(es) == { es[i].id : i \in 1..Len(es) }
\* aggregate(): agg_sv[id] = max(agg_sv.get(id, 0), seq)        (as it should be)
\*              agg_sv[id] = max(local_sv.get(id, 0), seq)      (as it is: deviation "aggLocal")
Aggregate(a, l, es) ==
  IF "aggLocal" \in Dev
  THEN [n \in Nodes |-> IF n \in IdsOf(es) THEN MaxI(l[n], DictOf(es)[n]) ELSE a[n]]
  ELSE MaxV(a, DictOf(es))
\* entries merged before the TypeError of deviation "noSeq"
FirstNoSeq(es) == CHOOSE i \in 1..Len(es) : ~HasSeq(es[i]) /\ \A j \in 1..(i-1) : HasSeq(es[j])
BeforeNoSeq(es) == SubSeq(es, 1, FirstNoSeq(es) - 1)

NoPkt == [k |-> "nil", es |-> <<>>]
NoMem == [rej |-> NoPkt, acc |-> NoPkt]
Mem(p, acc) == mem' = (IF Remember /\ Decodable(p)
                       THEN (IF acc THEN [mem EXCEPT !.acc = p] ELSE [mem EXCEPT !.rej = p])
                       ELSE mem)
NoHint == [t |-> -1, s |-> "any"]
Hinted == IF UseHint THEN TRUE ELSE hint' = NoHint         \* first conjunct of every action
AnyTimer == IF hint'.t = -1 THEN 0..MaxT ELSE {hint'.t} \cap 0..MaxT
AnyEnter == IF hint'.s = "any" THEN BOOLEAN ELSE {hint'.s = "Suppress"}
SupTimers(j) == IF Mode = "impl" THEN {SupBase + j} ELSE AnyTimer
SyncTimers(j) == IF Mode = "impl" THEN {SyncBase + j} ELSE AnyTimer
KeepTimer == IF Mode = "impl" THEN {timer} ELSE AnyTimer
Count == nev' = IF MaxEv = 0 THEN 0 ELSE nev + 1
More == MaxEv = 0 \/ nev < MaxEv

(* sync_handler reads and writes local_sv, self_seq (through the callback), state and agg_sv (history: heard).
   Its effect is written as a function of that part of the state, so that it can be applied to the
   current state (RecvSV) and to the state n calls of new_data() have just left (PublishThenRecv). *)
Cur == [local |-> local, selfSeq |-> selfSeq, state |-> state, heard |-> heard, agg |-> agg]
Published(n) == [local |-> [local EXCEPT ![Self] = selfSeq + n], selfSeq |-> selfSeq + n,
                 state |-> "Steady", heard |-> Zero, agg |-> Zero]

\* last.sup: the step started in Suppress
\* last.pn: publications made in the step before the packet was handled (PublishThenRecv; what the packet
\*          over-claims, which entries are older ... is judged on the published state s)
\* es: the reading of p the step took (meaningful when acc). For a vector that names a node twice (dup):
\*   rdg     the accepted vector v is a reading of what the packet says: for every node one of the sequence
\*           numbers the packet lists for it (0 for a node it does not list)
\*   notmax  ... and not the entry-wise largest reading
\*   och     p over-claims, but not in the entries a reader who keeps the last entry of every node sees
\* again / againA: p is the packet most recently ignored / accepted
LastRecvOn(s, a, pn, p, acc, r, es) ==
  LET ges == GoodEs(p)
      dup == HasDupEs(ges)
      older == OlderEntries(es, s.local)
      oc == Overclaims(p, s.selfSeq)
      v == IF acc /\ dup THEN Merge(Zero, es) ELSE Vec(p)
  IN  [a |-> a, n |-> r, pn |-> pn, acc |-> acc, dec |-> Decodable(p), ne |-> Len(p.es),
       dmg |-> (dup \/ Lenient(p) \/ \E i \in 1..Len(p.es) : ~Good(p.es[i])), len |-> Lenient(p),
       oc |-> oc, v |-> v, sup |-> (state = "Suppress"),
       old |-> older # {}, old0 |-> 0 \in older,
       dup |-> dup,
       rdg |-> ((acc /\ dup) => \A n \in Nodes : LET S == SaysEs(ges)[n]
                                                  IN  IF S = {} THEN v[n] = 0 ELSE v[n] \in S),
       notmax |-> (acc /\ dup /\ Newer(Vec(p), v)),
       och |-> (dup /\ oc /\ LET lst == Resolve(ges, LastReading(ges))
                             IN  ~(\E i \in 1..Len(lst) : lst[i].id = Self /\ lst[i].seq > s.selfSeq)),
       again |-> (Remember /\ p = mem.rej), againA |-> (Remember /\ p = mem.acc)]
LastOther(a, n) == [a |-> a, n |-> n, pn |-> 0, acc |-> FALSE, dec |-> FALSE, ne |-> 0, dmg |-> FALSE, len |-> FALSE, oc |-> FALSE, v |-> Zero,
                    sup |-> (state = "Suppress"), old |-> FALSE, old0 |-> FALSE,
                    dup |-> FALSE, rdg |-> TRUE, notmax |-> FALSE, och |-> FALSE, again |-> FALSE, againA |-> FALSE]

(* What the handler leaves behind: the new values of the variables it owns, and
     tk      what it did to next_sync_timing: "same" untouched (also in Mode "open"), "keep" untouched
             (Mode "open": C18 does not fix it), "sup" / "sync" a fresh suppression / periodic timer
     missed  on_missing_data calls
     cb      publications made inside the callback (they are announced at once: the caller decides how) *)
HRes(l, q, st, h, a, tk, ms, cb) ==
  [local |-> l, selfSeq |-> q, state |-> st, heard |-> h, agg |-> a, tk |-> tk, missed |-> ms, cb |-> cb]
TimerOf(tk, j) == IF tk = "same" THEN {timer} ELSE IF tk = "keep" THEN KeepTimer
                  ELSE IF tk = "sup" THEN SupTimers(j) ELSE SyncTimers(j)
\* m sync Interests for a burst of publications that ends at own sequence number q (vector l): the last one
\* carries the final vector
BurstOuts(l, q, ms) == { IF m = 0 THEN <<>> ELSE [i \in 1..m |-> [l EXCEPT ![Self] = q - m + i]] : m \in ms }

HIgnore(s) == { HRes(s.local, s.selfSeq, s.state, s.heard, s.agg, "keep", 0, 0) }

\* es: the reading of p that counts.
\* The callback runs last: r > 0 publications inside it (new_data: own entry, state Steady,
\* next_sync_timing = 0) override whatever the handler decided about suppression and timers,
\* and on_timer wakes up at once
HProcess(s, r, es) ==
  LET l2 == Merge(s.local, es)
      ms == IF l2 # s.local THEN 1 ELSE 0
  IN  IF r > 0 /\ l2 # s.local
      THEN { HRes([l2 EXCEPT ![Self] = s.selfSeq + r], s.selfSeq + r, "Steady", Zero, Zero, "sync", 1, r) }
      ELSE IF s.state = "Steady"
      THEN { IF en THEN HRes(l2, s.selfSeq, "Suppress", DictOf(es), DictOf(es), "sup", ms, 0)
                   ELSE HRes(l2, s.selfSeq, "Steady", Zero, Zero, "sync", ms, 0) :
             en \in (IF Mode = "impl" THEN {NeedNotif(s.local, es)}
                     ELSE IF Outdated(s.local, es) THEN {TRUE} ELSE AnyEnter) }
      ELSE { HRes(l2, s.selfSeq, "Suppress", MaxV(s.heard, DictOf(es)), Aggregate(s.agg, l2, es), "keep", ms, 0) }

DevNoSeqEnabled(s, p) ==
  /\ "noSeq" \in Dev /\ p.k = "sv"
  /\ LET es == WithId(p.es) IN
       /\ \E i \in 1..Len(es) : ~HasSeq(es[i])
       /\ ~OverclaimIn(es, s.selfSeq)
       /\ ~(\E i \in 1..Len(es) : es[i].id = Self /\ ~HasSeq(es[i]))   \* that one fails in the first loop
       /\ Merge(s.local, BeforeNoSeq(es)) # s.local                    \* otherwise same as "reject"

HDevNoSeq(s, p) ==
  { HRes(Merge(s.local, BeforeNoSeq(WithId(p.es))), s.selfSeq, s.state, s.heard, s.agg, "same", 0, 0) }

RecvChoices(s, p) ==
  {"norm"} \cup (IF Decodable(p) /\ ~OverclaimIn(WithId(p.es), s.selfSeq)
                    /\ (IF Mode = "impl" THEN Lenient(p) \/ \E i \in 1..Len(p.es) : HasId(p.es[i]) /\ ~HasSeq(p.es[i])
                                         ELSE Damaged(p))
                 THEN {"reject"} ELSE {})
           \cup (IF DevNoSeqEnabled(s, p) THEN {"devNoSeq"} ELSE {})

\* nothing of p can be taken: not a state vector, no entry, or it over-claims
Hopeless(s, p) == p.k \notin {"sv", "svl"} \/ p.es = <<>> \/ OverclaimIn(WithId(p.es), s.selfSeq)

\* sync_handler on s, choice c (\in RecvChoices(s, p)), r publications inside the callback:
\* the set of [h |-> what it leaves behind, es |-> the reading of p it took, acc |-> p was accepted]
Handle(s, p, c, r) ==
  LET hopeless == Hopeless(s, p)
      ges == GoodEs(p)
      dup == HasDupEs(ges)
      ds == IF ~dup THEN {[n \in Nodes |-> 1]}
            ELSE IF Mode = "impl" \/ hopeless \/ c # "norm" THEN {LastReading(ges)} ELSE AllReadings(ges)
  IN  UNION { LET es == IF dup THEN Resolve(ges, d) ELSE ges
                  raises == ~hopeless /\ Merge(s.local, es) # s.local
              IN  \* the reaction is part of the stimulus only where the callback can fire
                  IF (raises \/ r = 0) /\ s.selfSeq + r <= MaxSeq
                  THEN (IF c = "devNoSeq" THEN { [h |-> x, es |-> ges, acc |-> FALSE] : x \in HDevNoSeq(s, p) }
                        ELSE IF hopeless \/ c = "reject" THEN { [h |-> x, es |-> ges, acc |-> FALSE] : x \in HIgnore(s) }
                        ELSE { [h |-> x, es |-> es, acc |-> TRUE] : x \in HProcess(s, r, es) })
                  ELSE {} :
              d \in ds }

\* the jitter parameter is part of the stimulus; it is fixed to 0 where no choice can sample a timer
RecvSV(p, j, c, r) ==
  /\ Hinted
  /\ More /\ Count
  /\ c \in RecvChoices(Cur, p)
  /\ (Hopeless(Cur, p) \/ state = "Suppress") => j = 0
  /\ \E x \in Handle(Cur, p, c, r) :
       /\ local' = x.h.local /\ selfSeq' = x.h.selfSeq
       /\ state' = x.h.state /\ heard' = x.h.heard /\ agg' = x.h.agg
       /\ timer' \in TimerOf(x.h.tk, j)
       /\ missed' = x.h.missed
       /\ out' \in BurstOuts(x.h.local, x.h.selfSeq,
                             IF x.h.cb = 0 THEN {0} ELSE IF Mode = "impl" THEN {1} ELSE 1..x.h.cb)
       /\ last' = LastRecvOn(Cur, "RecvSV", 0, p, x.acc, r, x.es)
       /\ Mem(p, x.acc)

(* new_data() n times, then sync_handler, and only then the timer task: the handler finds the state the
   publications left (Steady, own entry raised, next_sync_timing = 0) and must leave the pending
   announcement alone. e: "late" the Interest(s) go out after the packet was handled (on_timer's wake-up:
   they carry the merged vector, callback publications included; the expiry branch also ends a suppression
   period the packet has just started - Mode "open": or the period goes on); "early" (Mode "open" only) they
   went out with the publication, the rest is RecvSV on the published state. *)
PublishThenRecv(n, p, j, c, r, e) ==
  /\ Hinted
  /\ More /\ Count
  /\ selfSeq + n <= MaxSeq
  /\ e \in (IF Mode = "impl" THEN {"late"} ELSE {"late", "early"})
             \cup (IF "postponed" \in Dev THEN {"devPostponed"} ELSE {})
  /\ c \in RecvChoices(Published(n), p)
  /\ \E x \in Handle(Published(n), p, c, r) :
       /\ local' = x.h.local /\ selfSeq' = x.h.selfSeq
       /\ missed' = x.h.missed
       \* the deviation needs a handler that set next_sync_timing, and no publication after that
       /\ e = "devPostponed" => (x.h.tk \in {"sup", "sync"} /\ x.h.cb = 0)
       /\ \E st \in (IF e \in {"early", "devPostponed"} THEN {x.h.state}
                     ELSE IF Mode = "impl" THEN {"Steady"} ELSE {"Steady", x.h.state}) :
            /\ state' = st
            /\ heard' = (IF st = "Steady" THEN Zero ELSE x.h.heard)
            /\ agg' = (IF st = "Steady" THEN Zero ELSE x.h.agg)
       /\ timer' \in (IF e = "devPostponed" THEN TimerOf(x.h.tk, j) ELSE SyncTimers(j))
       /\ IF e = "devPostponed"
          THEN out' = <<>>
          ELSE IF e = "late"
          THEN out' \in BurstOuts(x.h.local, x.h.selfSeq, IF Mode = "impl" THEN {1} ELSE 1..(n + x.h.cb))
          ELSE \E o1 \in BurstOuts(Published(n).local, selfSeq + n, 1..n) :
                 \E o2 \in BurstOuts(x.h.local, x.h.selfSeq, IF x.h.cb = 0 THEN {0} ELSE 1..x.h.cb) :
                   out' = o1 \o o2
       /\ last' = LastRecvOn(Published(n), "PublishThenRecv", n, p, x.acc, r, x.es)
       /\ Mem(p, x.acc)

(* on_timer, TimeoutError branch *)
FireChoices ==
  IF state = "Suppress"
  THEN {"norm"} \cup (IF "aggLocal" \in Dev /\ Newer(local, heard) # Newer(local, agg) THEN {"devAgg"} ELSE {})
  ELSE {"norm"} \cup (IF Mode = "impl" THEN {} ELSE {"skip"})

TimerFire(j, c) ==
  /\ Hinted
  /\ More /\ Count
  /\ timer = 0
  /\ c \in FireChoices
  /\ LET necessary == IF state = "Suppress"
                      THEN (IF c = "devAgg" THEN Newer(local, agg) ELSE Newer(local, heard))
                      ELSE c = "norm"
     IN  out' = (IF necessary THEN <<local>> ELSE <<>>)
  /\ state' = "Steady" /\ heard' = Zero /\ agg' = Zero
  /\ timer' \in SyncTimers(j)
  /\ missed' = 0
  /\ UNCHANGED <<local, selfSeq, mem>>
  /\ last' = LastOther("TimerFire", 0)

(* new_data() n times in one loop turn, then on_timer wakes up with next_sync_timing = 0 *)
Publish(n, j, m) ==
  /\ Hinted
  /\ More /\ Count
  /\ selfSeq + n <= MaxSeq
  /\ m \in (IF Mode = "impl" THEN {1} ELSE 1..n)        \* number of sync Interests
  /\ selfSeq' = selfSeq + n
  /\ local' = [local EXCEPT ![Self] = selfSeq + n]
  /\ out' = [i \in 1..m |-> [local EXCEPT ![Self] = selfSeq + n - m + i]]
  /\ state' = "Steady" /\ heard' = Zero /\ agg' = Zero
  /\ timer' \in SyncTimers(j)
  /\ missed' = 0
  /\ UNCHANGED mem
  /\ last' = LastOther("Publish", n)

Tick(d) ==
  /\ Hinted
  /\ More /\ Count
  /\ d \in 1..timer
  /\ TickEnds => d >= timer - 1
  /\ timer' = timer - d
  /\ out' = <<>> /\ missed' = 0
  /\ UNCHANGED <<local, selfSeq, state, heard, agg, mem>>
  /\ last' = LastOther("Tick", 0)

InitWith(s0, t0) ==
  /\ selfSeq = s0
  /\ local = [Zero EXCEPT ![Self] = s0]
  /\ state = "Steady" /\ heard = Zero /\ agg = Zero
  /\ timer = t0
  /\ out = <<>> /\ missed = 0
  /\ last = [LastOther("Init", 0) EXCEPT !.sup = FALSE]
  /\ nev = 0
  /\ mem = NoMem
  /\ hint = NoHint

JitterSet == IF Mode = "impl" THEN Jitter ELSE {0}
\* (the replay graph - TickEnds - varies the jitter sample with RecvSV / Publish / TimerFire; PublishThenRecv takes the smallest)
PreJitterSet == IF TickEnds THEN {CHOOSE x \in JitterSet : \A y \in JitterSet : x <= y} ELSE JitterSet
Init == \E s0 \in InitSeqs : \E j \in JitterSet :
          \E t0 \in (IF Mode = "impl" THEN {SyncBase + j} ELSE 0..MaxT) : InitWith(s0, t0)

\* (choices are quantified over constant sets and filtered inside the actions so that TLC labels
\*  every transition with the action name and all its parameters)
Next == \/ \E p \in Packets, j \in JitterSet, c \in {"norm", "reject", "devNoSeq"}, r \in 0..MaxReact : RecvSV(p, j, c, r)
        \/ \E j \in JitterSet, c \in {"norm", "skip", "devAgg"} : TimerFire(j, c)
        \/ \E n \in 1..MaxBurst, j \in JitterSet, m \in 1..MaxBurst : Publish(n, j, m)
        \/ \E d \in 1..MaxT : Tick(d)
        \/ \E n \in 1..MaxPre, p \in PrePackets, j \in PreJitterSet, c \in {"norm", "reject", "devNoSeq"}, r \in 0..MaxReact,
              e \in {"late", "early", "devPostponed"} : PublishThenRecv(n, p, j, c, r, e)

Spec == Init /\ [][Next]_vars

-----------------------------------------------------------------------------
(* Properties of C18 (action properties: they relate a state to its successor) *)
IsRecv == last'.a = "RecvSV"
\* n publications, then a packet handled before the timer task ran
IsPTR == last'.a = "PublishThenRecv"
\* ... what the publications alone leave behind
PubSeq == selfSeq + last'.pn
PubLocal == [local EXCEPT ![Self] = PubSeq]
CbPubPTR == IsPTR /\ missed' = 1 /\ last'.n > 0
\* the application published inside the missing-data callback of this step
CbPub == IsRecv /\ missed' = 1 /\ last'.n > 0
Others == Nodes \ {Self}

TypeOK == /\ local \in [Nodes -> 0..MaxSeq] /\ heard \in [Nodes -> 0..MaxSeq] /\ agg \in [Nodes -> 0..MaxSeq]
          /\ selfSeq \in 0..MaxSeq /\ state \in {"Steady", "Suppress"} /\ timer \in 0..MaxT
          /\ missed \in {0, 1}
OwnEntry == local[Self] = selfSeq
SteadyForgets == state = "Steady" => heard = Zero

\* "it never decreases"
Monotone == [][\A n \in Nodes : local'[n] >= local[n]]_vars

\* "the local state vector is the entry-wise maximum of its previous value and every accepted
\*  received vector"; a decodable, undamaged vector that does not over-claim must be accepted,
\*  an undecodable or over-claiming one must not, and nothing but RecvSV / Publish moves the vector;
\*  the accepted vector last'.v is what the packet says (Vec) - for a packet that names a node more than
\*  once, one of its readings (last'.rdg)
EntrywiseMax ==
  [][ /\ (IsRecv /\ last'.acc) => local' = [MaxV(local, last'.v) EXCEPT ![Self] = selfSeq']
      /\ (IsRecv /\ last'.acc) => last'.rdg
      /\ (IsRecv /\ ~CbPub) => selfSeq' = selfSeq
      /\ (IsRecv /\ ~last'.acc) => local' = local
      /\ (IsRecv /\ last'.dec /\ ~last'.dmg /\ ~last'.oc) => last'.acc
      /\ (IsRecv /\ (~last'.dec \/ last'.oc)) => ~last'.acc
      /\ last'.a \in {"TimerFire", "Tick"} => local' = local ]_vars

\* "a vector claiming more data for this node than it has produced is ignored entirely"
OverclaimIgnored ==
  [][ (IsRecv /\ last'.oc) =>
        /\ local' = local /\ selfSeq' = selfSeq /\ state' = state /\ heard' = heard
        /\ missed' = 0 /\ out' = <<>> ]_vars

\* "the missing-data callback fires for a received vector iff that vector raised some entry"
MissingIffRaised ==
  [][ /\ missed' \in {0, 1}
      /\ (IsRecv \/ IsPTR) => (missed' = 1 <=> \E n \in Others : local'[n] # local[n])
      /\ ~(IsRecv \/ IsPTR) => missed' = 0 ]_vars

\* the publish clause for publications made inside the missing-data callback (re-entrancy)
CallbackPublishEmits ==
  [][ CbPub =>
        /\ selfSeq' = selfSeq + last'.n
        /\ local'[Self] = selfSeq'
        /\ out' # <<>> /\ out'[Len(out')] = local' ]_vars

\* "publishing increases the own sequence number by one [per publication] and promptly [in the
\*  same instant] emits a sync Interest carrying the full vector"
PublishEmitsFullVector ==
  [][ last'.a = "Publish" =>
        /\ selfSeq' = selfSeq + last'.n
        /\ local' = [local EXCEPT ![Self] = selfSeq']
        /\ out' # <<>> /\ out'[Len(out')] = local' ]_vars

\* the clauses above for a packet handled right after n publications, before the timer task ran: the
\* publications count first (own entry; an over-claim is judged against the published sequence number; they
\* end a suppression period), then the vector is merged
PublishThenRecvMerges ==
  [][ IsPTR =>
        /\ selfSeq' = (IF CbPubPTR THEN PubSeq + last'.n ELSE PubSeq)
        /\ last'.acc => (local' = [MaxV(PubLocal, last'.v) EXCEPT ![Self] = selfSeq'] /\ last'.rdg)
        /\ ~last'.acc => (local' = PubLocal /\ missed' = 0)
        /\ (last'.dec /\ ~last'.dmg /\ ~last'.oc) => last'.acc
        /\ (~last'.dec \/ last'.oc) => ~last'.acc
        /\ last'.oc => (state' = "Steady" /\ heard' = Zero) ]_vars

\* "publishing ... promptly emits a sync Interest carrying the full vector" - also when a sync Interest is
\* handled before the timer task gets to run: within the step; every Interest carries a full vector (own
\* entry: one of the published sequence numbers; the others as they were before or after the merge); the
\* last one carries the final own sequence number and either the final vector or - announced before the
\* packet was handled - the vector as published
PublishThenRecvAnnounces ==
  [][ IsPTR =>
        /\ out' # <<>>
        /\ \A i \in 1..Len(out') :
              /\ out'[i][Self] \in (selfSeq + 1)..selfSeq'
              /\ \A n \in Others : out'[i][n] \in {local[n], local'[n]}
        /\ \/ out'[Len(out')] = local'
           \/ (~CbPubPTR /\ out'[Len(out')] = PubLocal) ]_vars

\* heard is the merge of the vectors accepted since the state became Suppress
HeardIsMerge ==
  [][ /\ (IsRecv /\ last'.acc /\ state' = "Suppress") =>
            heard' = (IF state = "Suppress" THEN MaxV(heard, last'.v) ELSE last'.v)
      /\ (IsPTR /\ state' = "Suppress") => (last'.acc /\ heard' = last'.v)
      /\ (IsRecv /\ ~last'.acc) => heard' = heard
      /\ (IsRecv /\ state = "Suppress" /\ ~CbPub) => state' = "Suppress"
      /\ last'.a = "Tick" => (heard' = heard /\ state' = state) ]_vars

\* "after a suppression period a sync Interest is emitted iff the local vector is newer in some
\*  entry than the merge of the vectors heard during that period"
SuppressionDecision ==
  [][ (last'.a = "TimerFire" /\ state = "Suppress") =>
        /\ (out' # <<>>) <=> Newer(local, heard)
        /\ state' = "Steady" ]_vars

\* "announces exactly when needed": an accepted vector that explicitly carries an entry below the
\* local one (value 0 included) and is heard in Steady starts a suppression period
OutdatedStartsSuppression ==
  [][ (IsRecv /\ last'.acc /\ last'.old /\ state = "Steady" /\ ~CbPub) => state' = "Suppress" ]_vars

\* whatever is emitted at an expiry is one Interest carrying the full local vector; nothing is
\* emitted by Tick, nor by RecvSV unless the application published inside the callback
EmitsOnlyLocal ==
  [][ /\ last'.a = "TimerFire" => (out' = <<>> \/ out' = <<local'>>)
      /\ (last'.a = "Tick" \/ (IsRecv /\ ~CbPub)) => out' = <<>> ]_vars

-----------------------------------------------------------------------------
(* Two more observables of a step, defined from the model's own variables (SvsTrace and the replay
   compare them with what the executor saw):
   PublishedSeqs  the values new_data() returned during the step - applications name their data by
                  them, so they must be the sequence numbers the vector announces: selfSeq+1 .. selfSeq'
   CallbackSaw    local_sv as an application sees it inside on_missing_data: the received vector is
                  merged completely before the callback fires "for that vector" (the own entry still
                  has its old value - after the publications of PublishThenRecv: those were made
                  before the packet was handled - publications made inside the callback come after)  *)
PublishedSeqs == [i \in 1..(selfSeq' - selfSeq) |-> selfSeq + i]
CallbackSaw == IF missed' = 1 THEN <<[local' EXCEPT ![Self] = selfSeq + last'.pn]>> ELSE <<>>

-----------------------------------------------------------------------------
(* Vacuity witnesses. The situations the properties talk about must occur; because the properties
   are action properties the witnesses are too: Witnesses always holds and prints <<"WITNESS", name>>
   the first time (per worker) a transition of the kind is seen. The check fails as vacuous if a
   name is never printed.                                                                    *)
WitnessNames == <<"SupEmit", "SupNoEmit", "OverclaimWouldRaise", "Incomparable", "OlderNoCallback",
                  "DamagedAccepted", "DamagedRejected", "UndecodableInSup", "Burst", "PublishInSup",
                  "SteadyEmit", "HeardInSup", "EnterSup", "ActRecvSV", "ActPublish", "ActTimerFire", "ActTick",
                  "OutdatedZero", "CallbackPublish", "CallbackPublishInSup", "CallbackPublishTwice",
                  "DupAccepted", "DupOverclaimHidden", "DupNotMax", "AgainAccepted", "AgainOutdated",
                  "ActPublishThenRecv", "PTRNotOutdated", "PTROutdated", "PTRRaises", "PTRCallbackPublish",
                  "PTRInSup", "PTRCaughtUp", "PTRStillOverclaims", "PTRIgnored", "LenientAccepted", "LenientRejected",
                  "ManyEntries", "ManyEntriesOutdated", "HighSeqPublish", "HighSeqMerged", "HighSeqSupEmit">>
WBase == 9000
ASSUME \A i \in 1..Len(WitnessNames) : TLCSet(WBase + i, 0)
Seen(i, cond) == (cond /\ TLCGet(WBase + i) = 0) => (PrintT(<<"WITNESS", WitnessNames[i]>>) /\ TLCSet(WBase + i, 1))
Witnesses ==
  [][ /\ Seen(1, last'.a = "TimerFire" /\ state = "Suppress" /\ out' # <<>>)
      /\ Seen(2, last'.a = "TimerFire" /\ state = "Suppress" /\ out' = <<>>)
      /\ Seen(3, IsRecv /\ last'.oc /\ Newer(last'.v, local))
      /\ Seen(4, IsRecv /\ last'.acc /\ missed' = 1 /\ Newer(local, last'.v))
      /\ Seen(5, IsRecv /\ last'.acc /\ missed' = 0 /\ Newer(local, last'.v))
      /\ Seen(6, IsRecv /\ last'.dmg /\ last'.acc /\ missed' = 1)
      /\ Seen(7, IsRecv /\ last'.dmg /\ last'.dec /\ ~last'.oc /\ ~last'.acc)
      /\ Seen(8, IsRecv /\ ~last'.dec /\ state = "Suppress")
      /\ Seen(9, last'.a = "Publish" /\ last'.n >= 2)
      /\ Seen(10, last'.a = "Publish" /\ state = "Suppress")
      /\ Seen(11, last'.a = "TimerFire" /\ state = "Steady" /\ out' # <<>>)
      /\ Seen(12, IsRecv /\ last'.acc /\ state = "Suppress" /\ heard' # heard)
      /\ Seen(13, IsRecv /\ state = "Steady" /\ state' = "Suppress")
      /\ Seen(14, IsRecv)
      /\ Seen(15, last'.a = "Publish")
      /\ Seen(16, last'.a = "TimerFire")
      /\ Seen(17, last'.a = "Tick")
      /\ Seen(18, IsRecv /\ last'.acc /\ last'.old0 /\ state = "Steady" /\ state' = "Suppress")
      /\ Seen(19, CbPub /\ state = "Steady")
      /\ Seen(20, CbPub /\ state = "Suppress")
      /\ Seen(21, CbPub /\ last'.n >= 2)
      \* a vector naming a node twice is merged and raises an entry
      /\ Seen(22, IsRecv /\ last'.dup /\ last'.acc /\ missed' = 1)
      \* a vector that over-claims in an entry that is not the last one for this node, and would raise another entry
      /\ Seen(23, IsRecv /\ last'.och /\ \E n \in Others : last'.v[n] > local[n])
      \* a reading that does not take the largest entry of a node (what the library does: the last entry counts)
      /\ Seen(24, IsRecv /\ last'.notmax)
      \* (Remember only) the vector that was ignored last time is repeated and now raises an entry
      /\ Seen(25, IsRecv /\ last'.again /\ last'.acc /\ missed' = 1)
      \* (Remember only) the vector that was accepted last time is repeated, is outdated now and starts suppression
      /\ Seen(26, IsRecv /\ last'.againA /\ last'.acc /\ last'.old /\ state = "Steady" /\ state' = "Suppress")
      \* (MaxPre > 0 only) a packet handled between n publications and the run of the timer task:
      /\ Seen(27, IsPTR)
      \* ... an accepted vector that is not outdated for the published state (sync.py: the branch that restarts the periodic timer)
      /\ Seen(28, IsPTR /\ last'.acc /\ ~last'.old /\ missed' = 0)
      \* ... one that is (sync.py: the branch that enters suppression)
      /\ Seen(29, IsPTR /\ last'.acc /\ last'.old)
      /\ Seen(30, IsPTR /\ missed' = 1)
      /\ Seen(31, CbPubPTR)
      /\ Seen(32, IsPTR /\ state = "Suppress" /\ last'.acc)
      \* ... a vector that over-claimed before the publications and does not after them
      /\ Seen(33, IsPTR /\ last'.acc /\ last'.v[Self] > selfSeq)
      /\ Seen(34, IsPTR /\ last'.oc)
      /\ Seen(35, IsPTR /\ ~last'.dec)
      \* (alphabets with kind "svl") a vector in a non-canonical encoding is read and raises an entry / is ignored
      /\ Seen(36, IsRecv /\ last'.len /\ last'.acc /\ missed' = 1)
      /\ Seen(37, IsRecv /\ last'.len /\ last'.dec /\ ~last'.oc /\ ~last'.acc)
      \* (scale: recorded executions of large groups / with sequence numbers in the high class only)
      \* a vector of many entries is merged and raises an entry / is outdated and starts a suppression period
      /\ Seen(38, IsRecv /\ last'.ne >= ManyEs /\ last'.acc /\ missed' = 1)
      /\ Seen(39, IsRecv /\ last'.ne >= ManyEs /\ last'.acc /\ last'.old /\ state = "Steady" /\ state' = "Suppress")
      \* a publication beyond HiSeq is announced; a peer's entry beyond HiSeq is merged; a suppression period
      \* ends with a sync Interest that carries an entry beyond HiSeq
      /\ Seen(40, last'.a = "Publish" /\ selfSeq >= HiSeq /\ out' # <<>>)
      /\ Seen(41, IsRecv /\ last'.acc /\ missed' = 1 /\ \E n \in Others : local'[n] > local[n] /\ local'[n] >= HiSeq)
      /\ Seen(42, last'.a = "TimerFire" /\ state = "Suppress" /\ out' # <<>> /\ \E n \in Nodes : local[n] >= HiSeq) ]_vars
=============================================================================
