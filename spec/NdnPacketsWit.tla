----------------------------- MODULE NdnPacketsWit -----------------------------
(* Vacuity witnesses for the laws of NdnPackets over NdnPacketsCfg!CfgSpace: every situation
   below must occur in the enumerated space (the harness fails the run as vacuous otherwise). *)
EXTENDS NdnPacketsCfg
Made(c) == ~Refuses(c)
Wit(Q(_)) == \E c \in CfgSpace : Q(c)
OuterNarrows3to1(c) == Made(c) /\ NumSize(Reserved(c).len) = 3 /\ NumSize(Final(c).len) = 1
OuterNarrows5to3(c) == Made(c) /\ NumSize(Reserved(c).len) = 5 /\ NumSize(Final(c).len) = 3
Hit253After(c) == Made(c) /\ Reserved(c).len > 253 /\ Final(c).len = 253
Hit65536Before(c) == Made(c) /\ Reserved(c).len = 65536 /\ Final(c).len < 65536
Hit65536After(c) == Made(c) /\ Reserved(c).len > 65536 /\ Final(c).len = 65536
EmptySig(c) == Made(c) /\ c.sg.r > 0 /\ c.sg.a = 0
PdNotLast(c) == Made(c) /\ IsInterest(c) /\ Signed(c) /\ \E i \in 1..(Len(c.name) - 1) : c.name[i].t = 2
RefShrink(c) == RefusesShrink(c)
RefName(c) == RefusesName(c)
EitherRegion(c) == Made(c) /\ Signed(c) /\ \E i \in 1..Len(Regions(c)) : Regions(c)[i].sig = "either" /\ Regions(c)[i].reg = "preCoverField"
EditEither(c) == Made(c) /\ Signed(c) /\ \E e \in Edits(c) : e.op = "ins" /\ e.sig = "either" /\ e.i > 1
NameLen253(c) == Made(c) /\ Final(c).kids[1].len = 253
BadPlaceholder(c) == BadPd(c)
ContentLen65536(c) == Made(c) /\ (c.content = 65536 \/ c.app = 65536)
\* every algorithm of the library meets the value-class edits of its signature value; ECDSA the DER re-encodings
SvClassAll == \A k \in SvRawKinds : \E c \in CfgSpace : Made(c) /\ c.sg.kind = k /\ \A op \in SvClassOps :
                 \E e \in Edits(c) : e.op = op /\ e.need = SvNeed(op) /\ e.need # "any" /\ e.sig = "reject"
SvDerAll == \A k \in Kinds : \E c \in CfgSpace : Made(c) /\ c.kind = k /\ c.sg.kind = "ecdsa" /\ \A op \in SvDerOps \cup {"svtzcut"} :
                 \E e \in Edits(c) : e.op = op /\ e.sig = "reject"
\* representations: a delegation given as a tuple of exactly two components (the shape of a 0.2 (preference, name) pair), an
\* empty tuple, and every form x every count 0..2 at every name position (packet name of both kinds, delegation, KeyLocator)
TupleOfTwo(c) == Made(c) /\ \E i \in 1..Len(c.rep.fh) : c.rep.fh[i].box = "tuple" /\ Len(c.fh[i]) = 2
EmptyTupleHint(c) == Made(c) /\ \E i \in 1..Len(c.rep.fh) : c.rep.fh[i].box = "tuple" /\ Len(c.fh[i]) = 0
MixedHintForms(c) == Made(c) /\ Len(c.rep.fh) = 2 /\ c.rep.fh[1] = [box |-> "list", item |-> "bytes"] /\ c.rep.fh[2].box = "tuple"
FormsEverywhere == \A f \in NameForms, n \in 0..2 :
   /\ \A k \in Kinds : \E c \in CfgSpace : Made(c) /\ c.kind = k /\ c.rep.name = f /\ Len(c.name) = n
   /\ \E c \in CfgSpace : Made(c) /\ \E i \in 1..Len(c.rep.fh) : c.rep.fh[i] = f /\ Len(c.fh[i]) = n
   /\ \A k \in Kinds : \E c \in CfgSpace : Made(c) /\ c.kind = k /\ c.sg.haskl /\ c.rep.kl = f /\ Len(c.sg.kl) = n
BinFormsAll == \A x \in BinForms : (\E c \in CfgSpace : Made(c) /\ c.rep.fbi = x /\ c.meta.fbi >= 0)
                                   /\ (\A k \in Kinds : \E c \in CfgSpace : Made(c) /\ c.kind = k /\ c.rep.pay = x)
ASSUME PrintT(<<"WITNESSES",
  [OuterNarrows3to1 |-> Wit(OuterNarrows3to1), OuterNarrows5to3 |-> Wit(OuterNarrows5to3),
   Hit253After |-> Wit(Hit253After), Hit65536Before |-> Wit(Hit65536Before), Hit65536After |-> Wit(Hit65536After),
   EmptySig |-> Wit(EmptySig), PdNotLast |-> Wit(PdNotLast), RefuseShrink |-> Wit(RefShrink), RefuseName |-> Wit(RefName),
   EitherRegion |-> Wit(EitherRegion), EditEither |-> Wit(EditEither), NameLen253 |-> Wit(NameLen253),
   ContentLen65536 |-> Wit(ContentLen65536), BadPlaceholder |-> Wit(BadPlaceholder),
   SvClassAll |-> SvClassAll, SvDerAll |-> SvDerAll,
   TupleOfTwo |-> Wit(TupleOfTwo), EmptyTupleHint |-> Wit(EmptyTupleHint), MixedHintForms |-> Wit(MixedHintForms),
   FormsEverywhere |-> FormsEverywhere, BinFormsAll |-> BinFormsAll]>>)
=============================================================================
