------------------------------ MODULE Keychain ------------------------------
(* C15 - KeychainSqlite3 + TpmFile.  Implementation-shaped model:

   * the sqlite connection view `cur` and the committed database `disk` are separate, because the
     code places `commit` after groups of statements and a failing step leaves the transaction open
     (python sqlite3: changes visible on the same connection, lost on close, made durable by the
     next commit of *any* operation);
   * is_default flags are sets of flagged rows, maintained by the three SQL triggers per table;
   * every public operation is a *program*: the sequence of private-key-store / database steps the
     code performs (DESIGN Appendix D).  Step(o) runs the whole program, Fail(o, n) runs the steps
     before the n-th fault point and stops (the step that raises has no effect);
   * keys are slots <<identity, n>>, certificates <<key, 1>> (self-signed, made by new_key),
     <<key, 2>> (imported, issued for this key: its name extends the key's name) and - when CertN = 3 -
     <<key, 3>> (imported, CROSS-FILED: import_cert files a certificate under the key it is told to, whatever
     the certificate's name looks like; this one's name extends the name of ANOTHER key - one that is listed,
     one that was deleted, or one that never existed - as tests/misc/light_versec_test.py files the certificate
     /la issued for /la/author/1 under /la's key).  Nothing in the model depends on what a certificate is
     called: the key a signer belongs to is the key that was SELECTED, never one worked out from a name.
     The executor maps slots to real (random) key names.  The slot a new key
     goes into is a parameter of NewKey / TouchIdentity (o.k): the model checker always takes the lowest
     free one (FreeSlot), a recorded trace may name any free one;

   Deviation flags (TRUE = the library as found, FALSE = intended behaviour = proposed fix):
     DevScope     Identity[...] / Key[...] / `in` are not scoped to the owner
     DevCacheLoc  signer cache keyed by key-locator only
     DevDelKey    del_key: look-up, DB rows, commit, *then* private key, *then* cache reset
                  (intended: cache reset, look-up, private key, DB rows, commit)

     DevKeyId     new_key(key_id = that of a listed key) rewrites the private-key file before the INSERT is
                  refused (intended: KeyError before anything is touched)
     DevDelCertView  Key.del_cert raises AttributeError (calls a method that does not exist)
     DevCertObj   get_signer({'cert': <Certificate object>}) raises KeyError (Certificate.name is wire bytes)
     DevEmptyObj  get_signer({'key': <Key object without certificates>}) / ({'identity': <Identity object
                  without keys>}) is answered as get_signer({}) (an empty Mapping is falsy: "no key given")

   Parameters of the calls that do not change what the call means (same program, same result) but choose
   another public entry point / argument shape; they overload otherwise unused fields of the op record:
     NewKey.by   = "keyid": an explicit key_id is passed - of a fresh slot, of a private-key file left by a
                  failed new_key (the retry), or of a listed key (refused);
     loc = "view" on NewKey / DelKey / DelCert: through Identity.new_key / Identity.del_key / Key.del_cert;
     loc = "ext"  on DelKey / DelCert / DelIdentity: performed by a *second* KeychainSqlite3 on the same
                  store (opened, one call, shut down - e.g. pyndnsec while an application holds the
                  keychain); only when this instance has no transaction open (it would block); this
                  instance's signer cache is not reset by it and the keys go to `xgone`, not `gone`;
     GetSigner.t = "obj": the Identity / Key / Certificate object is passed instead of its name;
     ImportCert.c = the certificate slot filled (NoCert = <<key, 2>>, the form used before CertN existed);
     ImportCert.t (cross-filed slot only) = "xkey": named as a certificate of another key the executor has
                  generated (listed, deleted meanwhile, or orphaned); "xnone": of a key that never existed;
     Fail(o, n, m): m = "call" the private-key-store / database call raises; m = "io" (tpm steps only) the
                  call is made and the file operation inside TpmFile (open / os.remove) raises.

   Interpretations (least likely to alarm on correct code):
     - a key "has been deleted" once a del_key / del_identity covering it returned normally (`gone`);
     - private-key files orphaned by a *failed new_key* are not a violation (nothing was deleted);
     - RetryAfterFailureOk: repeating the failed call right away returns, or raises what the same call
       raises on a fault-free store showing the same contents (KeyError for a missing / already existing
       name; sqlite3.IntegrityError from import_cert when the certificate is already listed, which is
       the case after its INSERT went through and its commit failed), leaves the invariants intact, and for
       deletes leaves nothing of what was beneath the target before the first attempt, including
       private keys.  A retried touch_identity may return an identity without keys.
     - get_signer({'cert': c}) is only quantified for c present in the store or c of a deleted key, and only
       for certificates named after the key they are filed under (OwnNamed): for a cross-filed certificate the
       statement does not settle whether "the selected key" is the owner or the key its name extends (the
       code takes the latter), so it is never asked for by certificate - only through its identity / key,
       where the selected key is beyond doubt.
     - two live instances are not in the statement's quantifier: clause "never a signer for a deleted key"
       is about deletes made through this instance (`gone`).  After a delete by the second instance
       (`xgone`) the model gives the answer of the code: by identity / key the rows are consulted (KeyError),
       by certificate name a signer still in this instance's cache is returned.
     - what get_signer returns is a *value* [key, key locator] (Plan(o, S).res), fixed at the moment it is
       returned: a later call does not change a signer handed out earlier.  The executor keeps the last
       signers it was given and re-probes them (verifying key, key locator) after later GetSigner /
       ImportCert / SetDefCert steps and at the end of a history, for as long as their key exists. *)
EXTENDS Naturals, Sequences, FiniteSets, TLC

CONSTANTS Ids, MaxKeys, CertN, Depth, MaxLevel, MaxFaults, DevScope, DevCacheLoc, DevDelKey,
          DevKeyId, DevDelCertView, DevCertObj, DevEmptyObj
ASSUME CertN \in 2..3

KeyN == 1..MaxKeys
Keys == Ids \X KeyN
Certs == Keys \X (1..CertN)
NoId == "none"
NoKey == <<"none", 0>>
NoCert == <<NoKey, 0>>
Types == {"ec", "rsa"}
\* certificates whose name extends the name of the key they are filed under (slot 3 is cross-filed)
OwnNamed(c) == c[2] <= 2
OwnCerts == {c \in Certs : OwnNamed(c)}

VARIABLE st
(* st = [cur, disk : DB, tpm : SUBSET Keys, cache : SUBSET [loc, key], open : BOOLEAN,
         gone : SUBSET Keys (history: keys covered by a completed delete),
         xgone : SUBSET Keys (history: keys deleted by the second instance), txn : a transaction is open,
         mis : SUBSET Keys (listed keys whose private-key file was overwritten; only with DevKeyId),
         n : calls made (only counted when Depth > 0), nf : faults injected so far]
   The key type (EC / RSA) is a parameter of NewKey only: no step and no invariant depends on it, the
   executor remembers which real key it put into which slot.
   DB = [ids, keys, certs, dI, dK, dC : sets, ord : [Ids -> Seq(KeyN)] (key slots in creation order),
         lI, lK, lC : history - scopes whose default row was deleted and that have none since] *)

EmptyDB == [ids |-> {}, keys |-> {}, certs |-> {}, dI |-> {}, dK |-> {}, dC |-> {},
            ord |-> [i \in Ids |-> <<>>], lI |-> FALSE, lK |-> {}, lC |-> {}]
InitSt == [cur |-> EmptyDB, disk |-> EmptyDB, tpm |-> {}, cache |-> {}, open |-> TRUE, gone |-> {},
           xgone |-> {}, txn |-> FALSE, mis |-> {}, n |-> 0, nf |-> 0]
Init == st = InitSt

KeysOf(db, i) == {k \in db.keys : k[1] = i}
CertsOf(db, k) == {c \in db.certs : c[1] = k}
CacheKeys(S) == {e.key : e \in S.cache}
InUse(S) == S.cur.keys \cup S.disk.keys \cup S.tpm \cup CacheKeys(S)
FreeSlots(S, i) == {k \in Keys : k[1] = i /\ k \notin InUse(S)}
FreeSlot(S, i) == CHOOSE k \in FreeSlots(S, i) : \A x \in FreeSlots(S, i) : k[2] <= x[2]
\* iteration order of an identity's keys = rowid order = creation order
KeySeq(db, i) == [j \in 1..Len(db.ord[i]) |-> <<i, db.ord[i][j]>>]

-----------------------------------------------------------------------------
(* steps *)
Stp(s, f) == [s |-> s, f |-> f, i |-> NoId, k |-> NoKey, c |-> NoCert, t |-> "none"]
SI(s, i) == [Stp(s, TRUE) EXCEPT !.i = i]
SK(s, k) == [Stp(s, TRUE) EXCEPT !.k = k]
SC(s, c) == [Stp(s, TRUE) EXCEPT !.c = c]
Commit == Stp("commit", TRUE)
CacheReset == Stp("cacheReset", FALSE)

\* the history flags are kept only while they matter (scope populated and without default)
NormLost(db) == [db EXCEPT !.lI = @ /\ db.ids # {} /\ db.dI = {},
                           !.lK = {i \in @ : KeysOf(db, i) # {} /\ db.dK \cap KeysOf(db, i) = {}},
                           !.lC = {k \in @ : CertsOf(db, k) # {} /\ db.dC \cap CertsOf(db, k) = {}}]
ApplyDB0(x, db) ==
  CASE x.s = "insId" -> [db EXCEPT !.ids = @ \cup {x.i}, !.dI = IF @ = {} THEN {x.i} ELSE @]
    [] x.s = "updId" -> IF x.i \in db.ids /\ x.i \notin db.dI THEN [db EXCEPT !.dI = {x.i}] ELSE db
    [] x.s = "insKey" -> [db EXCEPT !.keys = @ \cup {x.k},
                           !.dK = IF @ \cap KeysOf(db, x.k[1]) = {} THEN @ \cup {x.k} ELSE @,
                           !.ord = [@ EXCEPT ![x.k[1]] = Append(@, x.k[2])]]
    [] x.s = "updKey" -> IF x.k \in db.keys /\ x.k \notin db.dK
                         THEN [db EXCEPT !.dK = (@ \ KeysOf(db, x.k[1])) \cup {x.k}] ELSE db
    [] x.s = "insCert" -> [db EXCEPT !.certs = @ \cup {x.c},
                           !.dC = IF @ \cap CertsOf(db, x.c[1]) = {} THEN @ \cup {x.c} ELSE @]
    [] x.s = "updCert" -> IF x.c \in db.certs /\ x.c \notin db.dC
                          THEN [db EXCEPT !.dC = (@ \ CertsOf(db, x.c[1])) \cup {x.c}] ELSE db
    [] x.s = "delCert" -> [db EXCEPT !.certs = @ \ {x.c}, !.dC = @ \ {x.c},
                                     !.lC = IF x.c \in db.dC THEN @ \cup {x.c[1]} ELSE @]
    [] x.s = "delCertsOf" -> [db EXCEPT !.certs = @ \ CertsOf(db, x.k), !.dC = @ \ CertsOf(db, x.k)]
    [] x.s = "delKey" -> [db EXCEPT !.keys = @ \ {x.k}, !.dK = @ \ {x.k},
                                    !.ord = [@ EXCEPT ![x.k[1]] = SelectSeq(@, LAMBDA n : n # x.k[2])],
                                    !.lK = IF x.k \in db.dK THEN @ \cup {x.k[1]} ELSE @]
    [] x.s = "delId" -> [db EXCEPT !.ids = @ \ {x.i}, !.dI = @ \ {x.i}, !.lI = @ \/ x.i \in db.dI]
    [] OTHER -> db
ApplyDB(x, db) == NormLost(ApplyDB0(x, db))

Apply(x, S) ==
  CASE x.s = "commit" -> [S EXCEPT !.disk = S.cur, !.txn = FALSE]
    [] x.s = "rollback" -> [S EXCEPT !.cur = S.disk, !.txn = FALSE]
    [] x.s = "gen" -> [S EXCEPT !.tpm = @ \cup {x.k}, !.gone = @ \ {x.k}, !.xgone = @ \ {x.k}, !.mis = @ \ {x.k}]
    [] x.s = "regen" -> [S EXCEPT !.tpm = @ \cup {x.k}, !.mis = @ \cup {x.k}]
    [] x.s = "tpmGet" -> S
    [] x.s = "tpmDel" -> [S EXCEPT !.tpm = @ \ {x.k}, !.mis = @ \ {x.k}]
    [] x.s = "cacheReset" -> [S EXCEPT !.cache = {}]
    [] x.s = "cachePut" -> [S EXCEPT !.cache = @ \cup {[loc |-> [t |-> x.t, c |-> x.c], key |-> x.k,
                                                          bad |-> x.k \in S.mis]}]
    [] x.s = "markGone" -> [S EXCEPT !.gone = @ \cup {x.k}]
    \* every INSERT / UPDATE / DELETE that is executed (also a refused one) opens a transaction
    [] OTHER -> [S EXCEPT !.cur = ApplyDB(x, S.cur), !.txn = TRUE]

RECURSIVE Run(_, _, _)
Run(prog, S, n) == IF n = 0 THEN S ELSE Apply(prog[n], Run(prog, S, n - 1))

-----------------------------------------------------------------------------
(* operations: o = [op, i, k, c, t, by, loc] *)
Op0(op) == [op |-> op, i |-> NoId, k |-> NoKey, c |-> NoCert, t |-> "none", by |-> "none", loc |-> "none"]
OpI(op, i) == [Op0(op) EXCEPT !.i = i]
OpK(op, k) == [Op0(op) EXCEPT !.k = k]
OpC(op, c) == [Op0(op) EXCEPT !.c = c]
\* the certificate slot an import_cert call fills
ImpSlot(o) == IF o.c = NoCert THEN <<o.k, 2>> ELSE o.c

NewKeyProg(k, t) == << [SK("gen", k) EXCEPT !.t = t], Stp("tpmGet", TRUE), SK("insKey", k),
                       SC("insCert", <<k, 1>>), Commit >>

DelKeyProg(S, k) ==
  IF DevDelKey
  THEN (IF k \in S.cur.keys
        THEN << SK("delCertsOf", k), SK("delKey", k), Commit, SK("tpmDel", k), CacheReset,
                [SK("markGone", k) EXCEPT !.f = FALSE] >>
        ELSE <<>>)
  ELSE (IF k \in S.cur.keys
        THEN << CacheReset, SK("tpmDel", k), SK("delCertsOf", k), SK("delKey", k), Commit,
                [SK("markGone", k) EXCEPT !.f = FALSE] >>
        ELSE << CacheReset >>)

RECURSIVE Concat(_)
Concat(ss) == IF ss = <<>> THEN <<>> ELSE Head(ss) \o Concat(Tail(ss))

\* resolution of signing arguments: [ok, key, cert]
Unres == [ok |-> FALSE, key |-> NoKey, cert |-> NoCert]
DefCertOf(db, k) == LET d == db.dC \cap CertsOf(db, k) IN
                    IF d = {} THEN Unres ELSE [ok |-> TRUE, key |-> k, cert |-> CHOOSE c \in d : TRUE]
DefKeyOf(db, i) == LET d == db.dK \cap KeysOf(db, i) IN
                   IF d = {} THEN Unres ELSE DefCertOf(db, CHOOSE k \in d : TRUE)
ResolveDefault(db) == IF db.dI = {} THEN Unres ELSE DefKeyOf(db, CHOOSE i \in db.dI : TRUE)
Resolve(o, db) ==
  CASE o.by = "default" -> ResolveDefault(db)
    [] o.by = "identity" ->
         IF o.i \notin db.ids THEN Unres
         ELSE IF DevEmptyObj /\ o.t = "obj" /\ KeysOf(db, o.i) = {} THEN ResolveDefault(db) ELSE DefKeyOf(db, o.i)
    [] o.by = "key" ->
         IF ~(o.k[1] \in db.ids /\ o.k \in db.keys) THEN Unres
         ELSE IF DevEmptyObj /\ o.t = "obj" /\ CertsOf(db, o.k) = {} THEN ResolveDefault(db) ELSE DefCertOf(db, o.k)
    [] o.by = "cert" -> [ok |-> TRUE, key |-> o.c[1], cert |-> o.c]
LocOf(o, r) == IF o.loc = "custom" THEN [t |-> "custom", c |-> NoCert] ELSE [t |-> "cert", c |-> r.cert]
CacheHit(S, key, loc) == {e \in S.cache : e.loc = loc /\ (DevCacheLoc \/ e.key = key)}

\* result of a call: out, and for get_signer the key selected, the key whose signer is returned, the locator
NoRes(out) == [out |-> out, sel |-> NoKey, got |-> NoKey, lt |-> "none", lc |-> NoCert]

\* Plan(o, S) = [prog, res]: the steps the call performs from S and what it returns
Plan(o, S) ==
  LET db == S.cur IN
  CASE o.op = "NewIdentity" ->
         IF o.i \in db.ids THEN [prog |-> <<>>, res |-> NoRes("keyerr")]
         ELSE [prog |-> << SI("insId", o.i), Commit >>, res |-> NoRes("ok")]
    [] o.op = "TouchIdentity" ->
         IF o.i \in db.ids
         THEN [prog |-> IF db.dI = {} THEN << SI("updId", o.i), Commit >> ELSE <<>>, res |-> NoRes("ok")]
         ELSE [prog |-> << SI("insId", o.i), Commit >> \o NewKeyProg(o.k, "ec"), res |-> NoRes("ok")]
    [] o.op = "NewKey" ->
         IF o.i \notin db.ids THEN [prog |-> <<>>, res |-> NoRes("keyerr")]
         ELSE IF o.by = "keyid" /\ o.k \in db.keys
              THEN (IF DevKeyId
                    THEN [prog |-> << SK("regen", o.k), Stp("tpmGet", TRUE), Stp("insRefused", TRUE) >>,
                          res |-> NoRes("integrity")]
                    ELSE [prog |-> <<>>, res |-> NoRes("keyerr")])
              ELSE [prog |-> NewKeyProg(o.k, o.t), res |-> NoRes("ok")]
    [] o.op = "ImportCert" ->
         \* (the INSERT is attempted - a fault point - and refused by the UNIQUE index)
         IF ImpSlot(o) \in db.certs THEN [prog |-> << Stp("insRefused", TRUE) >>, res |-> NoRes("integrity")]
         ELSE [prog |-> << SC("insCert", ImpSlot(o)), Commit >>, res |-> NoRes("ok")]
    [] o.op = "SetDefId" -> [prog |-> << SI("updId", o.i), Commit >>, res |-> NoRes("ok")]
    [] o.op = "SetDefKey" -> [prog |-> << SK("updKey", o.k), Commit >>, res |-> NoRes("ok")]
    [] o.op = "SetDefCert" -> [prog |-> << SC("updCert", o.c), Commit >>, res |-> NoRes("ok")]
    [] o.op = "DelCert" ->
         IF o.loc = "view" /\ DevDelCertView THEN [prog |-> <<>>, res |-> NoRes("attrerr")]
         ELSE [prog |-> << SC("delCert", o.c), Commit, CacheReset >>, res |-> NoRes("ok")]
    [] o.op = "DelKey" ->
         [prog |-> DelKeyProg(S, o.k), res |-> NoRes(IF o.k \in db.keys THEN "ok" ELSE "keyerr")]
    [] o.op = "DelIdentity" ->
         IF o.i \notin db.ids THEN [prog |-> <<>>, res |-> NoRes("keyerr")]
         ELSE LET ks == KeySeq(db, o.i) IN
              [prog |-> Concat([j \in 1..Len(ks) |-> DelKeyProg(S, ks[j])])
                          \o << SI("delId", o.i), Commit, CacheReset >>, res |-> NoRes("ok")]
    [] o.op = "GetSigner" ->
         LET r == Resolve(o, db) IN
         IF o.by = "cert" /\ o.t = "obj" /\ DevCertObj
         THEN [prog |-> << Stp("tpmGet", TRUE) >>, res |-> NoRes("keyerr")]
         ELSE IF ~r.ok THEN [prog |-> <<>>, res |-> NoRes("keyerr")]
         ELSE LET loc == LocOf(o, r)
                  sel == IF o.by = "key" THEN o.k ELSE r.key         \* the key the arguments select
                  hit == CacheHit(S, r.key, loc) IN
              IF hit # {}
              THEN [prog |-> <<>>, res |-> LET e == CHOOSE e \in hit : TRUE IN
                                           [out |-> "ok", sel |-> sel, got |-> IF e.bad THEN NoKey ELSE e.key,
                                            lt |-> loc.t, lc |-> loc.c]]
              ELSE IF r.key \notin S.tpm THEN [prog |-> << Stp("tpmGet", TRUE) >>, res |-> NoRes("keyerr")]
              ELSE [prog |-> << Stp("tpmGet", TRUE),
                               [Stp("cachePut", FALSE) EXCEPT !.k = r.key, !.t = loc.t, !.c = loc.c] >>,
                    res |-> [out |-> "ok", sel |-> sel, got |-> IF r.key \in S.mis THEN NoKey ELSE r.key,
                             lt |-> loc.t, lc |-> loc.c]]
    [] o.op = "Close" -> [prog |-> << Stp("rollback", FALSE), CacheReset >>, res |-> NoRes("ok")]

Do(o, S) == LET p == Plan(o, S) IN Run(p.prog, S, Len(p.prog))

\* positions of the fault points of a program
FaultPos(prog) == SelectSeq([j \in 1..Len(prog) |-> j], LAMBDA j : prog[j].f)
NFaults(o, S) == Len(FaultPos(Plan(o, S).prog))
\* state left when the n-th fault point raises
Part(o, S, n) ==
  LET prog == Plan(o, S).prog
      p == FaultPos(prog)[n]
      S1 == Run(prog, S, p - 1) IN
  S1

-----------------------------------------------------------------------------
(* which calls are generated from a state *)
SignBase == {[Op0("GetSigner") EXCEPT !.by = "default", !.loc = "cert"]}
     \cup {[Op0("GetSigner") EXCEPT !.by = "identity", !.i = i, !.loc = "cert"] : i \in Ids}
     \cup {[Op0("GetSigner") EXCEPT !.by = "key", !.k = k, !.loc = l] : k \in Keys, l \in {"cert", "custom"}}
     \cup {[Op0("GetSigner") EXCEPT !.by = "cert", !.c = c, !.loc = l] : c \in OwnCerts, l \in {"cert", "custom"}}
     \cup {[Op0("GetSigner") EXCEPT !.by = "identity", !.i = i, !.loc = "cert", !.t = "obj"] : i \in Ids}
     \cup {[Op0("GetSigner") EXCEPT !.by = "key", !.k = k, !.loc = "cert", !.t = "obj"] : k \in Keys}
     \cup {[Op0("GetSigner") EXCEPT !.by = "cert", !.c = c, !.loc = "cert", !.t = "obj"] : c \in OwnCerts}
AllOps ==
       {OpI("NewIdentity", i) : i \in Ids}
  \cup {OpI("TouchIdentity", i) : i \in Ids}
  \cup {[OpI("TouchIdentity", k[1]) EXCEPT !.k = k] : k \in Keys}
  \cup {[OpI("NewKey", k[1]) EXCEPT !.t = t, !.k = k, !.loc = l] : k \in Keys, t \in Types, l \in {"none", "view"}}
  \cup {[OpI("NewKey", k[1]) EXCEPT !.t = "ec", !.k = k, !.by = "keyid"] : k \in Keys}
  \cup {OpK("ImportCert", k) : k \in Keys}
  \cup {[OpK("ImportCert", k) EXCEPT !.c = <<k, 3>>, !.t = t] : k \in Keys, t \in IF CertN >= 3 THEN {"xkey", "xnone"} ELSE {}}
  \cup {OpI("SetDefId", i) : i \in Ids}
  \cup {OpK("SetDefKey", k) : k \in Keys}
  \cup {OpC("SetDefCert", c) : c \in Certs}
  \cup {[OpC("DelCert", c) EXCEPT !.loc = l] : c \in Certs, l \in {"none", "view", "ext"}}
  \cup {[OpK("DelKey", k) EXCEPT !.loc = l] : k \in Keys, l \in {"none", "view", "ext"}}
  \cup {[OpI("DelIdentity", i) EXCEPT !.loc = l] : i \in Ids, l \in {"none", "ext"}}
  \cup SignBase
  \cup {Op0("Close")}

\* a private-key file left by a failed new_key: no row, no cached signer
OrphanFile(S, k) == k \in S.tpm /\ k \notin S.cur.keys /\ k \notin S.disk.keys /\ k \notin CacheKeys(S)
Enabled(o, S) ==
  LET db == S.cur IN
  CASE o.op = "NewIdentity" -> TRUE
    [] o.op = "TouchIdentity" ->
         IF o.i \in db.ids THEN o.k = NoKey ELSE FreeSlots(S, o.i) # {} /\ o.k = FreeSlot(S, o.i)
    [] o.op = "NewKey" ->
         /\ o.i \in db.ids
         /\ \/ FreeSlots(S, o.i) # {} /\ o.k = FreeSlot(S, o.i)
            \/ o.by = "keyid" /\ (o.k \in db.keys \/ OrphanFile(S, o.k))
    [] o.op = "ImportCert" -> o.k \in db.keys /\ (ImpSlot(o) \notin db.certs \/ ImpSlot(o) \notin S.disk.certs)
    [] o.op = "SetDefId" -> o.i \in db.ids
    [] o.op = "SetDefKey" -> o.k \in db.keys
    [] o.op = "SetDefCert" -> o.c \in db.certs
    [] o.op = "DelCert" ->
         (CASE o.loc = "ext" -> ~S.txn /\ o.c \in db.certs
            [] o.loc = "view" -> o.c[1] \in db.keys /\ o.c \in db.certs \cup S.disk.certs
            [] OTHER -> o.c \in db.certs \cup S.disk.certs)
    [] o.op = "DelKey" ->
         (CASE o.loc = "ext" -> ~S.txn /\ o.k \in db.keys
            [] o.loc = "view" -> o.k[1] \in db.ids /\ o.k \in db.keys \cup S.disk.keys \cup S.tpm
            [] OTHER -> o.k \in db.keys \cup S.disk.keys \cup S.tpm)
    [] o.op = "DelIdentity" -> IF o.loc = "ext" THEN ~S.txn /\ o.i \in db.ids ELSE o.i \in db.ids \cup S.disk.ids
    [] o.op = "GetSigner" ->
         (CASE o.by = "default" -> TRUE
            \* an identity that does not exist (never created, or deleted) can only be asked for by name: KeyError,
            \* never the signer of another (the default) identity
            [] o.by = "identity" -> o.i \in db.ids \/ o.t = "none"
            [] o.by = "key" -> o.k \in db.keys \/ (o.t = "none" /\ ((o.k \in S.gone /\ o.loc = "cert") \/ o.k \in S.xgone))
            [] o.by = "cert" -> o.c \in db.certs \/ (o.t = "none" /\ o.c[1] \in S.gone \cup S.xgone /\ o.loc = "cert"))
    [] o.op = "Close" -> TRUE

\* calls whose program can contain a private-key-store step
TpmOps == {o \in AllOps : o.op \in {"TouchIdentity", "NewKey", "DelKey", "DelIdentity", "GetSigner"} /\ o.loc # "ext"}
Ops(S) == {o \in AllOps : Enabled(o, S)}
SignOps(S) == {o \in SignBase : Enabled(o, S)}

MaxPts == 4 * MaxKeys + 3
\* what the enabled calls return (everything get_signer returns, every outcome other than "ok");
\* printed with each state of the graph dump (ALIAS DumpAlias) for the replay harness
ObsAlways(S) == IF S.open THEN {<<o, Plan(o, S).res>> : o \in {o \in Ops(S) : o.op = "GetSigner" \/ Plan(o, S).res.out # "ok"}} ELSE {}
DumpAlias == [st |-> st, obs |-> ObsAlways(st)]

\* Step(o): the call o runs to completion;  Fail(o, n, m): its n-th fault point raises
Tick(S) == IF Depth > 0 THEN [S EXCEPT !.n = @ + 1] ELSE S
\* the second instance runs the same program on the committed store; it resets *its* cache, not ours
DoExt(o, S) == LET T == Do(o, S) IN [T EXCEPT !.cache = S.cache, !.gone = S.gone, !.xgone = @ \cup (T.gone \ S.gone)]
Exec(o, S) == Tick(IF o.op = "Close" THEN [Do(o, S) EXCEPT !.open = FALSE]
                   ELSE IF o.loc = "ext" THEN DoExt(o, S) ELSE Do(o, S))
More == Depth = 0 \/ st.n < Depth
Unlimited == 99
\* (Call / Crash: the bare transitions, reused by KeychainTrace with its own well-formedness guard)
Call(o) == st.open /\ st' = Exec(o, st)
IoOk(o, S, n) == LET prog == Plan(o, S).prog
                     x == prog[FaultPos(prog)[n]] IN
                 \/ x.s \in {"gen", "regen", "tpmDel"}
                 \/ x.s = "tpmGet" /\ (o.op # "GetSigner" \/ Len(prog) = 2)     \* the file is there to be opened
Crash(o, n, m) == /\ st.open /\ n <= NFaults(o, st) /\ o.loc # "ext" /\ (m = "io" => IoOk(o, st, n))
               /\ st' = Tick([Part(o, st, n) EXCEPT !.nf = IF MaxFaults >= Unlimited THEN 0 ELSE @ + 1])
Step(o) == More /\ st.open /\ Enabled(o, st) /\ Call(o)
\* MaxFaults = number of failures injected per history at most; >= Unlimited: any number (nf not counted)
Fail(o, n, m) == /\ More /\ st.open /\ (MaxFaults >= Unlimited \/ st.nf < MaxFaults)
                 /\ Enabled(o, st) /\ Crash(o, n, m)
Reopen == More /\ ~st.open /\ st' = Tick([st EXCEPT !.open = TRUE])

Next == \/ \E o \in AllOps : Step(o)
        \/ \E o \in AllOps : \E n \in 1..MaxPts : Fail(o, n, "call")
        \/ \E o \in TpmOps : \E n \in 1..MaxPts : Fail(o, n, "io")
        \/ Reopen
Spec == Init /\ [][Next]_st

\* The same transition relation with the fault point chosen *inside* the action (one evaluation of the
\* program per call instead of one per (call, fault point, mode)): used for the exhaustive runs, where the
\* label of a transition is not needed.  Next (labels carry n and m) is used for the graph dump.
FailA(o) == /\ More /\ st.open /\ (MaxFaults >= Unlimited \/ st.nf < MaxFaults)
            /\ Enabled(o, st) /\ o.loc # "ext"
            /\ LET prog == Plan(o, st).prog
                   fp == FaultPos(prog) IN
               \E n \in 1..Len(fp) :
                  st' = Tick([Run(prog, st, fp[n] - 1) EXCEPT !.nf = IF MaxFaults >= Unlimited THEN 0 ELSE @ + 1])
NextA == \/ \E o \in AllOps : Step(o)
         \/ \E o \in AllOps : FailA(o)
         \/ Reopen
SpecA == Init /\ [][NextA]_st

\* bound for the graph dump (single worker, so that levels are exact)
Perms == Permutations(Ids)
Bound == TLCGet("level") < MaxLevel

-----------------------------------------------------------------------------
(* the views as the code computes them *)
IdIter(S) == S.cur.ids
KeyIter(S, i) == KeysOf(S.cur, i)
KeyHas(S, i, k) == IF DevScope THEN k \in S.cur.keys ELSE k \in KeysOf(S.cur, i)
CertIter(S, k) == CertsOf(S.cur, k)
CertHas(S, k, c) == IF DevScope THEN c \in S.cur.certs ELSE c \in CertsOf(S.cur, k)

MappingViewsS(S) ==
  /\ \A i \in IdIter(S), k \in Keys : KeyHas(S, i, k) <=> k \in KeyIter(S, i)
  /\ \A k \in S.cur.keys, c \in Certs : CertHas(S, k, c) <=> c \in CertIter(S, k)
  /\ \A i \in IdIter(S) : \A k \in KeyIter(S, i) : k[1] = i
  /\ \A k \in S.cur.keys : \A c \in CertIter(S, k) : c[1] = k
ContainmentS(S) ==
  /\ \A db \in {S.cur, S.disk} :
       /\ \A k \in db.keys : k[1] \in db.ids
       /\ \A c \in db.certs : c[1] \in db.keys
       /\ db.dI \subseteq db.ids /\ db.dK \subseteq db.keys /\ db.dC \subseteq db.certs
AtMostOneDefaultS(S) ==
  \A db \in {S.cur, S.disk} :
    /\ Cardinality(db.dI) <= 1
    /\ \A i \in Ids : Cardinality(db.dK \cap KeysOf(db, i)) <= 1
    /\ \A k \in Keys : Cardinality(db.dC \cap CertsOf(db, k)) <= 1
\* every signer that can be obtained in S signs with the selected key, and never with a deleted one
SignerMatchesKeyS(S) ==
  \A o \in SignOps(S) : LET r == Plan(o, S).res IN
     r.out = "ok" => /\ r.got = r.sel
                     /\ (o.by # "cert" => r.sel \in S.cur.keys)
                     /\ (o.by = "identity" => r.sel[1] = o.i)
                     /\ (o.by # "cert" /\ o.loc = "cert" => r.lc \in S.cur.dC /\ r.lc[1] = r.sel)
                     /\ (o.by = "cert" /\ o.loc = "cert" => r.lc = o.c /\ r.sel = o.c[1])
                     /\ (o.loc = "custom" <=> r.lt = "custom")
NoSignerForDeletedKeyS(S) ==
  /\ \A o \in SignOps(S) : LET r == Plan(o, S).res IN r.out = "ok" => r.got \notin S.gone
  /\ S.gone \cap S.tpm = {} /\ S.gone \cap CacheKeys(S) = {} /\ S.gone \cap S.cur.keys = {}


\* a completed delete leaves nothing beneath its target (B = what was beneath it in S)
Beneath(o, S) == IF o.op = "DelKey" THEN {o.k} ELSE KeysOf(S.cur, o.i) \cup KeysOf(S.disk, o.i)
Cascaded(o, B, T) ==
  /\ \A k \in B : k \notin T.cur.keys /\ CertsOf(T.cur, k) = {} /\ k \notin T.tpm /\ k \notin CacheKeys(T)
                  /\ k \notin T.disk.keys /\ CertsOf(T.disk, k) = {}
  /\ (o.op = "DelIdentity" => o.i \notin T.cur.ids /\ o.i \notin T.disk.ids)
DelOps(S) == {o \in Ops(S) : o.op \in {"DelKey", "DelIdentity"} /\ o.loc # "ext"}
DeleteCascadesS(S) ==
  \A o \in DelOps(S) : Plan(o, S).res.out = "ok" => Cascaded(o, Beneath(o, S), Do(o, S))

\* defaults: a populated scope has a default unless its default was deleted (and none set since)
DefaultWhenPopulatedS(S) ==
  \A db \in {S.cur, S.disk} :
    /\ (db.ids # {} /\ db.dI = {}) => db.lI
    /\ \A i \in db.ids : (KeysOf(db, i) # {} /\ db.dK \cap KeysOf(db, i) = {}) => i \in db.lK
    /\ \A k \in db.keys : (CertsOf(db, k) # {} /\ db.dC \cap CertsOf(db, k) = {}) => k \in db.lC

StateInvS(S) == MappingViewsS(S) /\ ContainmentS(S) /\ AtMostOneDefaultS(S) /\ DefaultWhenPopulatedS(S)
                /\ SignerMatchesKeyS(S) /\ NoSignerForDeletedKeyS(S)

\* after any failure, repeating the call behaves
\* (T is a successor of the reachable state S1, so the state invariants are checked on it anyway)
RetryOk(o, S, n) ==
  LET S1 == Part(o, S, n)
      out == Plan(o, S1).res.out
      T == Do(o, S1) IN
  /\ out \in {"ok", "keyerr"} \/ (o.op = "ImportCert" /\ out = "integrity")
  /\ (o.op \in {"DelKey", "DelIdentity"} => Cascaded(o, Beneath(o, S), [T EXCEPT !.disk = T.cur]))
  /\ (o.op = "DelCert" => o.c \notin T.cur.certs)
  /\ (o.op = "ImportCert" => ImpSlot(o) \in T.cur.certs)
  /\ (o.op \in {"NewIdentity", "TouchIdentity"} => o.i \in T.cur.ids)
  \* new_key with an explicit key_id names the same key again: the retry completes it, key pair intact
  /\ (o.op = "NewKey" => o.k \in T.cur.keys /\ o.k \in T.tpm /\ o.k \notin T.mis)
\* (a retried new_key without key_id makes another key: not judged; nor the calls of the second instance)
RetryAfterFailureOkS(S) ==
  \A o \in Ops(S) : (/\ o.op \notin {"GetSigner", "Close"} /\ o.loc # "ext"
                      /\ (o.op = "NewKey" => o.by = "keyid" /\ o.k \notin S.cur.keys)) =>
     \A n \in 1..NFaults(o, S) : RetryOk(o, S, n)

MappingViews == MappingViewsS(st)
Containment == ContainmentS(st)
AtMostOneDefault == AtMostOneDefaultS(st)
DefaultWhenPopulated == DefaultWhenPopulatedS(st)
SignerMatchesKey == st.open => SignerMatchesKeyS(st)
NoSignerForDeletedKey == NoSignerForDeletedKeyS(st)
DeleteCascades == st.open => DeleteCascadesS(st)
RetryAfterFailureOk == st.open => RetryAfterFailureOkS(st)

\* vacuity witnesses (must be VIOLATED when checked as invariants)
W_TwoKeysTwoCerts == ~(\E i \in Ids : Cardinality(KeysOf(st.cur, i)) = 2 /\ \E k \in KeysOf(st.cur, i) : Cardinality(CertsOf(st.cur, k)) = 2)
W_NoDefaultButPopulated == ~(\E k \in st.cur.keys : CertsOf(st.cur, k) # {} /\ st.cur.dC \cap CertsOf(st.cur, k) = {})
W_PendingTxn == ~(st.cur # st.disk)
W_GoneAndCache == ~(st.gone # {} /\ st.cache # {})
W_OrphanFile == ~(\E k \in st.tpm : k \notin st.cur.keys /\ k \notin st.disk.keys)
W_CustomLocTwoKeys == ~(\E e1, e2 \in st.cache : e1.loc = e2.loc /\ e1.key # e2.key)
\* a cross-filed certificate is the default certificate of its key and a signer is to be had through the key
W_CrossFiledDefault == ~(\E c \in st.cur.dC : ~OwnNamed(c) /\ c[1] \in st.tpm /\ st.open)
\* all witnesses in one single-worker run: INIT WitnessInit, CONSTRAINT WitnessMark, POSTCONDITION WitnessPost
WitnessInit == Init /\ \A i \in 11..17 : TLCSet(i, FALSE)
WitnessMark == /\ (W_TwoKeysTwoCerts \/ TLCSet(11, TRUE)) /\ (W_NoDefaultButPopulated \/ TLCSet(12, TRUE))
               /\ (W_PendingTxn \/ TLCSet(13, TRUE)) /\ (W_GoneAndCache \/ TLCSet(14, TRUE))
               /\ (W_OrphanFile \/ TLCSet(15, TRUE)) /\ (W_CustomLocTwoKeys \/ TLCSet(16, TRUE))
               /\ (W_CrossFiledDefault \/ CertN < 3 \/ TLCSet(17, TRUE))
WitnessPost == \A i \in 11..16 \cup (IF CertN >= 3 THEN {17} ELSE {}) : TLCGet(i) \/ PrintT(<<"UNREACHED", i>>)
=============================================================================
