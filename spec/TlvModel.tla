------------------------------ MODULE TlvModel ------------------------------
(* Reference semantics of ndn.encoding.tlv_model (C08, and the decoding half of C07).
   Constant-level operators only; the scan loop of TlvModel.parse is the step function
   ScanStep, run as a state machine (one action per branch) by TlvModelScan.tla and as a
   function (RunScan) for nested models.

   DATA MODEL
   number      little-endian 16-bit limbs (TlvNum)
   runs        run-length content <<[v, r]>>: v = byte (bytes / unknown elements / uints) or
               code point (text), r >= 1 repetitions; adjacent runs differ (canonical)
   element     [t, leaf, fits, n, runs, kids]
                 leaf = TRUE : opaque value of n bytes described by runs
                 leaf = FALSE: container, kids = sequence of elements
                 fits = FALSE: the announced value does not lie entirely inside its parent, or
                               (Cut) the header itself is truncated  (only in decoder inputs)
   descriptor  [name, t, kind, fixed, ic, sub, elem]
                 kind in uint bool bytes text name model repeated map
                 fixed = 0 | 1 | 2 | 4 | 8 (uint only)     ic = ignore_critical of a ModelField
                 sub = schema of a model field            elem = <<element descr>> (repeated)
                                                                 <<key descr, value descr>> (map)
   schema      sequence of descriptors in declared order (after Collect for IncludeBase)
   field value [k |-> "none"] | [k |-> "uint", n] | [k |-> "bool"] (= True) | [k |-> "bytes", runs]
               | [k |-> "text", runs] | [k |-> "name", comps : <<[t, runs]>>] | [k |-> "model", v]
               | [k |-> "list", items]  (repeated; never "none")
               | [k |-> "map", items : <<[key, val]>>]  (insertion order, keys unique; never "none")
   model value sequence of field values aligned with the schema

   INTERPRETATION DECISIONS (statement of C08 / C07 read in the way least likely to alarm)
   * BoolField: False and None are documented as equivalent; both are "none" here.
   * An empty repeated / map field and an absent one are the same value.
   * A BoolField element with a non-empty value, and a component of any type number inside a
     Name, are accepted (the statements do not constrain them).
   * fixed_len is an encoding rule only: on decoding any legal width 1/2/4/8 is accepted.
   * Map fields: the property says unknown non-critical elements are ignored *wherever* they are
     inserted, so after a key the machine skips non-critical elements until the value element;
     a critical element that is not the value, or the end of input, rejects.               *)
EXTENDS TlvNum, FiniteSets, TLC

RECURSIVE SumSeq(_)
SumSeq(s) == IF s = <<>> THEN 0 ELSE Head(s) + SumSeq(Tail(s))
RECURSIVE Flat(_)
Flat(ss) == IF ss = <<>> THEN <<>> ELSE Head(ss) \o Flat(Tail(ss))
MinOf(S) == CHOOSE x \in S : \A y \in S : x <= y
Insert(s, p, e) == SubSeq(s, 1, p) \o <<e>> \o SubSeq(s, p + 1, Len(s))      \* after position p (0..Len)

\* ------------------------------------------------------------------ content runs
RunsLen(runs)   == SumSeq([i \in 1 .. Len(runs) |-> runs[i].r])
Utf8Len(c)      == IF c < 128 THEN 1 ELSE IF c < 2048 THEN 2 ELSE IF c < 65536 THEN 3 ELSE 4
TextBytes(runs) == SumSeq([i \in 1 .. Len(runs) |-> runs[i].r * Utf8Len(runs[i].v)])
CanonRuns(runs) == \A i \in 1 .. Len(runs) : runs[i].r >= 1 /\ (i > 1 => runs[i].v # runs[i - 1].v)
RECURSIVE BytesToRuns(_)
BytesToRuns(bs) ==
  IF bs = <<>> THEN <<>>
  ELSE LET r == BytesToRuns(Tail(bs)) IN
       IF r # <<>> /\ r[1].v = Head(bs) THEN <<[v |-> Head(bs), r |-> r[1].r + 1]>> \o Tail(r)
       ELSE <<[v |-> Head(bs), r |-> 1]>> \o r
RunsToBytes(runs) == Flat([i \in 1 .. Len(runs) |-> [j \in 1 .. runs[i].r |-> runs[i].v]])   \* short ones only

\* ------------------------------------------------------------------ elements
\* A *cut* element: the bytes left at the end of a level do not even hold a complete Type and Length
\* (a multi-byte 0xFD/0xFE/0xFF number is truncated). Encoded as the otherwise impossible combination
\* leaf = FALSE with non-empty runs (= the raw bytes that are there); fits = FALSE.
Cut(raw)  == [t |-> <<>>, leaf |-> FALSE, fits |-> FALSE, n |-> Len(raw), runs |-> BytesToRuns(raw), kids |-> <<>>]
IsCut(e)  == ~e.leaf /\ e.runs # <<>>
Leaf(t, n, runs) == [t |-> t, leaf |-> TRUE, fits |-> TRUE, n |-> n, runs |-> runs, kids |-> <<>>]
Node(t, kids)    == [t |-> t, leaf |-> FALSE, fits |-> TRUE, n |-> 0, runs |-> <<>>, kids |-> kids]
RECURSIVE ValLen(_), Size(_), SeqSize(_)
ValLen(e)   == IF e.leaf THEN e.n ELSE SeqSize(e.kids)
Size(e)     == NumSize(e.t) + NumSize(NumOfInt(ValLen(e))) + ValLen(e)
SeqSize(es) == SumSeq([i \in 1 .. Len(es) |-> Size(es[i])])
TL(t, n)    == NumSize(t) + NumSize(NumOfInt(n)) + n

\* ------------------------------------------------------------------ descriptors, IncludeBase
None == [k |-> "none"]
Fd(name, t, kind) == [name |-> name, t |-> t, kind |-> kind, fixed |-> 0, ic |-> FALSE, sub |-> <<>>, elem |-> <<>>]
FUint(name, t)        == Fd(name, t, "uint")
FUintFix(name, t, w)  == [Fd(name, t, "uint") EXCEPT !.fixed = w]
FBool(name, t)        == Fd(name, t, "bool")
FBytes(name, t)       == Fd(name, t, "bytes")
FText(name, t)        == Fd(name, t, "text")
FName(name, t)        == Fd(name, t, "name")
\* the Name of an Interest (InterestNameField): at most one component of the ParametersSha256Digest type (2) - the one
\* component the signature does not cover; marked by fixed = 2 on the name descriptor
FIName(name, t)       == [Fd(name, t, "name") EXCEPT !.fixed = 2]
OneDigest(d, e)       == d.fixed # 2 \/ Cardinality({i \in 1 .. Len(e.kids) : e.kids[i].fits /\ e.kids[i].t = NumOfInt(2)}) <= 1
FModel(name, t, sub, ic) == [Fd(name, t, "model") EXCEPT !.sub = sub, !.ic = ic]
FRep(name, ed)        == [Fd(name, ed.t, "repeated") EXCEPT !.elem = <<ed>>]
FMap(name, kd, vd)    == [Fd(name, kd.t, "map") EXCEPT !.elem = <<kd, vd>>]

(* Class declaration = [cname, entries]; entry = [k |-> "field", d] | [k |-> "include", base : declaration].
   Collect is TlvModelMeta.__new__: fields in order of appearance; a name seen before is
   replaced in place (override keeps the original position); an included base contributes its
   own collected list.                                                                      *)
PutField(acc, d) == IF \E j \in 1 .. Len(acc) : acc[j].name = d.name
                    THEN [j \in 1 .. Len(acc) |-> IF acc[j].name = d.name THEN d ELSE acc[j]]
                    ELSE Append(acc, d)
RECURSIVE PutAll(_, _)
PutAll(acc, ds) == IF ds = <<>> THEN acc ELSE PutAll(PutField(acc, Head(ds)), Tail(ds))
RECURSIVE Collect(_), CollectFrom(_, _)
CollectFrom(entries, acc) ==
  IF entries = <<>> THEN acc
  ELSE LET e == Head(entries) IN
       CollectFrom(Tail(entries),
                   IF e.k = "field" THEN PutField(acc, e.d) ELSE PutAll(acc, Collect(e.base)))
Collect(decl) == CollectFrom(decl.entries, <<>>)

TypesOf(s) == {s[i].t : i \in 1 .. Len(s)} \cup {s[i].elem[2].t : i \in {j \in 1 .. Len(s) : s[j].kind = "map"}}
DistinctTypes(s) == /\ \A i, j \in 1 .. Len(s) : i # j => s[i].t # s[j].t
                    /\ \A i \in 1 .. Len(s) : s[i].kind = "map" =>
                          \A j \in 1 .. Len(s) : s[j].t # s[i].elem[2].t

\* ------------------------------------------------------------------ legal values
RECURSIVE LegalField(_, _), LegalModel(_, _)
LegalField(d, fv) ==
  CASE d.kind = "repeated" -> fv.k = "list" /\ \A i \in 1 .. Len(fv.items) :
                                 fv.items[i].k # "none" /\ LegalField(d.elem[1], fv.items[i])
    [] d.kind = "map"  -> /\ fv.k = "map"
                          /\ \A i \in 1 .. Len(fv.items) :
                                /\ fv.items[i].key.k # "none" /\ LegalField(d.elem[1], fv.items[i].key)
                                /\ fv.items[i].val.k # "none" /\ LegalField(d.elem[2], fv.items[i].val)
                          /\ \A i, j \in 1 .. Len(fv.items) : i # j => fv.items[i].key # fv.items[j].key
    [] fv.k = "none"   -> TRUE
    [] d.kind = "uint" -> fv.k = "uint" /\ IsNum(fv.n) /\ (d.fixed # 0 => FitsWidth(fv.n, d.fixed))
    [] d.kind = "bool" -> fv.k = "bool"
    [] d.kind = "bytes" -> fv.k = "bytes" /\ CanonRuns(fv.runs)
    [] d.kind = "text" -> fv.k = "text" /\ CanonRuns(fv.runs)
    [] d.kind = "name" -> fv.k = "name" /\ \A i \in 1 .. Len(fv.comps) : CanonRuns(fv.comps[i].runs)
    [] d.kind = "model" -> fv.k = "model" /\ LegalModel(d.sub, fv.v)
    [] OTHER -> FALSE
LegalModel(s, mv) == Len(mv) = Len(s) /\ \A i \in 1 .. Len(s) : LegalField(s[i], mv[i])

\* ------------------------------------------------------------------ Encode (declarative)
RECURSIVE EncField(_, _), EncModel(_, _)
EncField(d, fv) ==
  CASE d.kind = "repeated" -> Flat([i \in 1 .. Len(fv.items) |-> EncField(d.elem[1], fv.items[i])])
    [] d.kind = "map" -> Flat([i \in 1 .. Len(fv.items) |->
                                EncField(d.elem[1], fv.items[i].key) \o EncField(d.elem[2], fv.items[i].val)])
    [] fv.k = "none" -> <<>>
    [] d.kind = "uint" -> LET w == IF d.fixed = 0 THEN UintWidth(fv.n) ELSE d.fixed
                          IN <<Leaf(d.t, w, BytesToRuns(NumBytes(fv.n, w)))>>
    [] d.kind = "bool" -> <<Leaf(d.t, 0, <<>>)>>
    [] d.kind = "bytes" -> <<Leaf(d.t, RunsLen(fv.runs), fv.runs)>>
    [] d.kind = "text" -> <<Leaf(d.t, TextBytes(fv.runs), fv.runs)>>
    [] d.kind = "name" -> <<Node(d.t, [i \in 1 .. Len(fv.comps) |->
                              Leaf(fv.comps[i].t, RunsLen(fv.comps[i].runs), fv.comps[i].runs)])>>
    [] d.kind = "model" -> <<Node(d.t, EncModel(d.sub, fv.v))>>
EncModel(s, mv) == Flat([i \in 1 .. Len(s) |-> EncField(s[i], mv[i])])
Encode(s, mv) == EncModel(s, mv)

\* ------------------------------------------------------------------ AnnouncedLength (arithmetic, as encoded_length does)
RECURSIVE FieldLen(_, _), AnnouncedLength(_, _)
FieldLen(d, fv) ==
  CASE d.kind = "repeated" -> SumSeq([i \in 1 .. Len(fv.items) |-> FieldLen(d.elem[1], fv.items[i])])
    [] d.kind = "map" -> SumSeq([i \in 1 .. Len(fv.items) |->
                              FieldLen(d.elem[1], fv.items[i].key) + FieldLen(d.elem[2], fv.items[i].val)])
    [] fv.k = "none" -> 0
    [] d.kind = "uint" -> NumSize(d.t) + 1 + (IF d.fixed = 0 THEN UintWidth(fv.n) ELSE d.fixed)
    [] d.kind = "bool" -> NumSize(d.t) + 1
    [] d.kind = "bytes" -> TL(d.t, RunsLen(fv.runs))
    [] d.kind = "text" -> TL(d.t, TextBytes(fv.runs))
    [] d.kind = "name" -> TL(d.t, SumSeq([i \in 1 .. Len(fv.comps) |->
                                TL(fv.comps[i].t, RunsLen(fv.comps[i].runs))]))
    [] d.kind = "model" -> TL(d.t, AnnouncedLength(d.sub, fv.v))
AnnouncedLength(s, mv) == SumSeq([i \in 1 .. Len(s) |-> FieldLen(s[i], mv[i])])

\* ------------------------------------------------------------------ the scan loop of TlvModel.parse
InitOut(s) == [i \in 1 .. Len(s) |-> CASE s[i].kind = "repeated" -> [k |-> "list", items |-> <<>>]
                                       [] s[i].kind = "map" -> [k |-> "map", items |-> <<>>]
                                       [] OTHER -> None]
InitSt(s) == [pos |-> 1, fpos |-> 1, want |-> 0, key |-> None, out |-> InitOut(s), taken |-> <<>>,
              status |-> "run", why |-> ""]
Find(s, from, t) == LET C == {i \in from .. Len(s) : s[i].t = t} IN IF C = {} THEN 0 ELSE MinOf(C)
MapPut(mfv, key, val) ==
  IF \E j \in 1 .. Len(mfv.items) : mfv.items[j].key = key
  THEN [mfv EXCEPT !.items = [j \in 1 .. Len(mfv.items) |->
                                IF mfv.items[j].key = key THEN [key |-> key, val |-> val] ELSE mfv.items[j]]]
  ELSE [mfv EXCEPT !.items = Append(@, [key |-> key, val |-> val])]

Res(ok, fv, why) == [ok |-> ok, fv |-> fv, why |-> why]
Rej(st, why, br) == [st |-> [st EXCEPT !.status = "reject", !.why = why], branch |-> br]
Ign(st, br)      == [st |-> [st EXCEPT !.pos = @ + 1], branch |-> br]
BadBranch(why)   == CASE why = "uint-width" -> "BadUintWidth"
                      [] why \in {"name-component-overrun", "name-truncated-number", "name-digest-twice"} -> "BadName"
                      [] OTHER -> "BadNested"

RECURSIVE ParseValue(_, _), ScanStep(_, _, _, _), ScanLoop(_, _, _, _)
ParseValue(d, e) ==
  CASE d.kind = "uint" -> (IF e.leaf /\ LegalWidth(e.n)
                           THEN Res(TRUE, [k |-> "uint", n |-> NumOfBytes(RunsToBytes(e.runs))], "")
                           ELSE Res(FALSE, None, "uint-width"))
    [] d.kind = "bool" -> Res(TRUE, [k |-> "bool"], "")
    [] d.kind = "bytes" -> Res(TRUE, [k |-> "bytes", runs |-> e.runs], "")
    [] d.kind = "text" -> Res(TRUE, [k |-> "text", runs |-> e.runs], "")
    [] d.kind = "name" -> (IF (\A i \in 1 .. Len(e.kids) : e.kids[i].fits) /\ ~OneDigest(d, e)
                           THEN Res(FALSE, None, "name-digest-twice")
                           ELSE IF \A i \in 1 .. Len(e.kids) : e.kids[i].fits
                           THEN Res(TRUE, [k |-> "name", comps |-> [i \in 1 .. Len(e.kids) |->
                                              [t |-> e.kids[i].t, runs |-> e.kids[i].runs]]], "")
                           ELSE Res(FALSE, None, IF \E i \in 1 .. Len(e.kids) : IsCut(e.kids[i])
                                                 THEN "name-truncated-number" ELSE "name-component-overrun"))
    [] d.kind = "model" -> LET r == ScanLoop(d.sub, d.ic, e.kids, InitSt(d.sub)) IN
                           (IF r.status = "accept" THEN Res(TRUE, [k |-> "model", v |-> r.out], "")
                            ELSE Res(FALSE, None, d.name \o "/" \o r.why))     \* reasons carry the path of nested fields

(* One iteration of `while offset < len(wire)` (plus the exit test). s = schema, ic = ignore_critical,
   input = the elements of this level, st = machine state.
   Classify is the cheap part of the decision (which kind of element is at pos, which field it
   belongs to); ScanStep completes it (parses the value) and returns the next state and the name
   of the branch taken. *)
Classify(s, ic, input, st) ==
  IF st.pos > Len(input) THEN [cls |-> IF st.want # 0 THEN "end-dangling" ELSE "end-ok", i |-> 0]
  ELSE LET e == input[st.pos] IN
  IF ~e.fits THEN [cls |-> IF IsCut(e) THEN "cut-number" ELSE "overrun", i |-> 0]
  ELSE IF st.want # 0 THEN
      (IF e.t = s[st.want].elem[2].t THEN [cls |-> "map-value", i |-> st.want]
       ELSE IF IsOdd(e.t) /\ ~ic THEN [cls |-> "map-other-critical", i |-> 0]
       ELSE [cls |-> "map-other-ignored", i |-> 0])
  ELSE LET i == Find(s, st.fpos, e.t) IN
      IF i = 0 THEN [cls |-> IF ~IsOdd(e.t) THEN "unknown-noncritical"
                             ELSE IF ic THEN "unknown-critical-flagged" ELSE "unknown-critical", i |-> 0]
      ELSE [cls |-> CASE s[i].kind = "repeated" -> "repeated"
                      [] s[i].kind = "map" -> "map-key"
                      [] OTHER -> (IF i = st.fpos THEN "field-at-cursor" ELSE "field-after-skip"), i |-> i]

\* branches each class can end in (used by TlvModelScan to avoid evaluating ScanStep once per action)
BadBranches == {"BadUintWidth", "BadName", "BadNested"}
BranchesOf(cls) ==
  CASE cls = "end-ok" -> {"Done"} [] cls = "end-dangling" -> {"DoneDangling"} [] cls = "overrun" -> {"Overrun"}
    [] cls = "cut-number" -> {"CutNumber"}
    [] cls = "map-value" -> {"MapValue"} \cup BadBranches
    [] cls = "map-other-critical" -> {"RejectCritical"} [] cls = "map-other-ignored" -> {"IgnoredInMap"}
    [] cls = "unknown-noncritical" -> {"IgnoredNonCritical"} [] cls = "unknown-critical-flagged" -> {"IgnoredCriticalByFlag"}
    [] cls = "unknown-critical" -> {"RejectCritical"}
    [] cls = "repeated" -> {"RepeatedStays"} \cup BadBranches [] cls = "map-key" -> {"MapKey"} \cup BadBranches
    [] cls = "field-at-cursor" -> {"FieldFound"} \cup BadBranches
    [] cls = "field-after-skip" -> {"SkippedFound"} \cup BadBranches

ScanStep(s, ic, input, st) ==
  LET k == Classify(s, ic, input, st)
      i == k.i
      e == input[st.pos]
  IN
  CASE k.cls = "end-ok" -> [st |-> [st EXCEPT !.status = "accept"], branch |-> "Done"]
    [] k.cls = "end-dangling" -> Rej(st, "map-value-missing", "DoneDangling")
    [] k.cls = "overrun" -> Rej(st, "overrun", "Overrun")
    [] k.cls = "cut-number" -> Rej(st, "truncated-number", "CutNumber")
    [] k.cls = "map-value" ->
         LET r == ParseValue(s[i].elem[2], e) IN
         (IF r.ok THEN [st |-> [st EXCEPT !.pos = @ + 1, !.want = 0, !.key = None,
                                         !.out[i] = MapPut(@, st.key, r.fv),
                                         !.taken = Append(@, <<i, st.pos>>)],
                        branch |-> "MapValue"]
          ELSE Rej(st, r.why, BadBranch(r.why)))
    [] k.cls \in {"map-other-critical", "unknown-critical"} -> Rej(st, "critical", "RejectCritical")
    [] k.cls = "map-other-ignored" -> Ign(st, "IgnoredInMap")
    [] k.cls = "unknown-noncritical" -> Ign(st, "IgnoredNonCritical")
    [] k.cls = "unknown-critical-flagged" -> Ign(st, "IgnoredCriticalByFlag")
    [] k.cls = "repeated" ->
         LET r == ParseValue(s[i].elem[1], e) IN
         (IF r.ok THEN [st |-> [st EXCEPT !.pos = @ + 1, !.fpos = i,
                                         !.out[i].items = Append(@, r.fv),
                                         !.taken = Append(@, <<i, st.pos>>)],
                        branch |-> "RepeatedStays"]
          ELSE Rej(st, r.why, BadBranch(r.why)))
    [] k.cls = "map-key" ->
         LET r == ParseValue(s[i].elem[1], e) IN
         (IF r.ok THEN [st |-> [st EXCEPT !.pos = @ + 1, !.fpos = i, !.want = i, !.key = r.fv,
                                         !.taken = Append(@, <<i, st.pos>>)],
                        branch |-> "MapKey"]
          ELSE Rej(st, r.why, BadBranch(r.why)))
    [] OTHER ->      \* "field-at-cursor", "field-after-skip" (skipped fields processed)
         LET r == ParseValue(s[i], e) IN
         (IF r.ok THEN [st |-> [st EXCEPT !.pos = @ + 1, !.fpos = i + 1, !.out[i] = r.fv,
                                         !.taken = Append(@, <<i, st.pos>>)],
                        branch |-> IF k.cls = "field-at-cursor" THEN "FieldFound" ELSE "SkippedFound"]
          ELSE Rej(st, r.why, BadBranch(r.why)))

ScanLoop(s, ic, input, st) == IF st.status # "run" THEN st
                              ELSE ScanLoop(s, ic, input, ScanStep(s, ic, input, st).st)
RunScan(s, ic, input) == ScanLoop(s, ic, input, InitSt(s))

Branches == {"Done", "DoneDangling", "Overrun", "CutNumber", "MapValue", "MapKey", "IgnoredInMap", "IgnoredNonCritical",
             "IgnoredCriticalByFlag", "RejectCritical", "RepeatedStays", "FieldFound", "SkippedFound",
             "BadUintWidth", "BadName", "BadNested"}
=============================================================================
