\* manual run (bin/check C20 writes the per-tier configuration into build/)
SPECIFICATION Spec
CONSTANTS Mode = "both" Thorough = FALSE
INVARIANT I_Precedence
INVARIANT I_FirstFile
INVARIANT I_AsGiven
INVARIANT I_NextToFile
INVARIANT I_FallBack
INVARIANT I_Determined
INVARIANT I_Content
INVARIANT I_Values
INVARIANT I_Empty
INVARIANT I_Unreadable
INVARIANT I_Objects
INVARIANT I_Plat
INVARIANT I_Face
POSTCONDITION Witnesses
CHECK_DEADLOCK FALSE
