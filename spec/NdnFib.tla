------------------------------ MODULE NdnFib ------------------------------
(* Producer side of the NDNApp pipeline (both front-ends): attached handlers (the "FIB"),
   incoming Interests, the parameters-digest gate, Interest validators, the reply callback
   with its deadline and PIT-token echo.  Properties C04, C05 (Interest half), C10 (token
   half), C06 (robustness half).

   Observable level, one action per external stimulus (macro-step discipline as in NdnPit).
   The name tree is modelled operationally (ResolveWalk walks down the components like the
   trie's longest_prefix) and the property is stated declaratively (ResolveDecl).           *)
EXTENDS Integers, Sequences, FiniteSets, TLC

CONSTANTS Front,        \* "v2" | "legacy"
          Names,        \* names that may be attached / requested
          Handlers,     \* handler ids 1..n
          IntTemplates, \* set of [name, params, signed, digOk, tok, life]
          MaxInts, MaxT, MaxOps, MaxReplies,
          Verdicts,     \* Interest-validator verdicts
          Vals,         \* whether attaching with an Interest validator is explored: {FALSE}, {TRUE} or BOOLEAN
          Reprs,        \* name representations used when attaching
          Envs, Junk

VARIABLES now, up, fib, ints, nint, handled, wire, rets, ops
vars == <<now, up, fib, ints, nint, handled, wire, rets, ops>>

IntId == 1..MaxInts
NoInt == [st |-> "unused", it |-> 0, h |-> 0, at |-> <<>>, dl |-> 0, acc |-> FALSE]
Free == [h |-> 0, val |-> FALSE]

IsPrefix(a, b) == Len(a) <= Len(b) /\ \A i \in 1..Len(a) : a[i] = b[i]
Attached == { n \in Names : fib[n].h # 0 }
Accepting(v) == IF Front = "v2" THEN v \in {"PASS", "BYPASS"} ELSE v = "T"
SigReq(it) == it.params \/ it.signed

\* declarative: the attached prefix of maximal length (<<>> names "no route" via the flag)
Cands(name) == { n \in Attached : IsPrefix(n, name) }
HasRoute(name) == Cands(name) # {}
ResolveDecl(name) == CHOOSE n \in Cands(name) : \A m \in Cands(name) : Len(m) <= Len(n)
\* operational: walk down the components remembering the last node that carries a handler
RECURSIVE Walk(_, _, _)
Walk(name, k, best) ==
  IF k > Len(name) THEN best
  ELSE LET p == SubSeq(name, 1, k) IN
       Walk(name, k + 1, IF p \in Names /\ fib[p].h # 0 THEN k ELSE best)
ResolveWalk(name) == LET root == IF <<>> \in Names /\ fib[<<>>].h # 0 THEN 0 ELSE -1
                         b == Walk(name, 1, root) IN b   \* length of the best prefix, -1 = none

Init ==
  /\ now = 0 /\ up = TRUE /\ nint = 0 /\ ops = 0
  /\ fib = [n \in Names |-> Free]
  /\ ints = [i \in IntId |-> NoInt]
  /\ handled = <<>> /\ wire = <<>> /\ rets = <<>>

Attach(n, h, val, repr) ==
  /\ ops < MaxOps /\ fib[n].h = 0
  /\ h = ops + 1          \* the k-th operation brings handler k: handlers are pairwise distinct
  /\ fib' = [fib EXCEPT ![n] = [h |-> h, val |-> val]]
  /\ ops' = ops + 1
  /\ UNCHANGED <<now, up, ints, nint, handled, wire, rets>>

\* attaching to an occupied prefix is refused (ValueError) and changes nothing
AttachDup(n, h, repr) ==
  /\ ops < MaxOps /\ fib[n].h # 0
  /\ h = ops + 1
  /\ ops' = ops + 1
  /\ UNCHANGED <<now, up, fib, ints, nint, handled, wire, rets>>

Detach(n) ==
  /\ ops < MaxOps /\ fib[n].h # 0
  /\ fib' = [fib EXCEPT ![n] = Free]
  /\ ops' = ops + 1
  /\ UNCHANGED <<now, up, ints, nint, handled, wire, rets>>

\* an Interest arrives (bare, or in an LP envelope which may carry a PIT token)
RecvInterest(it, env) ==
  /\ up /\ nint < MaxInts
  /\ (it.tok # 0 => env # "bare")
  /\ LET i == nint + 1
         b == ResolveWalk(it.name)
         n == SubSeq(it.name, 1, b)
         base == [st |-> "dropped", it |-> it, h |-> 0, at |-> <<>>, dl |-> now + it.life, acc |-> FALSE] IN
       /\ nint' = i
       /\ IF b < 0
          THEN /\ ints' = [ints EXCEPT ![i] = base] /\ UNCHANGED handled
          ELSE IF SigReq(it) /\ ~it.digOk
          THEN /\ ints' = [ints EXCEPT ![i] = base] /\ UNCHANGED handled
          ELSE LET needVal == IF Front = "v2" THEN SigReq(it) ELSE it.signed
                   hasVal == IF Front = "v2" THEN fib[n].val ELSE TRUE  \* legacy falls back to the app-wide validator
               IN IF ~needVal
                  THEN /\ ints' = [ints EXCEPT ![i] = [base EXCEPT !.st = "handled", !.h = fib[n].h, !.at = n]]
                       /\ handled' = Append(handled, [h |-> fib[n].h, i |-> i])
                  ELSE IF ~hasVal
                  THEN /\ ints' = [ints EXCEPT ![i] = base] /\ UNCHANGED handled
                  ELSE /\ ints' = [ints EXCEPT ![i] = [base EXCEPT !.st = "val", !.h = fib[n].h, !.at = n]]
                       /\ UNCHANGED handled
  /\ UNCHANGED <<now, up, fib, wire, rets, ops>>

\* the Interest validator returns. The handler resolved at dispatch is called; if that prefix was
\* detached (or re-attached) meanwhile, calling it or dropping the Interest are both accepted.
IntValFinish(i, v) ==
  /\ ints[i].st = "val"
  /\ \/ /\ Accepting(v)
        /\ ints' = [ints EXCEPT ![i].st = "handled", ![i].acc = TRUE]
        /\ handled' = Append(handled, [h |-> ints[i].h, i |-> i])
     \/ /\ (~Accepting(v) \/ fib[ints[i].at].h # ints[i].h)
        /\ ints' = [ints EXCEPT ![i].st = "dropped"]
        /\ UNCHANGED handled
  /\ UNCHANGED <<now, up, fib, nint, wire, rets, ops>>

\* the handler (or code it scheduled) calls the reply callback now (v2 only)
Reply(i) ==
  /\ Front = "v2" /\ ints[i].st = "handled" /\ Len(rets) < MaxReplies
  /\ LET tok == ints[i].it.tok
         sent == [i |-> i, tok |-> tok, env |-> IF tok = 0 THEN "bare" ELSE "lp"] IN
     \/ /\ up /\ now <= ints[i].dl
        /\ wire' = Append(wire, sent) /\ rets' = Append(rets, [i |-> i, ret |-> "T"])
     \/ /\ up /\ now >= ints[i].dl
        /\ wire' = wire /\ rets' = Append(rets, [i |-> i, ret |-> "F"])
     \/ /\ ~up
        /\ wire' = wire /\ \E r \in {"F", "E"} : rets' = Append(rets, [i |-> i, ret |-> r])
  /\ UNCHANGED <<now, up, fib, ints, nint, handled, ops>>

Tick == now < MaxT /\ now' = now + 1 /\ UNCHANGED <<up, fib, ints, nint, handled, wire, rets, ops>>
\* a longer stretch of time passes (an Interest without InterestLifetime is answerable for 4000 ms = 400 ticks)
Jump(t) == /\ t > now + 1 /\ t <= MaxT /\ now' = t
           /\ UNCHANGED <<up, fib, ints, nint, handled, wire, rets, ops>>
\* the legacy front-end documents that every filter set dynamically is removed on disconnection
Shutdown == /\ up /\ up' = FALSE
            /\ fib' = IF Front = "legacy" THEN [n \in Names |-> Free] ELSE fib
            /\ UNCHANGED <<now, ints, nint, handled, wire, rets, ops>>
\* main_loop is run again on the same application object: appv2 keeps its handler table over connections
\* (the legacy table was emptied by Shutdown); Interests received earlier can still be answered in time
Connect == /\ ~up /\ up' = TRUE
           /\ UNCHANGED <<now, fib, ints, nint, handled, wire, rets, ops>>
RecvJunk(j) == up /\ UNCHANGED vars

Next ==
  \/ \E n \in Names, h \in Handlers, val \in Vals, r \in Reprs : Attach(n, h, val, r)
  \/ \E n \in Names, h \in Handlers, r \in Reprs : AttachDup(n, h, r)
  \/ \E n \in Names : Detach(n)
  \/ \E it \in IntTemplates, env \in Envs : RecvInterest(it, env)
  \/ \E i \in IntId, v \in Verdicts : IntValFinish(i, v)
  \/ \E i \in IntId : Reply(i)
  \/ Tick \/ Shutdown \/ Connect
  \/ \E t \in 2..MaxT : Jump(t)
  \/ \E j \in Junk : RecvJunk(j)
Spec == Init /\ [][Next]_vars

-----------------------------------------------------------------------------
TypeOK == /\ nint \in 0..MaxInts /\ now \in 0..MaxT
          /\ \A i \in IntId : ints[i].st \in {"unused", "val", "handled", "dropped"}
\* C04: the walk finds exactly the longest attached prefix
LongestPrefix == \A name \in Names :
  LET b == ResolveWalk(name) IN
    /\ (b < 0) <=> ~HasRoute(name)
    /\ (b >= 0) => SubSeq(name, 1, b) = ResolveDecl(name)
\* each Interest is handed to at most one handler, at most once
AtMostOnce == \A a, b \in 1..Len(handled) : handled[a].i = handled[b].i => a = b
\* and only to the handler that held the longest attached prefix when it was dispatched
RightHandler == \A k \in 1..Len(handled) : handled[k].h = ints[handled[k].i].h /\ ints[handled[k].i].st = "handled"
\* C05: parameterised / signed Interests reach a handler only with a correct digest and an accepting verdict
IntGate == \A k \in 1..Len(handled) :
  LET x == ints[handled[k].i] IN
    /\ SigReq(x.it) => x.it.digOk
    /\ (IF Front = "v2" THEN SigReq(x.it) ELSE x.it.signed) => x.acc
\* C04: the reply callback reports truthfully, and nothing is sent after the deadline or while down
ReplyTruthful == Cardinality({ k \in 1..Len(rets) : rets[k].ret = "T" }) = Len(wire)
ReplyInTime == [][Len(wire') > Len(wire) => (up /\ now <= ints[wire'[Len(wire')].i].dl)]_vars
\* C10: every reply carries exactly the token its Interest arrived with (bare if none)
TokenEcho == \A k \in 1..Len(wire) :
  /\ wire[k].tok = ints[wire[k].i].it.tok
  /\ wire[k].env = IF wire[k].tok = 0 THEN "bare" ELSE "lp"
\* refused attach and junk change nothing
Inert == [][(\E n \in Names, h \in Handlers, r \in Reprs : AttachDup(n, h, r)) => UNCHANGED <<fib, ints, handled, wire>>]_vars
\* detaching one prefix leaves all others as they were
DetachIsolated == [][\A n \in Names : Detach(n) => \A m \in Names \ {n} : fib'[m] = fib[m]]_vars

W_Nested == ~(\E k \in 1..Len(handled) : Len(ints[handled[k].i].at) >= 2 /\ Cardinality(Attached) >= 2)
W_TokenReply == ~(\E k \in 1..Len(wire) : wire[k].tok # 0)
W_LateReply == ~(\E k \in 1..Len(rets) : rets[k].ret = "F")
W_ValidatedInt == ~(\E i \in IntId : ints[i].acc)
=============================================================================
