\* Stand-alone configuration of the Checker._match machine (the checks generate their own under build/):
\*   java -cp tla2tools.jar:CommunityModules-deps.jar tlc2.TLC -config LvsTree_walk.cfg LvsTree
SPECIFICATION WSpec
CONSTANTS
  MaxNodes = 3
  MaxLen = 2
  Corrupt = "none"
  CountSteps = TRUE
  DevPrebound = FALSE
INVARIANT WalkEqualsRec
INVARIANT WalkEqualsDocumented
INVARIANT ContextRestored
INVARIANT CarriedKept
INVARIANT StackShape
INVARIANT StepsBounded
INVARIANT NoStall
PROPERTY YieldsSoundA
PROPERTY Terminates
CHECK_DEADLOCK FALSE
