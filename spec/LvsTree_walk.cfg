SPECIFICATION WSpec
CONSTANTS
  MaxNodes = 3
  MaxLen = 3
  Corrupt = "none"
  CountSteps = TRUE
  DevPrebound = FALSE
INVARIANT WalkEqualsRec
INVARIANT YieldsSound
INVARIANT ContextRestored
INVARIANT StackShape
INVARIANT StepsBounded
INVARIANT NoStall
PROPERTY Terminates
CHECK_DEADLOCK FALSE
