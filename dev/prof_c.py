import time, os, json, random
from harness import core
core.use_repo()
from harness import pitcheck as pc, tlc
rng=random.Random(5)
t=time.time()
recs=[pc.random_schedule(rng,'v2',40) for _ in range(1000)]
print('exec 1000 random', time.time()-t, sum(len(r['ev']) for r in recs)); t=time.time()
tf=os.path.join(tlc.BUILD,'profc.ndjson')
with open(tf,'w') as f:
    for r in recs: f.write(json.dumps(r)+'\n')
r,rej=tlc.validate_traces('NdnPitTrace', pc.trace_cfg('v2',None), tf)
print('validate', time.time()-t, r, len(rej))
