from harness import core
core.use_repo()
from harness import tlc, fibcheck as fc
import sys
ints,maxt,reps,E=sys.argv[1:5]
cfgp=fc.mc_cfg('fib-t2','v2','small','reply','v2two',int(ints),int(maxt),1,reps=int(reps),E=E)
r=tlc.run('NdnFibMC',cfgp,workers=12,timeout=900)
print(r)
