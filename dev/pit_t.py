from harness import tlc
import os,sys
front=sys.argv[1]; ent=int(sys.argv[2]); maxt=int(sys.argv[3]); T=sys.argv[4]; V=sys.argv[5]
cfg=os.path.join(tlc.BUILD,'pit_t.cfg')
tlc.write_cfg(cfg, constants={'Front':'"%s"'%front,'MaxEntries':ent,'MaxT':maxt,'Templates':'<- T_'+T,'DataSet':'<- D_'+T,'Verdicts':'<- V_'+V,'Reasons':'<- R_one','Envs':'<- E_one','Junk':'<- J_one','Races':'<- '+os.environ.get('RACES','Race_no'),'Defer':'<- '+os.environ.get('DEFER','Def_no'),'Dev':'<- NoDev'},
  invariants=['TypeOK','NoResidue','RightOutcome'], properties=['OnceOnly','NoUnvalidatedData','BufferedValidated','BufferedIsDelivered','AllAndOnlyMatching','JunkInert']+(['Finishes'] if len(sys.argv)>6 else []))
r=tlc.run('NdnPitMC',cfg,workers=8,coverage=True)
print(r, r.coverage)
