#!/bin/bash
# usage: dev/reseed.sh <seed-id> [extra check ids...]
# Re-verifies a kept seeded change from /verif/seeded/<id> itself (patch applies to /repo HEAD, suite green with it,
# demonstration fails with / passes without) and runs the property's quick check against it; rewrites pytest.txt and check-<P>.txt.
ID=$1; shift; P=${ID%%-*}; CHECKS="$P $*"
D=/verif/seeded/$ID; WT=/tmp/wt-reseed-$ID
git -C /repo worktree remove --force $WT 2>/dev/null
git -C /repo worktree add -q --detach $WT HEAD || exit 2
run_demo() { (cd $D && PYTHONPATH=$WT/src timeout 600 /venv/bin/python -m pytest -q -p no:cacheprovider demo_test.py >/dev/null 2>&1); echo $?; }
D0=$(run_demo)
git -C $WT apply $D/patch.diff || { echo "$ID PATCH-DOES-NOT-APPLY"; git -C /repo worktree remove --force $WT; exit 3; }
(cd $WT && PYTHONPATH=$WT/src /venv/bin/python -m pytest -q -p no:cacheprovider --timeout=900 2>&1 | tail -1) > $D/pytest.txt
D1=$(run_demo)
echo "$ID demo without=$D0 with=$D1 suite: $(cat $D/pytest.txt)"
for C in $CHECKS; do
  (cd /verif && VERIF_REPO=$WT timeout 2400 bin/check $C --tier quick 2>&1 | grep -E "VIOLATION|signature|KNOWN-FINDING|tier=|MACHINERY" | cut -c1-300) > $D/check-$C.txt
  echo "$ID check $C: $(grep -c ^VIOLATION $D/check-$C.txt) violation lines; $(grep -c MACHINERY $D/check-$C.txt) machinery"
done
git -C /repo worktree remove --force $WT
