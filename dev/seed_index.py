"""Writes seeded/<id>/meta.json and seeded/INDEX.md from the verification outputs kept by dev/try_seed.sh."""
import json, os, re, glob, subprocess
ROOT = '/verif/seeded'
HEAD = subprocess.run(['git', '-C', '/repo', 'rev-parse', '--short', 'HEAD'], capture_output=True, text=True).stdout.strip()


def applies(d):
    r = subprocess.run(['git', '-C', '/repo', 'apply', '--check', os.path.join(d, 'patch.diff')], capture_output=True)
    return r.returncode == 0
# how each initially-missed seed was handled
NOTES = {
 'C03-m2': 'missed by the first version (every Interest was awaited at once); NdnPit/pitkit were extended with deferred await (Await action, buffered outcomes); caught since',
 'C04-m1': 'missed by the first version (Interest lifetimes 1..3 only); lifetime 0 and absent lifetime added to NdnFibMC templates and the random driver; caught since',
 'C05-m2': 'missed by the first version (ApplicationParameters never empty); empty parameters (field pe) added to the gate templates and the random driver; caught since',
 'C10-m2': 'missed by the first version (unknown headers had even type numbers only); envelope kind "lpo" (Sequence + unknown odd-numbered headers) added; caught since',
 'C11-m1': 'missed at first (family names stopped at length 3); stage B names up to length 4 + generator reusing a temporary twice; caught since',
 'C12-m1': 'missed at first; generator now produces twin redefinitions (same rule id, same name, different signers) and asks all pairs of rule-matching names; caught since',
 'C14-m1': 'missed at first (every validation ran in a fresh task, fetch outcomes fixed per world); per-instance context + Heal stimulus added; caught since',
 'C17-m2': 'missed at first (root prefix never registered); root prefix "/" and a reverse make_command_v2 check added; caught since',
 'C01-n2': 'a wrong parameters-digest VALUE on a well-formed wire: outside C01 (layout/round trip) by our reading, caught by C02 (check-C02.txt)',
 'C06-n1': 'missed at first (data and end of stream never arrived in the same instant); FeedEof action added to Framing/FramingTrace and the executor; caught since',
 'C06-n2': 'missed at first (Nack header around Data only for unaddressed names); Nack-around-addressed-Data junk class added; caught since',
 'C07-n2': 'missed at first (multi-line PrintT records dropped by the parser; nested SignatureInfo sequences thin); parser fixed, nested sequences and systematic structural edits added; caught since',
 'C12-n2': 'missed at first (each schema compiled once); every schema is now compiled twice with another compile in between and the second model judged; caught since',
 'C18-n2': 'missed at first (when suppression starts was left open); OutdatedStartsSuppression added; caught since',
 'C19-n1': 'harness crashed at first (exit 2) on an Interest for an unpublished name; deep (versioned) names added and the trace now ends/rejects there; caught since',
 'C19-n2': 'Nack reasons rotated (was 150 only); caught. The patch no longer applies to /repo HEAD since fix 9b84c25 rewrote the same lines of segment_fetcher.retry(); result from the run against the earlier HEAD',
 'C03-m1': 'caught. The patch no longer applies to /repo HEAD since fix dbebc9b changed the same lines of name_tree.satisfy(); result from the run against the earlier HEAD',
 'C06-k2': 'the original patch did not apply to /repo HEAD (fixes 88265c7 / dbebc9b changed nack_interest); the same change rebased by hand (patch.diff; the agent\'s file is patch-original.diff) keeps the suite green, fails the demonstration, and is caught',
 'C02-k1': 'an application-level digest gate (legacy _on_interest), outside C02 (codec-level ranges/checkers) by our reading; caught by C05 (check-C05.txt) once empty ApplicationParameters were part of the gate templates',
 'C06-k1': 'the receive path raises only for an Interest that is addressed to an attached handler (not junk): missed by C06, caught by C05/C04 machinery (check-C05.txt) after unusual trailing name components were added to incoming Interests',
 'C19-k1': 'pack_uint_bytes mis-sizes only the number 65535 (segment 65535 of a 65536-segment object): out of reach for the C19 driver (<= 12 segments); caught by C09, whose boundary numbers include 65535 (check-C09.txt)',
 'C19-k2': 'legacy Nack with reason 0 treated as not-a-Nack: caught after reason 0 joined the rotation (also by C10)',
 'C03-k2': 'missed at first (parameters passed as keyword arguments only); every second Interest now goes through one caller-owned InterestParam object that is overwritten for the next Interest; caught since',
 'C04-k1': 'missed at first (names in immutable objects only); representations wirebuf / mutbuf (scratch buffers overwritten after the call) added; caught since',
 'C10-k1': 'harness crashed at first (exit 2) in the codec round trip; made robust; caught',
 'C10-k2': 'missed at first (small replies only); every other reply is now a full-size segment; caught since',
 'C07-k2': 'missed at first (a cut TLV number was classed as overrun and fell under the LP known finding); cut-number class added; caught since',
 'C09-k2': 'missed at first; aliasing pass (mutate returned lists, convert again) added; caught since',
 'C12-k1': 'missed at first; key rules constrained by packet-only patterns added to the generator; caught since',
 'C12-k2': 'missed at first; long-lived Checker queried through reused, in-place mutated name lists; caught since',
 'C13-k1': 'missed at first; C13 compiles every schema twice; caught since',
 'C14-k1': 'missed at first; HMAC / unknown signature types as per-link deviation kinds; caught since',
 'C14-k2': 'missed at first; anchors handed over in a bytearray that is overwritten after construction; caught since',
 'C15-k2': 'missed at first; signers returned earlier are kept and re-probed after later steps; caught since',
 'C16-k1': 'missed at first; issuer ids in every URI spelling; caught since',
 'C16-k2': 'missed at first; start and end zones chosen independently (naive/aware mixes); caught since',
 'C17-k1': 'missed at first; prefixes whose command name crosses 253 bytes; caught since',
 'C17-k2': 'missed at first; Nack reason codes beyond the well-known four; caught since',
 'C18-k2': 'missed at first; node names with unusual component types; caught since',
 'C20-k1': 'missed at first; empty / comment-only files as content classes; caught since',
 'C03-j2': 'missed at first (no template combined CanBePrefix with an implicit digest); such templates added to NdnPitMC and the random driver; caught since',
 'C05-j1': 'missed at first (a wrong digest was always a damaged one); every second wrong digest is now the correct digest of an earlier Interest\'s parameters; caught since',
 'C10-j2': 'missed at first (Nack header around Data only for names nobody waits for in C10); Nack-headed envelopes around matching Data added to C10\'s junk; caught since',
 'C02-j1': 'missed at first (one signer object per packet); signer objects are reused for several packets; caught since',
 'C02-j2': 'missed at first (no tamper class lengthened the signature value); trailing / removed signature octets with all lengths fixed up added; caught since',
 'C07-j1': 'the check stopped with a machinery failure at first (corpus construction assumed the decoder\'s field order); made robust, certificates with ValidityPeriod + AdditionalDescription compared field by field; caught since',
 'C09-j2': 'missed at first (URI text was ASCII only); raw non-ASCII characters added to the URI alphabet; caught since',
 'C11-j2': 'missed at first; redefinitions with per-definition constraints on the same temporary pattern, referenced twice, added to the generator; caught since',
 'C14-j1': 'missed at first; the signature type of every link became an adversary choice (HMAC keyed with public key bits, digest, mismatching types); caught since',
 'C16-j1': 'missed at first; identity names containing the component KEY added; caught since',
 'C16-j2': 'missed at first; self_sign on 29 February of years whose +20 year is a leap year added to CertTime; caught since',
 'C18-j1': 'missed at first; the application may publish from inside the missing-data callback (re-entrancy); caught since',
 'C03-g2': 'missed at first (lifetimes >= 1 tick only on the consumer side); NdnPit!ExpressNow (legacy, InterestLifetime 0) added to the spec, the MC configurations and the drivers; caught since',
 'C04-g2': 'missed at first (generic components only); the spec component "c" now stands for an ImplicitSha256Digest component in every name representation, so prefixes and Interest names may end in one; caught since',
 'C05-g1': 'missed at first (the legacy default Interest validator was set once); the driver replaces app.int_validator every third Interest and a call of a retired validator is a violation; caught since',
 'C06-g1': 'missed at first (no packet with the root name in the junk corpus); root-name / digest-only-name Interests and Data, bare, in an envelope and under a Nack header added; caught since',
 'C08-g1': 'the check stopped with a machinery failure at first (family size constant after MapB was added); caught',
 'C08-g2': 'missed at first (encode() always allocated its own buffer); view encode-into-dirty-buffer (caller-supplied buffer holding other data, with an offset) added; caught since',
 'C16-g2': 'caught; patch.diff is the change rebased by hand onto fix 761a0bf (the agent\'s file is patch-original.diff)',
 'C02-h1': 'missed at first (one verifier object per call); histories over several verifier objects whose key names coincide (NdnPacketsCheckHist); caught since. patch.diff is the change rebased by hand onto fix 83a1840 (the agent\'s file is patch-original.diff)',
 'C07-h1': 'missed at first; position of the ParametersSha256DigestComponent in the Name enumerated and the SignaturePtrs returned by the decoders compared with the strict reading; caught since',
 'C12-h2': 'missed at first; two packet nodes with identical signer lists and different bindings added to the generator; caught since',
 'C14-h1': 'missed at first; forgeries that re-use the SignatureValue of a packet validated earlier (replaypkt / replaycert), also on a fresh instance; caught since',
 'C16-h2': 'missed at first (the harness\' signer wrapper swallowed attribute writes); signer configuration read back after every issuing call; caught since',
 'C17-h2': 'missed at first (the registerer was always passed explicitly); default registerer path + a bystander application whose face must stay silent; caught since',
 'C18-h1': 'the check stopped with a machinery failure at first (a fresh instance that does not start in Init); now a violation, and every stage C process runs a sibling instance; caught since',
 'C11-d2m11': 'missed at first ($eq_type only with one-octet component types); Lvs!TypeOf knows two types with a three-octet TLV-TYPE (300, 301), used as $eq_type arguments and in the name alphabet; caught since',
 'C04-c1p02': 'a change of the legacy auto-registration list; caught by C17 (AppLife replay, check-C17.txt); its demonstration also fails on the unchanged tree since fix 33f53e0 changed the behaviour it pinned',
 'C19-b1': 'missed at first (objects of at most 12 segments); stage C fetches objects of 257 / 300 (thorough: up to 1100) segments; caught since',
 'C04-b1': 'missed at first (at most 10 Interests per history); fibcheck.stage_c_long: histories of 100 Interests on one application, most validators failing or raising; caught since',
 'C04-b2': 'missed at first (replies of two sizes); every fifth reply has a size on a TLV length boundary or above 8.8 kB; caught since',
 'C10-b1': 'caught by the codec round trip of C10; the reply sizes 243..256 with a PIT token added to the Reply stimulus catch it in the pipeline too',
 'C05-b1': 'missed at first (a refused duplicate declaration came without a validator); every second AttachDup brings a validator of its own whose call is a violation; caught since',
 'C06-b2': 'missed at first (at most 6 packets per stream); bursts of 257 / 300 (thorough: up to 1000) complete packets in one read; caught since',
 'C10-b2': 'missed at first (the harness face copied what it was handed); the face now remembers the objects handed to send() and reports a buffer that changes afterwards; caught since',
 'C18-b1': 'missed at first (sequence numbers below 2^31 only); sequence numbers of every magnitude judged in scaled classes (Svs!HiSeq); caught since',
 'C18-b2': 'missed at first (5 nodes); groups of 24 nodes (thorough up to 100), vectors on both sides of 253 octets; caught since',
 'C14-b1': 'missed at first (a second certificate of a key never lay on the same chain); TrustChain!ReWorld: re-certified keys, up to 4 fetched certificates; caught since',
 'C15-b1': 'missed at first (at most 6 keys per identity); scale histories: one identity with 9..19 (thorough 40) keys; caught since',
 'C15-b2': 'missed at first (imported certificates were named after the key they are filed under); Keychain!CertN = 3: cross-filed imports made the default; caught since',
 'C13-b1': 'missed at first (signing loops only among rule identifiers); LvsTree!PatternIsOwnSigner / family SharedSign; caught since',
 'C13-b2': 'missed at first; family RedefTemp (temporaries local to one definition across redefinitions) and injected constraints on a temporary of another definition; caught since',
 'C07-b1': 'missed at first (every input decoded once, well-formed packets first); decoding histories in fresh interpreters (adverse / reversed / shuffled order); caught since',
 'C08-b2': 'missed at first (an instance was sized and encoded once); TlvModelLife: in-place changes between sizing and encoding; caught since',
 'C16-b1': 'missed at first (instants handed over as astimezone() of a UTC instant); wall-clock reading + fold on DST clocks (CertTimeZone), issuing histories with related datetimes; caught since',
 'C17-b2': 'missed at first (no call was ever cancelled); NfdReg!CancelCall (waiting / sleeping with the semaphore / waiting for the reply); caught since',
 'C12-b1': 'missed at first; family Stacked (two constraints on one pattern, literal and non-literal options) and Gen._stack; caught since',
 'C12-b2': 'missed at first; family Towers (inlining 3-4 deep), names longer than the all-names bound along the chains; caught since',
 'C11-b1': 'missed at first (at most 6 rules / 5 named patterns); family Wide (up to 13 rules, 17 named patterns) and Gen._wide; caught since',
 'C11-b2': 'missed at first; Towers members whose middle rule has a constrained temporary of its own; caught since',
}
# seeded changes that were NOT kept as property-breaking after review
REJECTED = {
 'C19-h1': 'not a violation under the joint reading of C05 and C19: the change makes the legacy front-end turn a validator that is still running at the Interest deadline into InterestTimeout (with a 100 ms floor) - which is what C05 demands (it repairs the known finding KF-legacy-slow-validator); segment_fetcher then re-requests the segment as for any timeout. C19\'s and C05\'s checks pass on it (C05 without the KNOWN-FINDING line).',
}
rows = []
for d in sorted(glob.glob(ROOT + '/C*-[mnkjhgfedcb]*')):
    sid = os.path.basename(d)
    prop = sid.split('-')[0]
    notes = open(os.path.join(d, 'notes.md')).read() if os.path.exists(os.path.join(d, 'notes.md')) else ''
    chk = ''
    for f in sorted(glob.glob(os.path.join(d, 'check-*.txt'))):
        chk += open(f).read()
    own = open(os.path.join(d, 'check-%s.txt' % prop)).read() if os.path.exists(os.path.join(d, 'check-%s.txt' % prop)) else chk
    sigs = sorted(set(re.findall(r'signature: (\S+)', chk)))
    viol = re.findall(r'VIOLATION property=(\S+) replay=\S*/([^/\s]+)\.json', chk)
    nviol = len(re.findall(r'^VIOLATION', chk, re.M))
    own_viol = len(re.findall(r'^VIOLATION', own, re.M))
    m = re.search(r'violations=(\d+)', chk)
    caught = nviol > 0
    pt = open(os.path.join(d, 'pytest.txt')).read().strip() if os.path.exists(os.path.join(d, 'pytest.txt')) else ''
    first = [l.strip('-* ').strip() for l in notes.splitlines() if l.strip() and not l.startswith('#')]
    what = ' '.join(first[:2])[:400]
    need = next((l for l in first if re.search(r'need|manifest|only (shows|when)|requires', l, re.I)), '')[:400]
    meta = {
        'id': sid, 'property': prop,
        'what_it_changes': what,
        'needs_to_manifest': need,
        'verified': {
            'applies_to_repo_head': HEAD if applies(d) else 'no longer applies to %s (a later fix: commit rewrote the same lines); last evaluated against the HEAD of that time' % HEAD,
            'full_suite_with_change': pt,
            'demo': 'demo_test.py fails with the change and passes without it (re-run here with PYTHONPATH=<worktree>/src)',
            'commands': ['dev/try_seed.sh %s %s' % (prop, sid.split('-')[1]),
                         'VERIF_REPO=<worktree with patch.diff applied> bin/check %s --tier quick' % prop],
        },
        'check_result': ('not kept: ' + REJECTED[sid]) if sid in REJECTED else
                        'caught' if own_viol > 0 else ('caught by another property\'s check' if caught else 'MISSED'),
        'violation_replays': [v[1] for v in viol][:8],
        'history': NOTES.get(sid, ''),
    }
    json.dump(meta, open(os.path.join(d, 'meta.json'), 'w'), indent=1)
    rows.append(meta)
with open(os.path.join(ROOT, 'INDEX.md'), 'w') as f:
    f.write('# Seeded property-breaking changes\n\nEach directory: patch.diff, demo_test.py, notes.md (from the independent sub-agent), pytest.txt, check-<P>.txt, meta.json.\n'
            'All changes keep the 119 existing tests green. "caught" = the property\'s quick check printed a VIOLATION line against the change.\n\n')
    f.write('| id | result | first violation replay name | history |\n|---|---|---|---|\n')
    for r in rows:
        f.write('| %s | %s | %s | %s |\n' % (r['id'], r['check_result'], (r['violation_replays'] or ['-'])[0][:90], r['history']))
    n = sum(1 for r in rows if r['check_result'].startswith('caught'))
    k = sum(1 for r in rows if r['check_result'].startswith('not kept'))
    f.write('\n%d of %d kept changes caught by the quick tier at the time this index was generated (%d not kept after review).\n' % (n, len(rows) - k, k))
print(sum(1 for r in rows if r['check_result'].startswith('caught')), len(rows))
print([r['id'] for r in rows if not r['check_result'].startswith('caught')])
