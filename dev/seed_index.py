"""Writes seeded/<id>/meta.json and seeded/INDEX.md from the verification outputs kept by dev/try_seed.sh."""
import json, os, re, glob, subprocess
ROOT = '/verif/seeded'
HEAD = subprocess.run(['git', '-C', '/repo', 'rev-parse', '--short', 'HEAD'], capture_output=True, text=True).stdout.strip()
# how each initially-missed seed was handled
NOTES = {
 'C03-m2': 'missed by the first version (every Interest was awaited at once); NdnPit/pitkit were extended with deferred await (Await action, buffered outcomes); caught since',
 'C04-m1': 'missed by the first version (Interest lifetimes 1..3 only); lifetime 0 and absent lifetime added to NdnFibMC templates and the random driver; caught since',
 'C05-m2': 'missed by the first version (ApplicationParameters never empty); empty parameters (field pe) added to the gate templates and the random driver; caught since',
 'C10-m2': 'missed by the first version (unknown headers had even type numbers only); envelope kind "lpo" (Sequence + unknown odd-numbered headers) added; caught since',
}
rows = []
for d in sorted(glob.glob(ROOT + '/C*-m*')):
    sid = os.path.basename(d)
    prop = sid.split('-')[0]
    notes = open(os.path.join(d, 'notes.md')).read() if os.path.exists(os.path.join(d, 'notes.md')) else ''
    chk = ''
    for f in sorted(glob.glob(os.path.join(d, 'check-*.txt'))):
        chk += open(f).read()
    sigs = sorted(set(re.findall(r'signature: (\S+)', chk)))
    viol = re.findall(r'VIOLATION property=(\S+) replay=\S*/([^/\s]+)\.json', chk)
    nviol = len(re.findall(r'^VIOLATION', chk, re.M))
    m = re.search(r'violations=(\d+)', chk)
    caught = nviol > 0
    pt = open(os.path.join(d, 'pytest.txt')).read().strip() if os.path.exists(os.path.join(d, 'pytest.txt')) else ''
    first = [l.strip('-* ').strip() for l in notes.splitlines() if l.strip() and not l.startswith('#')]
    what = ' '.join(first[:2])[:400]
    need = next((l for l in first if re.search(r'need|manifest|only (shows|when)|requires', l, re.I)), '')[:400]
    meta = {
        'id': sid, 'property': prop,
        'what_it_changes': what,
        'needs_to_manifest': need,
        'verified': {
            'repo_head_applied_to': HEAD,
            'full_suite_with_change': pt,
            'demo': 'demo_test.py fails with the change and passes without it (re-run here with PYTHONPATH=<worktree>/src)',
            'commands': ['dev/try_seed.sh %s %s' % (prop, sid.split('-')[1]),
                         'VERIF_REPO=<worktree with patch.diff applied> bin/check %s --tier quick' % prop],
        },
        'check_result': 'caught' if caught else 'MISSED',
        'violation_replays': [v[1] for v in viol][:8],
        'history': NOTES.get(sid, ''),
    }
    json.dump(meta, open(os.path.join(d, 'meta.json'), 'w'), indent=1)
    rows.append(meta)
with open(os.path.join(ROOT, 'INDEX.md'), 'w') as f:
    f.write('# Seeded property-breaking changes\n\nEach directory: patch.diff, demo_test.py, notes.md (from the independent sub-agent), pytest.txt, check-<P>.txt, meta.json.\n'
            'All changes keep the 119 existing tests green. "caught" = the property\'s quick check printed a VIOLATION line against the change.\n\n')
    f.write('| id | result | first violation replay name | history |\n|---|---|---|---|\n')
    for r in rows:
        f.write('| %s | %s | %s | %s |\n' % (r['id'], r['check_result'], (r['violation_replays'] or ['-'])[0][:90], r['history']))
    n = sum(1 for r in rows if r['check_result'] == 'caught')
    f.write('\n%d of %d caught by the quick tier at the time this index was generated.\n' % (n, len(rows)))
print(sum(1 for r in rows if r['check_result'] == 'caught'), len(rows))
print([r['id'] for r in rows if r['check_result'] != 'caught'])
