"""dev tool: show the spec state at the point where a recorded trace is rejected.
usage: dev/why.py <replay.json> [module cfgfunc]"""
import json, sys, os
from harness import core
core.use_repo()
from harness import tlc, pitcheck as pc
obj=json.load(open(sys.argv[1]))
rec=obj['rec']; lno=obj['rejected_at']; front=obj['front']
mod = sys.argv[2] if len(sys.argv)>2 else 'NdnPitTrace'
tf=os.path.join(tlc.BUILD,'why.ndjson'); open(tf,'w').write(json.dumps(rec)+'\n')
if mod == 'NdnPitTrace':
    cfg=pc.trace_cfg(front,None)
else:
    from harness import fibcheck as fc
    cfg=fc.trace_cfg(front,None)
s=open(cfg).read().replace('CONSTRAINT Mark','CONSTRAINT Mark\nINVARIANT WhyInv')
cfg2=os.path.join(tlc.BUILD,'why.cfg'); open(cfg2,'w').write(s)
# temporary module extending the trace module
open(os.path.join(tlc.SPEC,'WhyTmp.tla'),'w').write('---- MODULE WhyTmp ----\nEXTENDS %s\nWhyInv == l < %d\n====\n' % (mod, lno))
try:
    r,rej=tlc.validate_traces('WhyTmp',cfg2,tf)
    i=r.out.rfind('\nState ')
    j=r.out.find('\n\n', i+1)
    print(r.out[i:j])
finally:
    os.unlink(os.path.join(tlc.SPEC,'WhyTmp.tla'))
print('REJECTED EVENT', lno, json.dumps(rec['ev'][lno-1]))
if lno>=2: print('PREV EVENT', json.dumps(rec['ev'][lno-2]))
