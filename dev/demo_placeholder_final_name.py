import sys
from harness.vloop import Session
from harness import appkit
from ndn.encoding import Name, Component, make_data, MetaInfo, parse_interest
from ndn.security import DigestSha256Signer
bad=0
for front in ('v2','legacy'):
  for mid in (True, False):
    with Session() as s:
        app, face = appkit.new_app(front)
        ph = Component.from_bytes(b'\x00'*32, Component.TYPE_PARAMETERS_SHA256)
        name = Name.from_str('/a') + [ph] + (Name.from_str('/b') if mid else [])
        async def go():
            if front=='v2':
                from ndn.appv2 import pass_all
                return await app.express(name, pass_all, app_param=b'hello', lifetime=1000, signer=DigestSha256Signer(for_interest=True))
            else:
                return await app.express_interest(name, app_param=b'hello', lifetime=1000)
        t = s.spawn(go())
        s.loop.settle()
        wire = face.out[-1]
        n2 = parse_interest(wire)[0]
        d = make_data(n2, MetaInfo(), b'x')
        appkit.deliver(s, face, d)
        s.loop.settle()
        s.loop.advance_to(s.loop._vt+2.0); s.loop.settle()
        o=appkit.outcome_of(t)
        print(front, 'mid' if mid else 'last', o[0])
        bad += o[0]!='data'
sys.exit(1 if bad else 0)
