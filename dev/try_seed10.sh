#!/bin/bash
# usage: dev/try_seed9.sh <Mxx> <d1|d2> [extra check ids]  -- round 10 (pairs of cooperating modules): the primary property is read from notes.md
M=$1; K=$2; shift 2
SRC=/tmp/seeds10/$M/$K
P=$(head -1 $SRC/notes.md | grep -o 'C[0-9][0-9]' | head -1)
[ -z "$P" ] && { echo "no primary property in notes.md"; exit 2; }
ID=$P-${K}$(echo $M | tr 'P' 'p')
CHECKS="$P $*"
WT=/tmp/wt-try-$ID; OUT=/verif/seeded/$ID
git -C /repo worktree remove --force $WT 2>/dev/null
git -C /repo worktree add -q --detach $WT HEAD || exit 2
mkdir -p $OUT
echo "== $ID demo WITHOUT change"; (cd $SRC && PYTHONPATH=$WT/src timeout 300 /venv/bin/python -m pytest -q -p no:cacheprovider demo_test.py 2>&1 | tail -2)
git -C $WT apply $SRC/patch.diff || { echo "PATCH DOES NOT APPLY"; git -C /repo worktree remove --force $WT; exit 2; }
echo "== pytest WITH change"; (cd $WT && PYTHONPATH=$WT/src /venv/bin/python -m pytest -q -p no:cacheprovider --timeout=900 2>&1 | tail -1) | tee $OUT/pytest.txt
echo "== demo WITH change"; (cd $SRC && PYTHONPATH=$WT/src timeout 300 /venv/bin/python -m pytest -q -p no:cacheprovider demo_test.py 2>&1 | tail -2)
cp $SRC/patch.diff $SRC/demo_test.py $SRC/notes.md $OUT/ 2>/dev/null
for C in $CHECKS; do
  echo "== bin/check $C (quick) against the change"
  (cd /verif && VERIF_REPO=$WT timeout 2400 bin/check $C 2>&1 | grep -E "VIOLATION|signature|KNOWN-FINDING|tier=|MACHINERY" | cut -c1-300) | tee $OUT/check-$C.txt
done
git -C /repo worktree remove --force $WT
