from harness import tlc
import os,sys
front,N,I,H,V,ints,maxt,ops,vals,reps=sys.argv[1:11]
cfg=os.path.join(tlc.BUILD,'fib_t.cfg')
tlc.write_cfg(cfg, constants={'Front':'"%s"'%front,'Names':'<- N_'+N,'Handlers':'<- '+H,'IntTemplates':'<- I_'+I,'MaxInts':ints,'MaxT':maxt,'MaxOps':ops,'MaxReplies':reps,'Verdicts':'<- V_'+V,'Vals':'<- Val_'+vals,'Reprs':'<- Rep_one','Envs':'<- E_two','Junk':'<- J_one'},
  invariants=['TypeOK','LongestPrefix','AtMostOnce','RightHandler','IntGate','ReplyTruthful','TokenEcho'], properties=['ReplyInTime','Inert','DetachIsolated'])
r=tlc.run('NdnFibMC',cfg,workers=8,coverage=True,timeout=300)
print(r, r.coverage)
