#!/bin/bash
# re-verify "full suite passes with the change" for a seed, importing the worktree's code
P=$1; M=$2; WT=/tmp/wt-pt-$P-$M
git -C /repo worktree add -q $WT HEAD || exit 2
git -C $WT apply /tmp/seeds/$P/$M/patch.diff || { echo "NOAPPLY"; git -C /repo worktree remove --force $WT; exit 2; }
(cd $WT && PYTHONPATH=$WT/src /venv/bin/python -c "import ndn; print(ndn.__file__)" && PYTHONPATH=$WT/src /venv/bin/python -m pytest -q -p no:cacheprovider --timeout=900 2>&1 | tail -1)
git -C /repo worktree remove --force $WT
