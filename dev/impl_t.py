from harness import tlc
import os,sys
ent,maxt,T,V,bug=sys.argv[1:6]
cfg=os.path.join(tlc.BUILD,'impl_t.cfg')
tlc.write_cfg(cfg, spec='ISpec', constants={'MaxEntries':ent,'MaxT':maxt,'Templates':'<- T_'+T,'DataSet':'<- D_'+T,'Verdicts':'<- V_'+V,'Reasons':'<- R_one','MaxNodes':ent,'Bug':'<- '+bug},
  invariants=['PendingReachable','NoResidueImpl','OneNode','NoEmptyNode','NoInternalError'], properties=['Refines'])
r=tlc.run('NdnPitImplMC',cfg,workers=8,coverage=True,timeout=1200)
print(r, r.coverage); print(r.errtrace[:3000])
