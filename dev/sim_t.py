from harness import core
core.use_repo()
from harness import tlc, pitcheck as pc, tlaval
import time
cfgp = pc.mc_cfg('pit-sim', 'v2', 3, 3, 'match', 'v2two', R='R_two', E='E_all', invs=[], props=[], defer='Def_both')
t=time.time()
behs, viol, out = tlc.simulate('NdnPitMC', cfgp, num=300, depth=14, seed=7, workers=1)
print(len(behs), viol, time.time()-t)
b=behs[0]
for a,p,s in b[:8]: print(a, p)
