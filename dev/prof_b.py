import time, os
from harness import core
core.use_repo()
from harness import pitcheck as pc, graph, tlc
import random
t=time.time()
cfgp = pc.mc_cfg('pit-B-v2', 'v2', 2, 2, 'small', 'v2two', invs=[], props=[])
g = graph.dump('NdnPitMC', cfgp, workers=8, tag='pitB')
print('dump', time.time()-t, len(g.state), g.n_edges); t=time.time()
paths = graph.edge_cover_paths(g, max_len=30, rng=random.Random(1), skip_self_loops=True)
print('cover', time.time()-t, len(paths), sum(len(p) for _,p in paths)/len(paths)); t=time.time()
recs=[pc.record('v2', pc.events_of_path(p)) for _,p in paths[:500]]
print('exec 500', time.time()-t); t=time.time()
import json
tf=os.path.join(tlc.BUILD,'prof.ndjson')
with open(tf,'w') as f:
    for r in recs: f.write(json.dumps(r)+'\n')
r,rej=tlc.validate_traces('NdnPitTrace', pc.trace_cfg('v2',None), tf)
print('validate 500', time.time()-t, r, len(rej)); t=time.time()
