#!/bin/bash
# usage: dev/try_seed.sh <Cxx> <m1|m2> [extra check ids...]   -- verifies a seeded change and runs the check(s) against it
P=$1; M=$2; shift 2; CHECKS="$P $*"
case $M in b*) SRC=/tmp/seeds11/$P/$M;; e*) SRC=/tmp/seeds8/$P/$M;; f*) SRC=/tmp/seeds7/$P/$M;; g*) SRC=/tmp/seeds6/$P/$M;; h*) SRC=/tmp/seeds5/$P/$M;; j*) SRC=/tmp/seeds4/$P/$M;; n*) SRC=/tmp/seeds2/$P/$M;; k*) SRC=/tmp/seeds3/$P/$M;; *) SRC=/tmp/seeds/$P/$M;; esac
WT=/tmp/wt-try-$P-$M
OUT=/verif/seeded/$P-$M
git -C /repo worktree remove --force $WT 2>/dev/null
git -C /repo worktree add -q $WT HEAD || exit 2
mkdir -p $OUT
echo "== demo WITHOUT change"; (cd $SRC && PYTHONPATH=$WT/src timeout 300 /venv/bin/python -m pytest -q -p no:cacheprovider demo_test.py 2>&1 | tail -2) ; D0=${PIPESTATUS[0]}
(cd $SRC && PYTHONPATH=$WT/src timeout 300 /venv/bin/python demo_test.py >/dev/null 2>&1); S0=$?
git -C $WT apply $SRC/patch.diff || { echo "PATCH DOES NOT APPLY"; git -C /repo worktree remove --force $WT; exit 2; }
echo "== pytest WITH change"; (cd $WT && PYTHONPATH=$WT/src /venv/bin/python -m pytest -q -p no:cacheprovider --timeout=900 2>&1 | tail -1) | tee $OUT/pytest.txt
echo "== demo WITH change"; (cd $SRC && PYTHONPATH=$WT/src timeout 300 /venv/bin/python -m pytest -q -p no:cacheprovider demo_test.py 2>&1 | tail -2)
(cd $SRC && PYTHONPATH=$WT/src timeout 300 /venv/bin/python demo_test.py >/dev/null 2>&1); S1=$?
echo "script-mode exit codes: without=$S0 with=$S1"
cp $SRC/patch.diff $SRC/demo_test.py $OUT/ 2>/dev/null; cp $SRC/notes.md $OUT/notes.md 2>/dev/null
for C in $CHECKS; do
  echo "== bin/check $C (quick) against the change"
  (cd ${VERIF_DIR:-/verif} && VERIF_REPO=$WT timeout 1800 bin/check $C 2>&1 | grep -E "VIOLATION|signature|KNOWN-FINDING|tier=|MACHINERY" | cut -c1-300) | tee $OUT/check-$C.txt
done
git -C /repo worktree remove --force $WT
