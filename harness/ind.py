"""Unbounded arguments: Apalache discharges the inductive-invariant obligations of an integer abstraction
(`*Ind.tla`); TLC checks separately (`*Ref.tla`) that the specification bound to the code refines it.
An obligation that cannot be run here (no prover, out of memory, time) is noted, never an alarm: the bounded
TLC check decides the property, the inductive argument is an addition to it."""
import os, shutil, subprocess
from harness import tlc


def apalache(ctx, prop, module, obligations, timeout=600):
    """obligations: [(init, inv, length, text)]. Returns the number discharged."""
    if shutil.which('apalache-mc') is None:
        ctx.note('apalache-mc not found: the unbounded inductive argument (%s) was not re-checked in this run' % module)
        return 0
    out = os.path.join(tlc.BUILD, 'apalache-%s-%d' % (module, os.getpid()))
    done = 0
    for init, inv, length, what in obligations:
        try:
            p = subprocess.run(['apalache-mc', 'check', '--init=' + init, '--inv=' + inv, '--length=%d' % length, '--out-dir=' + out,
                                module + '.tla'], cwd=tlc.SPEC, stdout=subprocess.PIPE, stderr=subprocess.STDOUT, text=True, timeout=timeout)
            stdout = p.stdout
        except subprocess.TimeoutExpired:
            stdout = 'timeout'
        if 'The outcome is: NoError' in stdout:
            done += 1
        elif 'The outcome is: Error' in stdout:
            ctx.violation('%s/spec/%s/%s' % (prop, module, inv), 'Apalache: obligation "%s" fails' % what, {'out': stdout[-3000:]})
        else:
            ctx.note('Apalache did not finish obligation "%s" of %s in this run (%s): not re-checked' % (
                what, module, stdout[-160:].replace('\n', ' ')))
    shutil.rmtree(out, ignore_errors=True)
    ctx.extra['apalache_obligations'] = ctx.extra.get('apalache_obligations', 0) + len(obligations)
    ctx.extra['apalache_discharged'] = ctx.extra.get('apalache_discharged', 0) + done
    ctx.note('Apalache: %d/%d inductive-invariant obligations of %s discharged (unbounded sizes)' % (done, len(obligations), module))
    return done
